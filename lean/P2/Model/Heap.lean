import P2.Model.Basic
/-! # Heap model of list and map values (C09)

Mirrors the representation level of `value/list.go`, `value/map.go` and `listMap/listMap.go`:

* a Go slice is `(array id, offset, len, cap)` over a store of backing arrays;
* a `*List` is an object `{items, itemsPresent, iterable}`; lazily derived lists hold a producer that
  reads the parent **object** when it is iterated (`l.iterable(st)` inside the closure);
* `Eval` materialises into an append-grown slice (spare capacity), `Append` writes into the spare
  capacity of the parent and then caps the parent, `ToSlice` hands out a capacity-capped slice,
  `CopyToSlice` a fresh one, `movingWindow*` hand out three-index sub-slices, `combineN` hands a window
  to the closure;
* map storages (`ListMap`, `AppendMap`, `MergeMap`, `ReplaceMap`, `RealMap`) are immutable objects that
  refer to their parents; they are interpreted when they are observed.

Every heap change is one of a few **micro operations** (`Micro`); an operation of the language is
compiled by `plan` into a list of micro operations that is a function of the *facts* extracted from the
Go source (`Facts`, regenerated on every run: which slice a method writes to, which slices are capped)
and of the current state.  Core Lean only. -/
namespace P2.Heap

/-! ## values, slices, objects -/

inductive Val where
  | int (i : Int)
  | str (s : String)
  | ref (o : Nat)      -- pointer to a list object
  | mref (m : Nat)     -- a map value (identity of its storage)
  deriving DecidableEq, Repr, Inhabited

structure Slice where
  arr : Nat
  off : Nat
  len : Nat
  cap : Nat            -- capacity counted from `off`
  deriving DecidableEq, Repr, Inhabited

/-- closures used in lazy stages (a fixed pool; all of them allocation free) -/
inductive Fn where
  | id | add (k : Int) | mul (k : Int)
  deriving DecidableEq, Repr, Inhabited

inductive Pred where
  | all | ge (k : Int) | even
  deriving DecidableEq, Repr, Inhabited

/-- closures of `combineN` with a scalar result: `w->w[0]*100+w[w.size()-1]`, `w->w.size()` -/
inductive WinFn where
  | firstLast | size
  deriving DecidableEq, Repr, Inhabited

/-- the producer (`iterable`) of a list object; parents are object ids, read at iteration time -/
inductive Prod where
  | none                                   -- slice iterable of a materialised list
  | numbers (n : Int)
  | map (f : Fn) (p : Nat)
  | accept (q : Pred) (p : Nat)
  | top (k : Int) (p : Nat)
  | skip (k : Int) (p : Nat)
  | concat (a b : Nat)
  | combineN (n : Int) (g : WinFn) (p : Nat)
  deriving DecidableEq, Repr, Inhabited

structure LObj where
  items : Slice
  present : Bool
  prod : Prod
  deriving DecidableEq, Repr, Inhabited

/-- map storages; parents are map ids -/
inductive MObj where
  | lm (es : List (String × Val))                 -- listMap.ListMap after its construction chain
  | app (k : String) (v : Val) (parent : Nat)     -- AppendMap
  | mrg (a b : Nat)                               -- MergeMap
  | rpl (orig rep : Nat) (depth : Nat)            -- ReplaceMap
  | real (es : List (String × Val))               -- RealMap (iteration order is not observable)
  deriving DecidableEq, Repr, Inhabited

structure H where
  arrays : List (List Val)
  objs : List LObj
  maps : List MObj
  deriving Repr, Inhabited

def H.empty : H := ⟨[], [], []⟩

/-- contents of a backing array (an unknown id has no cells; excluded by `Inv.bounds`) -/
def H.arrayOf (h : H) (a : Nat) : List Val :=
  match h.arrays[a]? with
  | some l => l
  | none => []

/-- the cells a slice shows -/
def H.window (h : H) (s : Slice) : List Val := ((h.arrayOf s.arr).drop s.off).take s.len

/-- the slice of a materialised object -/
def H.sl (h : H) (i : Nat) : Option Slice :=
  match h.objs[i]? with
  | some ob => if ob.present then some ob.items else none
  | none => none

def pad (n : Nat) : List Val := List.replicate n (.int 0)

/-! ## closures -/

def Fn.apply : Fn → Val → Res Val
  | .id, v => .ok v
  | .add k, .int i => .ok (.int (i + k))
  | .add k, .str s => .ok (.str (s ++ toString k))      -- string + anything is concatenation
  | .add _, _ => .err
  | .mul k, .int i => .ok (.int (i * k))
  | .mul _, _ => .err

def Pred.apply : Pred → Val → Res Bool
  | .all, _ => .ok true
  | .ge k, .int i => .ok (decide (k ≤ i))
  | .ge _, _ => .err
  | .even, .int i => .ok (decide (i.tmod 2 = 0))
  | .even, _ => .err

def mapRes {α β} (f : α → Res β) : List α → Res (List β)
  | [] => .ok []
  | x :: xs => match f x with
    | .ok y => (match mapRes f xs with
      | .ok ys => .ok (y :: ys)
      | .err => .err | .panic => .panic | .fuel => .fuel)
    | .err => .err | .panic => .panic | .fuel => .fuel

def filterRes {α} (f : α → Res Bool) : List α → Res (List α)
  | [] => .ok []
  | x :: xs => match f x with
    | .ok b => (match filterRes f xs with
      | .ok ys => .ok (if b then x :: ys else ys)
      | .err => .err | .panic => .panic | .fuel => .fuel)
    | .err => .err | .panic => .panic | .fuel => .fuel

/-- the windows the repaired `combineN` passes on: `n` consecutive elements in list order -/
def windowsRot (n : Nat) : List Val → List (List Val)
  | [] => []
  | x :: xs => if n ≤ (x :: xs).length then (x :: xs).take n :: windowsRot n xs else []

/-- the raw ring buffer of `iterator.CombineN` after each element from the `n`-th on
(what the closure saw at the pinned commit): `ring` is the buffer, `pos` the next write index -/
def ringStates (n : Nat) : List Val → List Val → Nat → Nat → List (List Val)
  | [], _, _, _ => []
  | x :: xs, ring, pos, present =>
    let ring' := ring.set pos x
    let pos' := if pos + 1 = n then 0 else pos + 1
    let present' := if present < n then present + 1 else present
    if present' = n then ring' :: ringStates n xs ring' pos' present'
    else ringStates n xs ring' pos' present'

def WinFn.apply : WinFn → List Val → Res Val
  | .size, w => .ok (.int w.length)
  | .firstLast, w =>
    match w.head?, w.getLast? with
    | some (.int a), some (.int b) => .ok (.int (a * 100 + b))
    | _, _ => .err

/-- run a producer; `get p` is what iterating the parent object `p` yields now.
`rot = true` is the repaired `combineN` (rotated copy), `false` the raw ring buffer. -/
def runProd (rot : Bool) (get : Nat → Res (List Val)) : Prod → Res (List Val)
  | .none => .panic
  | .numbers n => .ok ((List.range n.toNat).map (fun (i : Nat) => Val.int (Int.ofNat i)))
  | .map f p => match get p with
    | .ok xs => mapRes f.apply xs
    | r => r
  | .accept q p => match get p with
    | .ok xs => filterRes q.apply xs
    | r => r
  | .top k p => match get p with
    | .ok xs => .ok (if k < 0 then xs else xs.take k.toNat)
    | r => r
  | .skip k p => match get p with
    | .ok xs => .ok (if k < 0 then xs else xs.drop k.toNat)
    | r => r
  | .concat a b => match get a, get b with
    | .ok xs, .ok ys => .ok (xs ++ ys)
    | .ok _, r => r
    | r, _ => r
  | .combineN n g p => match get p with
    | .ok xs =>
      if n < 0 then .panic                              -- make([]I, n, n) with negative n
      else if n = 0 then (if xs.isEmpty then .ok [] else .panic)   -- vals[0] on an empty buffer
      else mapRes g.apply (if rot then windowsRot n.toNat xs
                           else ringStates n.toNat xs (pad n.toNat) 0 0)
    | r => r

/-- what iterating object `n` yields, given the results `prev` for all objects below `n` -/
def elemsOf (rot : Bool) (h : H) (prev : List (Res (List Val))) (n : Nat) : Res (List Val) :=
  match h.objs[n]? with
  | none => .panic
  | some ob =>
    if ob.present then .ok (h.window ob.items)
    else runProd rot (fun p => match prev[p]? with | some r => r | none => .panic) ob.prod

/-- iteration results of the objects `0 … n-1` (a derived list only has older parents) -/
def elemsUpTo (rot : Bool) (h : H) : Nat → List (Res (List Val))
  | 0 => []
  | n+1 =>
    let prev := elemsUpTo rot h n
    prev ++ [elemsOf rot h prev n]

/-- the elements of a list object, in order: the observable content of the list -/
def elems (rot : Bool) (h : H) (o : Nat) : Res (List Val) := elemsOf rot h (elemsUpTo rot h o) o

def table (rot : Bool) (h : H) : List (Res (List Val)) := elemsUpTo rot h h.objs.length

/-! ## map storages -/

structure MInfo where
  iter : List (String × Val)     -- what `Iter` yields, in order
  getl : List (String × Val)     -- `Get k` = first entry with key `k`
  size : Nat                     -- what `Size()` answers
  bad : Bool                     -- a parent id that does not exist
  deriving Repr, Inhabited

def lookup (k : String) : List (String × Val) → Option Val
  | [] => none
  | (k', v) :: es => if k' = k then some v else lookup k es

/-- `ListMap.Append` on the abstract content: overwrite the first entry with that key or add at the end -/
def upsert : List (String × Val) → String → Val → List (String × Val)
  | [], k, v => [(k, v)]
  | (k', v') :: es, k, v => if k' = k then (k', v) :: es else (k', v') :: upsert es k v

def upsertAll (es : List (String × Val)) : List (String × Val) :=
  es.foldl (fun acc kv => upsert acc kv.1 kv.2) []

def mInfoOf (prev : List MInfo) : MObj → MInfo
  | .lm es => ⟨es, es, es.length, false⟩
  | .real es => ⟨es, es, es.length, false⟩
  | .app k v p => match prev[p]? with
    | some pi => ⟨(k, v) :: pi.iter, (k, v) :: pi.getl, pi.size + 1, pi.bad⟩
    | none => ⟨[], [], 0, true⟩
  | .mrg a b => match prev[a]?, prev[b]? with
    | some ai, some bi => ⟨ai.iter ++ bi.iter, ai.getl ++ bi.getl, ai.size + bi.size, ai.bad || bi.bad⟩
    | _, _ => ⟨[], [], 0, true⟩
  | .rpl o r _ => match prev[o]?, prev[r]? with
    | some oi, some ri =>
      ⟨oi.iter.map (fun kv => match lookup kv.1 ri.getl with | some x => (kv.1, x) | none => kv),
       -- `ReplaceMap.Get`: only the keys of the original map are present; the replacement wins for those
       oi.getl.map (fun kv => match lookup kv.1 ri.getl with | some x => (kv.1, x) | none => kv),
       oi.size, oi.bad || ri.bad⟩
    | _, _ => ⟨[], [], 0, true⟩

def mUpTo (ms : List MObj) : Nat → List MInfo
  | 0 => []
  | n+1 =>
    let prev := mUpTo ms n
    match ms[n]? with
    | some m => prev ++ [mInfoOf prev m]
    | none => prev ++ [⟨[], [], 0, true⟩]

def mtable (h : H) : List MInfo := mUpTo h.maps h.maps.length

def minfo (h : H) (m : Nat) : Option MInfo := (mtable h)[m]?

/-! ## the observation of a value -/

inductive Tok where
  | int (i : Int) | str (s : String)
  | lb | rb                  -- list brackets
  | mlb (size : Nat) | mrb   -- map brackets, with the answer of `size()`
  | key (k : String)
  | dangling                 -- a pointer to an object that does not exist
  | iterErr | iterPanic      -- iterating the list fails
  | cut                      -- nesting deeper than the depth asked for
  deriving DecidableEq, Repr, Inhabited

def insertKey (kv : String × Val) : List (String × Val) → List (String × Val)
  | [] => [kv]
  | x :: xs => if kv.1 < x.1 then kv :: x :: xs else x :: insertKey kv xs

/-- entries ordered by key (the iteration order of a hash map is not an observation) -/
def sortKeys (es : List (String × Val)) : List (String × Val) := es.foldr insertKey []

/-- deep observation: size, elements in order, keys (hence string form and equality) -/
def absV (LT : List (Res (List Val))) (MT : List MInfo) : Nat → Val → List Tok
  | 0, _ => [.cut]
  | _+1, .int i => [.int i]
  | _+1, .str s => [.str s]
  | d+1, .ref o => match LT[o]? with
    | some (.ok xs) => [.lb] ++ xs.flatMap (absV LT MT d) ++ [.rb]
    | some .err => [.iterErr]
    | some _ => [.iterPanic]
    | none => [.dangling]
  | d+1, .mref m => match MT[m]? with
    | some mi =>
      if mi.bad then [.dangling]
      else [.mlb mi.size] ++ (sortKeys mi.iter).flatMap (fun kv => .key kv.1 :: absV LT MT d kv.2) ++ [.mrb]
    | none => [.dangling]

def abs (rot : Bool) (d : Nat) (h : H) (v : Val) : List Tok := absV (table rot h) (mtable h) d v

/-! ## micro operations -/

inductive Micro where
  | alloc (xs : List Val) (spare : Nat)     -- a fresh backing array with a new object on it
  | lazy (p : Prod)                         -- a new lazily derived list
  | mat (o : Nat)                           -- `Eval`: materialise into an append-grown slice
  | app (o : Nat) (v : Val) (capParent : Bool)  -- Go `append` of one element (+ the cap line of `Append`)
  | sub (o i j c : Nat)                     -- new object on `items[i:j]` with capacity `c`
  | write (o i : Nat) (v : Val)             -- `items[i] = v` on a visible cell
  | newMap (m : MObj)
  deriving Repr, Inhabited

/-- micro operations that never write a visible cell and never duplicate spare capacity -/
def Micro.safe : Micro → Bool
  | .alloc _ _ => true
  | .lazy _ => true
  | .mat _ => true
  | .app _ _ c => c
  | .sub _ i j c => decide (c = j - i)
  | .write _ _ _ => false
  | .newMap _ => true

/-- capacity after `n` appends to a nil slice; `grow c` is the runtime's choice for a full slice of
capacity `c` (it is raised to the needed length if it is too small, so **any** function is admissible) -/
def evalCap (grow : Nat → Nat) : Nat → Nat
  | 0 => 0
  | n+1 =>
    let c := evalCap grow n
    if n < c then c else max (grow c) (n + 1)

/-- a value names an existing object (Go: a pointer always points to a live object) -/
def vok (h : H) : Val → Bool
  | .ref o => decide (o < h.objs.length)
  | .mref m => decide (m < h.maps.length)
  | _ => true

/-- a map storage only refers to existing values and existing parent storages -/
def mok (h : H) : MObj → Bool
  | .lm es => es.all (fun kv => vok h kv.2)
  | .real es => es.all (fun kv => vok h kv.2)
  | .app _ v p => vok h v && decide (p < h.maps.length)
  | .mrg a b => decide (a < h.maps.length) && decide (b < h.maps.length)
  | .rpl o r _ => decide (o < h.maps.length) && decide (r < h.maps.length)

structure Cfg where
  rot : Bool            -- window order of `combineN` (from the facts)
  grow : Nat → Nat      -- growth policy of the Go runtime (arbitrary)

def micro (cfg : Cfg) (h : H) : Micro → H
  | .alloc xs spare =>
    if xs.all (vok h) then
      { h with arrays := h.arrays ++ [xs ++ pad spare],
               objs := h.objs ++ [⟨⟨h.arrays.length, 0, xs.length, xs.length + spare⟩, true, .none⟩] }
    else h     -- cannot happen: a stored value is a live object
  | .lazy p => { h with objs := h.objs ++ [⟨⟨0, 0, 0, 0⟩, false, p⟩] }
  | .mat o =>
    match h.objs[o]? with
    | some ob =>
      if ob.present then h
      else match elems cfg.rot h o with
        | .ok xs =>
          let spare := evalCap cfg.grow xs.length - xs.length
          { h with arrays := h.arrays ++ [xs ++ pad spare],
                   objs := h.objs.set o ⟨⟨h.arrays.length, 0, xs.length, xs.length + spare⟩, true, .none⟩ }
        | _ => h
    | none => h
  | .app o v capParent =>
    match h.objs[o]? with
    | some ob =>
      if ob.present ∧ vok h v then
        let s := ob.items
        if s.len < s.cap then
          { h with arrays := h.arrays.set s.arr ((h.arrayOf s.arr).set (s.off + s.len) v),
                   objs := (if capParent then h.objs.set o { ob with items := { s with cap := s.len } } else h.objs)
                           ++ [⟨{ s with len := s.len + 1 }, true, .none⟩] }
        else
          let c := max (cfg.grow s.len) (s.len + 1)
          { h with arrays := h.arrays ++ [h.window s ++ [v] ++ pad (c - (s.len + 1))],
                   objs := h.objs ++ [⟨⟨h.arrays.length, 0, s.len + 1, c⟩, true, .none⟩] }
      else h
    | none => h
  | .sub o i j c =>
    match h.objs[o]? with
    | some ob =>
      if ob.present ∧ i ≤ j ∧ j ≤ ob.items.len ∧ j - i ≤ c ∧ i + c ≤ ob.items.cap then
        { h with objs := h.objs ++ [⟨⟨ob.items.arr, ob.items.off + i, j - i, c⟩, true, .none⟩] }
      else h
    | none => h
  | .write o i v =>
    match h.objs[o]? with
    | some ob =>
      if ob.present ∧ i < ob.items.len then
        { h with arrays := h.arrays.set ob.items.arr ((h.arrayOf ob.items.arr).set (ob.items.off + i) v) }
      else h
    | none => h
  | .newMap m => if mok h m then { h with maps := h.maps ++ [m] } else h

def runMicros (cfg : Cfg) (h : H) (ms : List Micro) : H := ms.foldl (micro cfg) h

/-! ## facts about the Go source (regenerated by `tie extract` on every run) -/

structure Facts where
  appendCapsParent : Bool     -- `Append` re-slices `l.items` to `[:len:len]`
  toSliceCapped : Bool        -- `ToSlice` returns a three-index slice with max = len
  copyToSliceFresh : Bool     -- `CopyToSlice` returns a slice it made itself
  setCopies : Bool            -- `Set` writes into the result of `CopyToSlice` (not `ToSlice`)
  reverseCopies : Bool
  orderCopies : Bool
  orderLessCopies : Bool
  windowCapped : Bool         -- `MovingWindow` hands out `items[a:b:b]`
  windowRemoveCapped : Bool   -- `MovingWindowRemove` likewise
  combineNCopies : Bool       -- `CombineN` passes a rotated copy of the ring buffer to the closure
  deriving DecidableEq, Repr, Inhabited

def Facts.OK (F : Facts) : Bool :=
  F.appendCapsParent && F.toSliceCapped && F.copyToSliceFresh && F.setCopies && F.reverseCopies &&
  F.orderCopies && F.orderLessCopies && F.windowCapped && F.windowRemoveCapped && F.combineNCopies

def Facts.good : Facts := ⟨true, true, true, true, true, true, true, true, true, true⟩

/-- the facts of the pinned commit: `combineN` passes the iterator's ring buffer itself -/
def Facts.pinned : Facts := { Facts.good with combineNCopies := false }

/-! ## operations of the language -/

inductive Op where
  -- lists
  | lit (vs : List Val)
  | num (n : Int)
  | map (f : Fn) (a : Val)
  | acc (q : Pred) (a : Val)
  | top (k : Int) (a : Val)
  | skip (k : Int) (a : Val)
  | cat (a b : Val)
  | cmbn (n : Int) (g : WinFn) (a : Val)        -- lazy combineN with a scalar closure
  | cmbe (n : Int) (a : Val)                    -- `a.combineN(n, w->w).eval()`: the windows are stored
  | app (a : Val) (v : Val)
  | set (a : Val) (i : Int) (v : Val)
  | rev (a : Val)
  | ord (a : Val) | ordr (a : Val) | ordl (a : Val)
  | eval (a : Val)
  | first (a : Val)
  | idx (a : Val) (i : Int)
  | size (a : Val)
  | mw (a : Val)                                -- movingWindow(e->e)
  | mwr (k : Nat) (a : Val)                     -- movingWindowRemove(w->w.size()>k)
  | grp (kind : Nat) (k : Int) (a : Val)        -- groupByInt / String / Equal on e%k (0/1/2)
  | tsa (a : Val) (v : Val)                     -- host idiom NewList(append(l.ToSlice(st), v)...)
  | alias (a : Val)
  | obsEval                                     -- size()/= on every handle: materialises them
  -- maps
  | mlit (kvs : List (String × Val))
  | put (m : Val) (k : String) (v : Val)
  | mrg (a b : Val)
  | rpl (m r : Val)                             -- m.replace(x->r)
  | mev (m : Val)
  | mmap (f : Fn) (m : Val)                     -- m.map((k,v)->f v)
  | macc (k : String) (m : Val)                 -- m.accept((key,v)->key != k)
  | mcmb (a b : Val)                            -- a.combine(b,(x,y)->x+y)
  | mget (m : Val) (k : String)
  deriving Repr, Inhabited

structure St where
  h : H
  pool : List Val
  deriving Repr, Inhabited

def St.init : St := ⟨H.empty, []⟩

def insertInt (x : Int) : List Int → List Int
  | [] => [x]
  | y :: ys => if x ≤ y then x :: y :: ys else y :: insertInt x ys

def sortInts (xs : List Int) : List Int := xs.foldr insertInt []

def allInts : List Val → Option (List Int)
  | [] => some []
  | .int i :: xs => (allInts xs).map (i :: ·)
  | _ :: _ => none

/-- the slice a method works on (`CopyToSlice` or `ToSlice`), filled with `newContent`, as a new list:
fresh array when the method copies; otherwise a shared slice that is written in place -/
def viaSlice (F : Facts) (copies : Bool) (h : H) (o : Nat) (len cap : Nat) (newContent : List Val) :
    List Micro × Val :=
  let n := h.objs.length
  if copies && F.copyToSliceFresh then ([.alloc newContent 0], .ref n)
  else
    let c := if copies then cap else (if F.toSliceCapped then len else cap)
    (.sub o 0 len c :: (List.range len).filterMap (fun i =>
        match newContent[i]? with
        | some v => some (.write n i v)
        | none => none), .ref n)

/-- start indices of `MovingWindow`: for each `i` the first `s` with `|v_i - v_s| ≤ 1` -/
def mwStarts (vals : List Int) : List Nat :=
  let rec go (fuel : Nat) (s : Nat) (v : Int) : Nat :=
    match fuel with
    | 0 => s
    | f+1 => match vals[s]? with
      | some w => if (v - w).natAbs > 1 then go f (s+1) v else s
      | none => s
  let rec loop (i : Nat) (s : Nat) : List Int → List Nat
    | [] => []
    | v :: rest => let s' := go (i + 1) s v; s' :: loop (i+1) s' rest
  loop 0 0 vals

/-- start indices of `MovingWindowRemove` with `w->w.size()>k` -/
def mwrStarts (k : Nat) (n : Nat) : List Nat :=
  let rec loop (fuel : Nat) (i : Nat) (s : Nat) : List Nat :=
    match fuel with
    | 0 => []
    | f+1 =>
      -- remove from the front while the window is longer than k (and longer than one element)
      let len := i + 1 - s
      let s' := if len > k ∧ len > 1 then s + (len - max k 1) else s
      s' :: loop f (i+1) s'
  loop n 0 0

def gkey (kind : Nat) (k : Int) (i : Int) : Val :=
  if kind = 1 then .str ("k" ++ toString (i.tmod k)) else .int (i.tmod k)

/-- groups in order of first occurrence -/
def groupsOf (kind : Nat) (k : Int) : List Int → List (Val × List Val)
  | [] => []
  | x :: xs =>
    let key := gkey kind k x
    let rest := groupsOf kind k xs
    (key, .int x :: (rest.filter (·.1 = key)).flatMap (·.2)) :: rest.filter (·.1 ≠ key)

def keyLe : Val → Val → Bool
  | .int a, .int b => decide (a ≤ b)
  | .str a, .str b => decide (a ≤ b)
  | _, _ => true

def insertGroup (g : Val × List Val) : List (Val × List Val) → List (Val × List Val)
  | [] => [g]
  | x :: xs => if keyLe g.1 x.1 then g :: x :: xs else x :: insertGroup g xs

def sortGroups (gs : List (Val × List Val)) : List (Val × List Val) := gs.foldr insertGroup []

def idxVal (xs : List Val) (i : Nat) : Res Val :=
  match xs[i]? with
  | some v => .ok v
  | none => .err

abbrev Plan := List Micro × Res Val

def planErr : Plan := ([], .err)

def withRef (a : Val) (k : Nat → Plan) : Plan :=
  match a with
  | .ref o => k o
  | _ => planErr          -- receiver of the wrong type: method not found

def withMref (a : Val) (k : Nat → Plan) : Plan :=
  match a with
  | .mref m => k m
  | _ => planErr

def withElems (r : Res (List Val)) (k : List Val → Plan) : Plan :=
  match r with
  | .ok xs => k xs
  | _ => planErr          -- iterating the list fails: the operation returns that error

def withInts (xs : List Val) (onErr : Plan) (k : List Int → Plan) : Plan :=
  match allInts xs with
  | some is => k is
  | none => onErr

def withInfo (r : Option MInfo) (k : MInfo → Plan) : Plan :=
  match r with
  | some mi => k mi
  | none => planErr

/-- capacity of object `o` once it is materialised -/
def capAfterMat (cfg : Cfg) (h : H) (o : Nat) (len : Nat) : Nat :=
  match (micro cfg h (.mat o)).sl o with
  | some s => s.cap
  | none => len

def newRef (st : St) : Res Val := .ok (.ref st.h.objs.length)
def newMref (st : St) : Res Val := .ok (.mref st.h.maps.length)

/-- `.mat o`, then the method's slice filled with `content`, as a new list -/
def planVia (F : Facts) (cfg : Cfg) (st : St) (o : Nat) (copies : Bool) (len : Nat) (content : List Val) : Plan :=
  let h1 := micro cfg st.h (.mat o)
  let r := viaSlice F copies h1 o len (capAfterMat cfg st.h o len) content
  (.mat o :: r.1, .ok r.2)

def planSort (F : Facts) (cfg : Cfg) (st : St) (o : Nat) (copies : Bool) (rev : Bool) : Plan :=
  withElems (elems cfg.rot st.h o) fun xs =>
    withInts xs
      (if xs.length ≤ 1 then planVia F cfg st o copies xs.length xs else ([.mat o], .err))
      fun is => planVia F cfg st o copies xs.length
        ((if rev then (sortInts is).reverse else sortInts is).map Val.int)

/-- the windows of `movingWindow*` as sub-slices of the materialised list, then the list of them -/
def planWindows (F : Facts) (cfg : Cfg) (st : St) (o : Nat) (len : Nat) (capped : Bool) (starts : List Nat) : Plan :=
  let base := st.h.objs.length
  let cap := capAfterMat cfg st.h o len
  let icap := if F.toSliceCapped then len else cap
  let k := starts.length
  let subs := (List.range k).filterMap (fun i =>
    match starts[i]? with
    | some s => some (Micro.sub o s (i+1) (if capped then i + 1 - s else icap - s))
    | none => none)
  (.mat o :: subs ++ [.alloc ((List.range k).map (fun i => .ref (base + i))) (evalCap cfg.grow k - k)],
   .ok (.ref (base + k)))

/-- `a.combineN(n, w->w).eval()`: the windows handed to the closure are stored -/
def planCombineStore (F : Facts) (cfg : Cfg) (st : St) (n : Int) (xs : List Val) : Plan :=
  if n < 1 then planErr      -- `CombineN` rejects a window size below one
  else
    let base := st.h.objs.length
    if F.combineNCopies then
      let ws := windowsRot n.toNat xs
      let k := ws.length
      (ws.map (fun w => .alloc w 0) ++
        [.alloc ((List.range k).map (fun i => .ref (base + i))) (evalCap cfg.grow k - k)],
       .ok (.ref (base + k)))
    else
      -- the ring buffer is one slice; every window is a list on that very slice
      let nn := n.toNat
      let steps := (List.range xs.length).flatMap (fun i =>
        match xs[i]? with
        | some x => Micro.write base (i % nn) x :: (if nn ≤ i + 1 then [Micro.sub base 0 nn nn] else [])
        | none => [])
      let k := xs.length + 1 - nn
      (.alloc (pad nn) 0 :: steps ++
        [.alloc ((List.range k).map (fun i => .ref (base + 1 + i))) (evalCap cfg.grow k - k)],
       .ok (.ref (base + 1 + k)))

def planGroups (cfg : Cfg) (st : St) (gs : List (Val × List Val)) : Plan :=
  let base := st.h.objs.length
  let mbase := st.h.maps.length
  let n := gs.length
  ((List.range n).flatMap (fun i =>
      match gs[i]? with
      | some g => [Micro.alloc g.2 (evalCap cfg.grow g.2.length - g.2.length),
                   Micro.newMap (.lm [("key", g.1), ("values", .ref (base + i))])]
      | none => []) ++
    [.alloc ((List.range n).map (fun i => .mref (mbase + i))) 0],
   .ok (.ref (base + n)))

def newMapPlan (st : St) (m : MObj) : Plan := ([.newMap m], newMref st)

def mapEntries (f : String × Val → Res (String × Val)) (es : List (String × Val))
    (k : List (String × Val) → Plan) : Plan :=
  match mapRes f es with
  | .ok r => k r
  | _ => planErr

def replDepth (h : H) (z : Nat) : Nat :=
  match h.maps[z]? with
  | some (.rpl _ _ d) => d
  | _ => 0

/-- `Map.Replace`: a `ReplaceMap`, flattened once the nesting depth reaches 10 -/
def planReplace (st : St) (m r : Nat) : Plan :=
  let depth := max (replDepth st.h m) (replDepth st.h r)
  if depth ≥ 10 then
    -- createFlat: a ListMap (≤ 20 entries) or a hash map built from the iteration
    let mi := mInfoOf (mtable st.h) (.rpl m r (depth + 1))
    newMapPlan st (if mi.size > 20 then .real (upsertAll mi.iter) else .lm (upsertAll mi.iter))
  else newMapPlan st (.rpl m r (depth + 1))

/-- micro operations and result of one operation. The result may name objects the micro operations
create (ids are assigned consecutively). -/
def plan (F : Facts) (cfg : Cfg) (st : St) : Op → Plan
  | .lit vs => ([.alloc vs 0], newRef st)
  | .num n => ([.lazy (.numbers n)], newRef st)
  | .map f a => withRef a fun o => ([.lazy (.map f o)], newRef st)
  | .acc q a => withRef a fun o => ([.lazy (.accept q o)], newRef st)
  | .top k a => withRef a fun o => ([.lazy (.top k o)], newRef st)
  | .skip k a => withRef a fun o => ([.lazy (.skip k o)], newRef st)
  | .cat a b => withRef a fun x => withRef b fun y => ([.lazy (.concat x y)], newRef st)
  | .cmbn n g a => withRef a fun o =>
    if n < 1 then planErr      -- `CombineN` rejects a window size below one
    else ([.lazy (.combineN n g o)], newRef st)
  | .cmbe n a => withRef a fun o =>
    withElems (elems cfg.rot st.h o) fun xs => planCombineStore F cfg st n xs
  | .app a v => withRef a fun o =>
    withElems (elems cfg.rot st.h o) fun _ => ([.mat o, .app o v F.appendCapsParent], newRef st)
  | .set a i v => withRef a fun o =>
    withElems (elems cfg.rot st.h o) fun xs =>
      if i < 0 ∨ xs.length ≤ i.toNat then ([.mat o], .err)
      else planVia F cfg st o F.setCopies xs.length (xs.set i.toNat v)
  | .rev a => withRef a fun o =>
    withElems (elems cfg.rot st.h o) fun xs => planVia F cfg st o F.reverseCopies xs.length xs.reverse
  | .ord a => withRef a fun o => planSort F cfg st o F.orderCopies false
  | .ordr a => withRef a fun o => planSort F cfg st o F.orderCopies true
  | .ordl a => withRef a fun o => planSort F cfg st o F.orderLessCopies false
  | .eval a => withRef a fun o =>
    withElems (elems cfg.rot st.h o) fun _ => ([.mat o], .ok (.ref o))
  | .first a => withRef a fun o =>
    withElems (elems cfg.rot st.h o) fun xs => ([], idxVal xs 0)
  | .idx a i => withRef a fun o =>
    if i < 0 then planErr
    else withElems (elems cfg.rot st.h o) fun xs => ([.mat o], idxVal xs i.toNat)
  | .size a => withRef a fun o =>
    withElems (elems cfg.rot st.h o) fun xs => ([.mat o], .ok (.int xs.length))
  | .mw a => withRef a fun o =>
    withElems (elems cfg.rot st.h o) fun xs =>
      withInts xs ([.mat o], .err) fun is => planWindows F cfg st o xs.length F.windowCapped (mwStarts is)
  | .mwr kk a => withRef a fun o =>
    withElems (elems cfg.rot st.h o) fun xs =>
      planWindows F cfg st o xs.length F.windowRemoveCapped (mwrStarts kk xs.length)
  | .grp kind k a => withRef a fun o =>
    withElems (elems cfg.rot st.h o) fun xs =>
      withInts xs planErr fun is =>
        if k = 0 ∧ !is.isEmpty then planErr     -- integer modulo by zero panics; recovered at top level
        else planGroups cfg st (if kind = 2 then groupsOf kind k is else sortGroups (groupsOf kind k is))
  | .tsa a v => withRef a fun o =>
    withElems (elems cfg.rot st.h o) fun xs =>
      if F.toSliceCapped then
        ([.mat o, .alloc (xs ++ [v]) (max (cfg.grow xs.length) (xs.length + 1) - (xs.length + 1))], newRef st)
      else ([.mat o, .app o v false], newRef st)
  | .alias v => ([], .ok v)
  | .obsEval =>
    (st.pool.filterMap (fun v => match v with | .ref o => some (Micro.mat o) | _ => none), .ok (.int 0))
  -- maps
  | .mlit kvs => newMapPlan st (.lm (upsertAll kvs))
  | .put a k v => withMref a fun m =>
    withInfo (minfo st.h m) fun mi =>
      match lookup k mi.getl with
      | some _ => planErr
      | none => newMapPlan st (.app k v m)
  | .mrg x y => withMref x fun a => withMref y fun b =>
    withInfo (minfo st.h a) fun ai => withInfo (minfo st.h b) fun bi =>
      match bi.iter.find? (fun kv => (lookup kv.1 ai.getl).isSome) with
      | some _ => planErr
      | none => newMapPlan st (.mrg a b)
  | .rpl x y => withMref x fun m => withMref y fun r =>
    withInfo (minfo st.h m) fun _ => planReplace st m r
  | .mev a => withMref a fun m =>
    withInfo (minfo st.h m) fun mi => newMapPlan st (.real (upsertAll mi.iter))
  | .mmap f a => withMref a fun m =>
    withInfo (minfo st.h m) fun mi =>
      mapEntries (fun kv => match f.apply kv.2 with
          | .ok x => Res.ok (kv.1, x) | .err => .err | .panic => .panic | .fuel => .fuel) mi.iter
        fun es => newMapPlan st (.lm (upsertAll es))
  | .macc k a => withMref a fun m =>
    withInfo (minfo st.h m) fun mi => newMapPlan st (.lm (upsertAll (mi.iter.filter (fun kv => kv.1 ≠ k))))
  | .mcmb x y => withMref x fun a => withMref y fun b =>
    withInfo (minfo st.h a) fun ai => withInfo (minfo st.h b) fun bi =>
      mapEntries (fun kv => match kv.2, lookup kv.1 bi.getl with
          | .int p, some (.int q) => Res.ok (kv.1, Val.int (p + q))
          | _, _ => .err) ai.iter
        fun es => newMapPlan st (.lm (upsertAll es))
  | .mget a k => withMref a fun m =>
    withInfo (minfo st.h m) fun mi =>
      match lookup k mi.getl with
      | some v => ([], .ok v)
      | none => planErr

def isHandle : Val → Bool
  | .ref _ => true
  | .mref _ => true
  | _ => false

/-- a list or map result that names an existing object becomes a new handle -/
def newPool (h' : H) (pool : List Val) : Res Val → List Val
  | .ok v => if isHandle v && vok h' v then pool ++ [v] else pool
  | _ => pool

/-- one operation: run its micro operations; a list or map result becomes a new handle -/
def step (F : Facts) (cfg : Cfg) (st : St) (op : Op) : St :=
  let p := plan F cfg st op
  let h' := runMicros cfg st.h p.1
  { h := h', pool := newPool h' st.pool p.2 }

def run (F : Facts) (cfg : Cfg) (st : St) (ops : List Op) : St := ops.foldl (step F cfg) st


/-! ## `listMap.ListMap`: a slice of entries with in-place overwrite

`ListMap.Append` overwrites the value of an existing key **in the backing array** and returns the same
slice header, or appends (Go `append`: into spare capacity, else copy). This is only persistent when
every intermediate result is used exactly once (`x = x.Append(…)`); `Props/C09.lean` proves that for
such a linear chain the result is the functional `upsert` fold and that no array that existed before
the chain is touched. -/

structure LM where
  arr : Nat
  len : Nat
  cap : Nat
  deriving DecidableEq, Repr, Inhabited

abbrev LMStore := List (List (String × Val))

def lmArrayOf (st : LMStore) (a : Nat) : List (String × Val) :=
  match st[a]? with
  | some l => l
  | none => []

def lmAbs (st : LMStore) (l : LM) : List (String × Val) := (lmArrayOf st l.arr).take l.len

def lmPad (n : Nat) : List (String × Val) := List.replicate n ("", .int 0)

/-- `listMap.New(n)`: `make(ListMap, 0, n)` -/
def lmNew (st : LMStore) (n : Nat) : LMStore × LM := (st ++ [lmPad n], ⟨st.length, 0, n⟩)

def findKey (k : String) : List (String × Val) → Option Nat
  | [] => none
  | (k', _) :: es => if k' = k then some 0 else (findKey k es).map (· + 1)

def lmAppend (grow : Nat → Nat) (st : LMStore) (l : LM) (k : String) (v : Val) : LMStore × LM :=
  match findKey k (lmAbs st l) with
  | some i => (st.set l.arr ((lmArrayOf st l.arr).set i (k, v)), l)
  | none =>
    if l.len < l.cap then
      (st.set l.arr ((lmArrayOf st l.arr).set l.len (k, v)), { l with len := l.len + 1 })
    else
      let c := max (grow l.cap) (l.len + 1)
      (st ++ [lmAbs st l ++ [(k, v)] ++ lmPad (c - (l.len + 1))], ⟨st.length, l.len + 1, c⟩)

/-- `x = x.Append(k, v)` for each entry in turn -/
def lmChain (grow : Nat → Nat) (s : LMStore × LM) (kvs : List (String × Val)) : LMStore × LM :=
  kvs.foldl (fun s kv => lmAppend grow s.1 s.2 kv.1 kv.2) s

/-! ## source facts about maps (regenerated by `tie extract`) -/

/-- a call site of `ListMap.Append`. shape 0: `listMap.New(…).Append(…)…` chain used as a value;
shape 1: `x = x.Append(…)` on a local that is only ever assigned from `listMap.New` or from itself;
shape 2: anything else. `dir = "."` is the parser package (maps of AST nodes, not of values). -/
structure LMSite where
  dir : String
  file : String
  line : Nat
  shape : Nat
  deriving DecidableEq, Repr, Inhabited

def lmSitesLinear (sites : List LMSite) : Bool :=
  !sites.isEmpty && sites.all (fun s => s.dir == "." || s.shape != 2)

/-- a method of a map storage type: has a pointer receiver / assigns through its receiver -/
structure StorageMethod where
  type : String
  name : String
  ptrRecv : Bool
  assignsRecv : Bool
  deriving DecidableEq, Repr, Inhabited

def storagesImmutable (ms : List StorageMethod) : Bool :=
  !ms.isEmpty && ms.all (fun m => !m.ptrRecv && !m.assignsRecv)

end P2.Heap
