import P2.Model.Basic
/-! # Model of `value/binning.go` (C20)

Line-by-line model of `axis.getIndex`, `axis.getDescr`, `newBinning`/`BinningData.Add/Result`,
`New2d`/`Binning2dData.Add/Result/DescrY`, the list methods `Binning`, `Binning2d` and the two collectors
behind `CollectBinning`.

**Numbers.** The model is generic in the number carrier `F` through the operations record `NumOps`
(DESIGN §2.3). Two instances are used:

* `exactOps : NumOps Int` — *exact arithmetic on scaled dyadics*: every float64 of a case is a multiple
  of one common unit `2^-k`, and is represented by that multiple (an `Int`; bignums, so ±1e300 and ±2^63
  are ordinary values). `+`, `-`, `float64(i)*x` are the integer operations and `math.Floor(a/b)` is
  floor division (scale-free). All theorems of C20 are about this instance.
* `floatOps : NumOps Float` — IEEE binary64 (Lean's `Float`), used only by the compiled model driver for
  the bit-exact comparison with the Go code on arbitrary inputs (rounding, NaN, ±Inf, size ≤ 0 included).

`math.Floor(a/b)` yields an integral or non-finite float; it crosses into the integer world as a value
of `FloorQ`. Go's `int(f)` for an out-of-range or NaN `f` is implementation-defined; the pinned code is
modelled with the amd64 result `MinInt64` (`goInt`), *not* with Lean's saturating `Float.toInt64`.

Closures (`indFunc`, `valFunc`) are evaluated outside this model: a record is the tuple of numbers the
closures returned (`MustFloat` already applied). Go panics (`make` with a negative length, index out of
range) are explicit `Res.panic` outcomes. -/
namespace P2.Binning

/-- value of `math.Floor(a / b)`: an integer, or one of the non-finite floats -/
inductive FloorQ where
  | fin (n : Int)
  | pinf
  | ninf
  | nan
  deriving Repr, DecidableEq, Inhabited

/-- the float64 operations `binning.go` uses -/
structure NumOps (F : Type) where
  zero : F
  add : F → F → F
  sub : F → F → F
  /-- `float64(i) * x` -/
  mulInt : Int → F → F
  /-- `math.Floor(a / b)` -/
  floorDiv : F → F → FloorQ

/-! ### the exact instance: integers = multiples of a common power-of-two unit -/

/-- `math.Floor(a/b)` on exact numbers; `b = 0` gives the IEEE results `+Inf`, `-Inf`, `NaN` -/
def exactFloorDiv (a b : Int) : FloorQ :=
  if b = 0 then (if 0 < a then .pinf else if a < 0 then .ninf else .nan)
  else .fin (Int.fdiv a b)

def exactOps : NumOps Int where
  zero := 0
  add := fun a b => a + b
  sub := fun a b => a - b
  mulInt := fun i x => i * x
  floorDiv := exactFloorDiv

/-! ### the IEEE instance (driver only; `Float` is opaque to the kernel) -/

/-- exact integer value of a finite integral float64, decoded from its bit pattern -/
def intOfIntegralBits (b : UInt64) : Int :=
  let n := b.toNat
  let neg := n / 9223372036854775808 % 2 = 1
  let e := n / 4503599627370496 % 2048
  let m := n % 4503599627370496
  -- subnormals and zeros: the only integral value is 0
  let mag : Nat := if e = 0 then 0
    else if 1075 ≤ e then (m + 4503599627370496) * 2 ^ (e - 1075)
    else (m + 4503599627370496) >>> (1075 - e)
  if neg then -(mag : Int) else (mag : Int)

def floatFloorDiv (a b : Float) : FloorQ :=
  let f := Float.floor (a / b)
  if f.isNaN then .nan
  else if f.isInf then (if f > 0 then .pinf else .ninf)
  else .fin (intOfIntegralBits f.toBits)

def floatOps : NumOps Float where
  zero := 0.0
  add := fun a b => a + b
  sub := fun a b => a - b
  mulInt := fun i x => Float.ofInt i * x
  floorDiv := floatFloorDiv

/-! ### axis -/

/-- `type axis struct {start, size float64; bins int}`; `bins` is always a `len(..)` -/
structure Axis (F : Type) where
  start : F
  size : F
  bins : Nat

def minInt64 : Int := -9223372036854775808

/-- Go/amd64 `int(f)` (CVTTSD2SQ) for an integral or non-finite `f`: the "integer indefinite" value
`MinInt64` when `f` is NaN, ±Inf or outside `[-2^63, 2^63)` -/
def goInt : FloorQ → Int
  | .fin n => if -9223372036854775808 ≤ n ∧ n < 9223372036854775808 then n else minInt64
  | _ => minInt64

/-- two's-complement wrap of Go's `int` arithmetic -/
def wrap64 (i : Int) : Int := (i + 9223372036854775808) % 18446744073709551616 - 9223372036854775808

/-- the clamping `if index < 0 { index = 0 } else if index >= a.bins { index = a.bins - 1 }` -/
def clampIndex (bins : Nat) (index : Int) : Int :=
  if index < 0 then 0 else if index ≥ (bins : Int) then (bins : Int) - 1 else index

/-- `axis.getIndex` **at the pinned commit**:
```go
index := int(math.Floor((v-a.start)/a.size)) + 1
if index < 0 { index = 0 } else if index >= a.bins { index = a.bins - 1 }
``` -/
def getIndexPinned {F} (ops : NumOps F) (a : Axis F) (v : F) : Int :=
  clampIndex a.bins (wrap64 (goInt (ops.floorDiv (ops.sub v a.start) a.size) + 1))

/-- `axis.getIndex` **after the `fix:` commit** (clamped in the float domain, converted afterwards):
```go
f := math.Floor((v - a.start) / a.size)
if f >= float64(a.bins-1) { return a.bins - 1 } else if f >= 0 { return int(f) + 1 }
return 0
```
(`float64(a.bins-1)` is exact: `bins` is the length of an allocated slice.) -/
def getIndex {F} (ops : NumOps F) (a : Axis F) (v : F) : Int :=
  match ops.floorDiv (ops.sub v a.start) a.size with
  | .fin n => if n ≥ (a.bins : Int) - 1 then (a.bins : Int) - 1 else if n ≥ 0 then n + 1 else 0
  | .pinf => (a.bins : Int) - 1
  | .ninf => 0
  | .nan => 0

/-- `type bin struct {IsMin bool; Min float64; IsMax bool; Max float64}` as seen through `Get`/`Iter`
(the key `str` — an `fmt.Sprintf` rendering — is outside the model) -/
structure Bin (F : Type) where
  min : Option F
  max : Option F
  deriving Repr, DecidableEq

/-- `axis.getDescr(i)` -/
def getDescr {F} (ops : NumOps F) (a : Axis F) (i : Nat) : Bin F :=
  let to := ops.add a.start (ops.mulInt (i : Int) a.size)
  let frm := ops.sub to a.size
  if i = 0 then ⟨none, some to⟩
  else if (i : Int) = (a.bins : Int) - 1 then ⟨some frm, none⟩
  else ⟨some frm, some to⟩

/-- `for i := range bins { yield(getDescr(i)) }` -/
def descrs {F} (ops : NumOps F) (a : Axis F) (n : Nat) : List (Bin F) :=
  (List.range n).map (getDescr ops a)

/-! ### one dimension -/

/-- `l[i] += d` (only used under an explicit bounds check) -/
def addAt {F} (add : F → F → F) : List F → Nat → F → List F
  | [], _, _ => []
  | x :: xs, 0, d => add x d :: xs
  | x :: xs, i+1, d => x :: addAt add xs i d

def zeros {F} (ops : NumOps F) (n : Nat) : List F := List.replicate n ops.zero

/-- `newBinning`: `make([]float64, count+2)` panics for a negative length -/
def newBinning {F} (ops : NumOps F) (start size : F) (count : Int) : Res (Axis F × List F) :=
  if count + 2 < 0 then .panic
  else .ok (⟨start, size, (count + 2).toNat⟩, zeros ops (count + 2).toNat)

/-- `BinningData.Add`: `s.bins[s.a.getIndex(value)] += toSum`, index out of range is a panic.
`gi` is the index function (`getIndex` or `getIndexPinned`). -/
def add1 {F} (ops : NumOps F) (gi : Axis F → F → Int) (a : Axis F) (bins : List F) (value toSum : F) :
    Res (List F) :=
  let i := gi a value
  if 0 ≤ i ∧ i < (bins.length : Int) then .ok (addAt ops.add bins i.toNat toSum) else .panic

/-- the loop of `Binning` over the records `(indFunc e, valFunc e)` -/
def fold1 {F} (ops : NumOps F) (gi : Axis F → F → Int) (a : Axis F) : List F → List (F × F) → Res (List F)
  | bins, [] => .ok bins
  | bins, r :: rs =>
    match add1 ops gi a bins r.1 r.2 with
    | .ok b => fold1 ops gi a b rs
    | .err => .err
    | .panic => .panic
    | .fuel => .fuel

/-- the map `{descr: [...], values: [...]}` -/
structure Result1 (F : Type) where
  descr : List (Bin F)
  values : List F
  deriving Repr, DecidableEq

def binningWith {F} (ops : NumOps F) (gi : Axis F → F → Int) (start size : F) (count : Int)
    (recs : List (F × F)) : Res (Result1 F) :=
  match newBinning ops start size count with
  | .ok (a, bins) =>
    match fold1 ops gi a bins recs with
    | .ok b => .ok ⟨descrs ops a b.length, b⟩
    | .err => .err
    | .panic => .panic
    | .fuel => .fuel
  | .err => .err
  | .panic => .panic
  | .fuel => .fuel

/-- `list.binning(start, size, count, indFunc, valFunc)` of the repaired code -/
def binning {F} (ops : NumOps F) := binningWith ops (getIndex ops)
/-- … and of the pinned commit -/
def binningPinned {F} (ops : NumOps F) := binningWith ops (getIndexPinned ops)

/-! ### two dimensions -/

def addAt2 {F} (add : F → F → F) : List (List F) → Nat → Nat → F → List (List F)
  | [], _, _, _ => []
  | r :: rs, 0, j, d => addAt add r j d :: rs
  | r :: rs, i+1, j, d => r :: addAt2 add rs i j d

def zeros2 {F} (ops : NumOps F) (nx ny : Nat) : List (List F) := List.replicate nx (zeros ops ny)

/-- `len(bins[0])` with the panic of an empty `bins` -/
def rowLen {F} : List (List F) → Res Nat
  | [] => .panic
  | r :: _ => .ok r.length

/-- `New2d`: `make([][]float64, xCount+2)`, a `make([]float64, yCount+2)` per row, then `len(bins[0])` -/
def new2d {F} (ops : NumOps F) (xStart xSize : F) (xCount : Int) (yStart ySize : F) (yCount : Int) :
    Res (Axis F × Axis F × List (List F)) :=
  if xCount + 2 < 0 then .panic
  else if 0 < xCount + 2 ∧ yCount + 2 < 0 then .panic
  else
    let bins := zeros2 ops (xCount + 2).toNat (yCount + 2).toNat
    match rowLen bins with
    | .ok ny => .ok (⟨xStart, xSize, bins.length⟩, ⟨yStart, ySize, ny⟩, bins)
    | .err => .err
    | .panic => .panic
    | .fuel => .fuel

/-- `Binning2dData.Add`: `s.bins[xi][yi] += toSum` with both bounds checks -/
def add2 {F} (ops : NumOps F) (gi : Axis F → F → Int) (ax ay : Axis F) (bins : List (List F))
    (x y toSum : F) : Res (List (List F)) :=
  let xi := gi ax x
  let yi := gi ay y
  if 0 ≤ xi ∧ xi < (bins.length : Int) then
    match bins[xi.toNat]? with
    | some row =>
      if 0 ≤ yi ∧ yi < (row.length : Int) then .ok (addAt2 ops.add bins xi.toNat yi.toNat toSum) else .panic
    | none => .panic
  else .panic

def fold2 {F} (ops : NumOps F) (gi : Axis F → F → Int) (ax ay : Axis F) :
    List (List F) → List (F × F × F) → Res (List (List F))
  | bins, [] => .ok bins
  | bins, r :: rs =>
    match add2 ops gi ax ay bins r.1 r.2.1 r.2.2 with
    | .ok b => fold2 ops gi ax ay b rs
    | .err => .err
    | .panic => .panic
    | .fuel => .fuel

/-- an entry `{xd: bin, row: [...]}` of `values` -/
structure Row (F : Type) where
  xd : Bin F
  row : List F
  deriving Repr, DecidableEq

/-- the map `{yDescr: [...], values: [{xd, row}, ...]}` -/
structure Result2 (F : Type) where
  yDescr : List (Bin F)
  values : List (Row F)
  deriving Repr, DecidableEq

/-- `Result`: rows in order, each with the x description of its index -/
def rowsOf {F} (ops : NumOps F) (ax : Axis F) : Nat → List (List F) → List (Row F)
  | _, [] => []
  | i, r :: rs => ⟨getDescr ops ax i, r⟩ :: rowsOf ops ax (i + 1) rs

def binning2dWith {F} (ops : NumOps F) (gi : Axis F → F → Int)
    (xStart xSize : F) (xCount : Int) (yStart ySize : F) (yCount : Int)
    (recs : List (F × F × F)) : Res (Result2 F) :=
  match new2d ops xStart xSize xCount yStart ySize yCount with
  | .ok (ax, ay, bins) =>
    match fold2 ops gi ax ay bins recs with
    | .ok b =>
      match rowLen b with          -- `DescrY` ranges over `s.bins[0]`
      | .ok ny => .ok ⟨descrs ops ay ny, rowsOf ops ax 0 b⟩
      | .err => .err
      | .panic => .panic
      | .fuel => .fuel
    | .err => .err
    | .panic => .panic
    | .fuel => .fuel
  | .err => .err
  | .panic => .panic
  | .fuel => .fuel

def binning2d {F} (ops : NumOps F) := binning2dWith ops (getIndex ops)
def binning2dPinned {F} (ops : NumOps F) := binning2dWith ops (getIndexPinned ops)

/-! ### collectBinning -/

/-- `c.vals[i] += fl` for all `i` (lengths already checked) -/
def addLists {F} (add : F → F → F) : List F → List F → List F
  | x :: xs, y :: ys => add x y :: addLists add xs ys
  | _, _ => []

/-- `collectBinning1d.add` for the second and later maps: the length check, then the sums -/
def collectVals {F} (ops : NumOps F) : List F → List (List F) → Res (List F)
  | acc, [] => .ok acc
  | acc, v :: vs => if acc.length ≠ v.length then .err else collectVals ops (addLists ops.add acc v) vs

/-- `CollectBinning` on a list of 1-d results: `descr` of the first map, `values` summed up starting
from `make([]float64, len(first))`; an empty list is the error "no items" -/
def collect1 {F} (ops : NumOps F) : List (Result1 F) → Res (Result1 F)
  | [] => .err
  | r :: rs =>
    match collectVals ops (zeros ops r.values.length) (r.values :: rs.map (·.values)) with
    | .ok v => .ok ⟨r.descr, v⟩
    | .err => .err
    | .panic => .panic
    | .fuel => .fuel

/-- the row loop of `collectBinning2d.add`: "row len does not match" is an error -/
def addRows {F} (ops : NumOps F) : List (List F) → List (List F) → Res (List (List F))
  | [], [] => .ok []
  | a :: as, r :: rs =>
    if a.length ≠ r.length then .err
    else match addRows ops as rs with
      | .ok t => .ok (addLists ops.add a r :: t)
      | .err => .err
      | .panic => .panic
      | .fuel => .fuel
  | _, _ => .err

def collectRows {F} (ops : NumOps F) : List (List F) → List (List (List F)) → Res (List (List F))
  | acc, [] => .ok acc
  | acc, m :: ms =>
    if acc.length ≠ m.length then .err
    else match addRows ops acc m with
      | .ok acc' => collectRows ops acc' ms
      | .err => .err
      | .panic => .panic
      | .fuel => .fuel

/-- `result()`: `xd` of the first map next to the summed row -/
def zipRows {F} : List (Row F) → List (List F) → List (Row F)
  | x :: xs, r :: rs => ⟨x.xd, r⟩ :: zipRows xs rs
  | _, _ => []

/-- `CollectBinning` on a list of 2-d results: `yDescr` and the `xd`s of the first map, rows summed up
starting from zero rows of the first map's row lengths -/
def collect2 {F} (ops : NumOps F) : List (Result2 F) → Res (Result2 F)
  | [] => .err
  | r :: rs =>
    let rowsOfRes := fun (x : Result2 F) => x.values.map (·.row)
    match collectRows ops ((rowsOfRes r).map (fun row => zeros ops row.length))
        (rowsOfRes r :: rs.map rowsOfRes) with
    | .ok v => .ok ⟨r.yDescr, zipRows r.values v⟩
    | .err => .err
    | .panic => .panic
    | .fuel => .fuel

/-- `parts.map(p -> p.binning(..))` — the first failing part fails the whole expression -/
def mapRes {α β} (f : α → Res β) : List α → Res (List β)
  | [] => .ok []
  | x :: xs =>
    match f x with
    | .ok y =>
      match mapRes f xs with
      | .ok ys => .ok (y :: ys)
      | .err => .err
      | .panic => .panic
      | .fuel => .fuel
    | .err => .err
    | .panic => .panic
    | .fuel => .fuel

end P2.Binning
