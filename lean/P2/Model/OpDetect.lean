/-! Model of the operator detector of the tokenizer (`token.go`: `NewOperatorDetector`, the trie of
nested closures, and `Tokenizer.parseOperator`, the greedy walk along it).

The closures are defunctionalised: a trie node is represented by the list of the *remaining suffixes*
it was built from (`NewOperatorDetector(S)`); calling the closure with a rune is `step`.
Core Lean only, everything structurally recursive. -/
namespace P2.OpDetect

/-- a detector node = the argument list of the `NewOperatorDetector` call that created it -/
abbrev Node := List (List Char)

/-- the rune `Tokenizer.next` delivers at the end of the input (`peek` returns 0 there, again and again) -/
def nul : Char := Char.ofNat 0

/-- the rune the next call of `next` delivers -/
def nextRune : List Char → Char
  | [] => nul
  | r :: _ => r

/-- `*m[r]`: the tails of all suffixes that start with `r`, in their original order
(the argument of the recursive `NewOperatorDetector` call for rune `r`). -/
def child (S : Node) (r : Char) : Node :=
  S.filterMap (fun s => match s with
    | c :: tl => if c = r then some tl else none
    | [] => none)

/-- `endIsValid`: some suffix is empty -/
def endValid (S : Node) : Bool := S.any (·.isEmpty)

/-- One call `d(r)` of the detector node built from `S`: (`none` = Go `nil` | next node, ok flag).
 * `len(S)==1 && S[0]==""`: `(nil, true)` whatever the rune is;
 * a suffix starts with `r`: `(child, true)` — the child is built from a non-empty list, never nil;
 * otherwise `(nil, endIsValid)`. -/
def step (S : Node) (r : Char) : Option Node × Bool :=
  if S = [[]] then (none, true)
  else
    let c := child S r
    if c.isEmpty then (none, endValid S) else (some c, true)

/-- number of runes stored below a node; every `child` step strictly decreases it
(`size_child_lt`), so it bounds the number of runes the walk can still append. -/
def size (S : Node) : Nat := (S.map List.length).sum

/-- The loop of `parseOperator` once the input is exhausted: `next` keeps delivering rune 0, which is
looked up like any other rune (and appended when an operator continues with U+0000).
`fuel` is only there for structural recursion; `size S + 1` is always enough (`walkEOF_fuel`). -/
def walkEOF : Nat → Node → List Char → List Char × Bool × List Char
  | 0, _, acc => (acc, false, [])
  | fuel + 1, S, acc =>
    match step S nul with
    | (none, ok) => (acc, ok, [])
    | (some c, _) => walkEOF fuel c (acc ++ [nul])

/-- The loop of `parseOperator` after the first rune: `acc` is `op`, the result is
(operator text, ok, remaining input). `d == nil` → the rune is unread (stays in the input) and
`(op, ok)` is returned; else the rune is appended and the walk goes on in the child. No backtracking. -/
def walk (S : Node) (acc : List Char) : List Char → List Char × Bool × List Char
  | [] => walkEOF (size S + 1) S acc
  | r :: rest =>
    match step S r with
    | (none, ok) => (acc, ok, r :: rest)
    | (some c, _) => walk c (acc ++ [r]) rest

/-- `Tokenizer.parseOperator` with the detector `NewOperatorDetector(ops)`:
(text, is an operator, remaining input). At the root only `d != nil` is tested, the flag is ignored;
if the root has no child for the first rune, that single rune is consumed and returned with `false`. -/
def scanOp (ops : Node) (input : List Char) : List Char × Bool × List Char :=
  match input with
  | [] =>
    match (step ops nul).1 with
    | none => ([nul], false, [])
    | some c => walkEOF (size c + 1) c [nul]
  | r :: rest =>
    match (step ops r).1 with
    | none => ([r], false, rest)
    | some c => walk c [r] rest

end P2.OpDetect
