import P2.Model.Basic
/-!
# Push iterators of `github.com/hneemann/iterator` as consumer frames (DESIGN §2.3 "Lazy lists")

Go's `iterator.Producer[V] = func(yield func(V, error) bool)` is a *push* iterator: the source loop
calls `yield` for every element, every lazy stage wraps the `yield` it is given into its own callback
(which carries the per-stage state in captured variables) and the terminal consumer is the body of the
`for v, err := range producer` loop at the end of the chain.  `yield` answers `true` = "go on",
`false` = "stop pulling".

Here the chain of nested callbacks is a **list of frames** (`Frame`, outermost stage first, i.e. in
the order the element travels) ending in a terminal consumer of arbitrary state type `τ`
(`feedT : τ → Item α → τ × Log α × Ctl`).  Every frame is a one-element transducer (`Frame.step`):
it updates its state, records the closure calls it makes, and either passes an item on, swallows the
element (`skip`: answers "go on" without calling the downstream yield) or halts (`halt`: answers
stop/panic without calling downstream).  `feed` pushes one element through the frames and returns the
answer exactly like `yield`'s boolean; `drive` is the source loop (`iterator.Slice`, `Generate`,
`createSliceIterable`): it stops pulling as soon as the chain does not answer `more`.

Modelled line by line from iterator.go (`Map`/`MapAuto` in its sequential mode, `Filter`/`FilterAuto`,
`FirstN`, `Skip`, `Combine`, `Combine3`, `CombineN`, `IirMap`, `Append`, `Generate`) and value/list.go
(`Number`, `Compact`, `First`, `Single`, `Present`, `IndexWhere`, `containsItem`, `Eval`/`Size`,
`Reduce`, `Last`) and value/multiUse.go + `iterator.CopyProducer` (`Sink.multi`).

Conventions.
* Element type `α` is abstract; stage closures are abstract functions into `Res`, tagged with an id
  under which their calls are logged (`Log`, newest entry first).  `Res.ok`/`Res.err` of a closure
  become the item passed on; `Res.panic`/`Res.fuel` abort the whole chain (`Ctl.panic`/`Ctl.fuel`) —
  a Go panic unwinds through all callbacks, it is not an item.  Exceptions, as in the code: the
  closures of `map` and `accept` run under a `recover` (they may run on worker goroutines), their panic
  becomes an error item; a panic inside a `multiUse` consumer becomes that consumer's error.
* An item that carries an error carries no value (Go passes the zero value / a stale value along with
  the error).  Go stages that go on with the *same* element after a downstream `yield(…, err)` answered
  `true` (`Combine`, `Combine3`, `CombineN`, `Skip` …) are modelled up to that answer only: every terminal
  consumer of value/list.go returns on the first error, so the answer to an error item is never `true`
  (theorem `P2.Iter.feed_err_not_more`), and the continuation is dead code for every chain that ends in
  one of these consumers. The exception is `multiUse` (`Sink.multi`): an error item that every
  consumer swallows in the read-ahead slot of its `top`, or no longer receives, lets `run` go on with
  the next element, and stateful Go stages then work on the stale value (observed: a recovered nil
  panic inside the closure of `iirCombine`). This happens only inside the read-ahead window, where the
  property allows either outcome; the model keeps the stage state unchanged there.
* Frame state is updated *before* the element is passed on (Go: `i++` after `yield` returned `true`);
  after an answer other than `more` the loop that owns the state has returned, so the difference is
  unobservable.  The one frame whose state depends on the answer is `tap` (see `Frame.after`).
-/
namespace P2.Iter

/-- what a `yield(v, err)` call hands over: a value, or the error raised while producing it -/
inductive Item (α : Type) where
  | ok (v : α)
  | err
  deriving Repr, DecidableEq, Inhabited

/-- answer of a yield callback (and of the whole chain): Go's `true` = `more`, `false` = `stop`;
`panic`/`fuel` = the callback did not return normally -/
inductive Ctl where
  | more | stop | panic | fuel
  deriving Repr, DecidableEq, Inhabited

/-- log of closure calls, newest first: (closure id, arguments the closure was called with) -/
abbrev Log (α : Type) := List (Nat × List α)

/-- result of a value-returning closure as the item to pass on, or the abort it causes -/
def asItem {α} : Res α → Except Ctl (Item α)
  | .ok v => .ok (.ok v)
  | .err => .ok .err
  | .panic => .error .panic
  | .fuel => .error .fuel

/-- result of a closure that runs under the `recover` of list.go `Map`/`Accept` (the worker function may
run on a worker goroutine, so a panic is turned into an error item: `panicToError`) -/
def asItemRec {α} : Res α → Except Ctl (Item α)
  | .ok v => .ok (.ok v)
  | .err => .ok .err
  | .panic => .ok .err
  | .fuel => .error .fuel

/-- Per-stage state machines; one constructor per wrapped `yield` in iterator.go / list.go. -/
inductive Frame (α : Type) where
  /-- `iterator.Map` / `MapAuto` before the switch (list.go `Map`) -/
  | map (id : Nat) (f : α → Res α)
  /-- `iterator.Filter` / `FilterAuto` (list.go `Accept`); `p` = closure + "must return a bool" check -/
  | accept (id : Nat) (p : α → Res Bool)
  /-- `iterator.FirstN` (list.go `Top`): `seen` = `i` -/
  | top (n : Int) (seen : Nat)
  /-- `iterator.Skip` -/
  | skip (n : Int) (seen : Nat)
  /-- `iterator.Combine`: `last` = `some` iff `isValue` -/
  | combine (id : Nat) (f : α → α → Res α) (last : Option α)
  /-- `iterator.Combine3`: `buf` = `[]`, `[lastLast]`, `[lastLast, last]` -/
  | combine3 (id : Nat) (f : α → α → α → Res α) (buf : List α)
  /-- `iterator.CombineN`: `vals` = the ring buffer (filled up to `valuesPresent`), `pos` the write index.
  The closure of list.go receives a copy of the window in list order (ring buffer rotated by the index
  of its oldest element). `n = 0` panics at the first element (library behaviour; list.go no longer
  builds such a stage). -/
  | combineN (id : Nat) (n : Nat) (f : List α → Res α) (vals : List α) (pos : Nat)
  /-- `iterator.IirMap` (list.go `IIr`, `IIrCombine`): `st` = `(lastItem, last)` once `isLast`;
  `f item lastItem last`; `three` = the closure is called with `(lastItem, item, last)` (iirCombine)
  instead of `(item, last)` (iir) — only the logged argument list differs -/
  | iir (id0 id1 : Nat) (three : Bool) (init : α → Res α) (f : α → α → α → Res α) (st : Option (α × α))
  /-- list.go `Number`: `n` = running index -/
  | number (id : Nat) (f : Nat → α → Res α) (n : Nat)
  /-- list.go `Compact` (own loop, not `iterator.Compact`): `last` = `lastPublished` -/
  | compact (id : Nat) (eq : α → α → Res Bool) (last : Option α)
  /-- the loop body of `iterator.Append`: remembers that the downstream yield answered `false` -/
  | tap (stopped : Bool)

/-- what a frame does with the element after its own work -/
inductive Emit (α : Type) where
  | pass (y : Item α)     -- call the downstream yield with `y`, answer what it answers
  | skip                  -- answer `true` without calling downstream
  | halt (c : Ctl)        -- answer `c` (stop / abort) without calling downstream

structure Step (α : Type) where
  frame : Frame α
  out : Log α
  emit : Emit α

/-- emit the result of a value closure -/
def emitRes {α} (fr : Frame α) (out : Log α) (r : Res α) : Step α :=
  match asItem r with
  | .ok y => ⟨fr, out, .pass y⟩
  | .error c => ⟨fr, out, .halt c⟩

/-- emit the result of a value closure whose panic is recovered into an error item -/
def emitResRec {α} (fr : Frame α) (out : Log α) (r : Res α) : Step α :=
  match asItemRec r with
  | .ok y => ⟨fr, out, .pass y⟩
  | .error c => ⟨fr, out, .halt c⟩

/-- One element through one frame (transliteration of the callback bodies). -/
def Frame.step {α} : Frame α → Item α → Step α
  | .map id f, .err => ⟨.map id f, [], .pass .err⟩
  | .map id f, .ok v => emitResRec (.map id f) [(id, [v])] (f v)
  | .accept id p, .err => ⟨.accept id p, [], .pass .err⟩
  | .accept id p, .ok v =>
      match p v with
      | .ok true => ⟨.accept id p, [(id, [v])], .pass (.ok v)⟩
      | .ok false => ⟨.accept id p, [(id, [v])], .skip⟩
      | .err => ⟨.accept id p, [(id, [v])], .pass .err⟩
      | .panic => ⟨.accept id p, [(id, [v])], .pass .err⟩           -- recovered: `panicToError`
      | .fuel => ⟨.accept id p, [(id, [v])], .halt .fuel⟩
  | .top n seen, x =>
      if (seen : Int) = n then ⟨.top n seen, [], .halt .stop⟩      -- `if i == n { return }`: pulled one too many
      else ⟨.top n (seen + 1), [], .pass x⟩
  | .skip n seen, x =>
      if (seen : Int) < n then
        match x with
        | .err => ⟨.skip n (seen + 1), [], .pass .err⟩             -- errors are passed on even while skipping
        | .ok _ => ⟨.skip n (seen + 1), [], .skip⟩
      else ⟨.skip n seen, [], .pass x⟩
  | .combine id f (some a), .err => ⟨.combine id f (some a), [], .pass .err⟩
  | .combine id f (some a), .ok v => emitRes (.combine id f (some v)) [(id, [a, v])] (f a v)
  | .combine id f none, .err => ⟨.combine id f none, [], .pass .err⟩
  | .combine id f none, .ok v => ⟨.combine id f (some v), [], .skip⟩
  | .combine3 id f buf, .err => ⟨.combine3 id f buf, [], .pass .err⟩
  | .combine3 id f [], .ok v => ⟨.combine3 id f [v], [], .skip⟩
  | .combine3 id f [a], .ok v => ⟨.combine3 id f [a, v], [], .skip⟩
  | .combine3 id f (a :: b :: _), .ok v => emitRes (.combine3 id f [b, v]) [(id, [a, b, v])] (f a b v)
  | .combineN id n f vals pos, .err => ⟨.combineN id n f vals pos, [], .pass .err⟩
  | .combineN id n f vals pos, .ok v =>
      if n = 0 then ⟨.combineN id n f vals pos, [], .halt .panic⟩  -- `vals[pos] = i` on an empty slice
      else if vals.length < n then
        let vals' := vals ++ [v]
        if vals'.length = n then emitRes (.combineN id n f vals' 0) [(id, vals')] (f vals')
        else ⟨.combineN id n f vals' vals'.length, [], .skip⟩
      else
        let vals' := vals.set pos v
        let pos' := if pos + 1 = n then 0 else pos + 1
        -- list.go: `window = i[i0:] ++ i[:i0]`, `i0` = index of the oldest element = next write index
        let window := vals'.drop pos' ++ vals'.take pos'
        emitRes (.combineN id n f vals' pos') [(id, window)] (f window)
  | .iir id0 id1 three init f st, .err => ⟨.iir id0 id1 three init f st, [], .pass .err⟩
  | .iir id0 id1 three init f none, .ok v =>
      match init v with
      | .ok w => ⟨.iir id0 id1 three init f (some (v, w)), [(id0, [v])], .pass (.ok w)⟩
      | .err => ⟨.iir id0 id1 three init f none, [(id0, [v])], .pass .err⟩
      | .panic => ⟨.iir id0 id1 three init f none, [(id0, [v])], .halt .panic⟩
      | .fuel => ⟨.iir id0 id1 three init f none, [(id0, [v])], .halt .fuel⟩
  | .iir id0 id1 three init f (some (li, la)), .ok v =>
      let args := if three then [li, v, la] else [v, la]
      match f v li la with
      | .ok w => ⟨.iir id0 id1 three init f (some (v, w)), [(id1, args)], .pass (.ok w)⟩
      | .err => ⟨.iir id0 id1 three init f (some (li, la)), [(id1, args)], .pass .err⟩
      | .panic => ⟨.iir id0 id1 three init f (some (li, la)), [(id1, args)], .halt .panic⟩
      | .fuel => ⟨.iir id0 id1 three init f (some (li, la)), [(id1, args)], .halt .fuel⟩
  | .number id f n, .err => ⟨.number id f n, [], .pass .err⟩
  | .number id f n, .ok v => emitRes (.number id f (n + 1)) [(id, [v])] (f n v)
  | .compact id eq none, .err => ⟨.compact id eq none, [], .pass .err⟩
  | .compact id eq none, .ok v => ⟨.compact id eq (some v), [], .pass (.ok v)⟩
  | .compact id eq (some lp), .err => ⟨.compact id eq (some lp), [], .pass .err⟩
  | .compact id eq (some lp), .ok v =>
      match eq lp v with
      | .ok true => ⟨.compact id eq (some lp), [(id, [lp, v])], .skip⟩
      | .ok false => ⟨.compact id eq (some v), [(id, [lp, v])], .pass (.ok v)⟩
      | .err => ⟨.compact id eq (some lp), [(id, [lp, v])], .pass .err⟩
      | .panic => ⟨.compact id eq (some lp), [(id, [lp, v])], .halt .panic⟩
      | .fuel => ⟨.compact id eq (some lp), [(id, [lp, v])], .halt .fuel⟩
  | .tap s, x => ⟨.tap s, [], .pass x⟩

/-- state update that depends on the downstream answer (only `Append`'s `if !yield(..) { return }`) -/
def Frame.after {α} : Frame α → Ctl → Frame α
  | .tap _, c => .tap (c != .more)
  | fr, _ => fr

/-- result of pushing one element into a chain -/
structure Fed (α τ : Type) where
  frames : List (Frame α)
  sink : τ
  out : Log α          -- closure calls made for this element, newest first
  ctl : Ctl

/-- terminal consumer: state `τ`, one element in, new state + calls + answer out -/
abbrev FeedT (α τ : Type) := τ → Item α → τ × Log α × Ctl

/-- Push one element through the frames into the terminal consumer (the nested yield calls). -/
def feed {α τ} (ft : FeedT α τ) : List (Frame α) → τ → Item α → Fed α τ
  | [], t, x => let r := ft t x; ⟨[], r.1, r.2.1, r.2.2⟩
  | fr :: fs, t, x =>
      let s := fr.step x
      match s.emit with
      | .pass y =>
          let r := feed ft fs t y
          ⟨s.frame.after r.ctl :: r.frames, r.sink, r.out ++ s.out, r.ctl⟩
      | .skip => ⟨s.frame :: fs, t, s.out, .more⟩
      | .halt c => ⟨s.frame :: fs, t, s.out, c⟩

/-- state of a running chain; `pulled` counts the elements the source loops have handed over -/
structure St (α τ : Type) where
  frames : List (Frame α)
  sink : τ
  log : Log α
  pulled : Nat

def St.apply {α τ} (s : St α τ) (r : Fed α τ) : St α τ :=
  ⟨r.frames, r.sink, r.out ++ s.log, s.pulled + 1⟩

/-- The source loop over a slice (`for _, item := range items { if !yield(item, nil) { return } }`):
stops pulling as soon as the chain does not answer `more`. -/
def drive {α τ} (ft : FeedT α τ) : List (Item α) → St α τ → St α τ × Ctl
  | [], s => (s, .more)
  | x :: xs, s =>
      let r := feed ft s.frames s.sink x
      if r.ctl = .more then drive ft xs (s.apply r) else (s.apply r, r.ctl)

/-- `iterator.Generate(n, gen)`: `for i := 0; i < n; i++ { if !yield(gen(i)) { return } }`.
A generator, never a list of length `n`: `cnt` = elements left, `i` = next index; the recursion
follows the demand, so `n = 10^11` is evaluable whenever the chain stops early. -/
def driveGen {α τ} (ft : FeedT α τ) (g : Nat → Item α) : (cnt i : Nat) → St α τ → St α τ × Ctl
  | 0, _, s => (s, .more)
  | cnt + 1, i, s =>
      let r := feed ft s.frames s.sink (g i)
      if r.ctl = .more then driveGen ft g cnt (i + 1) (s.apply r) else (s.apply r, r.ctl)

/-! ### Lists as stage descriptions -/

/-- a lazy stage as built by a list method (no state yet) -/
inductive Stage (α : Type) where
  | map (id : Nat) (f : α → Res α)
  | accept (id : Nat) (p : α → Res Bool)
  | top (n : Int)
  | skip (n : Int)
  | combine (id : Nat) (f : α → α → Res α)
  | combine3 (id : Nat) (f : α → α → α → Res α)
  | combineN (id : Nat) (n : Int) (f : List α → Res α)
  | iir (id0 id1 : Nat) (init : α → Res α) (f : α → α → Res α)                 -- f item last
  | iirCombine (id0 id1 : Nat) (init : α → Res α) (f : α → α → α → Res α)      -- f lastItem item last
  | number (id : Nat) (f : Nat → α → Res α)
  | compact (id : Nat) (eq : α → α → Res Bool)

/-- the frame with its initial state, created when the producer function is *invoked* (not when the
stage is built); `none` = list.go refuses to build the stage (`combineN` with a width below one:
"first argument in combineN needs to be greater than zero"), see `LList.buildable` -/
def Stage.init {α} : Stage α → Option (Frame α)
  | .map id f => some (.map id f)
  | .accept id p => some (.accept id p)
  | .top n => some (.top n 0)
  | .skip n => some (.skip n 0)
  | .combine id f => some (.combine id f none)
  | .combine3 id f => some (.combine3 id f [])
  | .combineN id n f => if n < 1 then none else some (.combineN id n.toNat f [] 0)
  | .iir id0 id1 init f => some (.iir id0 id1 false init (fun item _ last => f item last) none)
  | .iirCombine id0 id1 init f => some (.iir id0 id1 true init (fun item lastItem last => f lastItem item last) none)
  | .number id f => some (.number id f 0)
  | .compact id eq => some (.compact id eq none)

/-- Go lists hold a producer function; here: the description of how the list was built
(one constructor per place where a list is created). -/
inductive LList (α : Type) where
  /-- `NewList(items...)` (list literal, evaluated list): `createSliceIterable` -/
  | items (xs : List α)
  /-- `iterator.Generate(n, g)`; `numbers(n)` is `gen n (fun i => .ok i)` -/
  | gen (n : Nat) (g : Nat → Item α)
  /-- a list method that wraps the parent's producer -/
  | stage (s : Stage α) (l : LList α)
  /-- `a + b`: `iterator.Append` -/
  | append (a b : LList α)

/-- can the list be built at all? The method call that builds a refused stage returns an error
value; nothing is consumed and no closure is called. -/
def LList.buildable {α} : LList α → Bool
  | .items _ => true
  | .gen _ _ => true
  | .stage s l => s.init.isSome && l.buildable
  | .append a b => a.buildable && b.buildable

def Ctl.isAbort : Ctl → Bool
  | .panic => true
  | .fuel => true
  | _ => false

/-- what the caller of a producer function sees: it returned (`more`) or it did not (`panic`/`fuel`) -/
def Ctl.returned : Ctl → Ctl
  | .stop => .more
  | c => c

def St.push {α τ} (fr : Frame α) (s : St α τ) : St α τ := { s with frames := fr :: s.frames }
def St.pop {α τ} (s : St α τ) : St α τ := { s with frames := s.frames.tail }

/-- has the loop body of `Append`'s first loop executed its `return`? -/
def tapStopped {α} : List (Frame α) → Bool
  | .tap true :: _ => true
  | _ => false

/-- Invoke the producer of `l` with the chain `s` as its `yield` (implementation semantics of a list).
The answer is `more` when the producer function returned, `panic`/`fuel` when it did not. -/
def run {α τ} (ft : FeedT α τ) : LList α → St α τ → St α τ × Ctl
  | .items xs, s => let r := drive ft (xs.map .ok) s; (r.1, r.2.returned)
  | .gen n g, s => let r := driveGen ft g n 0 s; (r.1, r.2.returned)
  | .stage st l, s =>
      match st.init with
      | none => (s, .panic)        -- not reachable from `consume`: such a list cannot be built
      | some fr => let r := run ft l (s.push fr); (r.1.pop, r.2)
  | .append a b, s =>
      let r := run ft a (s.push (.tap false))
      if r.2.isAbort then (r.1.pop, r.2)
      else if tapStopped r.1.frames then (r.1.pop, .more)     -- `return` inside the first loop
      else run ft b r.1.pop

/-! ### Terminal consumers of value/list.go -/

/-- result of a terminal consumer -/
inductive Out (α : Type) where
  | val (v : α)
  | bool (b : Bool)
  | int (i : Int)
  | list (l : List α)
  deriving Repr, DecidableEq, Inhabited

/-- Loop bodies of the consuming methods; `done r` = the method has returned `r` from inside the loop. -/
inductive Term (α : Type) where
  | done (r : Res (Out α))
  /-- `First` -/
  | first
  /-- `Single`: `found` -/
  | single (found : Option α)
  /-- `Present` -/
  | present (id : Nat) (p : α → Res Bool)
  /-- `IndexWhere`: `i` -/
  | indexWhere (id : Nat) (p : α → Res Bool) (i : Nat)
  /-- `containsItem` (`x ~ list`): `eq` = `fg.equal(item, ·)`, no closure call -/
  | contains (eq : α → Res Bool)
  /-- `Eval` (also `Size`, `ToSlice`, deep evaluation of a returned list): accumulator, newest first -/
  | collect (acc : List α)
  /-- `iterator.Reduce`: `acc` = `some sum` iff `isValue` -/
  | reduce (id : Nat) (f : α → α → Res α) (acc : Option α)
  /-- `Last` -/
  | last (l : Option α)

/-- decision of a predicate closure inside a terminal -/
def decide? {α} (r : Res Bool) (onTrue : Res (Out α)) (self next : Term α) (out : Log α) : Term α × Log α × Ctl :=
  match r with
  | .ok true => (.done onTrue, out, .stop)
  | .ok false => (next, out, .more)
  | .err => (.done .err, out, .stop)
  | .panic => (self, out, .panic)
  | .fuel => (self, out, .fuel)

/-- One element into a terminal consumer. Every consumer returns on the first error item. -/
def feedTerm {α} : FeedT α (Term α)
  | .done r, _ => (.done r, [], .panic)     -- Go: "range function continued iteration after … returned false"
  | .first, .ok v => (.done (.ok (.val v)), [], .stop)
  | .first, .err => (.done .err, [], .stop)
  | .single _, .err => (.done .err, [], .stop)
  | .single none, .ok v => (.single (some v), [], .more)
  | .single (some _), .ok _ => (.done .err, [], .stop)            -- "more than one item"
  | .present _ _, .err => (.done .err, [], .stop)
  | .present id p, .ok v => decide? (p v) (.ok (.bool true)) (.present id p) (.present id p) [(id, [v])]
  | .indexWhere _ _ _, .err => (.done .err, [], .stop)
  | .indexWhere id p i, .ok v =>
      decide? (p v) (.ok (.int i)) (.indexWhere id p i) (.indexWhere id p (i + 1)) [(id, [v])]
  | .contains _, .err => (.done .err, [], .stop)
  | .contains eq, .ok v => decide? (eq v) (.ok (.bool true)) (.contains eq) (.contains eq) []
  | .collect _, .err => (.done .err, [], .stop)
  | .collect acc, .ok v => (.collect (v :: acc), [], .more)
  | .reduce _ _ _, .err => (.done .err, [], .stop)
  | .reduce id f none, .ok v => (.reduce id f (some v), [], .more)
  | .reduce id f (some a), .ok v =>
      match f a v with
      | .ok w => (.reduce id f (some w), [(id, [a, v])], .more)
      | .err => (.done .err, [(id, [a, v])], .stop)
      | .panic => (.reduce id f (some a), [(id, [a, v])], .panic)
      | .fuel => (.reduce id f (some a), [(id, [a, v])], .fuel)
  | .last _, .err => (.done .err, [], .stop)
  | .last _, .ok v => (.last (some v), [], .more)

/-- the value returned after the loop has ended without an early return -/
def Term.finish {α} : Term α → Res (Out α)
  | .done r => r
  | .first => .err                               -- "no items in list"
  | .single none => .err
  | .single (some v) => .ok (.val v)
  | .present _ _ => .ok (.bool false)
  | .indexWhere _ _ _ => .ok (.int (-1))
  | .contains _ => .ok (.bool false)
  | .collect acc => .ok (.list acc.reverse)
  | .reduce _ _ none => .err                      -- "reduce on empty iterable"
  | .reduce _ _ (some a) => .ok (.val a)
  | .last none => .err
  | .last (some v) => .ok (.val v)

/-! ### multiUse (`iterator.CopyProducer` + `multiUseEntry.runConsumer`)

Every entry of the map is a consumer running on its own goroutine over a copy of the producer; the
`run` loop on the calling goroutine offers every source element to every holder that is still open.
A consumer that has stopped closes its `stop` channel; `run` notices this only when it offers the
**next** element (`case <-h.stop`), removes the holder, and breaks out of the source loop when no holder
is left — hence a read-ahead of exactly one source element.  When a consumer function returns an error,
`done(err)` closes `errorTerm` and `run` breaks at one of the following `select`s (a race between
goroutines); the model breaks immediately — only the outcome `err` is claimed for such runs. -/

structure Branch (α : Type) where
  frames : List (Frame α)
  term : Term α
  stopped : Bool      -- the consumer's producer copy has returned (`close(ho.stop)`)
  removed : Bool      -- `run` has noticed and dropped the holder

/-- offer one element to every holder, in order; `wasDone` = some holder was found stopped -/
def feedBranches {α} : List (Branch α) → Item α → List (Branch α) × Log α × Bool × Ctl
  | [], _ => ([], [], false, .more)
  | b :: bs, x =>
      if b.removed then
        let r := feedBranches bs x
        (b :: r.1, r.2.1, r.2.2.1, r.2.2.2)
      else if b.stopped then
        let r := feedBranches bs x
        ({ b with removed := true } :: r.1, r.2.1, true, r.2.2.2)
      else
        let f := feed feedTerm b.frames b.term x
        if f.ctl = .fuel then ({ b with frames := f.frames, term := f.sink } :: bs, f.out, false, f.ctl)
        else if f.ctl = .panic then
          -- `runConsumer` recovers: `done(panicToError(rec))`, the consumer has failed
          let r := feedBranches bs x
          ({ frames := f.frames, term := .done .err, stopped := true, removed := false } :: r.1,
            r.2.1 ++ f.out, r.2.2.1, r.2.2.2)
        else
          let r := feedBranches bs x
          ({ frames := f.frames, term := f.sink, stopped := f.ctl != .more, removed := false } :: r.1,
            r.2.1 ++ f.out, r.2.2.1, r.2.2.2)

def Term.failed {α} : Term α → Bool
  | .done .err => true
  | _ => false

/-- the consumer at the end of the main chain -/
inductive Sink (α : Type) where
  | one (t : Term α)
  | multi (bs : List (Branch α))

def feedSink {α} : FeedT α (Sink α)
  | .one t, x => let r := feedTerm t x; (.one r.1, r.2.1, r.2.2)
  | .multi bs, x =>
      let r := feedBranches bs x
      let bs' := r.1
      if r.2.2.2.isAbort then (.multi bs', r.2.1, r.2.2.2)
      else if bs'.any (fun b => b.term.failed) then (.multi bs', r.2.1, .stop)     -- errorTerm
      else if r.2.2.1 && bs'.all (fun b => b.removed) then (.multi bs', r.2.1, .stop)  -- `len(holders) == 0`
      else (.multi bs', r.2.1, .more)

def finishAll {α} : List (Branch α) → Res (List (Out α))
  | [] => .ok []
  | b :: bs =>
      match b.term.finish with
      | .ok o => (match finishAll bs with
          | .ok os => .ok (o :: os)
          | r => r)
      | .err => .err
      | .panic => .panic
      | .fuel => .fuel

def Sink.finish {α} : Sink α → Res (List (Out α))
  | .one t => match t.finish with
      | .ok o => .ok [o]
      | .err => .err
      | .panic => .panic
      | .fuel => .fuel
  | .multi bs => finishAll bs

/-- a consumer applied to a list: outcome, closure-call log (oldest first), elements pulled from sources -/
structure Outcome (α : Type) where
  res : Res (List (Out α))
  log : Log α
  pulled : Nat
  deriving Repr, DecidableEq

def initSt {α τ} (t : τ) : St α τ := ⟨[], t, [], 0⟩

/-- `l.<consumer>()`: run the list's producer against the consumer and take its result.
(`First`/`Single` on a list whose items are present read the slice directly; the result is the same as
driving `createSliceIterable`, no closure is involved.) -/
def consume {α} (l : LList α) (k : Sink α) : Outcome α :=
  if !l.buildable then ⟨.err, [], 0⟩ else
  let r := run feedSink l (initSt k)
  let res := match r.2 with
    | .panic => .panic
    | .fuel => .fuel
    | _ => r.1.sink.finish
  ⟨res, r.1.log.reverse, r.1.pulled⟩

/-- The two program shapes of the C08 harness: `let l = <list>; 0` (the list is built and dropped) and
`<list>.<consumer>`. Building a list is constructing its description: no producer function is invoked,
no frame exists, no closure can be called. -/
inductive Prog (α : Type) where
  | build (l : LList α)
  | consume (l : LList α) (k : Sink α)

def Prog.eval {α} : Prog α → Outcome α
  | .build l => if l.buildable then ⟨.ok [.int 0], [], 0⟩ else ⟨.err, [], 0⟩
  | .consume l k => P2.Iter.consume l k

/-- `numbers(n)` of value.go for an element type that embeds the naturals -/
def numbers (n : Nat) : LList Int := .gen n (fun i => .ok (i : Int))

end P2.Iter
