/-! Process model of the tokenizer goroutine and its unbuffered token channel (C12, C04).

`Tokenizer.run` (`/repo/token.go`) sends the tokens of the input one by one on an unbuffered channel
and closes the channel at the end of the input; it terminates when it has executed `close`. A send
on an unbuffered channel completes only in a rendezvous with a receive, `close` needs no partner.
`Parser.Parse` (`/repo/parser2.go`) receives through `Peek/PeekPeek/Next`, may return early, and
(since the repair of B12) drains the channel on every return path (`defer tokenizer.Drain()`). -/
namespace P2.Proc

/-- producer side: number of tokens still to be sent; `none` once the channel is closed
(= the goroutine has terminated) -/
abbrev Producer := Option Nat

def start (tokens : Nat) : Producer := some tokens

/-- internal step of the producer: with nothing left to send it closes the channel and terminates -/
def settle : Producer → Producer
  | some 0 => none
  | p => p

/-- one receive of the consumer: a rendezvous with a pending send, or the "closed" answer.
Returns the new producer state and whether a token was received. -/
def recv (p : Producer) : Producer × Bool :=
  match settle p with
  | some (n+1) => (settle (some n), true)
  | _ => (none, false)

/-- `r` receives in a row -/
def recvN : Nat → Producer → Producer
  | 0, p => settle p
  | r+1, p => recvN r (recv p).1

def terminated (p : Producer) : Bool := (settle p).isNone

/-- `Tokenizer.Drain`: receive until the channel is closed (fuel = tokens left + 1 suffices) -/
def drain : Nat → Producer → Producer
  | 0, p => p
  | f+1, p => let (p', got) := recv p; if got then drain f p' else p'

/-- the consumer of the pinned commit: `r` receives, then return -/
def parsePinned (tokens r : Nat) : Producer := recvN r (start tokens)

/-- the repaired consumer: `r` receives, then drain -/
def parseFixed (tokens r : Nat) : Producer := drain (tokens + 1) (recvN r (start tokens))

end P2.Proc

/-! ## Process model of a parallel map/accept stage (`iterator.initParallel` behind
`autoParallelStage`, `/repo/value/list.go`)

Processes: the main loop (sends the remaining `src` items of the source on the unbuffered `source`
channel, closes it at the end or when the stage was stopped), `idle + holding + exited` symmetric
workers (receive an item, map it, send the result on the unbuffered `result` channel; exit when
`source` is closed), the closer (closes `result` when all workers have exited) and the collector
(receives results and calls the consumer; ends when `result` is closed). Unbuffered channels: a send
is a rendezvous. `variantFixed = true` is the repaired code: when the consumer asks to stop, the stage
sets `stopped` (the source is cut off) and the collector keeps receiving and discards; `false` is the
pinned behaviour: the collector returns at once. -/

structure Par where
  src : Nat            -- items the main loop has not sent yet
  idle : Nat           -- workers waiting to receive
  holding : Nat        -- workers holding a result they have to send
  mainDone : Bool      -- `source` closed
  collector : Bool     -- collector goroutine alive (receiving)
  stopped : Bool       -- the consumer asked to stop
  deriving DecidableEq, Repr

def Par.init (items workers : Nat) : Par :=
  { src := items, idle := workers, holding := 0, mainDone := false, collector := true, stopped := false }

/-- every process has terminated -/
def Par.final (s : Par) : Prop := s.mainDone = true ∧ s.idle = 0 ∧ s.holding = 0 ∧ s.collector = false

inductive Step (fixed : Bool) : Par → Par → Prop
  /-- rendezvous main loop → idle worker -/
  | dispatch (s : Par) : s.mainDone = false → s.stopped = false → 0 < s.src → 0 < s.idle →
      Step fixed s { s with src := s.src - 1, idle := s.idle - 1, holding := s.holding + 1 }
  /-- the source is exhausted or was stopped: `close(source)` -/
  | mainEnd (s : Par) : s.mainDone = false → (s.src = 0 ∨ s.stopped = true) →
      Step fixed s { s with mainDone := true }
  /-- rendezvous worker → collector, the consumer wants more (or the result is discarded) -/
  | deliver (s : Par) : 0 < s.holding → s.collector = true →
      Step fixed s { s with holding := s.holding - 1, idle := s.idle + 1 }
  /-- rendezvous worker → collector, the consumer asks to stop -/
  | deliverStop (s : Par) : 0 < s.holding → s.collector = true → s.stopped = false →
      Step fixed s { s with holding := s.holding - 1, idle := s.idle + 1, stopped := true,
                            collector := fixed }
  /-- a worker sees `source` closed and exits -/
  | workerExit (s : Par) : s.mainDone = true → 0 < s.idle →
      Step fixed s { s with idle := s.idle - 1 }
  /-- all workers have exited: `result` is closed and the collector ends -/
  | collectorEnd (s : Par) : s.collector = true → s.mainDone = true → s.idle = 0 → s.holding = 0 →
      Step fixed s { s with collector := false }

inductive Reach (fixed : Bool) (s0 : Par) : Par → Prop
  | refl : Reach fixed s0 s0
  | step {s s'} : Reach fixed s0 s → Step fixed s s' → Reach fixed s0 s'

/-- decreases with every step: no run is longer than `measure init` -/
def Par.measure (s : Par) : Nat :=
  4 * s.src + 2 * s.holding + s.idle + (if s.mainDone then 0 else 1) + (if s.collector then 1 else 0)

/-! ## Process model of `multiUse` (`/repo/value/multiUse.go`)

`List.MultiUse` checks the entries of its map (a closure of one argument each), starts one consumer goroutine per entry
and then RUNS the source into them (`iterator.CopyProducer`): a consumer ends when the source was run to its end — with
the items, or with the error item a failing or panicking source is turned into (`recoverProducer`). A consumer that was
started for a source that is never run waits forever. -/
namespace P2.Proc

/-- what `MultiUse` leaves behind: consumers started, and whether the source was run -/
structure MU where
  started : Nat
  ran     : Bool
  deriving DecidableEq, Repr

/-- every consumer has ended -/
def MU.clean (s : MU) : Bool := s.ran || s.started == 0

/-- the code: validate EVERY entry first (`true` = a closure of one argument), return on the first invalid one; only
then start the consumers and run the source (whatever the source does: `run` always comes back) -/
def multiUse (entries : List Bool) : MU :=
  if entries.all id then { started := entries.length, ran := true } else { started := 0, ran := false }

/-- the code of a seeded change: each consumer is started as soon as its entry was found valid -/
def multiUseEager : List Bool → Nat → MU
  | [], n => { started := n, ran := true }
  | true :: rest, n => multiUseEager rest (n + 1)
  | false :: _, n => { started := n, ran := false }

end P2.Proc
