/-! Process model of the tokenizer goroutine and its unbuffered token channel (C12, C04).

`Tokenizer.run` (`/repo/token.go`) sends the tokens of the input one by one on an unbuffered channel
and closes the channel at the end of the input; it terminates when it has executed `close`. A send
on an unbuffered channel completes only in a rendezvous with a receive, `close` needs no partner.
`Parser.Parse` (`/repo/parser2.go`) receives through `Peek/PeekPeek/Next`, may return early, and
(since the repair of B12) drains the channel on every return path (`defer tokenizer.Drain()`). -/
namespace P2.Proc

/-- producer side: number of tokens still to be sent; `none` once the channel is closed
(= the goroutine has terminated) -/
abbrev Producer := Option Nat

def start (tokens : Nat) : Producer := some tokens

/-- internal step of the producer: with nothing left to send it closes the channel and terminates -/
def settle : Producer → Producer
  | some 0 => none
  | p => p

/-- one receive of the consumer: a rendezvous with a pending send, or the "closed" answer.
Returns the new producer state and whether a token was received. -/
def recv (p : Producer) : Producer × Bool :=
  match settle p with
  | some (n+1) => (settle (some n), true)
  | _ => (none, false)

/-- `r` receives in a row -/
def recvN : Nat → Producer → Producer
  | 0, p => settle p
  | r+1, p => recvN r (recv p).1

def terminated (p : Producer) : Bool := (settle p).isNone

/-- `Tokenizer.Drain`: receive until the channel is closed (fuel = tokens left + 1 suffices) -/
def drain : Nat → Producer → Producer
  | 0, p => p
  | f+1, p => let (p', got) := recv p; if got then drain f p' else p'

/-- the consumer of the pinned commit: `r` receives, then return -/
def parsePinned (tokens r : Nat) : Producer := recvN r (start tokens)

/-- the repaired consumer: `r` receives, then drain -/
def parseFixed (tokens r : Nat) : Producer := drain (tokens + 1) (recvN r (start tokens))

end P2.Proc
