import P2.Model.Memo
/-!
# The life cycle of generator, parser and generated functions as a state machine (C10 / C11)

What is shared between evaluations in the Go code is a handful of long-lived objects: the tables of the
`funcGen.FunctionGenerator` / `value.FunctionGenerator` and of its `parser2.Parser` (operators, static functions,
constants, method tables, type table — written by the builder methods `AddOp`, `AddStaticFunction`, `AddConstant`,
`RegisterMethods`, `SetOptimizer`, …), the package-level variables (`value.IntTypeId` …), the tables DERIVED from the
configuration on first use (`GetParser`: `parser` / `opMap` / `uMap`; `Parser.Parse`: `operatorDetect` / `opPos`), the
generated functions with their constants, and the memo cells of the lazy lists among those constants (`P2.Memo`).

This module models that life cycle: a configuration phase (any sequence of table writes), then an arbitrary history of
`parse` / `generate` / `eval` / `force` (the host touches a shared lazy list) / `newGen` (another generator is created
meanwhile) operations. It is PARAMETRIC in
* `Sem`: how Generate, Parse and an evaluation READ the shared state — deliberately as permissive as possible: the
  compiled function may depend on every table slot and every package variable, and so may the result of an evaluation
  (method lookup happens at run time, type ids are read by every operator dispatch);
* `Table`: which WRITES each kind of operation performs besides the ones the model has built in (the memo-cell store of
  `List.Eval`, the freeze of the derived tables). The Go side regenerates this table from the source on every run
  (`P2.Generated.SharedWrites`); `P2.Oblig.SharedWrites` classifies every row.
-/
namespace P2.Shared
open P2.Memo

/-- what a write touches -/
inductive Loc
  | cfg (k : Nat)     -- a slot of the generator / parser tables
  | pkg (k : Nat)     -- a package-level variable
  | derived           -- the tables derived from the configuration on first Parse / Generate
  | cell              -- the memo cell of a lazy list reachable from a constant (items / itemsPresent / producer)
  | priv              -- an object created by the operation itself: its stack, a list it builds, the AST and tokenizer of this parse
  deriving DecidableEq, Repr

/-- what protects it -/
inductive Guard
  | none | mutex | once | atomic
  | lazyNil           -- `if x == nil { x = … }` without synchronisation
  deriving DecidableEq, Repr

structure Write where
  loc   : Loc
  guard : Guard
  val   : Nat
  deriving DecidableEq, Repr

/-- harmless for LATER operations: the object is private to the operation, or it is the memo-cell store (whose effect is
`Cell.step`), or it is the idempotent freeze of the derived tables -/
def Write.ok (w : Write) : Bool :=
  match w.loc with
  | .priv => true
  | .cell => true
  | .derived => true
  | .cfg _ => false
  | .pkg _ => false

/-- harmless for CONCURRENT evaluations: private, or the memo-cell store under the cell's mutex -/
def Write.okConc (w : Write) : Bool :=
  match w.loc, w.guard with
  | .priv, _ => true
  | .cell, .mutex => true
  | _, _ => false

theorem Write.ok_of_okConc {w : Write} (h : w.okConc = true) : w.ok = true := by
  cases w with
  | mk loc guard val => cases loc <;> cases guard <;> simp_all [Write.ok, Write.okConc]

/-- the writes of the four kinds of operation (besides the built-in ones) -/
structure Table where
  evalW  : List Write      -- everything reachable from the generated function / Func.Eval / list iteration
  genW   : List Write      -- Generate (without the parse)
  parseW : List Write      -- Parser.Parse
  newW   : List Write      -- creating another generator (value.New)
  deriving Repr

/-- THE hypothesis of the theorems: every write reachable from an evaluation is private or the guarded memo-cell store; every
other write reachable from Generate / Parse / New is private, the memo-cell store, or the freeze of the derived tables -/
def Table.Allowed (T : Table) : Bool :=
  T.evalW.all Write.okConc && (T.genW ++ T.parseW ++ T.newW).all Write.ok

/-- a generated function: its code (whatever Generate computed from program and tables) and the producer of its lazy
constant -/
structure Fn where
  code : Nat
  src  : List Item
  deriving DecidableEq, Repr

/-- how the operations READ the shared state -/
structure Sem where
  /-- Generate: tables, package variables, program ↦ function -/
  compile : List Nat → List Nat → Nat → Fn
  /-- Parse: tables, derived tables, program text ↦ AST -/
  parse   : List Nat → Nat → Nat → Nat
  /-- what an evaluation with these arguments / free stack slots does with the lazy constant -/
  cellOp  : Fn → Nat → Nat → Op
  /-- the result of an evaluation: tables, package variables, function, arguments, what it saw of the lazy constant -/
  result  : List Nat → List Nat → Fn → Nat → Res → Nat
  /-- the derived tables -/
  derive  : List Nat → Nat

structure State where
  cfg     : List Nat
  pkg     : List Nat
  derived : Option Nat
  funs    : List (Fn × Cell)
  deriving DecidableEq, Repr

/-- the operations of the host after the configuration phase -/
inductive HOp
  | parse (p : Nat)
  | generate (p : Nat)
  | eval (f args free : Nat)
  | force (f : Nat) (o : Op)
  | newGen
  deriving DecidableEq, Repr

inductive Out
  | ast (n : Nat)
  | fn (f : Fn)
  | val (n : Nat)
  | seen (r : Res)
  | noSuchFunction
  | unit
  deriving DecidableEq, Repr

def applyWrite (s : State) (w : Write) : State :=
  match w.loc with
  | .cfg k => { s with cfg := s.cfg.set k w.val }
  | .pkg k => { s with pkg := s.pkg.set k w.val }
  | .derived => s
  | .cell => s
  | .priv => s

def writes (s : State) (ws : List Write) : State := ws.foldl applyWrite s

/-- first Parse / Generate: the derived tables are computed from the configuration as it is now -/
def freeze (sem : Sem) (s : State) : State :=
  match s.derived with
  | some _ => s
  | none => { s with derived := some (sem.derive s.cfg) }

def derivedOf (sem : Sem) (s : State) : Nat :=
  match s.derived with
  | some d => d
  | none => sem.derive s.cfg

/-- the configuration phase: builder methods write table slots -/
def configure (s : State) (ws : List (Nat × Nat)) : State :=
  ws.foldl (fun s kv => { s with cfg := s.cfg.set kv.1 kv.2 }) s

def step (sem : Sem) (T : Table) (s : State) : HOp → State × Out
  | .parse p =>
    (writes (freeze sem s) T.parseW, .ast (sem.parse s.cfg (derivedOf sem s) p))
  | .generate p =>
    let fn := sem.compile s.cfg s.pkg p
    let s1 := writes (freeze sem s) (T.parseW ++ T.genW)
    ({ s1 with funs := s1.funs ++ [(fn, fresh fn.src)] }, .fn fn)
  | .eval f args free =>
    match s.funs[f]? with
    | none => (s, .noSuchFunction)
    | some (fn, c) =>
      let r := c.step (sem.cellOp fn args free)
      (writes { s with funs := s.funs.set f (fn, r.1) } T.evalW, .val (sem.result s.cfg s.pkg fn args r.2))
  | .force f o =>
    match s.funs[f]? with
    | none => (s, .noSuchFunction)
    | some (fn, c) =>
      let r := c.step o
      ({ s with funs := s.funs.set f (fn, r.1) }, .seen r.2)
  | .newGen => (writes s T.newW, .unit)

def run (sem : Sem) (T : Table) (s : State) : List HOp → State
  | [] => s
  | o :: os => run sem T (step sem T s o).1 os

def outcomes (sem : Sem) (T : Table) (s : State) : List HOp → List Out
  | [] => []
  | o :: os => (step sem T s o).2 :: outcomes sem T (step sem T s o).1 os

/-! ## Concurrent evaluations of one function

At the granularity the Go code offers: an access to the memo cell is ONE atomic step when it happens under the cell's mutex
(`List.Eval` holds it for the whole materialisation, `iterable` / `evaluated` for their reads); every other write of the
table is a step of its own. Two steps of different evaluations CONFLICT when they touch the same shared location, one of
them writes, and they are not both inside critical sections of the same mutex; a schedule with two adjacent conflicting
steps is a data race. -/

inductive Acc
  | cellCrit (args free : Nat)   -- the evaluation's access to the lazy constant, under the mutex
  | cellRaw (args free : Nat)    -- the same access without the mutex (the code before the repair c0afced)
  | w (w : Write)
  deriving DecidableEq, Repr

/-- the cell accesses of an evaluation are critical sections iff every cell write of the table is under the mutex -/
def Table.cellGuarded (T : Table) : Bool :=
  T.evalW.all (fun w => match w.loc with | .cell => w.guard == .mutex | _ => true)

/-- the atomic steps of one evaluation -/
def evalAtoms (T : Table) (args free : Nat) : List Acc :=
  (if T.cellGuarded then Acc.cellCrit args free else Acc.cellRaw args free) ::
    (T.evalW.filter (fun w => match w.loc with | .cell => false | _ => true)).map Acc.w

def sameLoc : Loc → Loc → Bool
  | .cfg a, .cfg b => a == b
  | .pkg a, .pkg b => a == b
  | .derived, .derived => true
  | .cell, .cell => true
  | _, _ => false      -- private objects are never the same object in two evaluations

/-- two steps of DIFFERENT evaluations conflict -/
def conflict : Acc → Acc → Bool
  | .cellCrit _ _, .cellCrit _ _ => false
  | .cellRaw _ _, .cellRaw _ _ => true
  | .cellRaw _ _, .cellCrit _ _ => true
  | .cellCrit _ _, .cellRaw _ _ => true
  | .w a, .w b => sameLoc a.loc b.loc && !(a.guard == .mutex && b.guard == .mutex) && !(a.guard == .atomic && b.guard == .atomic)
  | .w a, .cellCrit _ _ => sameLoc a.loc .cell && a.guard != .mutex
  | .cellCrit _ _, .w a => sameLoc a.loc .cell && a.guard != .mutex
  | .w a, .cellRaw _ _ => sameLoc a.loc .cell
  | .cellRaw _ _, .w a => sameLoc a.loc .cell

/-- a schedule (thread id, step) has two adjacent conflicting steps of different threads -/
def hasRace : List (Bool × Acc) → Bool
  | [] => false
  | [_] => false
  | a :: b :: rest => (a.1 != b.1 && conflict a.2 b.2) || hasRace (b :: rest)

/-- the shared state two concurrent evaluations of one function see -/
structure CState where
  cfg  : List Nat
  pkg  : List Nat
  cell : Cell
  deriving DecidableEq, Repr

def cstep (sem : Sem) (fn : Fn) (s : CState) : Acc → CState × Option Nat
  | .cellCrit args free =>
    let r := s.cell.step (sem.cellOp fn args free)
    ({ s with cell := r.1 }, some (sem.result s.cfg s.pkg fn args r.2))
  | .cellRaw args free =>
    let r := s.cell.step (sem.cellOp fn args free)
    ({ s with cell := r.1 }, some (sem.result s.cfg s.pkg fn args r.2))
  | .w w =>
    match w.loc with
    | .cfg k => ({ s with cfg := s.cfg.set k w.val }, none)
    | .pkg k => ({ s with pkg := s.pkg.set k w.val }, none)
    | _ => (s, none)

/-- the results the evaluations of a schedule return, in the order in which they access the lazy constant -/
def cresults (sem : Sem) (fn : Fn) : CState → List (Bool × Acc) → List (Bool × Nat)
  | _, [] => []
  | s, (t, a) :: rest =>
    match (cstep sem fn s a).2 with
    | some v => (t, v) :: cresults sem fn (cstep sem fn s a).1 rest
    | none => cresults sem fn (cstep sem fn s a).1 rest

/-- what the same steps return on the untouched function (fresh cell, the tables as they were) -/
def isolatedResults (sem : Sem) (fn : Fn) (cfg pkg : List Nat) : List (Bool × Acc) → List (Bool × Nat)
  | [] => []
  | (t, .cellCrit args free) :: rest =>
    (t, sem.result cfg pkg fn args (isolated fn.src (sem.cellOp fn args free))) :: isolatedResults sem fn cfg pkg rest
  | (t, .cellRaw args free) :: rest =>
    (t, sem.result cfg pkg fn args (isolated fn.src (sem.cellOp fn args free))) :: isolatedResults sem fn cfg pkg rest
  | (_, .w _) :: rest => isolatedResults sem fn cfg pkg rest

/-- an interleaving of the steps of two evaluations, tagged with who steps -/
inductive Interleave : List Acc → List Acc → List (Bool × Acc) → Prop
  | nil : Interleave [] [] []
  | left {a as bs cs} : Interleave as bs cs → Interleave (a :: as) bs ((true, a) :: cs)
  | right {b as bs cs} : Interleave as bs cs → Interleave as (b :: bs) ((false, b) :: cs)

end P2.Shared
