import P2.Model.Basic
import P2.Spec.FMap
/-! # Model of the map storages (C13)

Mirrors, constructor by constructor, every `MapStorage` implementation of the library:

| model            | Go                                                                    |
|------------------|-----------------------------------------------------------------------|
| `St.list`        | `listMap.ListMap` (value/…: literals, results of map/accept/combine, small `createFlat`) |
| `St.real`        | `value.RealMap` (`eval`, `createFlat` above 20 keys) — a Go map: iteration order unspecified |
| `St.empty`       | `value.emptyMapStorage`                                               |
| `St.append`      | `value.AppendMap` (`put`)                                             |
| `St.merge`       | `value.MergeMap` (`+`)                                                |
| `St.replace`     | `value.ReplaceMap` with its `depth` (`replace`)                       |
| `St.func`        | `value.funcMapType` (`NewFuncMapFactory(fn, keys…).Create(x)`; `f = fn x`) |
| `St.wrap`        | `value.toMapWrapper` (`NewToMap`/`NewToMapReflection`): a Go map name → getter applied to the container |
| `St.bin`         | `value.bin` (value/binning.go, the bin descriptions of `binning`)     |

The three methods `Get / Iter / Size` are `get / iter / size`. `Iter(yield)` is modelled by the list of
entries it passes to `yield` in order; a consumer that stops early sees a prefix (the consumers below
are written as recursions over that list with their early exits). Values are an abstract type `V`.

The code modelled is the **repaired** code (`ReplaceMap.Get`, `bin.Size`, `Merge`); the behaviour of the
pinned commit is kept in `namespace Pinned` below and refuted on concrete witnesses in `Props/C13.lean`. -/
namespace P2.MapSt
open P2.FMap

variable {V W : Type}

/-- `listMap.ListMap.Append(key, v)` and the Go map assignment `m[key] = v`: the value of an existing
key is overwritten, otherwise the entry is added (at the end of the list; anywhere in a Go map). -/
def setEntry : Entries V → String → V → Entries V
  | [], k, v => [(k, v)]
  | (k', v') :: rest, k, v => if k' = k then (k', v) :: rest else (k', v') :: setEntry rest k v

/-- a `ListMap` / Go map filled entry by entry starting from the empty one -/
def fromEntries (es : Entries V) : Entries V := es.foldl (fun acc e => setEntry acc e.1 e.2) []

inductive St (V : Type) where
  | list (es : Entries V)
  | real (es : Entries V)
  | empty
  | append (key : String) (value : V) (parent : St V)
  | merge (a b : St V)
  | replace (orig rep : St V) (depth : Nat)
  | func (keys : List String) (f : String → Option V)
  | wrap (attr : Entries V)
  | bin (isMin isMax : Bool) (str mn mx : V)

/-- `Get(key)`: `none` = `(_, false)` -/
def get : St V → String → Option V
  | .list es, x => lookup es x                       -- linear search, first match
  | .real es, x => lookup es x                       -- Go map index
  | .empty, _ => none
  | .append k v p, x => if x = k then some v else get p x
  | .merge a b, x => match get a x with | some v => some v | none => get b x
  | .replace o r _, x =>                             -- repaired: only keys of the original map
    match get o x with
    | none => none
    | some v => match get r x with | some w => some w | none => some v
  | .func _ f, x => f x                              -- fMap(value, key): the list of keys is not consulted
  | .wrap es, x => lookup es x                       -- attr[key] then f(container)
  | .bin isMin isMax s mn mx, x =>
    if x = "str" then some s
    else if x = "min" then (if isMin then some mn else none)
    else if x = "max" then (if isMax then some mx else none)
    else none

/-- the entries `Iter` yields, in order (for `real`/`wrap`: in *one* of the possible orders) -/
def iter : St V → Entries V
  | .list es => es
  | .real es => es
  | .empty => []
  | .append k v p => (k, v) :: iter p
  | .merge a b => iter a ++ iter b
  | .replace o r _ => (iter o).map fun e => (e.1, (get r e.1).getD e.2)
  | .func ks f => ks.filterMap fun k => (f k).map fun v => (k, v)     -- keys with `!ok` are skipped
  | .wrap es => es
  | .bin isMin isMax s mn mx =>
    ("str", s) :: ((if isMin then [("min", mn)] else []) ++ (if isMax then [("max", mx)] else []))

def size : St V → Nat
  | .list es => es.length
  | .real es => es.length
  | .empty => 0
  | .append _ _ p => size p + 1
  | .merge a b => size a + size b
  | .replace o _ _ => size o
  | .func ks _ => ks.length
  | .wrap es => es.length
  | .bin isMin isMax _ _ _ => 1 + (if isMin then 1 else 0) + (if isMax then 1 else 0)   -- repaired

/-- the abstraction function: the finite map a storage denotes (as the list `Iter` produces) -/
abbrev abs (s : St V) : Entries V := iter s

/-! ### the operations that build maps -/

/-- `Map.PutM`: the uniqueness check through `Get`, then an `AppendMap` -/
def putOp (s : St V) (k : String) (v : V) : Res (St V) :=
  match get s k with
  | some _ => .err
  | none => .ok (.append k v s)

/-- `Map.Merge` (repaired): `other.Iter` until the first key that `v.Get` knows; found ⇒ error -/
def mergeOp (a b : St V) : Res (St V) :=
  if (iter b).any (fun e => (get a e.1).isSome) then .err else .ok (.merge a b)

def depthOf : St V → Nat
  | .replace _ _ d => d
  | _ => 0

/-- the two tuning constants of `Map.Replace` / `createFlat`; `tie extract` measures them on the real
code on every run (`P2/Generated/MapCfg.lean`), the theorems hold for all values -/
structure Cfg where
  /-- `if depth >= 10`: a replace on top of a chain of this depth is flattened -/
  flatDepth : Nat
  /-- `if size > 20`: the smallest `Size` for which `createFlat` builds a `RealMap` -/
  realFrom : Nat

/-- `ReplaceMap.createFlat`: copy what `Iter` yields into a `RealMap` (more than 20 entries by `Size`) or
a `ListMap` -/
def createFlat (cfg : Cfg) (s : St V) : St V :=
  if size s ≥ cfg.realFrom then .real (fromEntries (iter s)) else .list (fromEntries (iter s))

/-- `Map.Replace` once the function has returned the replacement map `r` -/
def replaceOp (cfg : Cfg) (o r : St V) : St V :=
  let depth := max (depthOf o) (depthOf r)
  let rm := St.replace o r (depth + 1)
  if depth ≥ cfg.flatDepth then createFlat cfg rm else rm

/-- `Map.Eval`: copy into a fresh `RealMap` -/
def evalOp (s : St V) : St V := .real (fromEntries (iter s))

/-- the common loop of `Map.Map`, `Map.Accept`, `Map.Combine`: walk the entries, call back (`none` =
the callback returned an error: stop with that error), `Append` the produced entry if there is one -/
def collect (g : String → V → Option (Option W)) : Entries W → Entries V → Res (Entries W)
  | acc, [] => .ok acc
  | acc, (k, v) :: rest =>
    match g k v with
    | none => .err
    | some none => collect g acc rest
    | some (some w) => collect g (setEntry acc k w) rest

def listRes (r : Res (Entries W)) : Res (St W) :=
  match r with
  | .ok es => .ok (.list es)
  | .err => .err
  | .panic => .panic
  | .fuel => .fuel

/-- `Map.Map(f)` -/
def mapOp (f : String → V → Option W) (s : St V) : Res (St W) :=
  listRes (collect (fun k v => (f k v).map some) [] (iter s))

/-- `Map.Accept(p)`; a callback result that is not a bool is an error as well (`none`) -/
def acceptOp (p : String → V → Option Bool) (s : St V) : Res (St V) :=
  listRes (collect (fun k v => (p k v).map fun b => if b then some v else none) [] (iter s))

/-- `Map.Combine(other, f)`: a key missing in `other` is an error -/
def combineOp (f : V → V → Option V) (a b : St V) : Res (St V) :=
  listRes (collect (fun k v => match get b k with
    | some o => (f v o).map some
    | none => none) [] (iter a))

/-- `Parser.parseMap`: every key is looked up in the entries read so far (`key used twice` error), then
appended -/
def parseMapLoop : Entries V → Entries V → Res (Entries V)
  | acc, [] => .ok acc
  | acc, (k, a) :: rest =>
    match lookup acc k with
    | some _ => .err
    | none => parseMapLoop (setEntry acc k a) rest

/-- a map literal: `parseMap`, then `genCodeMap` and the evaluation of the literal (or the optimizer's
constant folding) copy the entries with `Append` once more each -/
def litOp (es : Entries V) : Res (St V) :=
  listRes ((parseMapLoop [] es).bind fun m => .ok (fromEntries (fromEntries m)))

/-- `NewToMap().Attr(k₁, f₁)….Create(c)`: `attr[k] = f` Go map assignments; values are `fᵢ(c)` -/
def wrapOp (attrs : Entries V) : St V := .wrap (fromEntries attrs)

/-- a `RealMap` filled by Go map assignments (or written as a Go map literal) -/
def realOp (es : Entries V) : St V := .real (fromEntries es)

/-! ### observers -/

/-- member access `.k` (`FunctionGenerator.AccessMap`) and the method `get` (`Map.GetM`) -/
def access (s : St V) (k : String) : Res V := Res.ofOption (get s k)

/-- `isAvail(k₁,…)` -/
def isAvail (s : St V) (ks : List String) : Bool := ks.all fun k => (get s k).isSome

/-- `k ~ m` (`Map.ContainsKey`) -/
def containsKey (s : St V) (k : String) : Bool := (get s k).isSome

/-- `list()`: one two-entry `ListMap` `{key: k, value: v}` per entry -/
def listObs (s : St V) : List (St (String ⊕ V)) :=
  (iter s).map fun e => .list (setEntry (setEntry [] "key" (.inl e.1)) "value" (.inr e.2))

/-- `string()` / `Map.ToString`: `sh` is the string conversion of the values (`none` = error) -/
def toStr (sh : V → Option String) (s : St V) : Res String :=
  match (iter s).mapM fun e => (sh e.2).map fun t => e.1 ++ ":" ++ t with
  | none => .err
  | some parts => .ok ("{" ++ ", ".intercalate parts ++ "}")

/-- the loop of `Map.Equals` over the entries of the left map -/
def equalsLoop (eq : V → V → Option Bool) (other : St V) : Entries V → Res Bool
  | [] => .ok true
  | (k, v) :: rest =>
    match get other k with
    | none => .ok false
    | some o =>
      match eq o v with
      | none => .err
      | some false => .ok false
      | some true => equalsLoop eq other rest

/-- `Map.Equals` (`=` on maps, `operationMatrixDeepEqual`): `eq` compares two values (`none` = error) -/
def equals (eq : V → V → Option Bool) (a b : St V) : Res Bool :=
  if size a ≠ size b then .ok false else equalsLoop eq b (iter a)

/-- `export.Export` on a map: collect the keys by `Iter`, sort them, `Get` each one -/
def exportKV (sort : List String → List String) (s : St V) : Entries V :=
  (sort (keys (iter s))).filterMap fun k => (get s k).map fun v => (k, v)

/-! ### histories of operations -/

/-- the ways a map value comes into being; `var i` is the argument of the `i`-th enclosing `replace`
function (`m -> …`), innermost first -/
inductive Hist (V : Type) where
  | lit (es : Entries V)
  | emptyMap
  | var (i : Nat)
  | put (h : Hist V) (k : String) (v : V)
  | merge (a b : Hist V)
  | replace (o r : Hist V)
  | eval (h : Hist V)
  | map (h : Hist V) (f : String → V → Option V)
  | accept (h : Hist V) (p : String → V → Option Bool)
  | combine (a b : Hist V) (f : V → V → Option V)
  | func (keys : List String) (f : String → Option V)
  | wrap (attrs : Entries V)
  | real (es : Entries V)
  | bin (isMin isMax : Bool) (str mn mx : V)

def run (cfg : Cfg) : List (St V) → Hist V → Res (St V)
  | _, .lit es => litOp es
  | _, .emptyMap => .ok .empty
  | env, .var i => match env[i]? with | some s => .ok s | none => .err
  | env, .put h k v => (run cfg env h).bind fun s => putOp s k v
  | env, .merge a b => (run cfg env a).bind fun x => (run cfg env b).bind fun y => mergeOp x y
  | env, .replace o r =>
    (run cfg env o).bind fun x => (run cfg (x :: env) r).bind fun y => .ok (replaceOp cfg x y)
  | env, .eval h => (run cfg env h).bind fun s => .ok (evalOp s)
  | env, .map h f => (run cfg env h).bind fun s => mapOp f s
  | env, .accept h p => (run cfg env h).bind fun s => acceptOp p s
  | env, .combine a b f => (run cfg env a).bind fun x => (run cfg env b).bind fun y => combineOp f x y
  | _, .func ks f => .ok (.func ks f)
  | _, .wrap attrs => .ok (wrapOp attrs)
  | _, .real es => .ok (realOp es)
  | _, .bin isMin isMax s mn mx => .ok (.bin isMin isMax s mn mx)

/-- the source types with the three methods of `MapStorage` and where they are in this model (checked
against the source tree by `P2/Oblig/MapStorages.lean`) -/
def modelledStorages : List (String × String) := [
  ("listMap.ListMap", "St.list"), ("value.RealMap", "St.real"), ("value.emptyMapStorage", "St.empty"),
  ("value.AppendMap", "St.append"), ("value.MergeMap", "St.merge"), ("value.ReplaceMap", "St.replace"),
  ("value.funcMapType", "St.func"), ("value.toMapWrapper", "St.wrap"), ("value.bin", "St.bin"),
  ("value.Map", "the map value itself: delegates to its storage (ReplaceMap keeps its replacement as a Map)")]

/-- the methods registered for maps (`createMapMethods`) and their model -/
def modelledMethods : List (String × String) := [
  ("eval", "evalOp"), ("accept", "acceptOp"), ("map", "mapOp"), ("list", "listObs"), ("size", "size"),
  ("string", "toStr"), ("isAvail", "isAvail"), ("get", "access"), ("put", "putOp"),
  ("replace", "replaceOp"), ("combine", "combineOp"),
  ("replaceMap", "calls the function with the map and returns its result: builds no storage")]

/-! ### the behaviour of the pinned commit (before the three `fix:` commits) -/
namespace Pinned

/-- `ReplaceMap.Get` asked the replacement first, for any key -/
def get : St V → String → Option V
  | .list es, x => lookup es x
  | .real es, x => lookup es x
  | .empty, _ => none
  | .append k v p, x => if x = k then some v else get p x
  | .merge a b, x => match get a x with | some v => some v | none => get b x
  | .replace o r _, x => match get r x with | some w => some w | none => get o x
  | .func _ f, x => f x
  | .wrap es, x => lookup es x
  | .bin isMin isMax s mn mx, x =>
    if x = "str" then some s
    else if x = "min" then (if isMin then some mn else none)
    else if x = "max" then (if isMax then some mx else none)
    else none

def iter : St V → Entries V
  | .list es => es
  | .real es => es
  | .empty => []
  | .append k v p => (k, v) :: iter p
  | .merge a b => iter a ++ iter b
  | .replace o r _ => (iter o).map fun e => (e.1, (get r e.1).getD e.2)
  | .func ks f => ks.filterMap fun k => (f k).map fun v => (k, v)
  | .wrap es => es
  | .bin isMin isMax s mn mx =>
    ("str", s) :: ((if isMin then [("min", mn)] else []) ++ (if isMax then [("max", mx)] else []))

/-- `bin.Size()` was the constant 3 -/
def size : St V → Nat
  | .list es => es.length
  | .real es => es.length
  | .empty => 0
  | .append _ _ p => size p + 1
  | .merge a b => size a + size b
  | .replace o _ _ => size o
  | .func ks _ => ks.length
  | .wrap es => es.length
  | .bin _ _ _ _ _ => 3

/-- `Merge` remembered the colliding key in a string and tested `exists != ""` -/
def mergeOp (a b : St V) : Res (St V) :=
  let exist := match (iter b).find? (fun e => (get a e.1).isSome) with
    | some e => e.1
    | none => ""
  if exist ≠ "" then .err else .ok (.merge a b)

def createFlat (s : St V) : St V :=
  if size s > 20 then .real (fromEntries (iter s)) else .list (fromEntries (iter s))

end Pinned

end P2.MapSt
