import P2.Model.Reorder
/-! Data-carrying process model of a parallel `map`/`accept` stage (C06).

`/repo/value/list.go` `autoParallelStage` around `iterator.MapAuto` / `initParallel` (module cache,
read-only): the main loop hands the source items, numbered in source order, to the workers; a worker
computes the outcome of its item (`stageItem`: a value, an error, or "dropped" for an element `accept`
rejects) and sends `(index, outcome)` to the collector; the collector (`nextOut`, `buffer`, the inner
drain loop = `P2.Reorder.arrive`) calls the consumer wrapper in index order; the wrapper skips dropped
items, hands values and errors to the downstream consumer and, once the consumer has asked to stop, sets
`stopped` and discards whatever is still delivered.

The schedule is the order of `dispatch` and `arrive` steps: ANY held result may arrive next, and the
main loop may go on dispatching for as long as there is an idle worker, also after the consumer has
stopped (it reads `stopped` without synchronisation with the collector) — an over-approximation of the
schedules of the Go runtime. The sequential phase of `MapAuto` (items before the switch) is the schedule
in which every dispatch is followed at once by the arrival of that item.

`arrivePinned` is the collector as the external library drives it when workers DO return errors (the
code before the repair): the first error that arrives is kept in `err` and handed to the consumer with
the next in-sequence item. -/
namespace P2.ParStage
open P2.Reorder

/-- outcome of one item -/
inductive Out (β : Type) where
  | val (b : β)
  | err (e : String)
  | drop
  deriving DecidableEq, Repr

/-- the consumer wrapper: state = (what the downstream consumer has received, stopped) -/
def emit {β} (more : List (Out β) → Bool) (st : List (Out β) × Bool) (o : Out β) : List (Out β) × Bool :=
  if st.2 then st
  else match o with
    | .drop => st
    | o => (st.1 ++ [o], !more (st.1 ++ [o]))

/-- the sequential stage: the outcomes in source order through the wrapper -/
def seqRun {β} (more : List (Out β) → Bool) (outs : List (Out β)) : List (Out β) × Bool :=
  outs.foldl (emit more) ([], false)

structure St (β : Type) where
  next : Nat                 -- number of source items handed to workers
  inflight : List Nat        -- indices of the results held by workers
  seen : List Nat            -- ghost: indices that have arrived at the collector
  c : C (Out β)              -- the collector

def init (β : Type) : St β := { next := 0, inflight := [], seen := [], c := { nextOut := 0, buffer := [], out := [] } }

/-- outcome of item `i` (`drop` beyond the end; never used there) -/
def valsOf {α β} (items : List α) (f : α → Out β) (i : Nat) : Out β :=
  match items[i]? with
  | some x => f x
  | none => .drop

inductive Step {α β} (items : List α) (f : α → Out β) (workers : Nat) : St β → St β → Prop
  /-- the main loop hands the next source item to an idle worker -/
  | dispatch (s : St β) : s.next < items.length → s.inflight.length < workers →
      Step items f workers s { s with next := s.next + 1, inflight := s.next :: s.inflight }
  /-- any held result arrives at the collector -/
  | arrive (s : St β) (i : Nat) : i ∈ s.inflight →
      Step items f workers s { s with inflight := s.inflight.erase i, seen := i :: s.seen,
                                      c := arrive s.c (i, valsOf items f i) }

inductive Reach {α β} (items : List α) (f : α → Out β) (workers : Nat) : St β → Prop
  | init : Reach items f workers (init β)
  | step {s s'} : Reach items f workers s → Step items f workers s s' → Reach items f workers s'

/-- what the downstream consumer has received, and whether it has asked to stop -/
def delivered {β} (more : List (Out β) → Bool) (s : St β) : List (Out β) × Bool :=
  s.c.out.foldl (emit more) ([], false)

/-- the stage is over: no result is in flight, and the source is exhausted or the consumer has stopped -/
def final {α β} (items : List α) (more : List (Out β) → Bool) (s : St β) : Prop :=
  s.inflight = [] ∧ (s.next = items.length ∨ (delivered more s).2 = true)

/-! ## the pinned collector: a sticky first-arrived error -/

structure CP (β : Type) where
  nextOut : Nat
  buffer : List (Nat × Out β)
  err : Option String
  out : List (Out β)

def flushP {β} : Nat → CP β → CP β
  | 0, c => c
  | f+1, c => match lookup c.buffer c.nextOut with
    | some v => flushP f { c with nextOut := c.nextOut + 1, buffer := erase c.buffer c.nextOut, out := c.out ++ [v] }
    | none => c

def arrivePinned {β} (c : CP β) (r : Nat × Out β) : CP β :=
  let err := match r.2, c.err with
    | .err e, none => some e
    | _, e => e
  if r.1 = c.nextOut then
    -- `yield(r.val, err)`: the kept error, not the item's own outcome
    let o := match err with | some e => Out.err e | none => r.2
    let c' := { c with nextOut := c.nextOut + 1, err := err, out := c.out ++ [o] }
    flushP c'.buffer.length c'
  else { c with buffer := r :: c.buffer, err := err }

def collectPinned {β} (arrivals : List (Nat × Out β)) : List (Out β) :=
  (arrivals.foldl arrivePinned { nextOut := 0, buffer := [], err := none, out := [] }).out

end P2.ParStage
