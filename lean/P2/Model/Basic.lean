/-! Shared basics of the model: outcomes, protocol helpers (hex, splitting). Core Lean only. -/
namespace P2

/-- Outcome of an evaluation in the model (§2.3 of DESIGN.md). -/
inductive Res (α : Type) where
  | ok (a : α)
  | err            -- an ordinary error value returned by the Go code
  | panic          -- a Go run-time panic at a modelled site
  | fuel           -- the model ran out of fuel (never compared as equal to anything)
  deriving Repr, DecidableEq, Inhabited

namespace Res
@[inline] def bind {α β} (x : Res α) (f : α → Res β) : Res β :=
  match x with
  | ok a => f a
  | err => err
  | panic => panic
  | fuel => fuel
instance : Monad Res where
  pure := ok
  bind := bind
@[simp] theorem bind_ok {α β} (a : α) (f : α → Res β) : (Res.ok a >>= f) = f a := rfl
@[simp] theorem bind_err {α β} (f : α → Res β) : ((Res.err : Res α) >>= f) = .err := rfl
@[simp] theorem bind_panic {α β} (f : α → Res β) : ((Res.panic : Res α) >>= f) = .panic := rfl
@[simp] theorem bind_fuel {α β} (f : α → Res β) : ((Res.fuel : Res α) >>= f) = .fuel := rfl
@[simp] theorem pure_eq {α} (a : α) : (pure a : Res α) = .ok a := rfl
def ofOption {α} : Option α → Res α
  | some a => .ok a
  | none => .err
end Res

/-! ### protocol helpers -/

def hexDigitVal (c : Char) : Option Nat :=
  if '0' ≤ c ∧ c ≤ '9' then some (c.toNat - 48)
  else if 'a' ≤ c ∧ c ≤ 'f' then some (c.toNat - 87)
  else if 'A' ≤ c ∧ c ≤ 'F' then some (c.toNat - 55)
  else none

def hexDigitChar (n : Nat) : Char := if n < 10 then Char.ofNat (48 + n) else Char.ofNat (87 + n)

/-- parse a decimal natural, rejecting the empty string and non-digits -/
def parseNat? (s : String) : Option Nat := s.toNat?

def parseInt? (s : String) : Option Int := s.toInt?

/-- code points as decimal numbers separated by '.', e.g. "104.105" ; "" is the empty sequence -/
def parseCps (s : String) : Option (List Nat) :=
  if s.isEmpty then some [] else (s.splitOn ".").mapM (·.toNat?)

def showCps (l : List Nat) : String := ".".intercalate (l.map toString)

def cpsToChars (l : List Nat) : List Char := l.map Char.ofNat
def charsToCps (l : List Char) : List Nat := l.map Char.toNat

end P2
