import P2.Model.Basic
/-! # Generic generator model (C19, reused by C02)

The type-generic paths of `funcGen` with the optional handlers (list, map, closure, method) absent:
what `example/bool.go` and `example/minimal.go` exercise.  Everything is generic in the value type `V`.

* `E V`       — expressions: constants, identifiers, unary and binary operators, calls of registered
                one-argument static functions (`AddSimpleFunction`), `let`, `if`.
* `Table V`   — the configuration of a `FunctionGenerator[V]`: operator implementations with their
                `IsPure` / `IsCommutative` flags, unary operators, static functions, `toBool`.
* `eval`      — reference semantics ("the operators' own definitions"), environment based.
* `rule`      — `optimizer.Optimize` (funcGen/optimizer.go) for one node whose children are optimised:
                binary fold, the two regrouping rules, unary fold, constant `if`, pure static call.
* `optimize`  — `parser2.Optimize`/`opt` and the nodes' `Optimize` methods: children first, then the
                node; the value of a `Let` is **not** revisited.
* `resolve`      — what `parseLet`/`parseLiteral` do with identifiers: a `let` whose (optimised) value is
                a constant becomes a constant identifier (substitution), otherwise a `Let` node.
* `gen`/`exec`— `GenerateFunc` for the closure-free fragment (names → stack slots) and the execution of
                the generated Go closures on the shared stack storage (`Push`, `CreateFrame`, `Get`).

What "pure" means here: an operator implementation is a Lean *function* `V → V → Option V`, so it is
deterministic and silent by construction — the model can only express operators whose result depends
on the operands alone.  The `pure` flag is the permission the optimizer looks at (`IsPure`); an operator
whose real implementation reads hidden state is outside this model (C02's full model carries a call log).
Errors are `none`; error texts are not modelled.  A panic inside a host operator is recovered by the
function returned from `Generate` and surfaces as an error, it is therefore identified with `none`.
Core Lean only. -/
namespace P2.Generic

/-- expressions of the closure-free fragment -/
inductive E (V : Type) where
  | const (v : V)
  | var (x : String)
  | un (o : String) (a : E V)
  | op (o : String) (a b : E V)
  | call (f : String) (a : E V)
  | letE (x : String) (v b : E V)
  | ite (c t e : E V)
  deriving Repr, Inhabited

/-- configuration of a generator (`funcGen.FunctionGenerator[V]`) -/
structure Table (V : Type) where
  /-- `Operator.Impl.Calc`; `none` = the implementation returns an error -/
  sem : String → V → V → Option V
  /-- `Operator.IsPure` -/
  pure : String → Bool
  /-- `Operator.IsCommutative` -/
  comm : String → Bool
  /-- `UnaryOperator.Impl.Calc` -/
  usem : String → V → Option V
  /-- registered static functions with `Args = 1` (`none` = no such function) -/
  fn : String → Option (V → Option V)
  /-- `Function.IsPure` of a static function -/
  fpure : String → Bool
  /-- `SetToBool`; `none` = not configured (the `If` node is then "not supported") -/
  toBool : Option (V → Option Bool)

variable {V : Type}

/-- run-time environment: the values of the argument names and of the enclosing `let`s -/
abbrev Env (V : Type) := String → Option V

def Env.set (env : Env V) (x : String) (v : V) : Env V := fun y => if y = x then some v else env y

def Env.empty : Env V := fun _ => none

/-- reference semantics: the value given by the operators' own definitions -/
def eval (t : Table V) : E V → Env V → Option V
  | .const v, _ => some v
  | .var x, env => env x
  | .un o a, env => (eval t a env).bind (t.usem o)
  | .op o a b, env => (eval t a env).bind fun x => (eval t b env).bind fun y => t.sem o x y
  | .call f a, env =>
    match t.fn f with
    | none => none
    | some g => (eval t a env).bind g
  | .letE x v b, env => (eval t v env).bind fun xv => eval t b (env.set x xv)
  | .ite c th el, env =>
    match t.toBool with
    | none => none
    | some tb => (eval t c env).bind fun cv =>
      match tb cv with
      | none => none
      | some true => eval t th env
      | some false => eval t el env

/-! ### optimizer -/

/-- `optimizer.Optimize` for one node (the children are already optimised).  Line by line:
the `Operate` block — `B` constant; if `IsPure` and `A` constant: fold (an error leaves the node);
otherwise if `IsCommutative` and `A` is an `Operate` **with the same operator**: inner `A` constant →
`(c₁∘x)∘c₂ ⇒ (c₁∘c₂)∘x`, else inner `B` constant → `(x∘c₁)∘c₂ ⇒ x∘(c₁∘c₂)` —, the `Unary` block,
the constant `if` (only when `toBool` is configured and succeeds), the pure static call. -/
def rule (t : Table V) : E V → E V
  | .op o a (.const bc) =>
    match a with
    | .const ac =>
      if t.pure o then
        match t.sem o ac bc with
        | some co => .const co
        | none => .op o a (.const bc)
      else .op o a (.const bc)            -- (a constant `A` is never an `Operate`: no regrouping)
    | .op o' (.const iac) x =>
      if t.comm o ∧ o' = o then
        match t.sem o iac bc with
        | some co => .op o (.const co) x
        | none => .op o a (.const bc)
      else .op o a (.const bc)
    | .op o' x (.const ibc) =>
      if t.comm o ∧ o' = o then
        match t.sem o ibc bc with
        | some co => .op o x (.const co)
        | none => .op o a (.const bc)
      else .op o a (.const bc)
    | _ => .op o a (.const bc)
  | .un o (.const c) =>
    match t.usem o c with
    | some co => .const co
    | none => .un o (.const c)
  | .ite (.const c) th el =>
    match t.toBool with
    | none => .ite (.const c) th el
    | some tb =>
      match tb c with
      | some true => th
      | some false => el
      | none => .ite (.const c) th el
  | .call f (.const c) =>
    if t.fpure f then
      match t.fn f with
      | some g =>
        match g c with
        | some v => .const v
        | none => .call f (.const c)
      | none => .call f (.const c)
    else .call f (.const c)
  | e => e

/-- children first, then the node (`parser2.Optimize`, `opt`, the `Optimize` methods of the nodes);
`Let.Optimize` optimises `Inner` only — "Value is already optimized" by `parseLet` -/
def optimize (t : Table V) : E V → E V
  | .op o a b => rule t (.op o (optimize t a) (optimize t b))
  | .un o a => rule t (.un o (optimize t a))
  | .call f a => rule t (.call f (optimize t a))
  | .ite c th el => rule t (.ite (optimize t c) (optimize t th) (optimize t el))
  | .letE x v b => rule t (.letE x v (optimize t b))
  | e => e

/-- `p.optimizer != nil` ? `Optimize(ast, p.optimizer)` : `ast` -/
def optimizeIf (t : Table V) (on : Bool) (e : E V) : E V := if on then optimize t e else e

/-- constant identifiers known to the parser (`Identifiers` entries with `IsConst`): the generator's
`AddConstant`s and the constant `let`s seen so far; `none` = not a constant at this position -/
abbrev Consts (V : Type) := String → Option V

def Consts.set (cs : Consts V) (x : String) (v : V) : Consts V := fun y => if y = x then some v else cs y
def Consts.erase (cs : Consts V) (x : String) : Consts V := fun y => if y = x then none else cs y
def Consts.none : Consts V := fun _ => Option.none

/-- identifier resolution and `let` handling of `parseLiteral` / `parseLet`, parametric in the
optimizer switch: the value of a `let` is optimised right away (when an optimizer is set); if the
result is a `Const` the name becomes a constant identifier (`idents.AddConst`) and no `Let` node is
built — also with the optimizer off when the value is literally a constant —, otherwise the name is
an ordinary identifier (`idents.Add`) that shadows a constant of the same name. -/
def resolve (t : Table V) (on : Bool) : Consts V → E V → E V
  | _, .const v => .const v
  | cs, .var x =>
    match cs x with
    | some v => .const v
    | none => .var x
  | cs, .un o a => .un o (resolve t on cs a)
  | cs, .op o a b => .op o (resolve t on cs a) (resolve t on cs b)
  | cs, .call f a => .call f (resolve t on cs a)
  | cs, .ite c th el => .ite (resolve t on cs c) (resolve t on cs th) (resolve t on cs el)
  | cs, .letE x v b =>
    match optimizeIf t on (resolve t on cs v) with
    | .const c => resolve t on (cs.set x c) b
    | v' => .letE x v' (resolve t on (cs.erase x) b)

/-- `Parser.Parse` after the token level: identifier resolution, then the final `Optimize` -/
def frontend (t : Table V) (on : Bool) (cs : Consts V) (e : E V) : E V :=
  optimizeIf t on (resolve t on cs e)

/-! ### code generation (`GenerateFunc`, closure-free fragment) and execution -/

/-- the closures built by `GenerateFunc`: identifiers are stack slots -/
inductive Code (V : Type) where
  | const (v : V)
  | stk (i : Nat)
  | un (o : String) (a : Code V)
  | op (o : String) (a b : Code V)
  | call (f : String) (a : Code V)
  | letE (v b : Code V)
  | ite (c t e : Code V)
  deriving Repr, Inhabited

/-- `argsList`: the names of the occupied stack slots -/
abbrev Names := List String

/-- `argsList.get`: first match -/
def idx : Names → String → Option Nat
  | [], _ => none
  | x :: xs, n => if x = n then some 0 else (idx xs n).map (· + 1)

/-- `GenerateFunc`; `none` = `Generate` returns an error (identifier not found, redeclaration or
empty name in `let`, `if` without `toBool`, unknown function) -/
def gen (t : Table V) : E V → Names → Option (Code V)
  | .const v, _ => some (.const v)
  | .var x, am => (idx am x).map .stk
  | .un o a, am => (gen t a am).map (.un o)
  | .op o a b, am => (gen t a am).bind fun ca => (gen t b am).map fun cb => .op o ca cb
  | .call f a, am =>
    match t.fn f with
    | none => none
    | some _ => (gen t a am).map (.call f)
  | .letE x v b, am =>
    (gen t v am).bind fun cv =>
      if x = "" ∨ (idx am x).isSome then none
      else (gen t b (am ++ [x])).map fun cb => .letE cv cb
  | .ite c th el, am =>
    match t.toBool with
    | none => none
    | some _ =>
      (gen t c am).bind fun cc => (gen t th am).bind fun ct => (gen t el am).map fun ce => .ite cc ct ce

/-- `Stack[V]`: a window (`offs`, `size`) on the shared storage -/
structure Stack (V : Type) where
  data : List V
  offs : Nat
  size : Nat

/-- `stackStorage.set` refuses to grow beyond this index ("stack overflow" panic) -/
def stackLimit : Nat := 10000

/-- `stackStorage.set`: append when `n = len` (panic beyond the limit), overwrite when `n < len`,
index-out-of-range panic when `n > len` -/
def setAt (d : List V) (n : Nat) (v : V) : Res (List V) :=
  if n = d.length then (if n > stackLimit then .panic else .ok (d ++ [v]))
  else if n < d.length then .ok (d.set n v)
  else .panic

/-- `Stack.Push` on a copy of the stack header (Go passes `Stack` by value) -/
def Stack.push (s : Stack V) (v : V) : Res (Stack V) :=
  match setAt s.data (s.offs + s.size) v with
  | .ok d => .ok { s with data := d, size := s.size + 1 }
  | .err => .err
  | .panic => .panic
  | .fuel => .fuel

/-- `Stack.Get`: index-out-of-range panic outside the storage -/
def Stack.get (s : Stack V) (i : Nat) : Res V :=
  match s.data[s.offs + i]? with
  | some v => .ok v
  | none => .panic

/-- execution of generated code; returns the value and the storage after the call (the storage is
shared and only ever grows).  `.err` = an error value, `.panic` = a Go run-time panic in generated
code (recovered into an error by the function `Generate` returns, but kept apart here). -/
def exec (t : Table V) : Code V → Stack V → Res (V × List V)
  | .const v, st => .ok (v, st.data)
  | .stk i, st =>
    match st.get i with
    | .ok v => .ok (v, st.data)
    | .err => .err
    | .panic => .panic
    | .fuel => .fuel
  | .un o a, st =>
    match exec t a st with
    | .ok (x, d) =>
      match t.usem o x with
      | some y => .ok (y, d)
      | none => .err
    | .err => .err
    | .panic => .panic
    | .fuel => .fuel
  | .op o a b, st =>
    match exec t a st with
    | .ok (x, d) =>
      match exec t b { st with data := d } with
      | .ok (y, d') =>
        match t.sem o x y with
        | some z => .ok (z, d')
        | none => .err
      | .err => .err
      | .panic => .panic
      | .fuel => .fuel
    | .err => .err
    | .panic => .panic
    | .fuel => .fuel
  | .call f a, st =>
    -- evaluate the argument, `st.Push(v)`, `fun.Func(st.CreateFrame(1), nil)`, `st.Get(0)` of the frame
    match exec t a st with
    | .ok (x, d) =>
      match ({ st with data := d } : Stack V).push x with
      | .ok st' =>
        let frame : Stack V := { data := st'.data, offs := st'.offs + (st'.size - 1), size := 1 }
        match frame.get 0 with
        | .ok arg =>
          match t.fn f with
          | some g =>
            match g arg with
            | some y => .ok (y, st'.data)
            | none => .err
          | none => .panic            -- nil `Func` (cannot be generated: `gen` rejects it)
        | .err => .err
        | .panic => .panic
        | .fuel => .fuel
      | .err => .err
      | .panic => .panic
      | .fuel => .fuel
    | .err => .err
    | .panic => .panic
    | .fuel => .fuel
  | .letE v b, st =>
    match exec t v st with
    | .ok (x, d) =>
      match ({ st with data := d } : Stack V).push x with
      | .ok st' => exec t b st'
      | .err => .err
      | .panic => .panic
      | .fuel => .fuel
    | .err => .err
    | .panic => .panic
    | .fuel => .fuel
  | .ite c th el, st =>
    match exec t c st with
    | .ok (cv, d) =>
      match t.toBool with
      | none => .panic                -- nil `toBool` (cannot be generated: `gen` rejects it)
      | some tb =>
        match tb cv with
        | none => .err                -- "if condition is not a bool"
        | some true => exec t th { st with data := d }
        | some false => exec t el { st with data := d }
    | .err => .err
    | .panic => .panic
    | .fuel => .fuel

/-- `Func.Eval(args...)`: `NewEmptyStack().Init(args...)`, then the generated function -/
def initStack (vals : List V) : Stack V := { data := vals, offs := 0, size := vals.length }

/-- environment in which argument `i` is bound to value `i` (first occurrence of a name wins, as in
`argsList.get`) -/
def envOf : List String → List V → Env V
  | n :: ns, v :: vs => fun y => if y = n then some v else envOf ns vs y
  | _, _ => Env.empty

/-- outcome of `Generate(exp, args...)` followed by `f.Eval(vals...)` -/
inductive Outcome (V : Type) where
  | genError                     -- `Generate` returned an error
  | value (v : V)
  | error                        -- the generated function returned an error
  | panic                        -- a panic in generated code (recovered by the wrapper into an error)
  deriving Repr, DecidableEq

def Outcome.ofOption : Option V → Outcome V
  | some v => .value v
  | none => .error

/-- the whole back end: front end result → code → run on the arguments -/
def run (t : Table V) (e : E V) (args : List String) (vals : List V) : Outcome V :=
  match gen t e args with
  | none => .genError
  | some c =>
    match exec t c (initStack vals) with
    | .ok (v, _) => .value v
    | .err => .error
    | .panic => .panic
    | .fuel => .panic

/-- the chain after the token level: parser's identifier/let handling, optimizer (on/off), compiler, run -/
def chain (t : Table V) (on : Bool) (cs : Consts V) (e : E V) (args : List String) (vals : List V) : Outcome V :=
  run t (frontend t on cs e) args vals

/-- maximal number of additional stack slots an expression needs (nested `let`s, the pushed call argument) -/
def depth : E V → Nat
  | .const _ => 0
  | .var _ => 0
  | .un _ a => depth a
  | .op _ a b => max (depth a) (depth b)
  | .call _ a => max (depth a) 1
  | .letE _ v b => max (depth v) (depth b + 1)
  | .ite c th el => max (depth c) (max (depth th) (depth el))


/-! ### the two example generators of the repository

The flags (`IsPure`, `IsCommutative`), spellings and priority order come from the live generators on
every run (`P2/Generated/ExampleTables.lean`); the *meaning* of each spelling is written here, as in
`example/bool.go` and `example/minimal.go`. -/

/-- one row of an extracted operator table: (spelling, IsPure, IsCommutative), ascending priority -/
abbrev OpRow := String × Bool × Bool

def opFlags (ops : List OpRow) (o : String) : Bool × Bool :=
  match ops.find? (fun r => r.1 == o) with
  | some r => r.2
  | none => (false, false)

/-- spellings an extracted table flags commutative -/
def flaggedCommutative (ops : List OpRow) : List String := (ops.filter (fun r => r.2.2)).map (·.1)

/-- `example/bool.go`: `^` is `a != b`, `=` is `a == b`, `|` is `a || b`, `&` is `a && b` -/
def boolSem (o : String) (a b : Bool) : Option Bool :=
  if o = "^" then some (a != b)
  else if o = "=" then some (a == b)
  else if o = "|" then some (a || b)
  else if o = "&" then some (a && b)
  else none

def boolUSem (o : String) (a : Bool) : Option Bool := if o = "!" then some (!a) else none

/-- the spellings this file gives a meaning to -/
def boolModelled : List String := ["^", "=", "|", "&"]
def boolUnaryModelled : List String := ["!"]

def boolTable (ops : List OpRow) : Table Bool where
  sem := boolSem
  pure := fun o => (opFlags ops o).1
  comm := fun o => (opFlags ops o).2
  usem := boolUSem
  fn := fun _ => none
  fpure := fun _ => false
  toBool := some (fun c => some c)

/-- constants registered by `example/bool.go` -/
def boolConsts : Consts Bool := fun y => if y = "true" then some true else if y = "false" then some false else none

def ratOfBool (b : Bool) : Rat := if b then 1 else 0

/-- exact square root: defined on squares of rationals only -/
def ratSqrt (q : Rat) : Option Rat :=
  if q.num < 0 then none
  else
    let n := q.num.toNat
    let rn := Nat.sqrt n
    let rd := Nat.sqrt q.den
    if rn * rn = n ∧ rd * rd = q.den then some ((rn : Rat) / (rd : Rat)) else none

/-- `example/minimal.go` over exact numbers.  The carrier is `Rat`: this is the meaning of the float
operators on the domain where float64 arithmetic is exact (operands on a dyadic grid, division by
powers of two only — the harness re-checks exactness of every intermediate result with math/big).
Outside that domain (`x/0`, non-integral exponents, irrational roots, `sin cos tan exp ln`) the exact
model has no value: `none`. -/
def minimalSem (o : String) (a b : Rat) : Option Rat :=
  if o = "=" then some (ratOfBool (a == b))
  else if o = "<" then some (ratOfBool (decide (a < b)))
  else if o = ">" then some (ratOfBool (decide (b < a)))
  else if o = "+" then some (a + b)
  else if o = "-" then some (a - b)
  else if o = "*" then some (a * b)
  else if o = "/" then (if b = 0 then none else some (a / b))
  else if o = "^" then (if b.den = 1 ∧ 0 ≤ b.num then some (a ^ b.num.toNat) else none)
  else none

def minimalUSem (o : String) (a : Rat) : Option Rat := if o = "-" then some (-a) else none

def minimalModelled : List String := ["=", "<", ">", "+", "-", "*", "/", "^"]
def minimalUnaryModelled : List String := ["-"]

/-- registered one-argument functions: `sqr` and `sqrt` have an exact meaning, the others are
registered but transcendental (no exact value) -/
def minimalFn (statics : List (String × Int × Bool)) (f : String) : Option (Rat → Option Rat) :=
  match statics.find? (fun r => r.1 == f) with
  | none => none
  | some r =>
    if r.2.1 ≠ 1 then none
    else if f = "sqr" then some (fun x => some (x * x))
    else if f = "sqrt" then some ratSqrt
    else some (fun _ => none)

def minimalTable (ops : List OpRow) (statics : List (String × Int × Bool)) : Table Rat where
  sem := minimalSem
  pure := fun o => (opFlags ops o).1
  comm := fun o => (opFlags ops o).2
  usem := minimalUSem
  fn := minimalFn statics
  fpure := fun f => match statics.find? (fun r => r.1 == f) with | some r => r.2.2 | none => false
  toBool := some (fun c => some (c != 0))

end P2.Generic
