import P2.Model.Json
/-! Model of `value/export/xmlWriter/xmlWriter.go`, `value/export/xml.go` (with the traversal of
`export.go`) and of `ToHtml` in `value/export/html.go` (C18).

The two per-character escape tables (character data, attribute values) are *generated* from the real
writer on every run (`P2/Generated/XmlEsc.lean`); the model is parametric in them and in the rule that
decides which map keys may be written as attribute names.

The exporters are modelled as producers of the **sequence of writer calls** (`Call`); the writer is the
imperative state machine of the Go code run over that sequence. Nothing flows back from the writer to
the exporters, so this is the same interleaving as in Go. -/
namespace P2.Xml
open P2.Json (EscTable escOf strLe)

/-! ### `xmlWriter.XMLWriter` -/

structure W where
  out : List Char := []
  /-- `w.open`, innermost element first -/
  stack : List (List Char) := []
  depth : Int := -1
  inLine : Bool := false
  tagIsOpen : Bool := false
  avoidShort : Bool := false
  prettyPrint : Bool := false
  deriving Repr, Inhabited

def tabs (d : Int) : List Char := List.replicate d.toNat '\t'

namespace W
def emit (w : W) (s : List Char) : W := { w with out := w.out ++ s }

/-- `checkOpenTag` -/
def checkOpenTag (w : W) : W :=
  if w.tagIsOpen then { w.emit ['>'] with tagIsOpen := false } else w

/-- `checkIndent` -/
def checkIndent (w : W) : W :=
  if !w.inLine then { (if w.prettyPrint then w.emit (tabs w.depth) else w) with inLine := true } else w

/-- `newLine` -/
def newLine (w : W) : W :=
  if w.inLine then { (if w.prettyPrint then w.emit ['\n'] else w) with inLine := false } else w

/-- unexported `write` -/
def write (w : W) (s : List Char) : W := (w.checkOpenTag.checkIndent).emit s

/-- `Open` -/
def opn (w : W) (tag : List Char) : W :=
  let w := w.checkOpenTag.newLine
  let w := { w with depth := w.depth + 1 }
  let w := w.checkIndent
  let w := w.write ['<']
  let w := w.write tag
  { w with stack := tag :: w.stack, tagIsOpen := true, inLine := true }

/-- `Attr` (`ea`: attribute escape). Outside of an open tag Go only logs. -/
def attr (ea : Char → List Char) (w : W) (k v : List Char) : W :=
  if w.tagIsOpen then w.emit ([' '] ++ k ++ ['=', '"'] ++ v.flatMap ea ++ ['"']) else w

/-- `Close`; without an open element Go panics (index/slice out of range) -/
def cls (w : W) : Res W :=
  match w.stack with
  | [] => .panic
  | top :: rest =>
    let w :=
      if w.tagIsOpen && !w.avoidShort then
        { w.emit ['/', '>'] with tagIsOpen := false, depth := w.depth - 1 }
      else
        let w := w.checkIndent
        let w := { w with depth := w.depth - 1 }
        ((w.write ['<', '/']).write top).write ['>']
    .ok ({ w with stack := rest }).newLine

/-- `Write` (`et`: character-data escape) -/
def wr (et : Char → List Char) (w : W) (s : List Char) : W :=
  (w.checkOpenTag.checkIndent).emit (s.flatMap et)

/-- `WriteHTML` -/
def raw (w : W) (s : List Char) : W := w.checkOpenTag.emit s
end W

/-- one call of the writer's API -/
inductive Call where
  | opn (tag : List Char)
  | attr (k v : List Char)
  | cls
  | wr (s : List Char)
  | raw (s : List Char)
  deriving Repr, DecidableEq, Inhabited

def W.step (et ea : Char → List Char) (w : W) : Call → Res W
  | .opn t => .ok (w.opn t)
  | .attr k v => .ok (w.attr ea k v)
  | .cls => w.cls
  | .wr s => .ok (w.wr et s)
  | .raw s => .ok (w.raw s)

def W.run (et ea : Char → List Char) : W → List Call → Res W
  | w, [] => .ok w
  | w, c :: cs =>
    match w.step et ea c with
    | .ok w' => W.run et ea w' cs
    | .err => .err
    | .panic => .panic
    | .fuel => .fuel

/-! ### the value tree the exporters see -/

/-- one entry of a style map as far as `toStyleStr` looks at it -/
inductive SV where
  /-- `value.String`, or `value.Int` / `value.Float` in the string form `toStyleStr` gives them (oracle) -/
  | s (v : List Char)
  /-- any other value (ignored by `toStyleStr`) that is not a map -/
  | o
  deriving Repr, DecidableEq, Inhabited

/-- the `Format` field of a `Format` wrapper, closures excepted -/
inductive Sty where
  /-- `nil` -/
  | none
  | str (s : List Char)
  /-- a map without a `table` entry that is itself a map (table formats are outside the model) -/
  | map (kvs : List (List Char × SV))
  /-- anything else: closure with other than one argument, number, bool, list -/
  | other
  deriving Repr, DecidableEq, Inhabited

/-- value tree: scalars in their string form (oracle of the harness) -/
inductive V where
  /-- `String`, `Int`, `Bool`: `ToString` -/
  | str (s : List Char)
  /-- `Float`: `sx` = `ToString` (XML), `sh` = `NewFormattedFloat(f,6).Unicode()` (HTML) -/
  | flt (sx sh : List Char)
  | arr (l : List V)
  | obj (kvs : List (List Char × V))
  /-- `Format{Value: v, Format: sty, Cell: cell, ColSpan: span}` -/
  | fmt (sty : Sty) (cell : Bool) (span : Nat) (v : V)
  /-- `Format` whose style is a closure of one argument; `res` is what the closure returns for `v`
  (`none`: it fails) — closures are defunctionalised to their result at the only place they are applied -/
  | fmtCl (res : Option V) (cell : Bool) (span : Nat) (v : V)
  /-- `Link{Link: href, Value: v}` -/
  | link (href : List Char) (v : V)
  /-- `File`: `b64` = base64 of the data, `size` = `len(Data)`, `sizeStr` = `byteSize(size).String()` (oracles) -/
  | file (name mime b64 : List Char) (size : Nat) (sizeStr : List Char)
  deriving Repr, Inhabited

/-! ### small string helpers -/

def digitChar (n : Nat) : Char := Char.ofNat (48 + n % 10)

def natStrAux : Nat → Nat → List Char → List Char
  | 0, _, acc => acc
  | f + 1, n, acc => if n / 10 = 0 then digitChar n :: acc else natStrAux f (n / 10) (digitChar n :: acc)

/-- `strconv.Itoa` for non-negative numbers -/
def natStr (n : Nat) : List Char := natStrAux (n + 1) n []

def isPrefix : List Char → List Char → Bool
  | [], _ => true
  | _ :: _, [] => false
  | a :: as, b :: bs => a == b && isPrefix as bs

/-- `File.ToString`: `fmt.Sprintf("file %s (%d bytes)", name, len(data))` -/
def fileStr (name : List Char) (size : Nat) : List Char :=
  ['f', 'i', 'l', 'e', ' '] ++ name ++ [' ', '('] ++ natStr size ++ [' ', 'b', 'y', 't', 'e', 's', ')']

/-! ### `xml.go` + `export.go` -/

/-- `ToString` of a value that is neither list nor map, looking through the wrappers
(`Format.ToString`, `Link.ToString` delegate); `none` for lists and maps (`ToList`/`ToMap` succeed) -/
def scalarStr : V → Option (List Char)
  | .str s => some s
  | .flt sx _ => some sx
  | .file n _ _ size _ => some (fileStr n size)
  | .fmt _ _ _ v => scalarStr v
  | .fmtCl _ _ _ v => scalarStr v
  | .link _ v => scalarStr v
  | .arr _ => none
  | .obj _ => none

/-- the text `xmlMapExporter.Add` writes for a value of a "simple" map; `none`: the value makes the map
non-simple (`isSimpleMap`: a list, a map — also behind wrappers — or a `Format`) -/
def simpleStr : V → Option (List Char)
  | .fmt _ _ _ _ => none
  | .fmtCl _ _ _ _ => none
  | v => scalarStr v

/-- all entries as attributes, if the map is simple and every key may be an attribute name -/
def simpleAttrs (keyOK : List Char → Bool) : List (List Char × V) → Option (List (List Char × List Char))
  | [] => some []
  | (k, v) :: rest =>
    match simpleStr v, simpleAttrs keyOK rest with
    | some s, some as => if keyOK k then some ((k, s) :: as) else none
    | _, _ => none

def tList : List Char := ['l', 'i', 's', 't']
def tEntry : List Char := ['e', 'n', 't', 'r', 'y']
def tMap : List Char := ['m', 'a', 'p']
def tKey : List Char := ['k', 'e', 'y']

def attrCalls : List (List Char × List Char) → List Call
  | [] => []
  | (k, s) :: rest => .attr k s :: attrCalls rest

mutual
/-- `Export(st, v, xmlExporter)`: the writer calls, in order -/
def xmlCalls (keyOK : List Char → Bool) : V → List Call
  | .str s => [.wr s]
  | .flt sx _ => [.wr sx]
  | .file n _ _ size _ => [.wr (fileStr n size)]
  | .fmt _ _ _ v => xmlCalls keyOK v
  | .fmtCl _ _ _ v => xmlCalls keyOK v
  | .link _ v => xmlCalls keyOK v
  | .arr l => .opn tList :: (xmlItems keyOK l ++ [.cls])
  | .obj kvs =>
    match simpleAttrs keyOK kvs with
    | some as => .opn tMap :: (attrCalls as ++ [.cls])
    | none => .opn tMap :: (xmlEntries keyOK kvs ++ [.cls])
def xmlItems (keyOK : List Char → Bool) : List V → List Call
  | [] => []
  | v :: vs => .opn tEntry :: (xmlCalls keyOK v ++ (.cls :: xmlItems keyOK vs))
def xmlEntries (keyOK : List Char → Bool) : List (List Char × V) → List Call
  | [] => []
  | (k, v) :: rest => .opn tEntry :: .attr tKey k :: (xmlCalls keyOK v ++ (.cls :: xmlEntries keyOK rest))
end

/-! keys sorted at every level (`sort.Strings` in `Export` and in `toHtml`) -/

def insertKV (kv : List Char × V) : List (List Char × V) → List (List Char × V)
  | [] => [kv]
  | x :: xs => if strLe kv.1 x.1 then kv :: x :: xs else x :: insertKV kv xs

def sortKVs : List (List Char × V) → List (List Char × V)
  | [] => []
  | x :: xs => insertKV x (sortKVs xs)

mutual
def sortV : V → V
  | .arr l => .arr (sortVs l)
  | .obj kvs => .obj (sortKVs (sortVKVs kvs))
  | .fmt s c n v => .fmt s c n (sortV v)
  | .fmtCl r c n v => .fmtCl (sortVOpt r) c n (sortV v)
  | .link h v => .link h (sortV v)
  | v => v
def sortVs : List V → List V
  | [] => []
  | v :: vs => sortV v :: sortVs vs
def sortVKVs : List (List Char × V) → List (List Char × V)
  | [] => []
  | (k, v) :: rest => (k, sortV v) :: sortVKVs rest
def sortVOpt : Option V → Option V
  | none => none
  | some v => some (sortV v)
end

def xmlProlog : List Char :=
  ['<', '?', 'x', 'm', 'l', ' ', 'v', 'e', 'r', 's', 'i', 'o', 'n', '=', '"', '1', '.', '0', '"', ' ', 'e', 'n', 'c', 'o', 'd', 'i', 'n', 'g', '=', '"', 'U', 'T', 'F', '-', '8', '"', ' ', 's', 't', 'a', 'n', 'd', 'a', 'l', 'o', 'n', 'e', '=', '"', 'y', 'e', 's', '"', ' ', '?', '>', '\n']

/-- writer state of `XML()`: the declaration is already in the buffer, pretty printing on -/
def xmlW0 : W := { out := xmlProlog, prettyPrint := true }

/-- the bytes of `Export(st, v, XML())`, or the panic -/
def xmlExport (et ea : Char → List Char) (keyOK : List Char → Bool) (v : V) : Res (List Char) :=
  match W.run et ea xmlW0 (xmlCalls keyOK (sortV v)) with
  | .ok w => .ok w.out
  | .err => .err
  | .panic => .panic
  | .fuel => .fuel

/-- the repaired rule: a plain ASCII XML name without colon that does not start with `xml` (any case) -/
def asciiNameChar (first : Bool) (c : Char) : Bool :=
  let n := c.toNat
  (Nat.ble 97 n && Nat.ble n 122) || (Nat.ble 65 n && Nat.ble n 90) || n == 95 ||
  (!first && ((Nat.ble 48 n && Nat.ble n 57) || n == 45 || n == 46))

def startsXml : List Char → Bool
  | a :: b :: c :: _ => (a == 'x' || a == 'X') && (b == 'm' || b == 'M') && (c == 'l' || c == 'L')
  | _ => false

def attrKeyOK : List Char → Bool
  | [] => false
  | c :: cs => asciiNameChar true c && cs.all (asciiNameChar false) && !startsXml (c :: cs)

/-- the rule of the pinned commit: every key of a simple map becomes an attribute name -/
def anyKeyOK : List Char → Bool := fun _ => true

/-! ### `html.go`: `ToHtml` -/

structure HCfg where
  /-- after `if maxListSize < 1 { maxListSize = 1 }` -/
  maxListSize : Nat
  inlineStyle : Bool
  /-- `getClassName`: the class name of a style string. In Go the name is `c<n>` for the n-th distinct
  style string in the order of the `Attr("class", …)` calls; nothing else in `toHtml` depends on it, so
  the model computes the list of style strings in a first pass (`classesOf`) and runs `toHtml` with the
  resulting naming function (`htmlCallsOf`). -/
  className : List Char → List Char

def replaceUnderscore : List Char → List Char
  | [] => []
  | c :: cs => (if c == '_' then '-' else c) :: replaceUnderscore cs

/-- strict `<` of Go strings (valid UTF-8: code point order) -/
def strLt (a b : List Char) : Bool := !strLe b a

def insertSty (kv : List Char × List Char) : List (List Char × List Char) → List (List Char × List Char)
  | [] => [kv]
  | x :: xs => if strLt x.1 kv.1 then x :: insertSty kv xs else kv :: x :: xs

def styEntries : List (List Char × SV) → List (List Char × List Char)
  | [] => []
  | (k, .s v) :: rest => insertSty (replaceUnderscore k, v) (styEntries rest)
  | (_, .o) :: rest => styEntries rest

def styConcat : List (List Char × List Char) → List Char
  | [] => []
  | (k, v) :: rest => k ++ [':'] ++ v ++ [';'] ++ styConcat rest

/-- `toStyleStr` -/
def toStyleStr : Sty → Option (List Char)
  | .str s => some s
  | .map kvs =>
    match styEntries kvs with
    | [] => none
    | es => some (styConcat es)
  | _ => none

def sPlainList : List Char := ['p', 'l', 'a', 'i', 'n', 'L', 'i', 's', 't']

/-- `hasKey(style, "plainList")` -/
def hasPlain : Sty → Bool
  | .str s => s == sPlainList
  | .map kvs => kvs.any (fun kv => kv.1 == sPlainList)
  | _ => false

def tA : List Char := ['a']
def tHref : List Char := ['h', 'r', 'e', 'f']
def tTarget : List Char := ['t', 'a', 'r', 'g', 'e', 't']
def tDownload : List Char := ['d', 'o', 'w', 'n', 'l', 'o', 'a', 'd']
def tTable : List Char := ['t', 'a', 'b', 'l', 'e']
def tTr : List Char := ['t', 'r']
def tTd : List Char := ['t', 'd']
def tSpan : List Char := ['s', 'p', 'a', 'n']
def tStyle : List Char := ['s', 't', 'y', 'l', 'e']
def tClass : List Char := ['c', 'l', 'a', 's', 's']
def tColspan : List Char := ['c', 'o', 'l', 's', 'p', 'a', 'n']
def sMore : List Char := ['m', 'o', 'r', 'e', '.', '.', '.']
def sLink : List Char := ['L', 'i', 'n', 'k']
def sBlank : List Char := ['_', 'b', 'l', 'a', 'n', 'k']

/-- `Attr("style", s)` or `Attr("class", getClassName(s))` -/
def styleAttr (cfg : HCfg) (s : List Char) : Call :=
  if cfg.inlineStyle then .attr tStyle s else .attr tClass (cfg.className s)

/-- the optional `style`/`class` attribute -/
def styleAttrCalls (cfg : HCfg) (sty : Sty) : List Call :=
  match toStyleStr sty with
  | some s => [styleAttr cfg s]
  | none => []

/-- `if formatted.ColSpan > 1 { Attr("colspan", …) }` -/
def spanCalls (span : Nat) : List Call :=
  if span > 1 then [.attr tColspan (natStr span)] else []

/-- `openWithStyle(tag, style)` -/
def openWithStyle (cfg : HCfg) (tag : List Char) (sty : Sty) : List Call :=
  .opn tag :: styleAttrCalls cfg sty

/-- `writeHtmlString` -/
def htmlString (cfg : HCfg) (s : List Char) (sty : Sty) : List Call :=
  if isPrefix (['h', 't', 't', 'p', ':', '/', '/']) s || isPrefix (['h', 't', 't', 'p', 's', ':', '/', '/']) s then
    [.opn tA, .attr tHref s, .attr tTarget sBlank, .wr sLink, .cls]
  else if isPrefix (['h', 'o', 's', 't', ':']) s then
    [.opn tA, .attr tHref (s.drop 5), .attr tTarget sBlank, .wr sLink, .cls]
  else
    match toStyleStr sty with
    | some _ => .opn tSpan :: (styleAttrCalls cfg sty ++ [.wr s, .cls])
    | none => [.wr s]

def fileCalls (name mime b64 sizeStr : List Char) : List Call :=
  let mime := if mime.isEmpty then ['a', 'p', 'p', 'l', 'i', 'c', 'a', 't', 'i', 'o', 'n', '/', 'o', 'c', 't', 'e', 't', '-', 's', 't', 'r', 'e', 'a', 'm'] else mime
  [.opn tA, .attr tHref (['d', 'a', 't', 'a', ':'] ++ mime ++ [';', 'b', 'a', 's', 'e', '6', '4', ','] ++ b64), .attr tDownload name,
   .wr (['F', 'i', 'l', 'e', ':', ' '] ++ name ++ [' ', '('] ++ sizeStr ++ [')']), .cls]

def moreTD : List Call := [.opn tTd, .wr sMore, .cls]

/-- `(calls ++ ·) <$> r` -/
def pre (calls : List Call) (r : Res (List Call)) : Res (List Call) :=
  match r with
  | .ok cs => .ok (calls ++ cs)
  | .err => .err
  | .panic => .panic
  | .fuel => .fuel

def seq (a b : Res (List Call)) : Res (List Call) :=
  match a with
  | .ok cs => pre cs b
  | .err => .err
  | .panic => .panic
  | .fuel => .fuel

/-- `_, ok := v.(*value.List)`: a bare list, not a wrapped one -/
def isArr : V → Bool
  | .arr _ => true
  | _ => false

inductive ListKind where
  | empty | table | simple

/-- `createListExporter` looks at the first element only -/
def listKind : List V → ListKind
  | [] => .empty
  | v :: _ => if isArr v then .table else .simple

mutual
/-- `toHtml(st, v, style)` with `custom == nil` -/
def htmlV (cfg : HCfg) : V → Sty → Res (List Call)
  | .fmt sty _ _ v, _ => htmlV cfg v sty
  | .fmtCl res _ _ _, _ => htmlOpt cfg res
  | .link h v, sty => pre [.opn tA, .attr tHref h] (seq (htmlV cfg v sty) (.ok [.cls]))
  | .file n m b _ ss, _ => .ok (fileCalls n m b ss)
  | .arr l, sty =>
    if hasPlain sty then htmlPlain cfg l
    else
      match listKind l with
      | .empty => .ok []
      | .table => pre (openWithStyle cfg tTable sty) (seq (htmlTableRows cfg l 1) (.ok [.cls]))
      | .simple => pre (openWithStyle cfg tTable sty) (seq (htmlSimpleRows cfg l 1) (.ok [.cls]))
  | .obj kvs, sty => pre (openWithStyle cfg tTable sty) (seq (htmlMapRows cfg kvs) (.ok [.cls]))
  | .flt _ sh, _ => .ok [.wr sh]
  | .str s, sty => .ok (htmlString cfg s sty)
/-- the result of a style closure rendered without style; a failing closure is the error of `toHtml` -/
def htmlOpt (cfg : HCfg) : Option V → Res (List Call)
  | none => .err
  | some r => htmlV cfg r .none
/-- `plainList`: the elements one after the other -/
def htmlPlain (cfg : HCfg) : List V → Res (List Call)
  | [] => .ok []
  | v :: vs => seq (htmlV cfg v .none) (htmlPlain cfg vs)
/-- `simpleListExporter.add` for the elements from number `i` on -/
def htmlSimpleRows (cfg : HCfg) : List V → Nat → Res (List Call)
  | [], _ => .ok []
  | v :: vs, i =>
    if i ≤ cfg.maxListSize then
      pre [.opn tTr, .opn tTd, .wr (natStr i), .wr ['.'], .cls]
        (seq (htmlTD cfg v) (pre [.cls] (htmlSimpleRows cfg vs (i + 1))))
    else
      .ok ([.opn tTr, .opn tTd, .wr (natStr i), .wr ['.'], .cls] ++ moreTD ++ [.cls])
/-- `tableExporter.add` for the rows from number `row` on (no table format) -/
def htmlTableRows (cfg : HCfg) : List V → Nat → Res (List Call)
  | [], _ => .ok []
  | v :: vs, row =>
    if row ≤ cfg.maxListSize then
      pre [.opn tTr]
        (seq (match v with
              | .arr items => htmlCols cfg items 1
              | x => htmlTD cfg x)
          (pre [.cls] (htmlTableRows cfg vs (row + 1))))
    else
      .ok ([.opn tTr] ++ moreTD ++ [.cls])
/-- the cells of one table row from column `col` on -/
def htmlCols (cfg : HCfg) : List V → Nat → Res (List Call)
  | [], _ => .ok []
  | v :: vs, col =>
    if col ≤ cfg.maxListSize then seq (htmlTD cfg v) (htmlCols cfg vs (col + 1))
    else .ok moreTD
/-- the rows of a map -/
def htmlMapRows (cfg : HCfg) : List (List Char × V) → Res (List Call)
  | [] => .ok []
  | (k, v) :: rest =>
    pre [.opn tTr, .opn tTd, .wr k, .wr [':'], .cls] (seq (htmlTD cfg v) (pre [.cls] (htmlMapRows cfg rest)))
/-- `toTD` -/
def htmlTD (cfg : HCfg) : V → Res (List Call)
  | .fmt sty cell span v =>
    if isArr v && !cell then pre (.opn tTd :: spanCalls span) (seq (htmlV cfg v sty) (.ok [.cls]))
    else pre (.opn tTd :: (spanCalls span ++ styleAttrCalls cfg sty)) (seq (htmlV cfg v .none) (.ok [.cls]))
  | .fmtCl res cell span v =>
    if isArr v && !cell then pre (.opn tTd :: spanCalls span) (seq (htmlOpt cfg res) (.ok [.cls]))
    else pre (.opn tTd :: spanCalls span) (seq (htmlV cfg v .none) (.ok [.cls]))
  | v => pre [.opn tTd] (seq (htmlV cfg v .none) (.ok [.cls]))
end

/-! class names (`getClassName`): the n-th distinct style string is called `c<n>` -/

def indexOf (s : List Char) : List (List Char) → Nat → Option Nat
  | [], _ => none
  | x :: xs, i => if x = s then some i else indexOf s xs (i + 1)

/-- the values of the `class` attributes in call order, without repetitions -/
def classesOf : List Call → List (List Char) → List (List Char)
  | [], seen => seen
  | .attr k v :: rest, seen =>
    if k = tClass then
      match indexOf v seen 0 with
      | some _ => classesOf rest seen
      | none => classesOf rest (seen ++ [v])
    else classesOf rest seen
  | _ :: rest, seen => classesOf rest seen

/-- `c<n>` for the n-th class of the list; a style that is not in the list would be the next new class -/
def classNameIn (classes : List (List Char)) (s : List Char) : List Char :=
  match indexOf s classes 0 with
  | some i => 'c' :: natStr i
  | none => 'c' :: natStr classes.length

/-- writer state of `ToHtml`: `xmlWriter.New().AvoidShort().PrettyPrint()` -/
def htmlW0 : W := { avoidShort := true, prettyPrint := true }

/-- the writer calls of `ToHtml` (class names resolved), with the class list -/
def htmlCallsOf (maxListSize : Nat) (inlineStyle : Bool) (v : V) : Res (List Call × List (List Char)) :=
  let pass1 : HCfg := { maxListSize := maxListSize, inlineStyle := inlineStyle, className := id }
  match htmlV pass1 (sortV v) .none with
  | .ok cs0 =>
    if inlineStyle then .ok (cs0, [])
    else
      let classes := classesOf cs0 []
      match htmlV { pass1 with className := classNameIn classes } (sortV v) .none with
      | .ok cs => .ok (cs, classes)
      | .err => .err
      | .panic => .panic
      | .fuel => .fuel
  | .err => .err
  | .panic => .panic
  | .fuel => .fuel

/-- `ToHtml(v, maxListSize, nil, inlineStyle)`: the HTML text and the class list, or the error.
A panic inside is turned into an error by the `recover` of `ToHtml`. -/
def htmlExport (et ea : Char → List Char) (maxListSize : Nat) (inlineStyle : Bool) (v : V) :
    Res (List Char × List (List Char)) :=
  match htmlCallsOf maxListSize inlineStyle v with
  | .ok (cs, classes) =>
    match W.run et ea htmlW0 cs with
    | .ok w => .ok (w.out, classes)
    | .err => .err
    | .panic => .err
    | .fuel => .fuel
  | .err => .err
  | .panic => .err
  | .fuel => .fuel

end P2.Xml
