import P2.Model.Basic
/-! # Parse model (C03): the precedence parser of `parser2.go` on token lists

Executable, total (fuel), core Lean only. Transliteration of

* `Parser.Parse` (EOF check)                       → `parseTop` / `parse`
* `parseLet`                                       → `parseLet`
* `parseExpression`                                → macro `PEXPR`
* `parseOp` / the `for` loop in it                 → `parseOp` / `loopOp`
* `nextParserCall`                                 → macro `LEVEL`
* `parseUnary`                                     → `parseUnary`
* `parseNonOperator` / its postfix `for` loop      → `parseNonOp` / `postfixLoop`
* `parseLiteral`                                   → `parseLit` (+ `identLit`)
* `parseArgs` (trailing comma)                     → `parseArgs` / `argsLoop`
* `parseMap`                                       → `parseMap`
* the `for` loop of the `switch` form              → `parseCases`
* `parseIdentList`                                 → `parseIdentList`

The model works on the token stream the tokenizer goroutine delivers (kinds as in `token.go`; `tEof` is
the end of the list), is generic in the operator table `t` and in the identifier scope `σ`, and ignores
line numbers (C15). Go's `p.operators[op]` is an explicit `panic` outcome.

`t.pinned = false` is the code as it is now (since the `fix:` commit e62d38e): `parseExpression` falls
through to `parseUnary` when no binary operator is configured and `parseUnary` parses the operand of a
prefix operator that is also binary through `nextParserCall(opPos)`, i.e. falls through to `parseUnary`
past the last level. `t.pinned = true` is the behaviour of the pinned commit, kept for the witness of
finding B3: `parseExpression` calls `parseOp(0)` and `parseUnary` calls `parseOp(opPos+1)` without a
bounds check.

Assumptions (configuration of the harness, not of the property): no optimizer is installed
(`p.optimizer == nil`; C02 covers optimisation), a number parser that accepts every number token and a
string converter are installed, identifiers come from `Add/AddConst/AddFunc` (no `AddMap`: C16);
`Ident.IsFunc` is not part of the tree (variables and functions both give `ident`). -/
namespace P2.Parse

/-- token kinds of `token.go`; `tEof` = end of the list -/
inductive Tok where
  | ident (s : String) | kw (s : String)
  | lp | rp | lb | rb | lc | rc | dot | comma | colon | semi
  | num (s : String) | str (s : String) | op (s : String) | invalid (s : String)
  deriving Repr, DecidableEq, Inhabited

/-- AST of `parser2.go` without line numbers. `num/str` = `Const` made from a literal, `cst` = `Const`
substituted for a constant identifier of the host, `funcE` = the `Let` + `ClosureLiteral{ThisName}` pair
the `func` form produces. -/
inductive E where
  | ident (s : String) | num (s : String) | str (s : String) | cst (s : String)
  | bin (o : String) (a b : E)
  | un (o : String) (a : E)
  | call (f : E) (args : List E)
  | index (l i : E)
  | member (m : E) (k : String)
  | method (m : E) (name : String) (args : List E)
  | letE (name : String) (v inner : E)
  | funcE (name : String) (names : List String) (body inner : E)
  | clos (names : List String) (body : E)
  | list (items : List E)
  | map (entries : List (String × E))
  | ite (c a b : E)
  | tryC (a c : E)
  | switch (v : E) (cases : List (E × E)) (dflt : E)
  deriving Inhabited

/-- `exp.(*Const[V])` -/
def E.isConst : E → Bool
  | .num _ => true | .str _ => true | .cst _ => true | _ => false

/-- what `Identifiers` answers for a name -/
inductive Kind where
  | var | func | cst (e : E)
  deriving Inhabited

/-- `Identifiers[V]` built by `Add/AddConst/AddFunc/AddArgs/AddThis`; head = added last = asked first -/
abbrev Scope := List (String × Kind)

def lookup : Scope → String → Option Kind
  | [], _ => none
  | (n, k) :: σ, s => if n = s then some k else lookup σ s

def varsOf (names : List String) : Scope := names.map fun x => (x, Kind.var)

structure Table where
  ops : List String            -- binary operators, ascending priority (`Op`)
  unary : List String          -- prefix operators (`Unary`)
  pinned : Bool := false       -- true: behaviour of the pinned commit (B3, before e62d38e)
  deriving Repr, Inhabited

/-- index of the **last** occurrence (Go: the `opPos` loop in `Parse` overwrites on every match) -/
def posOf : List String → String → Option Nat
  | [], _ => none
  | x :: xs, o =>
    match posOf xs o with
    | some j => some (j + 1)
    | none => if x = o then some 0 else none

def Table.n (t : Table) : Nat := t.ops.length
def Table.pos (t : Table) (o : String) : Option Nat := posOf t.ops o

inductive PR (α : Type) where
  | ok (a : α) (rest : List Tok) | err | panic | fuel
  deriving Inhabited

/-- propagate a failure of a sub-parser (the `ok` case is never used) -/
def PR.fail {α β : Type} : PR α → PR β
  | .ok _ _ => .err | .err => .err | .panic => .panic | .fuel => .fuel

def isClose (br : Bool) : Tok → Bool
  | .rp => !br
  | .rb => br
  | _ => false

def startsIdentComma : List Tok → Bool
  | .ident _ :: .comma :: _ => true
  | _ => false

/-- `parseIdentList`: `a , b , c )`; duplicates and anything else are errors -/
def parseIdentList : List String → List Tok → Option (List String × List Tok)
  | acc, .ident s :: .rp :: rest => if s ∈ acc then none else some ((s :: acc).reverse, rest)
  | acc, .ident s :: .comma :: rest => if s ∈ acc then none else parseIdentList (s :: acc) rest
  | _, _ => none

/-- the `tIdent` branch of `parseLiteral` that is not a closure -/
def identLit (σ : Scope) (name : String) (rest : List Tok) : PR E :=
  match lookup σ name with
  | some .var => .ok (.ident name) rest
  | some .func => .ok (.ident name) rest
  | some (.cst e) => .ok e rest
  | none => .err

-- `nextParserCall(j-1)`: level `j` of the binary operators, `parseUnary` past the last one
set_option hygiene false in
local macro "LEVEL(" t:term "," f:term "," s:term "," j:term "," ts:term ")" : term =>
  `(if $j < Table.n $t then parseOp $t $f $s $j $ts else parseUnary $t $f $s $ts)
-- now: `nextParserCall(j-1)`; pinned commit: `parseOp(j)` unchecked
set_option hygiene false in
local macro "PLEVEL(" t:term "," f:term "," s:term "," j:term "," ts:term ")" : term =>
  `(if Table.pinned $t then parseOp $t $f $s $j $ts else LEVEL($t, $f, $s, $j, $ts))
-- `parseExpression`
set_option hygiene false in
local macro "PEXPR(" t:term "," f:term "," s:term "," ts:term ")" : term =>
  `(PLEVEL($t, $f, $s, 0, $ts))

mutual
def parseLet (t : Table) : Nat → Scope → List Tok → PR E
  | 0, _, _ => .fuel
  | f+1, σ, ts =>
    match ts with
    | .kw s :: rest =>
      if s = "let" then
        match rest with
        | .ident name :: rest1 =>
          match rest1 with
          | .op eq :: rest2 =>
            if eq = "=" then
              match PEXPR(t, f, σ, rest2) with
              | .ok v (.semi :: rest3) =>
                if v.isConst then parseLet t f ((name, .cst v) :: σ) rest3
                else
                  match parseLet t f ((name, .var) :: σ) rest3 with
                  | .ok inner r => .ok (.letE name v inner) r
                  | r => r
              | .ok _ _ => .err
              | r => r
            else .err
          | _ => .err
        | _ => .err
      else if s = "func" then
        match rest with
        | .ident name :: rest1 =>
          match rest1 with
          | .lp :: rest2 =>
            match parseIdentList [] rest2 with
            | some (names, rest3) =>
              match parseLet t f ((name, .var) :: (varsOf names ++ σ)) rest3 with
              | .ok body (.semi :: rest4) =>
                match parseLet t f ((name, .var) :: σ) rest4 with
                | .ok inner r => .ok (.funcE name names body inner) r
                | r => r
              | .ok _ _ => .err
              | r => r
            | none => .err
          | _ => .err
        | _ => .err
      else PEXPR(t, f, σ, ts)
    | _ => PEXPR(t, f, σ, ts)

def parseOp (t : Table) : Nat → Scope → Nat → List Tok → PR E
  | 0, _, _, _ => .fuel
  | f+1, σ, k, ts =>
    match t.ops[k]? with
    | none => .panic                         -- Go: `operator := p.operators[op]`, index out of range
    | some o =>
      match LEVEL(t, f, σ, k+1, ts) with
      | .ok a rest => loopOp t f σ k o a rest
      | r => r

def loopOp (t : Table) : Nat → Scope → Nat → String → E → List Tok → PR E
  | 0, _, _, _, _, _ => .fuel
  | f+1, σ, k, o, a, ts =>
    match ts with
    | .op s :: rest =>
      if s = o then
        match LEVEL(t, f, σ, k+1, rest) with
        | .ok b rest' => loopOp t f σ k o (.bin o a b) rest'
        | r => r
      else .ok a ts
    | _ => .ok a ts

def parseUnary (t : Table) : Nat → Scope → List Tok → PR E
  | 0, _, _ => .fuel
  | f+1, σ, ts =>
    match ts with
    | .op s :: rest =>
      if s ∈ t.unary then
        match t.pos s with
        | some i =>                           -- the prefix operator is also binary, at level i
          match PLEVEL(t, f, σ, i+1, rest) with
          | .ok a r => .ok (.un s a) r
          | r => r
        | none =>
          match parseNonOp t f σ rest with
          | .ok a r => .ok (.un s a) r
          | r => r
      else parseNonOp t f σ ts
    | _ => parseNonOp t f σ ts

def parseNonOp (t : Table) : Nat → Scope → List Tok → PR E
  | 0, _, _ => .fuel
  | f+1, σ, ts =>
    match parseLit t f σ ts with
    | .ok e rest => postfixLoop t f σ e rest
    | r => r

def postfixLoop (t : Table) : Nat → Scope → E → List Tok → PR E
  | 0, _, _, _ => .fuel
  | f+1, σ, e, ts =>
    match ts with
    | .dot :: rest =>
      match rest with
      | .ident name :: rest1 =>
        match rest1 with
        | .lp :: rest2 =>
          match parseArgs t f σ false rest2 with
          | .ok args r => postfixLoop t f σ (.method e name args) r
          | r => r.fail
        | _ => postfixLoop t f σ (.member e name) rest1
      | _ => .err
    | .lp :: rest =>
      match parseArgs t f σ false rest with
      | .ok args r => postfixLoop t f σ (.call e args) r
      | r => r.fail
    | .lb :: rest =>
      match PEXPR(t, f, σ, rest) with
      | .ok i (.rb :: r) => postfixLoop t f σ (.index e i) r
      | .ok _ _ => .err
      | r => r
    | _ => .ok e ts

def parseLit (t : Table) : Nat → Scope → List Tok → PR E
  | 0, _, _ => .fuel
  | f+1, σ, ts =>
    match ts with
    | .ident name :: rest =>
      match rest with
      | .op s :: rest1 =>
        if s = "->" then
          match parseLet t f ((name, .var) :: σ) rest1 with
          | .ok body r => .ok (.clos [name] body) r
          | r => r
        else identLit σ name rest
      | _ => identLit σ name rest
    | .kw s :: rest =>
      if s = "try" then
        match parseLet t f σ rest with
        | .ok a (.kw c :: rest1) =>
          if c = "catch" then
            match parseLet t f σ rest1 with
            | .ok b r => .ok (.tryC a b) r
            | r => r
          else .err
        | .ok _ _ => .err
        | r => r
      else if s = "if" then
        match PEXPR(t, f, σ, rest) with
        | .ok c (.kw th :: rest1) =>
          if th = "then" then
            match parseLet t f σ rest1 with
            | .ok a (.kw el :: rest2) =>
              if el = "else" then
                match parseLet t f σ rest2 with
                | .ok b r => .ok (.ite c a b) r
                | r => r
              else .err
            | .ok _ _ => .err
            | r => r
          else .err
        | .ok _ _ => .err
        | r => r
      else if s = "switch" then
        match PEXPR(t, f, σ, rest) with
        | .ok v rest1 =>
          match parseCases t f σ rest1 with
          | .ok cd r => .ok (.switch v cd.1 cd.2) r
          | r => r.fail
        | r => r
      else .err
    | .lc :: rest =>
      match parseMap t f σ [] rest with
      | .ok m r => .ok (.map m) r
      | r => r.fail
    | .lb :: rest =>
      match parseArgs t f σ true rest with
      | .ok items r => .ok (.list items) r
      | r => r.fail
    | .num s :: rest => .ok (.num s) rest
    | .str s :: rest => .ok (.str s) rest
    | .lp :: rest =>
      if startsIdentComma rest then
        match parseIdentList [] rest with
        | some (names, rest1) =>
          match rest1 with
          | .op s :: rest2 =>
            if s = "->" then
              match parseLet t f (varsOf names ++ σ) rest2 with
              | .ok body r => .ok (.clos names body) r
              | r => r
            else .err
          | _ => .err
        | none => .err
      else
        match PEXPR(t, f, σ, rest) with
        | .ok e (.rp :: r) => .ok e r
        | .ok _ _ => .err
        | r => r
    | _ => .err

def parseArgs (t : Table) : Nat → Scope → Bool → List Tok → PR (List E)
  | 0, _, _, _ => .fuel
  | f+1, σ, br, ts =>
    match ts with
    | x :: rest => if isClose br x then .ok [] rest else argsLoop t f σ br ts
    | [] => argsLoop t f σ br ts

def argsLoop (t : Table) : Nat → Scope → Bool → List Tok → PR (List E)
  | 0, _, _, _ => .fuel
  | f+1, σ, br, ts =>
    match parseLet t f σ ts with
    | .ok a (x :: rest) =>
      if isClose br x then .ok [a] rest
      else if x = .comma then
        match rest with
        | y :: rest' =>
          if isClose br y then .ok [a] rest'          -- trailing comma
          else
            match argsLoop t f σ br rest with
            | .ok as r => .ok (a :: as) r
            | r => r
        | [] =>
          match argsLoop t f σ br rest with
          | .ok as r => .ok (a :: as) r
          | r => r
      else .err
    | .ok _ [] => .err
    | r => r.fail

def parseMap (t : Table) : Nat → Scope → List String → List Tok → PR (List (String × E))
  | 0, _, _, _ => .fuel
  | f+1, σ, keys, ts =>
    match ts with
    | .rc :: rest => .ok [] rest
    | .ident key :: rest =>
      if key ∈ keys then .err
      else
        match rest with
        | .colon :: rest1 =>
          match parseLet t f σ rest1 with
          | .ok v rest2 =>
            match rest2 with
            | .comma :: rest3 =>
              match parseMap t f σ (key :: keys) rest3 with
              | .ok m r => .ok ((key, v) :: m) r
              | r => r
            | .rc :: _ =>
              match parseMap t f σ (key :: keys) rest2 with
              | .ok m r => .ok ((key, v) :: m) r
              | r => r
            | _ => .err
          | r => r.fail
        | _ => .err
    | _ => .err

def parseCases (t : Table) : Nat → Scope → List Tok → PR (List (E × E) × E)
  | 0, _, _ => .fuel
  | f+1, σ, ts =>
    match ts with
    | .kw s :: rest =>
      if s = "case" then
        match PEXPR(t, f, σ, rest) with
        | .ok c (.colon :: rest1) =>
          match parseLet t f σ rest1 with
          | .ok v rest2 =>
            match parseCases t f σ rest2 with
            | .ok cd r => .ok ((c, v) :: cd.1, cd.2) r
            | r => r
          | r => r.fail
        | .ok _ _ => .err
        | r => r.fail
      else if s = "default" then
        match parseLet t f σ rest with
        | .ok d r => .ok ([], d) r
        | r => r.fail
      else .err
    | _ => .err
end

/-- `Parser.Parse` after the tokenizer: `parseLet`, then the EOF check -/
def parseTop (t : Table) (f : Nat) (σ : Scope) (ts : List Tok) : PR E :=
  match parseLet t f σ ts with
  | .ok e [] => .ok e []
  | .ok _ _ => .err                    -- `unexpected("EOF", t)`
  | r => r

/-- fuel that always suffices (`parse_fuel_enough`) -/
def fuelFor (t : Table) (ts : List Tok) : Nat := (ts.length + 1) * (t.n + 8)

def parse (t : Table) (σ : Scope) (ts : List Tok) : PR E := parseTop t (fuelFor t ts) σ ts

/-- all parser levels under one name: `k < n` binary level `k`, `k = n` `parseUnary`,
`k = n+1` `parseNonOperator`, above `parseLiteral` -/
def entry (t : Table) (f : Nat) (σ : Scope) (k : Nat) (ts : List Tok) : PR E :=
  if k < t.n then parseOp t f σ k ts
  else if k = t.n then parseUnary t f σ ts
  else if k = t.n + 1 then parseNonOp t f σ ts
  else parseLit t f σ ts

/-! ### boolean equality of trees (for tests, witnesses by `decide`, and the driver) -/
mutual
def E.beq : E → E → Bool
  | .ident a, .ident b => a == b
  | .num a, .num b => a == b
  | .str a, .str b => a == b
  | .cst a, .cst b => a == b
  | .bin o a b, .bin o' a' b' => o == o' && E.beq a a' && E.beq b b'
  | .un o a, .un o' a' => o == o' && E.beq a a'
  | .call f as, .call f' as' => E.beq f f' && E.beqs as as'
  | .index a i, .index a' i' => E.beq a a' && E.beq i i'
  | .member m k, .member m' k' => E.beq m m' && k == k'
  | .method m n as, .method m' n' as' => E.beq m m' && n == n' && E.beqs as as'
  | .letE n v i, .letE n' v' i' => n == n' && E.beq v v' && E.beq i i'
  | .funcE n ns b i, .funcE n' ns' b' i' => n == n' && ns == ns' && E.beq b b' && E.beq i i'
  | .clos ns b, .clos ns' b' => ns == ns' && E.beq b b'
  | .list as, .list as' => E.beqs as as'
  | .map es, .map es' => E.beqm es es'
  | .ite c a b, .ite c' a' b' => E.beq c c' && E.beq a a' && E.beq b b'
  | .tryC a c, .tryC a' c' => E.beq a a' && E.beq c c'
  | .switch v cs d, .switch v' cs' d' => E.beq v v' && E.beqc cs cs' && E.beq d d'
  | _, _ => false
def E.beqs : List E → List E → Bool
  | [], [] => true
  | a :: as, b :: bs => E.beq a b && E.beqs as bs
  | _, _ => false
def E.beqm : List (String × E) → List (String × E) → Bool
  | [], [] => true
  | (k, a) :: as, (k', b) :: bs => k == k' && E.beq a b && E.beqm as bs
  | _, _ => false
def E.beqc : List (E × E) → List (E × E) → Bool
  | [], [] => true
  | (c, a) :: as, (c', b) :: bs => E.beq c c' && E.beq a b && E.beqc as bs
  | _, _ => false
end

/-- `r = ok e []` as a boolean -/
def PR.isOk (r : PR E) (e : E) : Bool :=
  match r with
  | .ok e' [] => E.beq e' e
  | _ => false
def PR.isPanic {α : Type} : PR α → Bool | .panic => true | _ => false
def PR.isErr {α : Type} : PR α → Bool | .err => true | _ => false
def PR.isFuel {α : Type} : PR α → Bool | .fuel => true | _ => false

end P2.Parse
