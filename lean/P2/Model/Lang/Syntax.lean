import P2.Model.Basic
/-! # Language model: syntax, compiled code, values (C01, C02, C10, C16, C19)

`AST` mirrors the node types of `/repo/parser2.go` as the parser produces them (with the optimizer
switched off, constants are scalars). `Code` is the explicit form of the Go closures that
`GenerateFunc` (`/repo/funcGen/generator.go`) builds: identifiers are resolved to stack slots
(`stk i`) or closure-context slots (`cs j`). `Val` is one value universe for the reference semantics
(closures = `sclos`: parameters, body, captured environment) and for the compiled semantics
(closures = `rclos`: arity, compiled body, captured context); everything else is shared. -/
namespace P2.Lang

/-- outcomes of both semantics. `unmodelled` marks a step outside the model (e.g. float→string). -/
inductive R (α : Type) where
  | ok (a : α)
  | err
  | panic
  | fuel
  | unmodelled
  deriving Inhabited

namespace R
@[inline] def bind {α β} (x : R α) (f : α → R β) : R β :=
  match x with
  | ok a => f a
  | err => err
  | panic => panic
  | fuel => fuel
  | unmodelled => unmodelled
instance : Monad R where
  pure := ok
  bind := bind
@[simp] theorem bind_ok {α β} (a : α) (f : α → R β) : (R.ok a >>= f) = f a := rfl
@[simp] theorem bind_err {α β} (f : α → R β) : ((R.err : R α) >>= f) = .err := rfl
@[simp] theorem bind_panic {α β} (f : α → R β) : ((R.panic : R α) >>= f) = .panic := rfl
@[simp] theorem bind_fuel {α β} (f : α → R β) : ((R.fuel : R α) >>= f) = .fuel := rfl
@[simp] theorem bind_unmodelled {α β} (f : α → R β) : ((R.unmodelled : R α) >>= f) = .unmodelled := rfl
@[simp] theorem pure_eq {α} (a : α) : (pure a : R α) = .ok a := rfl
def ofOption {α} : Option α → R α
  | some a => .ok a
  | none => .err
/-- a Go index expression out of range: run-time panic -/
def ofIndex {α} : Option α → R α
  | some a => .ok a
  | none => .panic
end R

inductive Scalar where
  | int (i : Int)
  | flt (f : Float)
  | str (s : String)
  | bool (b : Bool)
  deriving Inhabited

inductive AST where
  | const (c : Scalar)
  | ident (name : String)
  | letE (name : String) (val inner : AST)
  | ifE (c t e : AST)
  | switchE (v : AST) (cases : List (AST × AST)) (dflt : AST)
  | tryE (t c : AST)
  | unary (op : String) (a : AST)
  | binop (op : String) (a b : AST)
  | clos (names : List String) (body : AST) (outer : List String) (recursive : Bool) (this : String)
  | listLit (items : List AST)
  | index (idx lst : AST)          -- Go evaluates the index first, then the list
  | mapLit (kvs : List (String × AST))
  | member (m : AST) (key : String)
  | call (f : AST) (args : List AST)
  | method (recv : AST) (name : String) (args : List AST)
  deriving Inhabited

inductive Code where
  | const (c : Scalar)
  | stk (i : Nat)
  | cs (j : Nat)
  | letE (val inner : Code)
  | ifE (c t e : Code)
  | switchE (v : Code) (cases : List (Code × Code)) (dflt : Code)
  | tryE (t c : Code)
  | unary (op : String) (a : Code)
  | binop (op : String) (a b : Code)
  | andE (a b : Code)              -- short-circuit forms of `value.GenerateCustom`
  | orE (a b : Code)
  | clos (nargs : Nat) (body : Code) (capture : List (Bool × Nat)) (recursive : Bool)
  | listLit (items : List Code)
  | index (idx lst : Code)
  | mapLit (kvs : List (String × Code))
  | member (m : Code) (key : String)
  | callStatic (name : String) (args : List Code)
  | call (f : Code) (args : List Code)
  | method (recv : Code) (name : String) (args : List Code)
  deriving Inhabited

mutual
inductive Val where
  | int (i : Int)
  | flt (f : Float)
  | str (s : String)
  | bool (b : Bool)
  | list (l : LList)
  | map (kvs : List (String × Val))
  | sclos (names : List String) (body : AST) (env : List (String × Val)) (recursive : Bool) (this : String)
  | rclos (nargs : Nat) (body : Code) (ctx : List Val) (recursive : Bool)
/-- lazy lists as stage descriptions (defunctionalised producers of `value/list.go`) -/
inductive LList where
  | items (xs : List Val)
  | numbers (next limit : Int)
  | map (f : Val) (src : LList)
  | accept (f : Val) (src : LList)
  | top (n : Int) (src : LList)
  | skip (n : Int) (src : LList)
  | append (a b : LList)
end

instance : Inhabited Val := ⟨.int 0⟩
instance : Inhabited LList := ⟨.items []⟩

abbrev Env := List (String × Val)

def Env.get : Env → String → Option Val
  | [], _ => none
  | (n, v) :: rest, x => if n = x then some v else Env.get rest x

def ofScalar : Scalar → Val
  | .int i => .int i
  | .flt f => .flt f
  | .str s => .str s
  | .bool b => .bool b

/-- closure arity as `Function.Args` reports it -/
def Val.closArity : Val → Option Nat
  | .sclos names _ _ _ _ => some names.length
  | .rclos n _ _ _ => some n
  | _ => none

end P2.Lang
