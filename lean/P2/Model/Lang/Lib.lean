import P2.Model.Lang.Syntax
/-! # Language model: operators and the built-in library (first- and higher-order)

Everything here is written once and used by BOTH semantics; closures are called through the
parameter `ap : Apply`, which each semantics instantiates with its own closure call at the current
fuel. Lists are lazy stage descriptions pulled with `uncons` (outcome-equivalent to Go's push
iterators: a callback error is an error *element*, every consumer stops at the first one it sees,
and an element that is only read ahead (`FirstN`) is never delivered). Sources:
`/repo/value/operations.go`, `/repo/value/value.go` (`New`), `/repo/value/list.go`, `map.go`,
`string.go`. Steps outside the model answer `R.unmodelled` (float formatting, `math.Pow`, …). -/
namespace P2.Lang

abbrev Apply := Val → List Val → R Val

def wrap64 (i : Int) : Int := (i + 9223372036854775808) % 18446744073709551616 - 9223372036854775808

def toFloat? : Val → Option Float
  | .int i => some (Float.ofInt i)
  | .flt f => some f
  | _ => none

def typeName : Val → String
  | .int _ => "int" | .flt _ => "float" | .str _ => "string" | .bool _ => "bool"
  | .list _ => "list" | .map _ => "map" | .sclos .. => "closure" | .rclos .. => "closure"

/-! ## pulling lazy lists -/

/-- one element and the rest, or `none` at the end; callback errors abort with `err` -/
def uncons (ap : Apply) : Nat → LList → R (Option (Val × LList))
  | 0, _ => .fuel
  | _+1, .items [] => .ok none
  | _+1, .items (x :: xs) => .ok (some (x, .items xs))
  | _+1, .numbers i n => if i < n then .ok (some (.int i, .numbers (i+1) n)) else .ok none
  | k+1, .map f src => do
      match ← uncons ap k src with
      | none => pure none
      | some (x, src') => do
          let y ← ap f [x]
          pure (some (y, .map f src'))
  | k+1, .accept f src => do
      match ← uncons ap k src with
      | none => pure none
      | some (x, src') => do
          match ← ap f [x] with
          | .bool true => pure (some (x, .accept f src'))
          | .bool false => uncons ap k (.accept f src')
          | _ => .err
  | k+1, .top n src =>
      -- `FirstN`: stop when the running index equals n (a negative n never stops)
      if n = 0 then .ok none else do
      match ← uncons ap k src with
      | none => pure none
      | some (x, src') => pure (some (x, .top (n-1) src'))
  | k+1, .skip n src =>
      if n ≤ 0 then uncons ap k src else do
      match ← uncons ap k src with
      | none => pure none
      | some (_, src') => uncons ap k (.skip (n-1) src')
  | k+1, .append a b => do
      match ← uncons ap k a with
      | some (x, a') => pure (some (x, .append a' b))
      | none => uncons ap k b

/-- all elements (`List.Eval` / `ToSlice`) -/
def force (ap : Apply) : Nat → LList → R (List Val)
  | 0, _ => .fuel
  | k+1, l => do
      match ← uncons ap k l with
      | none => pure []
      | some (x, l') => do
          let xs ← force ap k l'
          pure (x :: xs)

def joinStr (sep : String) : List String → String
  | [] => ""
  | [s] => s
  | s :: rest => s ++ sep ++ joinStr sep rest

mutual
/-- `Value.ToString` -/
def toStr (ap : Apply) : Nat → Val → R String
  | 0, _ => .fuel
  | _+1, .int i => .ok (toString i)
  | _+1, .flt _ => .unmodelled
  | _+1, .str s => .ok s
  | _+1, .bool b => .ok (if b then "true" else "false")
  | k+1, .list l => do
      let xs ← force ap k l
      let ss ← toStrs ap k xs
      pure ("[" ++ joinStr ", " ss ++ "]")
  | k+1, .map kvs => do
      let ss ← toStrKVs ap k kvs
      pure ("{" ++ joinStr ", " ss ++ "}")
  | _+1, .sclos names _ _ _ _ => .ok ("func" ++ toString names.length)
  | _+1, .rclos n _ _ _ => .ok ("func" ++ toString n)
def toStrs (ap : Apply) : Nat → List Val → R (List String)
  | 0, _ => .fuel
  | _+1, [] => .ok []
  | k+1, v :: vs => do
      let s ← toStr ap k v
      let ss ← toStrs ap k vs
      pure (s :: ss)
def toStrKVs (ap : Apply) : Nat → List (String × Val) → R (List String)
  | 0, _ => .fuel
  | _+1, [] => .ok []
  | k+1, (key, v) :: vs => do
      let s ← toStr ap k v
      let ss ← toStrKVs ap k vs
      pure ((key ++ ":" ++ s) :: ss)
end

/-! ## equality and order (`Equal`, `operationMatrixDeepEqual`, `Less`) -/

def mapGet : List (String × Val) → String → Option Val
  | [], _ => none
  | (k, v) :: rest, x => if k = x then some v else mapGet rest x

mutual
/-- `=`: lists element-wise after forcing both, maps via `Map.Equals` (size, then the left map's
entries looked up in the right one), scalars through the type-pair matrix; other pairs: error -/
def valEq (ap : Apply) : Nat → Val → Val → R Bool
  | 0, _, _ => .fuel
  | k+1, .list a, .list b => do
      let xs ← force ap k a
      let ys ← force ap k b
      if xs.length ≠ ys.length then pure false else listEq ap k xs ys
  | k+1, .map a, .map b =>
      if a.length ≠ b.length then .ok false else mapEq ap k a b
  | _+1, .bool a, .bool b => .ok (a == b)
  | _+1, .int a, .int b => .ok (a == b)
  | _+1, .str a, .str b => .ok (a == b)
  | _+1, .flt a, .flt b => .ok (a == b)
  | _+1, .int a, .flt b => .ok (Float.ofInt a == b)
  | _+1, .flt a, .int b => .ok (a == Float.ofInt b)
  | _+1, _, _ => .err
def listEq (ap : Apply) : Nat → List Val → List Val → R Bool
  | 0, _, _ => .fuel
  | _+1, [], _ => .ok true
  | _+1, _ :: _, [] => .ok true
  | k+1, x :: xs, y :: ys => do
      if ← valEq ap k x y then listEq ap k xs ys else pure false
/-- iterate the entries of the left map; `equal(st, o, v)` is called with the OTHER map's value first -/
def mapEq (ap : Apply) : Nat → List (String × Val) → List (String × Val) → R Bool
  | 0, _, _ => .fuel
  | _+1, [], _ => .ok true
  | k+1, (key, v) :: rest, other =>
      match mapGet other key with
      | none => .ok false
      | some o => do
          if ← valEq ap k o v then mapEq ap k rest other else pure false
end

/-- `<` matrix: int/float pairs and strings; everything else is an error -/
def valLess : Val → Val → R Bool
  | .int a, .int b => .ok (a < b)
  | .str a, .str b => .ok (a < b)
  | .flt a, .flt b => .ok (a < b)
  | .int a, .flt b => .ok (Float.ofInt a < b)
  | .flt a, .int b => .ok (a < Float.ofInt b)
  | _, _ => .err

def containsItem (ap : Apply) : Nat → LList → Val → R Bool
  | 0, _, _ => .fuel
  | k+1, l, x => do
      match ← uncons ap k l with
      | none => pure false
      | some (y, l') => do
          -- containsItem: `fg.equal(st, item, value)`; an equality error makes the item "not equal"?  no: error
          if ← valEq ap k x y then pure true else containsItem ap k l' x

/-! ## arithmetic -/

def numOp (fi : Int → Int → Int) (ff : Float → Float → Float) : Val → Val → R Val
  | .int a, .int b => .ok (.int (wrap64 (fi a b)))
  | .flt a, .flt b => .ok (.flt (ff a b))
  | .int a, .flt b => .ok (.flt (ff (Float.ofInt a) b))
  | .flt a, .int b => .ok (.flt (ff a (Float.ofInt b)))
  | _, _ => .err

def intPow (a : Int) : Nat → Int
  | 0 => 1
  | n+1 => wrap64 (a * intPow a n)

def mapKeysDisjoint (a : List (String × Val)) : List (String × Val) → Bool
  | [] => true
  | (k, _) :: rest => (mapGet a k).isNone && mapKeysDisjoint a rest

/-- strings: Go `strings.Contains` on valid UTF-8 -/
def strContains (s sub : String) : Bool :=
  let sl := s.toList
  let tl := sub.toList
  let rec go : Nat → List Char → Bool
    | 0, _ => false
    | n+1, l => tl.isPrefixOf l || (match l with | [] => false | _ :: r => go n r)
  go (sl.length + 1) sl

/-- binary operators as registered in `value.New` (not the short-circuit forms of `&`, `|`).
`%` by zero and negative shift counts are errors (after the repair of B5; Go panicked before). -/
def binop (ap : Apply) (k : Nat) (op : String) (a b : Val) : R Val :=
  match op with
  | "=" => do let r ← valEq ap k a b; pure (.bool r)
  | "!=" => do let r ← valEq ap k a b; pure (.bool (!r))
  | "<" => do let r ← valLess a b; pure (.bool r)
  | ">" => do let r ← valLess b a; pure (.bool r)
  | "<=" => do
      if ← valLess a b then pure (.bool true) else do let r ← valEq ap k a b; pure (.bool r)
  | ">=" => do
      if ← valLess b a then pure (.bool true) else do let r ← valEq ap k a b; pure (.bool r)
  | "~" =>
      match a, b with
      | .list _, .list _ => .unmodelled          -- "all items contained": C14 finding, not modelled here
      | x, .list l => do let r ← containsItem ap k l x; pure (.bool r)
      | .str key, .map kvs => .ok (.bool (mapGet kvs key).isSome)
      | .str x, .str s => .ok (.bool (strContains s x))
      | _, _ => .err
  | "+" =>
      match a, b with
      | .str s, v => do let t ← toStr ap k v; pure (.str (s ++ t))
      | .list x, .list y => .ok (.list (.append x y))
      | .map x, .map y => if mapKeysDisjoint x y then .ok (.map (x ++ y)) else .err
      | x, y => numOp (· + ·) (· + ·) x y
  | "-" => numOp (· - ·) (· - ·) a b
  | "*" => numOp (· * ·) (· * ·) a b
  | "/" =>
      match toFloat? a, toFloat? b with
      | some x, some y => .ok (.flt (x / y))
      | _, _ => .err
  | "%" =>
      match a, b with
      | .int x, .int y => if y = 0 then .err else .ok (.int (Int.tmod x y))
      | _, _ => .err
  | "<<" =>
      match a, b with
      | .int x, .int y => if y < 0 then .err else if y ≥ 64 then .ok (.int 0) else .ok (.int (wrap64 (x <<< y.toNat)))
      | _, _ => .err
  | ">>" =>
      match a, b with
      | .int x, .int y => if y < 0 then .err else .ok (.int (x >>> y.toNat))
      | _, _ => .err
  | "^" =>
      match a, b with
      | .int x, .int y => if 0 < y ∧ y < 10 then .ok (.int (intPow x y.toNat)) else if y = 0 then .ok (.int 1) else .unmodelled
      | .int _, .flt _ => .unmodelled
      | .flt _, .int _ => .unmodelled
      | .flt _, .flt _ => .unmodelled
      | _, _ => .err
  | "&" =>     -- the `And` matrix (used only when the optimizer folds constants)
      match a, b with
      | .bool x, .bool y => .ok (.bool (x && y))
      | .int _, .int _ => .unmodelled
      | _, _ => .err
  | "|" =>
      match a, b with
      | .bool x, .bool y => .ok (.bool (x || y))
      | .int _, .int _ => .unmodelled
      | _, _ => .err
  | _ => .err

def unop (op : String) (a : Val) : R Val :=
  match op, a with
  | "-", .int i => .ok (.int (wrap64 (-i)))
  | "-", .flt f => .ok (.flt (-f))
  | "!", .bool b => .ok (.bool (!b))
  | _, _ => .err

/-! ## static functions (`value.New`) -/

def floatToInt (f : Float) : R Val :=
  -- Go `int(f)`: exact truncation inside the int64 range; outside it the result is platform
  -- dependent (excluded by the property) — not modelled
  if f.abs < 9.0e18 then .ok (.int (f.toInt64.toInt)) else .unmodelled

def minMaxFold (pickNew : Val → Val → R Bool) : Val → List Val → R Val
  | m, [] => .ok m
  | m, v :: vs => do
      if ← pickNew v m then minMaxFold pickNew v vs else minMaxFold pickNew m vs

/-- arity (−1 = variadic) and purity of the modelled static functions; compared with the
regenerated table by an obligation -/
def staticSig : String → Option (Int × Bool)
  | "throw" => some (1, false) | "string" => some (1, true) | "isFloat" => some (1, true)
  | "isInt" => some (1, true) | "float" => some (1, true) | "int" => some (1, true)
  | "abs" => some (1, true) | "sign" => some (1, true) | "sqr" => some (1, true)
  | "round" => some (1, true) | "numbers" => some (1, true) | "sqrt" => some (1, true)
  | "floor" => some (1, true) | "ceil" => some (1, true) | "trunc" => some (1, true)
  | "min" => some (-1, true) | "max" => some (-1, true) | "goto" => some (1, true)
  | _ => none

def callStatic (ap : Apply) (k : Nat) (name : String) (args : List Val) : R Val :=
  match name, args with
  | "throw", [_] => .err
  | "string", [v] => do let s ← toStr ap k v; pure (.str s)
  | "isFloat", [v] => .ok (.bool (match v with | .flt _ => true | _ => false))
  | "isInt", [v] => .ok (.bool (match v with | .int _ => true | _ => false))
  | "float", [v] => match toFloat? v with | some f => .ok (.flt f) | none => .err
  | "int", [.int i] => .ok (.int i)
  | "int", [.flt f] => floatToInt f
  | "int", [_] => .err
  | "abs", [.int i] => .ok (.int (if i < 0 then wrap64 (-i) else i))
  | "abs", [.flt f] => .ok (.flt f.abs)
  | "abs", [_] => .err
  | "sign", [.int i] => .ok (.int (if i < 0 then -1 else if i = 0 then 0 else 1))
  | "sign", [.flt f] => .ok (.flt (if f < 0 then -1 else if f == 0 then 0 else 1))
  | "sign", [_] => .err
  | "sqr", [.int i] => .ok (.int (wrap64 (i * i)))
  | "sqr", [.flt f] => .ok (.flt (f * f))
  | "sqr", [_] => .err
  | "round", [.int i] => .ok (.int i)
  | "round", [.flt f] => floatToInt f.round
  | "round", [_] => .err
  | "numbers", [.int n] => .ok (.list (.numbers 0 n))
  | "numbers", [_] => .err
  | "goto", [.int n] => .ok (.map [("state", .int n)])
  | "goto", [_] => .err
  | "sqrt", [v] => match toFloat? v with
      | some f => if f >= 0 then .ok (.flt f.sqrt) else .err    -- NaN fails the `arg >= 0` test
      | none => .err
  | "floor", [v] => match toFloat? v with | some f => .ok (.flt f.floor) | none => .err
  | "ceil", [v] => match toFloat? v with | some f => .ok (.flt f.ceil) | none => .err
  | "trunc", [v] => match toFloat? v with
      | some f => .ok (.flt (if f < 0 then f.ceil else f.floor)) | none => .err
  | "min", [] => .err             -- (repaired: was a nil Value)
  | "min", v :: vs => minMaxFold (fun new m => valLess new m) v vs
  | "max", [] => .err
  | "max", v :: vs => minMaxFold (fun new m => valLess m new) v vs
  | _, _ => .unmodelled

/-! ## methods -/

def isClosN (v : Val) (n : Nat) : Bool := v.closArity == some n

def reduceLoop (ap : Apply) (f : Val) : Nat → Val → LList → R Val
  | 0, _, _ => .fuel
  | k+1, acc, l => do
      match ← uncons ap k l with
      | none => pure acc
      | some (x, l') => do
          let acc' ← ap f [acc, x]
          reduceLoop ap f k acc' l'

def sumLoop (ap : Apply) : Nat → Val → LList → R Val
  | 0, _, _ => .fuel
  | k+1, acc, l => do
      match ← uncons ap k l with
      | none => pure acc
      | some (x, l') => do
          let acc' ← binop ap k "+" acc x
          sumLoop ap k acc' l'

def lastLoop (ap : Apply) : Nat → Option Val → LList → R Val
  | 0, _, _ => .fuel
  | k+1, acc, l => do
      match ← uncons ap k l with
      | none => match acc with | some v => pure v | none => .err
      | some (x, l') => lastLoop ap k (some x) l'

def findLoop (ap : Apply) (f : Val) : Nat → Int → LList → R (Option Int)
  | 0, _, _ => .fuel
  | k+1, i, l => do
      match ← uncons ap k l with
      | none => pure none
      | some (x, l') => do
          match ← ap f [x] with
          | .bool true => pure (some i)
          | .bool false => findLoop ap f k (i+1) l'
          | _ => .err

def mapMapLoop (ap : Apply) (f : Val) : Nat → List (String × Val) → R (List (String × Val))
  | 0, _ => .fuel
  | _+1, [] => .ok []
  | k+1, (key, v) :: rest => do
      let y ← ap f [.str key, v]
      let ys ← mapMapLoop ap f k rest
      pure ((key, y) :: ys)

def mapAcceptLoop (ap : Apply) (f : Val) : Nat → List (String × Val) → R (List (String × Val))
  | 0, _ => .fuel
  | _+1, [] => .ok []
  | k+1, (key, v) :: rest => do
      match ← ap f [.str key, v] with
      | .bool b => do
          let ys ← mapAcceptLoop ap f k rest
          pure (if b then (key, v) :: ys else ys)
      | _ => .err

def allStrKeysPresent (kvs : List (String × Val)) : List Val → R Bool
  | [] => .ok true
  | .str key :: rest => if (mapGet kvs key).isSome then allStrKeysPresent kvs rest else .ok false
  | _ :: _ => .err

/-- declared arity (without receiver; −1 variadic) of the modelled methods, per receiver type -/
def methodSig : String → String → Option Int
  | "list", "map" => some 1 | "list", "accept" => some 1 | "list", "reduce" => some 1
  | "list", "sum" => some 0 | "list", "mapReduce" => some 2 | "list", "size" => some 0
  | "list", "first" => some 0 | "list", "last" => some 0 | "list", "top" => some 1
  | "list", "skip" => some 1 | "list", "append" => some 1 | "list", "reverse" => some 0
  | "list", "indexWhere" => some 1 | "list", "present" => some 1 | "list", "string" => some 0
  | "list", "eval" => some 0
  | "map", "get" => some 1 | "map", "put" => some 2 | "map", "size" => some 0
  | "map", "isAvail" => some (-1) | "map", "map" => some 1 | "map", "accept" => some 1
  | "map", "string" => some 0 | "map", "eval" => some 0
  | "string", "len" => some 0 | "string", "string" => some 0 | "string", "contains" => some 1
  | "int", "string" => some 0 | "float", "string" => some 0 | "bool", "string" => some 0
  | "closure", "args" => some 0 | "closure", "invoke" => some 1
  | _, _ => none

/-! The method bodies, one function per method name (receiver type and argument shapes are matched
inside); `methodBody` dispatches on the name. Arity was checked by the caller (`MethodCall` in
`GenerateFunc`). Receiver/argument combinations that are not modelled answer `unmodelled`. -/

def mMap (ap : Apply) (k : Nat) : Val → List Val → R Val
  | .list l, [f] => if isClosN f 1 then .ok (.list (.map f l)) else .err
  | .map kvs, [f] => if isClosN f 2 then do let r ← mapMapLoop ap f k kvs; pure (.map r) else .err
  | _, _ => .unmodelled

def mAccept (ap : Apply) (k : Nat) : Val → List Val → R Val
  | .list l, [f] => if isClosN f 1 then .ok (.list (.accept f l)) else .err
  | .map kvs, [f] => if isClosN f 2 then do let r ← mapAcceptLoop ap f k kvs; pure (.map r) else .err
  | _, _ => .unmodelled

def mTop : Val → List Val → R Val
  | .list l, [.int n] => .ok (.list (.top n l))
  | .list _, [_] => .err
  | _, _ => .unmodelled

def mSkip : Val → List Val → R Val
  | .list l, [.int n] => .ok (.list (.skip n l))
  | .list _, [_] => .err
  | _, _ => .unmodelled

def mSize (ap : Apply) (k : Nat) : Val → List Val → R Val
  | .list l, [] => do let xs ← force ap k l; pure (.int xs.length)
  | .map kvs, [] => .ok (.int kvs.length)
  | _, _ => .unmodelled

def mEval (ap : Apply) (k : Nat) : Val → List Val → R Val
  | .list l, [] => do let xs ← force ap k l; pure (.list (.items xs))
  | .map kvs, [] => .ok (.map kvs)
  | _, _ => .unmodelled

def mString (ap : Apply) (k : Nat) : Val → List Val → R Val
  | .list l, [] => do let s ← toStr ap k (.list l); pure (.str s)
  | .map kvs, [] => do let s ← toStr ap k (.map kvs); pure (.str s)
  | .str s, [] => .ok (.str s)
  | .int i, [] => .ok (.str (toString i))
  | .flt _, [] => .unmodelled
  | .bool b, [] => .ok (.str (if b then "true" else "false"))
  | _, _ => .unmodelled

def mFirst (ap : Apply) (k : Nat) : Val → List Val → R Val
  | .list l, [] =>
      match k with
      | 0 => .fuel
      | k+1 => do
        match ← uncons ap k l with
        | none => .err
        | some (x, _) => pure x
  | _, _ => .unmodelled

def mLast (ap : Apply) (k : Nat) : Val → List Val → R Val
  | .list l, [] => lastLoop ap k none l
  | _, _ => .unmodelled

def mReduce (ap : Apply) (k : Nat) : Val → List Val → R Val
  | .list l, [f] =>
      if !isClosN f 2 then .err else
      match k with
      | 0 => .fuel
      | k+1 => do
        match ← uncons ap k l with
        | none => .err
        | some (x, l') => reduceLoop ap f k x l'
  | _, _ => .unmodelled

def mMapReduce (ap : Apply) (k : Nat) : Val → List Val → R Val
  | .list l, [init, f] => if isClosN f 2 then reduceLoop ap f k init l else .err
  | _, _ => .unmodelled

def mSum (ap : Apply) (k : Nat) : Val → List Val → R Val
  | .list l, [] =>
      match k with
      | 0 => .fuel
      | k+1 => do
        match ← uncons ap k l with
        | none => .err
        | some (x, l') => sumLoop ap k x l'
  | _, _ => .unmodelled

def mAppend (ap : Apply) (k : Nat) : Val → List Val → R Val
  | .list l, [x] => do let xs ← force ap k l; pure (.list (.items (xs ++ [x])))
  | _, _ => .unmodelled

def mReverse (ap : Apply) (k : Nat) : Val → List Val → R Val
  | .list l, [] => do let xs ← force ap k l; pure (.list (.items xs.reverse))
  | _, _ => .unmodelled

def mIndexWhere (ap : Apply) (k : Nat) : Val → List Val → R Val
  | .list l, [f] =>
      if !isClosN f 1 then .err else do
      match ← findLoop ap f k 0 l with
      | some i => pure (.int i)
      | none => pure (.int (-1))
  | _, _ => .unmodelled

def mPresent (ap : Apply) (k : Nat) : Val → List Val → R Val
  | .list l, [f] =>
      if !isClosN f 1 then .err else do
      match ← findLoop ap f k 0 l with
      | some _ => pure (.bool true)
      | none => pure (.bool false)
  | _, _ => .unmodelled

def mGet : Val → List Val → R Val
  | .map kvs, [.str key] => R.ofOption (mapGet kvs key)
  | .map _, [_] => .err
  | _, _ => .unmodelled

def mPut : Val → List Val → R Val
  | .map kvs, [.str key, v] => if (mapGet kvs key).isSome then .err else .ok (.map ((key, v) :: kvs))
  | .map _, [_, _] => .err
  | _, _ => .unmodelled

def mIsAvail : Val → List Val → R Val
  | .map kvs, keys => do let r ← allStrKeysPresent kvs keys; pure (.bool r)
  | _, _ => .unmodelled

def mLen : Val → List Val → R Val
  | .str s, [] => .ok (.int s.utf8ByteSize)
  | _, _ => .unmodelled

def mContains : Val → List Val → R Val
  | .str s, [.str sub] => .ok (.bool (strContains s sub))
  | .str _, [_] => .err
  | _, _ => .unmodelled

def mArgs : Val → List Val → R Val
  | v, [] => match v.closArity with | some n => .ok (.int n) | none => .unmodelled
  | _, _ => .unmodelled

def mInvoke (ap : Apply) (k : Nat) : Val → List Val → R Val
  | v, [.list l] =>
      match v.closArity with
      | some n => do
          let xs ← force ap k l
          if xs.length ≠ n then .err else ap v xs
      | none => .unmodelled
  | _, _ => .unmodelled

def methodBody (ap : Apply) (k : Nat) (name : String) (recv : Val) (args : List Val) : R Val :=
  match name with
  | "map" => mMap ap k recv args
  | "accept" => mAccept ap k recv args
  | "top" => mTop recv args
  | "skip" => mSkip recv args
  | "size" => mSize ap k recv args
  | "eval" => mEval ap k recv args
  | "string" => mString ap k recv args
  | "first" => mFirst ap k recv args
  | "last" => mLast ap k recv args
  | "reduce" => mReduce ap k recv args
  | "mapReduce" => mMapReduce ap k recv args
  | "sum" => mSum ap k recv args
  | "append" => mAppend ap k recv args
  | "reverse" => mReverse ap k recv args
  | "indexWhere" => mIndexWhere ap k recv args
  | "present" => mPresent ap k recv args
  | "get" => mGet recv args
  | "put" => mPut recv args
  | "isAvail" => mIsAvail recv args
  | "len" => mLen recv args
  | "contains" => mContains recv args
  | "args" => mArgs recv args
  | "invoke" => mInvoke ap k recv args
  | _ => .unmodelled

/-- `GetMethod` + the arity test of the `MethodCall` case + the call.
`known ty name` is the regenerated method table: declared `Args` (receiver included; −1 variadic). -/
def callMethod (known : String → String → Option Int) (ap : Apply) (k : Nat) (name : String)
    (recv : Val) (args : List Val) : R Val :=
  match known (typeName recv) name with
  | none => .err                                   -- method not found
  | some declared =>
    if declared > 0 ∧ declared ≠ args.length + 1 then .err else
    methodBody ap k name recv args

end P2.Lang
