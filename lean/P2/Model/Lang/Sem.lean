import P2.Model.Lang.Gen
/-! # Language model: the reference semantics

A direct, lexically scoped, call-by-value, left-to-right interpreter of the program text with
environments (nearest binding first). It knows nothing about slots, frames or closure contexts.
It burns fuel exactly like `exec`, so that the two run in lock step (`Props/C01.lean`). -/
namespace P2.Lang

def bindParams : List String → List Val → Env
  | n :: ns, v :: vs => (n, v) :: bindParams ns vs
  | _, _ => []

/-- is `name` bound in the environment? (decides whether a call names a local or a static function) -/
def Env.has (env : Env) (name : String) : Bool := (env.get name).isSome

mutual
def applyS (S : Statics) (M : Methods) : Nat → Val → List Val → R Val
  | 0, _, _ => .fuel
  | n+1, f, args =>
    match f with
    | .sclos names body cenv r this =>
      if names.length ≠ args.length then .err else
      eval S M n body (bindParams names args ++ (if r then [(this, f)] else []) ++ cenv)
    | _ => .err
def eval (S : Statics) (M : Methods) : Nat → AST → Env → R Val
  | 0, _, _ => .fuel
  | n+1, a, env =>
    match a with
    | .const c => .ok (ofScalar c)
    | .ident x => R.ofIndex (env.get x)
    | .letE x v i => do let xv ← eval S M n v env; eval S M n i ((x, xv) :: env)
    | .ifE c t e => do
        match ← eval S M n c env with
        | .bool true => eval S M n t env
        | .bool false => eval S M n e env
        | _ => .err
    | .switchE v cases dflt => do
        let x ← eval S M n v env
        evalCases S M n x cases dflt env
    | .tryE t c =>
        match eval S M n t env with
        | .ok r => .ok r
        | .err => do
            let cv ← eval S M n c env
            match cv with
            | .sclos [_] _ _ _ _ => applyS S M n cv [.str "<error>"]
            | _ => pure cv
        | .panic => do
            let cv ← eval S M n c env
            match cv with
            | .sclos [_] _ _ _ _ => applyS S M n cv [.str "<error>"]
            | _ => pure cv
        | .fuel => .fuel
        | .unmodelled => .unmodelled
    | .unary op a => do let x ← eval S M n a env; unop op x
    | .binop op a b =>
        if op = "&" then do
          match ← eval S M n a env with
          | .bool false => pure (.bool false)
          | .bool true => do
              match ← eval S M n b env with
              | .bool v => pure (.bool v)
              | _ => .err
          | _ => .err
        else if op = "|" then do
          match ← eval S M n a env with
          | .bool true => pure (.bool true)
          | .bool false => do
              match ← eval S M n b env with
              | .bool v => pure (.bool v)
              | _ => .err
          | _ => .err
        else do
          let x ← eval S M n a env
          let y ← eval S M n b env
          binop (applyS S M n) n op x y
    | .clos names body _ r this => .ok (.sclos names body env r this)
    | .listLit items => do let vs ← evalList S M n items env; pure (.list (.items vs))
    | .index i l => do
        let iv ← eval S M n i env
        let lv ← eval S M n l env
        match lv, iv with
        | .list ll, .int k =>
          if k < 0 then .err else do
          let xs ← force (applyS S M n) n ll
          match xs[k.toNat]? with
          | some v => pure v
          | none => .err
        | _, _ => .err
    | .mapLit kvs => do let vs ← evalKVs S M n kvs env; pure (.map vs)
    | .member m key => do
        match ← eval S M n m env with
        | .map kvs => R.ofOption (mapGet kvs key)
        | _ => .err
    | .call f args =>
        let static? : Option String :=
          match f with
          | .ident name => if (S name).isSome ∧ !env.has name then some name else none
          | _ => none
        match static? with
        | some name => do
            let vs ← evalArgs S M n args env
            callStatic (applyS S M n) n name vs
        | none => do
            let fv ← eval S M n f env
            match fv with
            | .sclos names body cenv r this =>
              if names.length ≠ args.length then .err else do
              let vs ← evalArgs S M n args env
              eval S M n body (bindParams names vs ++ (if r then [(this, fv)] else []) ++ cenv)
            | _ => .err
    | .method recv name args => do
        let rv ← eval S M n recv env
        let field : Option Val := match rv with
          | .map kvs => match mapGet kvs name with
            | some (.sclos names body cenv r this) => some (.sclos names body cenv r this)
            | _ => none
          | _ => none
        match field with
        | some (.sclos names body cenv r this) =>
          if names.length ≠ args.length then .err else do
          let vs ← evalArgs S M n args env
          eval S M n body (bindParams names vs ++ (if r then [(this, .sclos names body cenv r this)] else []) ++ cenv)
        | _ =>
          match M (typeName rv) name with
          | none => .err
          | some declared =>
            if declared > 0 ∧ declared ≠ args.length + 1 then .err else do
            let vs ← evalArgs S M n args env
            methodBody (applyS S M n) n name rv vs
def evalArgs (S : Statics) (M : Methods) : Nat → List AST → Env → R (List Val)
  | 0, _, _ => .fuel
  | _+1, [], _ => .ok []
  | n+1, a :: as, env => do let v ← eval S M n a env; let vs ← evalArgs S M n as env; pure (v :: vs)
def evalList (S : Statics) (M : Methods) : Nat → List AST → Env → R (List Val)
  | 0, _, _ => .fuel
  | _+1, [], _ => .ok []
  | n+1, a :: as, env => do let v ← eval S M n a env; let vs ← evalList S M n as env; pure (v :: vs)
def evalKVs (S : Statics) (M : Methods) : Nat → List (String × AST) → Env → R (List (String × Val))
  | 0, _, _ => .fuel
  | _+1, [], _ => .ok []
  | n+1, (k, a) :: as, env => do let v ← eval S M n a env; let vs ← evalKVs S M n as env; pure ((k, v) :: vs)
def evalCases (S : Statics) (M : Methods) : Nat → Val → List (AST × AST) → AST → Env → R Val
  | 0, _, _, _, _ => .fuel
  | n+1, _, [], dflt, env => eval S M n dflt env
  | n+1, x, (c, r) :: rest, dflt, env => do
      let cv ← eval S M n c env
      let eq ← valEq (applyS S M n) n x cv
      if eq then eval S M n r env else evalCases S M n x rest dflt env
end

/-! ## top level: `Generate` + `Func.Eval` -/

/-- `generateIntern`: compile with the arguments as the initial slots; `none` = Generate fails -/
def generate (S : Statics) (V : Variant) (a : AST) (argNames : List String) : Option Code :=
  if !noDup argNames then none else gen S V a (argNames.map some) []

/-- the function returned by Generate: fresh stack, `Init(args)`, and the `recover` that turns a
panic on the calling goroutine into an error -/
def runCompiled (M : Methods) (fuel : Nat) (code : Code) (args : List Val) : R Val :=
  match exec M fuel code (pushAll ⟨[], 0, 0⟩ args) [] with
  | .ok (v, _) => .ok v
  | .panic => .err
  | .err => .err
  | .fuel => .fuel
  | .unmodelled => .unmodelled

def runReference (S : Statics) (M : Methods) (fuel : Nat) (a : AST) (argNames : List String) (args : List Val) : R Val :=
  match eval S M fuel a (bindParams argNames args).reverse with
  | .panic => .err
  | r => r

end P2.Lang
