import P2.Model.Lang.Sem
/-! # Language model: the optimizer of the value language (C02)

`optimize` mirrors, on the language model's `AST`, what the real front end does to a program when
the default optimizer is installed:

* `/repo/funcGen/optimizer.go` `optimizer.Optimize` — the local rewriting rule applied to every node
  after its children (`/repo/parser2.go` `opt`, the `Optimize` methods of the node types), and
* `/repo/parser2.go` `parseLet` — a `let`/`func` whose (optimized) value is a `*Const` is not kept as
  a `Let` node: the name becomes a constant identifier (`AddConst`) and every later use is parsed as
  that constant (`parseLiteral`, `i.IsConst`); constant identifiers are not outer identifiers of a
  closure (`AddArgs`, `ok && !ident.IsConst`).

**Constants.** Go's `*parser2.Const[V]` holds a run-time value. The model's `AST` has scalar
constants only, so a constant is represented by its *constant form* (`isConst`): a scalar, a list /
map literal of constant forms, or a closure literal without outer identifiers, not recursive, whose
body compiles (`gen`) and is pure (rule (f) of the optimizer). A folding step evaluates the closed
subterm with the reference semantics `eval` at the fixed fuel `cfg.fuel` in the empty environment
(Go: calls the real operator / function / method implementation) and writes the value back as a
constant form (`reify`).

Rule by rule (line numbers of `/repo/funcGen/optimizer.go`):

| lines    | Go rule                                                      | here                     |
|----------|--------------------------------------------------------------|--------------------------|
| 20–31    | pure operator, both operands constant → `Calc`               | `rule`, `.binop`, 1st    |
| 32–59    | commutative operator: `(c₁∘x)∘c₂`, `(x∘c₁)∘c₂` regrouped     | `rule`, `.binop`, 2nd    |
| 65–75    | unary operator on a constant                                 | `rule`, `.unary`         |
| 77–89    | `if` with a constant condition (`toBool`)                    | `rule`, `.ifE`           |
| 91–95    | list literal of constants                                    | identity (constant form) |
| 96–106   | list access, constant list and index                         | `rule`, `.index`         |
| 110–122  | map literal of constants                                     | identity (constant form) |
| 123–131  | map access on a constant                                     | `rule`, `.member`        |
| 135–149  | pure static function, constant arguments                     | `rule`, `.call (.ident)` |
| 150–167  | constant closure called with constant arguments              | `rule`, `.call` other    |
| 171–203  | pure method on a constant receiver, constant arguments; not  | `rule`, `.method`        |
|          | when the receiver is a map with a closure in that field      | (`cfg.closureFieldWins`) |
| 205–223  | closure literal without outer identifiers, pure body         | `isConst`, `.clos`       |
| parser2.go 966–972, 1018–1024 | `let`/`func` with a constant value: inlined | `opt`, `.letE`           |

A folding whose evaluation fails with an error leaves the node unchanged (`return ast`).

NOT modelled (the answer is `Except.error why`, the correspondence run counts such programs as
unmodelled and does not compare them):
* a folded value without a literal form: lazy lists (`[1,2].map(f)`, `numbers(3)`, `a + b` on
  lists) and closures with a captured context (`(x -> y -> x + y)(1)`);
* a library step outside the model during folding (`R.unmodelled`), a panic inside a folding step
  (Go: `parser2.Optimize` recovers and returns the partially rewritten tree), fuel exhaustion;
* a run-time binder (parameter, non-constant `let`, function name) named like a static function
  (the constant form of an inlined closure would then be read in a scope that shadows the static
  function its body calls);
* `let`/closure literals inside a `case` constant (Go optimizes the value of such a `let` at parse
  time but not the case constant itself);
* the implicit-map identifiers (`Identifiers.AddMap`) — not used by `value.New()`.
-/
namespace P2.Lang.Opt

/-- purity / commutativity flags of the operator and method tables (regenerated: `ValueTables`) -/
structure Tables where
  opPure : String → Bool
  opComm : String → Bool
  /-- (receiver type name, method name) -/
  methPure : String → String → Bool

structure Cfg where
  /-- fuel of one folding evaluation -/
  fuel : Nat := 400
  /-- a closure stored in a field of a constant map takes precedence over a method of that name:
  the method call is not folded (repair 89b886b); `false` = behaviour before the repair -/
  closureFieldWins : Bool := true
  /-- folding goes through the `And`/`Or` matrices, which accept two ints (bitwise), although the
  compiled short-circuit code accepts bools only (open finding `const-int-and-or`); `true` = HEAD -/
  intAndOr : Bool := true
  /-- regrouping of the constants of a chain of one commutative operator (open finding
  `regroup-mul-int-wrap`) -/
  regroup : Bool := true
  /-- rule (f): closure literals without outer identifiers are constants -/
  foldClosures : Bool := true
  /-- `false` for the names of methods declared impure on some type: the receiver type of a method call
  is not known when the code is generated, so the call counts as pure only if NO method of that name is
  declared impure (repair 8aa887a, `MethodPurityHandler`). `fun _ => true` = no impure method is
  registered (true of `value.New()`: regenerated `ValueTables`), which is also how the code before the
  repair treated every method call. -/
  methNamePure : String → Bool := fun _ => true

/-- the scope while optimizing, nearest binding first: `some k` = constant identifier with constant
form `k` (parser: `AddConst`), `none` = run-time variable (`Add`, `AddArgs`, `AddThis`) -/
abbrev Scope := List (String × Option AST)

def Scope.find : Scope → String → Option (Option AST)
  | [], _ => none
  | (n, b) :: rest, x => if n = x then some b else Scope.find rest x

section
variable (S : Statics) (M : Methods) (T : Tables) (cfg : Cfg)

/-! ## purity of a closure body (`GenerateFunc`'s second result) -/

mutual
/-- only a call of an impure static function or of a method whose NAME is declared impure makes
generated code impure -/
def pureA : AST → Bool
  | .const _ => true
  | .ident _ => true
  | .letE _ v i => pureA v && pureA i
  | .ifE c t e => pureA c && pureA t && pureA e
  | .switchE v cases d => pureA v && pureCases cases && pureA d
  | .tryE t c => pureA t && pureA c
  | .unary _ a => pureA a
  | .binop _ a b => pureA a && pureA b
  | .clos _ body _ _ _ => pureA body
  | .listLit items => pureList items
  | .index i l => pureA i && pureA l
  | .mapLit kvs => pureKVs kvs
  | .member m _ => pureA m
  | .call f args =>
      (match f with
       | .ident name => (match S name with | some (_, p) => p | none => true)
       | _ => true) && pureA f && pureList args
  | .method recv name args => cfg.methNamePure name && pureA recv && pureList args
def pureList : List AST → Bool
  | [] => true
  | a :: as => pureA a && pureList as
def pureKVs : List (String × AST) → Bool
  | [] => true
  | (_, a) :: as => pureA a && pureKVs as
def pureCases : List (AST × AST) → Bool
  | [] => true
  | (c, r) :: rest => pureA c && pureA r && pureCases rest
end

/-! ## constant forms -/

mutual
/-- the node is a `*parser2.Const` in the optimized tree -/
def isConst : AST → Bool
  | .const _ => true
  | .listLit items => allConst items
  | .mapLit kvs => allConstKVs kvs
  | .clos names body outer r _ =>
      cfg.foldClosures && outer.isEmpty && !r && pureA S cfg body
        && (gen S {} body (names.map some) []).isSome
  | _ => false
def allConst : List AST → Bool
  | [] => true
  | a :: as => isConst a && allConst as
def allConstKVs : List (String × AST) → Bool
  | [] => true
  | (_, a) :: as => isConst a && allConstKVs as
end

mutual
/-- the literal form of a value; `none` for lazy lists and closures with a context -/
def reify : Val → Option AST
  | .int i => some (.const (.int i))
  | .flt f => some (.const (.flt f))
  | .str s => some (.const (.str s))
  | .bool b => some (.const (.bool b))
  | .list l => reifyL l
  | .map kvs => (reifyKVs kvs).map .mapLit
  | .sclos names body env r this =>
      match env, r with
      | [], false => some (.clos names body [] false this)
      | _, _ => none
  | .rclos .. => none
def reifyL : LList → Option AST
  | .items xs => (reifyVs xs).map .listLit
  | _ => none
def reifyVs : List Val → Option (List AST)
  | [] => some []
  | v :: vs => do let a ← reify v; let as ← reifyVs vs; pure (a :: as)
def reifyKVs : List (String × Val) → Option (List (String × AST))
  | [] => some []
  | (k, v) :: kvs => do let a ← reify v; let as ← reifyKVs kvs; pure ((k, a) :: as)
end

/-- the value a constant form stands for -/
def cval (k : AST) : R Val := eval S M cfg.fuel k []

def cvals : List AST → R (List Val)
  | [] => .ok []
  | k :: ks => do let v ← cval S M cfg k; let vs ← cvals ks; pure (v :: vs)

/-- outcome of a folding step: `some k` = replace by the constant `k`, `none` = the evaluation
failed with an error, keep the node (`return ast`) -/
def foldV (r : R Val) : Except String (Option AST) :=
  match r with
  | .ok v =>
    match reify v with
    | some k => if isConst S cfg k then .ok (some k) else .error "folded value holds a closure that is not a constant"
    | none => .error "folded value has no literal form (lazy list or closure with context)"
  | .err => .ok none
  | .panic => .error "panic inside a folding step"
  | .fuel => .error "fuel exhausted inside a folding step"
  | .unmodelled => .error "library step outside the model inside a folding step"

def foldR (orig : AST) (r : R Val) : Except String AST := do
  match ← foldV S cfg r with
  | some k => pure k
  | none => pure orig

/-- Go's `&` / `|` on `int64`: bitwise on the two's complement representation -/
def bits64 (f : Nat → Nat → Nat) (x y : Int) : Int :=
  wrap64 (Int.ofNat (f (x % 18446744073709551616).toNat (y % 18446744073709551616).toNat))

/-- `operator.Impl.Calc`: the operator matrices, not the short-circuit code `GenerateCustom`
compiles for `&` and `|` -/
def calcOp (op : String) (a b : Val) : R Val :=
  match cfg.intAndOr, op, a, b with
  | true, "&", .int x, .int y => .ok (.int (bits64 Nat.land x y))
  | true, "|", .int x, .int y => .ok (.int (bits64 Nat.lor x y))
  | _, _, _, _ => binop (applyS S M cfg.fuel) cfg.fuel op a b

def calcK (op : String) (x y : AST) : R Val := do
  let vx ← cval S M cfg x
  let vy ← cval S M cfg y
  calcOp S M cfg op vx vy

/-- does the field `name` of a map value hold a closure (`ExtractFunction`)? -/
def closureField (rv : Val) (name : String) : Bool :=
  match rv with
  | .map kvs => match mapGet kvs name with
    | some (.sclos ..) => true
    | some (.rclos ..) => true
    | _ => false
  | _ => false

/-- `optimizer.Optimize` on one node whose children are already optimized. `sc` is only consulted
for `Ident.IsFunc` (the name of a static function is not shadowed). -/
def rule (sc : Scope) (a : AST) : Except String AST :=
  match a with
  | .binop op x y =>
      if isConst S cfg y then
        if T.opPure op && isConst S cfg x then
          foldR S cfg a (calcK S M cfg op x y)                                  -- 24–31
        else if cfg.regroup && T.opComm op then
          match x with
          | .binop op2 xa xb =>
            if op2 = op then
              if isConst S cfg xa then do                                        -- 34–45
                match ← foldV S cfg (calcK S M cfg op xa y) with
                | some k => pure (.binop op k xb)
                | none => pure a
              else if isConst S cfg xb then do                                   -- 46–57
                match ← foldV S cfg (calcK S M cfg op xb y) with
                | some k => pure (.binop op xa k)
                | none => pure a
              else pure a
            else pure a
          | _ => pure a
        else pure a
      else pure a
  | .unary op x =>
      if isConst S cfg x then foldR S cfg a (do let v ← cval S M cfg x; unop op v) else pure a   -- 65–75
  | .ifE c t e =>                                                                -- 77–89
      match c with
      | .const (.bool true) => pure t
      | .const (.bool false) => pure e
      | _ => pure a
  | .index i l =>                                                                -- 96–106
      if isConst S cfg l && isConst S cfg i then foldR S cfg a (eval S M cfg.fuel a []) else pure a
  | .member m _ =>                                                               -- 123–131
      if isConst S cfg m then foldR S cfg a (eval S M cfg.fuel a []) else pure a
  | .call f args =>
      match f with
      | .ident name =>                                                           -- 136–149
        match S name, sc.find name with
        | some (arity, true), none =>
          if arity ≥ 0 ∧ arity ≠ args.length then pure a
          else if allConst S cfg args then foldR S cfg a (eval S M cfg.fuel a []) else pure a
        | _, _ => pure a
      | .clos names _ _ _ _ =>                                                   -- 150–167
        if isConst S cfg f then
          if names.length ≠ args.length then pure a
          else if allConst S cfg args then foldR S cfg a (eval S M cfg.fuel a []) else pure a
        else pure a
      | _ => pure a
  | .method recv name args =>                                                    -- 171–203
      if isConst S cfg recv && allConst S cfg args then
        foldR S cfg a (do
          let rv ← cval S M cfg recv
          if cfg.closureFieldWins && closureField rv name then .err else       -- 174–181
          match M (typeName rv) name with
          | none => .err                                                         -- 183–186
          | some declared =>
            if !T.methPure (typeName rv) name then .err else
            if declared ≠ -1 ∧ args.length + 1 ≠ declared then .err else        -- 188–190
            do let vs ← cvals S M cfg args
               methodBody (applyS S M cfg.fuel) cfg.fuel name rv vs)
      else pure a
  | _ => pure a

/-- a run-time binder must not be named like a static function (see the module comment) -/
def guardName (x : String) : Except String Unit :=
  if (S x).isSome then .error "run-time binder named like a static function" else pure ()

def guardNames : List String → Except String Unit
  | [] => pure ()
  | x :: xs => do guardName S x; guardNames xs

def isRuntime (sc : Scope) (x : String) : Bool :=
  match sc.find x with
  | some (some _) => false
  | _ => true

mutual
/-- `fold = false` inside a `case` constant: constant identifiers are replaced (parse time), but
the node is never handed to the optimizer -/
def opt : Bool → Scope → AST → Except String AST
  | _, _, .const c => pure (.const c)
  | _, sc, .ident x =>
      match sc.find x with
      | some (some k) => pure k
      | _ => pure (.ident x)
  | fold, sc, .letE x v i =>
      if !fold then .error "let inside a case constant" else do
      let v' ← opt fold sc v
      if isConst S cfg v' then opt fold ((x, some v') :: sc) i
      else do
        guardName S x
        let i' ← opt fold ((x, none) :: sc) i
        pure (.letE x v' i')
  | fold, sc, .ifE c t e => do
      let c' ← opt fold sc c; let t' ← opt fold sc t; let e' ← opt fold sc e
      if fold then rule S M T cfg sc (.ifE c' t' e') else pure (.ifE c' t' e')
  | fold, sc, .switchE v cases d => do
      let v' ← opt fold sc v
      let cases' ← optCases fold sc cases
      let d' ← opt fold sc d
      pure (.switchE v' cases' d')
  | fold, sc, .tryE t c => do
      let t' ← opt fold sc t; let c' ← opt fold sc c
      pure (.tryE t' c')
  | fold, sc, .unary op a => do
      let a' ← opt fold sc a
      if fold then rule S M T cfg sc (.unary op a') else pure (.unary op a')
  | fold, sc, .binop op a b => do
      let a' ← opt fold sc a; let b' ← opt fold sc b
      if fold then rule S M T cfg sc (.binop op a' b') else pure (.binop op a' b')
  | fold, sc, .clos names body outer r this =>
      if !fold then .error "closure literal inside a case constant" else do
      guardNames S names
      if this ≠ "" then guardName S this
      let sc' := (if this ≠ "" then [(this, none)] else []) ++ names.map (fun n => (n, none)) ++ sc
      let body' ← opt fold sc' body
      pure (.clos names body' (outer.filter (isRuntime sc)) r this)
  | fold, sc, .listLit items => do
      let items' ← optList fold sc items
      pure (.listLit items')
  | fold, sc, .index i l => do
      let i' ← opt fold sc i; let l' ← opt fold sc l
      if fold then rule S M T cfg sc (.index i' l') else pure (.index i' l')
  | fold, sc, .mapLit kvs => do
      let kvs' ← optKVs fold sc kvs
      pure (.mapLit kvs')
  | fold, sc, .member m key => do
      let m' ← opt fold sc m
      if fold then rule S M T cfg sc (.member m' key) else pure (.member m' key)
  | fold, sc, .call f args => do
      let f' ← opt fold sc f
      let args' ← optList fold sc args
      if fold then rule S M T cfg sc (.call f' args') else pure (.call f' args')
  | fold, sc, .method recv name args => do
      let recv' ← opt fold sc recv
      let args' ← optList fold sc args
      if fold then rule S M T cfg sc (.method recv' name args') else pure (.method recv' name args')
def optList : Bool → Scope → List AST → Except String (List AST)
  | _, _, [] => pure []
  | fold, sc, a :: as => do let a' ← opt fold sc a; let as' ← optList fold sc as; pure (a' :: as')
def optKVs : Bool → Scope → List (String × AST) → Except String (List (String × AST))
  | _, _, [] => pure []
  | fold, sc, (k, a) :: as => do let a' ← opt fold sc a; let as' ← optKVs fold sc as; pure ((k, a') :: as')
/-- `Switch.Optimize` visits the case values, not the case constants -/
def optCases : Bool → Scope → List (AST × AST) → Except String (List (AST × AST))
  | _, _, [] => pure []
  | fold, sc, (c, r) :: rest => do
      let c' ← opt false sc c
      let r' ← opt fold sc r
      let rest' ← optCases fold sc rest
      pure ((c', r') :: rest')
end

/-- the tree `Generate(src, argNames…)` compiles when the default optimizer is installed, given the
tree the parser produces without an optimizer -/
def optimize (argNames : List String) (a : AST) : Except String AST := do
  guardNames S argNames
  opt S M T cfg true (argNames.reverse.map (fun n => (n, none))) a

end

end P2.Lang.Opt
