import P2.Model.Lang.Lib
/-! # Language model: the compiler (`GenerateFunc`) and the compiled semantics (`exec`)

`gen` follows `/repo/funcGen/generator.go` `GenerateFunc` case by case and `value.GenerateCustom`
(`/repo/value/value.go`: try/catch, short-circuit `&`/`|`). The compile-time slot list `am` holds
`some name` for a named local and `none` for a value that a call site has already pushed (receiver,
earlier arguments). `Variant` selects the behaviour of the pinned commit for the two repaired defects
(witnesses in `Props/C01.lean`). -/
namespace P2.Lang

structure Variant where
  /-- call sites account for already pushed values in the compile-time slot list (repair of B1) -/
  pushedSlots : Bool := true
  /-- a local binding shadows a static function of the same name in call position (repair of B24) -/
  localShadowsStatic : Bool := true

abbrev Names := List (Option String)

def idx : Names → String → Option Nat
  | [], _ => none
  | x :: xs, n => if x = some n then some 0 else (idx xs n).map (· + 1)

def idxS : List String → String → Option Nat
  | [], _ => none
  | x :: xs, n => if x = n then some 0 else (idxS xs n).map (· + 1)

/-- `accessContextOperations`: where each outer identifier is copied from at closure creation -/
def captureOf (am : Names) (cm : List String) : List String → Option (List (Bool × Nat))
  | [] => some []
  | x :: xs => do
    let c ← match idx am x with
      | some i => some (true, i)
      | none => (idxS cm x).map (false, ·)
    let cs ← captureOf am cm xs
    pure (c :: cs)

def noDup : List String → Bool
  | [] => true
  | x :: xs => !xs.contains x && noDup xs

/-- static function signatures: name ↦ (Args, IsPure) — the regenerated table -/
abbrev Statics := String → Option (Int × Bool)

mutual
def gen (S : Statics) (V : Variant) : AST → Names → List String → Option Code
  | .const c, _, _ => some (.const c)
  | .ident x, am, cm =>
    match idx am x with
    | some i => some (.stk i)
    | none => (idxS cm x).map .cs
  | .letE x v i, am, cm => do
      let cv ← gen S V v am cm
      if x = "" ∨ (idx am x).isSome then none else       -- `argsList.add`: empty name / redeclaration
      let ci ← gen S V i (am ++ [some x]) cm
      pure (.letE cv ci)
  | .ifE c t e, am, cm => do
      let cc ← gen S V c am cm; let ct ← gen S V t am cm; let ce ← gen S V e am cm
      pure (.ifE cc ct ce)
  | .switchE v cases d, am, cm => do
      let cv ← gen S V v am cm
      let cd ← gen S V d am cm
      let ccs ← genCases S V cases am cm
      pure (.switchE cv ccs cd)
  | .tryE t c, am, cm => do
      let ct ← gen S V t am cm; let cc ← gen S V c am cm
      pure (.tryE ct cc)
  | .unary op a, am, cm => do let ca ← gen S V a am cm; pure (.unary op ca)
  | .binop op a b, am, cm => do
      let ca ← gen S V a am cm; let cb ← gen S V b am cm
      pure (if op = "&" then .andE ca cb else if op = "|" then .orE ca cb else .binop op ca cb)
  | .clos names body outer r this, am, cm => do
      -- `usedVars.add(ThisName)` rejects a duplicate; parameters are unique by `parseIdentList`
      if r ∧ (outer.contains this ∨ this = "") then none else
      let cb ← gen S V body (names.map some) (outer ++ (if r then [this] else []))
      let cap ← captureOf am cm outer
      pure (.clos names.length cb cap r)
  | .listLit items, am, cm => do let cs ← genList S V items am cm; pure (.listLit cs)
  | .index i l, am, cm => do
      let ci ← gen S V i am cm; let cl ← gen S V l am cm
      pure (.index ci cl)
  | .mapLit kvs, am, cm => do let cs ← genKVs S V kvs am cm; pure (.mapLit cs)
  | .member m key, am, cm => do let c ← gen S V m am cm; pure (.member c key)
  | .call f args, am, cm =>
      let static? : Option (String × Int) :=
        match f with
        | .ident name =>
          match S name with
          | some (arity, _) =>
            if V.localShadowsStatic ∧ ((idx am name).isSome ∨ (idxS cm name).isSome) then none
            else some (name, arity)
          | none => none
        | _ => none
      match static? with
      | some (name, arity) => do
          if arity ≥ 0 ∧ arity ≠ args.length then none else
          let cas ← genArgs S V args am cm
          pure (.callStatic name cas)
      | none => do
          let cf ← gen S V f am cm
          let cas ← genArgs S V args am cm
          pure (.call cf cas)
  | .method recv name args, am, cm => do
      let cr ← gen S V recv am cm
      -- the receiver is pushed before the arguments
      let cas ← genArgs S V args (if V.pushedSlots then am ++ [none] else am) cm
      pure (.method cr name cas)
/-- arguments of a call: argument `i` is compiled with `i` more anonymous slots -/
def genArgs (S : Statics) (V : Variant) : List AST → Names → List String → Option (List Code)
  | [], _, _ => some []
  | a :: as, am, cm => do
      let c ← gen S V a am cm
      let cs ← genArgs S V as (if V.pushedSlots then am ++ [none] else am) cm
      pure (c :: cs)
/-- list literal items: nothing is pushed in between -/
def genList (S : Statics) (V : Variant) : List AST → Names → List String → Option (List Code)
  | [], _, _ => some []
  | a :: as, am, cm => do
      let c ← gen S V a am cm
      let cs ← genList S V as am cm
      pure (c :: cs)
def genKVs (S : Statics) (V : Variant) : List (String × AST) → Names → List String → Option (List (String × Code))
  | [], _, _ => some []
  | (k, a) :: as, am, cm => do
      let c ← gen S V a am cm
      let cs ← genKVs S V as am cm
      pure ((k, c) :: cs)
def genCases (S : Statics) (V : Variant) : List (AST × AST) → Names → List String → Option (List (Code × Code))
  | [], _, _ => some []
  | (c, r) :: rest, am, cm => do
      let cc ← gen S V c am cm
      let cr ← gen S V r am cm
      let cs ← genCases S V rest am cm
      pure ((cc, cr) :: cs)
end

/-! ## the value stack (`Stack`, `stackStorage`) -/

structure Stack where
  data : List Val
  offs : Nat
  size : Nat

/-- `stackStorage.set`: overwrite, or append when `n = len` (the 10 000-slot guard is part of C05) -/
def setAt (d : List Val) (n : Nat) (v : Val) : List Val :=
  if n < d.length then d.set n v else d ++ [v]

def Stack.push (s : Stack) (v : Val) : Stack :=
  { s with data := setAt s.data (s.offs + s.size) v, size := s.size + 1 }

def Stack.get (s : Stack) (i : Nat) : R Val := R.ofIndex (s.data[s.offs + i]?)

def readCapture (st : Stack) (cs : List Val) : List (Bool × Nat) → R (List Val)
  | [] => .ok []
  | (true, i) :: rest => do let v ← st.get i; let vs ← readCapture st cs rest; pure (v :: vs)
  | (false, j) :: rest => do let v ← R.ofIndex (cs[j]?); let vs ← readCapture st cs rest; pure (v :: vs)

def pushAll : Stack → List Val → Stack
  | st, [] => st
  | st, v :: vs => pushAll (st.push v) vs

/-- the regenerated method table: type name, method name ↦ declared Args -/
abbrev Methods := String → String → Option Int

mutual
/-- calling a compiled closure value from the library (`Function.Eval/EvalSt`, `f.Func(st.CreateFrame…)`):
the arguments are pushed on a fresh stack — Go pushes them above the live frame of the caller's
storage; the two agree because a frame never reads above `offs+size` (see DESIGN §C01) -/
def applyR (M : Methods) : Nat → Val → List Val → R Val
  | 0, _, _ => .fuel
  | n+1, f, args =>
    match f with
    | .rclos na body ctx r =>
      if na ≠ args.length then .err else do
      let st := pushAll ⟨[], 0, 0⟩ args
      let (v, _) ← exec M n body st (ctx ++ (if r then [f] else []))
      pure v
    | _ => .err
def exec (M : Methods) : Nat → Code → Stack → List Val → R (Val × List Val)
  | 0, _, _, _ => .fuel
  | n+1, c, st, cs =>
    match c with
    | .const v => .ok (ofScalar v, st.data)
    | .stk i => do let v ← st.get i; pure (v, st.data)
    | .cs j => do let v ← R.ofIndex (cs[j]?); pure (v, st.data)
    | .letE v i => do
        let (x, d) ← exec M n v st cs
        exec M n i ({ st with data := d }.push x) cs
    | .ifE c t e => do
        let (cv, d) ← exec M n c st cs
        match cv with
        | .bool true => exec M n t { st with data := d } cs
        | .bool false => exec M n e { st with data := d } cs
        | _ => .err
    | .switchE v cases dflt => do
        let (x, d) ← exec M n v st cs
        execCases M n x cases dflt { st with data := d } cs
    | .tryE t c =>
        match exec M n t st cs with
        | .ok r => .ok r
        | .err => do
            let (cv, d) ← exec M n c st cs
            match cv with
            | .rclos 1 _ _ _ => do
                -- the catch closure receives the error text (not modelled: an opaque string)
                let v ← applyR M n cv [.str "<error>"]
                pure (v, d)
            | _ => pure (cv, d)
        | .panic => do
            -- a run-time panic in the try expression is caught like an error (value.GenerateCustom recovers)
            let (cv, d) ← exec M n c st cs
            match cv with
            | .rclos 1 _ _ _ => do
                let v ← applyR M n cv [.str "<error>"]
                pure (v, d)
            | _ => pure (cv, d)
        | .fuel => .fuel
        | .unmodelled => .unmodelled
    | .unary op a => do
        let (x, d) ← exec M n a st cs
        let r ← unop op x
        pure (r, d)
    | .binop op a b => do
        let (x, d) ← exec M n a st cs
        let (y, d) ← exec M n b { st with data := d } cs
        let r ← binop (applyR M n) n op x y
        pure (r, d)
    | .andE a b => do
        let (x, d) ← exec M n a st cs
        match x with
        | .bool false => pure (.bool false, d)
        | .bool true => do
            let (y, d) ← exec M n b { st with data := d } cs
            match y with
            | .bool v => pure (.bool v, d)
            | _ => .err
        | _ => .err
    | .orE a b => do
        let (x, d) ← exec M n a st cs
        match x with
        | .bool true => pure (.bool true, d)
        | .bool false => do
            let (y, d) ← exec M n b { st with data := d } cs
            match y with
            | .bool v => pure (.bool v, d)
            | _ => .err
        | _ => .err
    | .clos na body cap r => do
        let ctx ← readCapture st cs cap
        pure (.rclos na body ctx r, st.data)
    | .listLit items => do
        let (vs, d) ← execList M n items st cs
        pure (.list (.items vs), d)
    | .index i l => do
        let (iv, d) ← exec M n i st cs
        let (lv, d) ← exec M n l { st with data := d } cs
        match lv, iv with
        | .list ll, .int k =>
          if k < 0 then .err else do
          let xs ← force (applyR M n) n ll
          match xs[k.toNat]? with
          | some v => pure (v, d)
          | none => .err
        | _, _ => .err
    | .mapLit kvs => do
        let (vs, d) ← execKVs M n kvs st cs
        pure (.map vs, d)
    | .member m key => do
        let (mv, d) ← exec M n m st cs
        match mv with
        | .map kvs => match mapGet kvs key with
          | some v => pure (v, d)
          | none => .err
        | _ => .err
    | .callStatic name args => do
        let st' ← execArgs M n args st cs
        let argv := (st'.data.drop (st.offs + st.size)).take args.length
        let r ← callStatic (applyR M n) n name argv
        pure (r, st'.data)
    | .call f args => do
        let (fv, d) ← exec M n f st cs
        match fv with
        | .rclos na body ctx r =>
          if na ≠ args.length then .err else do
          let st' ← execArgs M n args { st with data := d } cs
          let frame : Stack := { data := st'.data, offs := st'.offs + st'.size - na, size := na }
          exec M n body frame (ctx ++ (if r then [fv] else []))
        | _ => .err
    | .method recv name args => do
        let (rv, d) ← exec M n recv st cs
        let st1 : Stack := { st with data := d }
        -- a map field holding a closure is called like a function (the receiver is pushed, but is
        -- not part of the frame)
        let field : Option Val := match rv with
          | .map kvs => match mapGet kvs name with
            | some (.rclos na body ctx r) => some (.rclos na body ctx r)
            | _ => none
          | _ => none
        match field with
        | some (.rclos na body ctx r) =>
          if na ≠ args.length then .err else do
          let st' ← execArgs M n args (st1.push rv) cs
          let frame : Stack := { data := st'.data, offs := st'.offs + st'.size - na, size := na }
          exec M n body frame (ctx ++ (if r then [.rclos na body ctx r] else []))
        | _ =>
          match M (typeName rv) name with
          | none => .err
          | some declared =>
            if declared > 0 ∧ declared ≠ args.length + 1 then .err else do
            let st' ← execArgs M n args (st1.push rv) cs
            let argv := (st'.data.drop (st.offs + st.size + 1)).take args.length
            let r ← methodBody (applyR M n) n name rv argv
            pure (r, st'.data)
/-- evaluate the arguments one by one, pushing each (`st.Push(v)`) -/
def execArgs (M : Methods) : Nat → List Code → Stack → List Val → R Stack
  | 0, _, _, _ => .fuel
  | _+1, [], st, _ => .ok st
  | n+1, a :: as, st, cs => do
      let (v, d) ← exec M n a st cs
      execArgs M n as ({ st with data := d }.push v) cs
def execList (M : Methods) : Nat → List Code → Stack → List Val → R (List Val × List Val)
  | 0, _, _, _ => .fuel
  | _+1, [], st, _ => .ok ([], st.data)
  | n+1, a :: as, st, cs => do
      let (v, d) ← exec M n a st cs
      let (vs, d) ← execList M n as { st with data := d } cs
      pure (v :: vs, d)
def execKVs (M : Methods) : Nat → List (String × Code) → Stack → List Val → R (List (String × Val) × List Val)
  | 0, _, _, _ => .fuel
  | _+1, [], st, _ => .ok ([], st.data)
  | n+1, (k, a) :: as, st, cs => do
      let (v, d) ← exec M n a st cs
      let (vs, d) ← execKVs M n as { st with data := d } cs
      pure ((k, v) :: vs, d)
def execCases (M : Methods) : Nat → Val → List (Code × Code) → Code → Stack → List Val → R (Val × List Val)
  | 0, _, _, _, _, _ => .fuel
  | n+1, _, [], dflt, st, cs => exec M n dflt st cs
  | n+1, x, (c, r) :: rest, dflt, st, cs => do
      let (cv, d) ← exec M n c st cs
      let eq ← valEq (applyR M n) n x cv
      if eq then exec M n r { st with data := d } cs
      else execCases M n x rest dflt { st with data := d } cs
end

end P2.Lang
