import P2.Model.ParStage
/-! # Panic containment: goroutines as stacks of frames with deferred recovers (C05)

What keeps a Go panic raised while a generated function is evaluated from killing the process is a discipline of
`defer func() { … recover() … }()` statements, read from the code:

* `funcGen/generator.go generateIntern`: the generated top-level function recovers and returns the panic as its error;
* `value/value.go GenerateCustom` (TryCatch): the try part runs in a function literal that recovers to its error result;
* `value/list.go autoParallelStage`: in parallel mode (`iterator.MapAuto` → `initParallel`) the mapper runs on worker
  goroutines started by the external library and the downstream consumer runs on the library's collector goroutine.
  The worker closures of `Map`/`Accept` recover to `stageItem{err}`; the consumer wrapper recovers, STORES the value
  in `consumerPanic` and the stage raises it again on the goroutine that iterates the stage once `stage(…)` is back;
  `recoverProducer(source)` turns a panic of the source into an error item;
* `value/list.go Merge`: `iterator.Merge` runs both operands on goroutines of `iterator.ToChan`; each operand is wrapped in
  `recoverProducer`, which yields an error item;
* `value/multiUse.go`: `go mu.runConsumer(…)` recovers at its root and reports through `done(err)`; the source is run
  on the calling goroutine through `recoverProducer`;
* `value/export/html.go ToHtml` recovers to its error result; `value/arg/error.go CatchErr` recovers and raises
  foreign panics again.

Go's rule: `recover()` stops a panic only when it is called DIRECTLY by the deferred function; called in a helper of the
deferred function it returns nil and the panic goes on (`Rec.indirect`).

The model: a process is a list of goroutines, a goroutine a stack of frames (activations of code sites) plus a flag "is
unwinding a panic". Which sites have what deferred recover is DATA (`Table`), the theorems are generic in it. A panic
unwinds its goroutine frame by frame to the nearest frame whose recover stops it; with no frame left the process has
crashed. The schedule is the list of actions: any goroutine may move at any time. -/
namespace P2.Recover

/-- what a deferred direct recover does with the recovered value -/
inductive Conv where
  /-- the frame returns it as its error result (generated function, try frame, ToHtml) -/
  | errResult
  /-- the frame hands an error ITEM on and ends normally (worker closure: `stageItem{err}`; `recoverProducer`:
  `yield(nil, err)`; multiUse consumer: `done(err)`) -/
  | errItem
  /-- the frame stores the value; it is raised again on the goroutine that owns the stage (`consumerPanic`) -/
  | storeReraise
  /-- the deferred function panics again with the value (`arg.CatchErr` for panics that are not its own) -/
  | rethrow
  deriving DecidableEq, Repr

/-- the deferred recover of a code site -/
inductive Rec where
  | none
  /-- `recover()` is called in a helper function of the deferred function: it returns nil there -/
  | indirect
  | direct (c : Conv)
  deriving DecidableEq, Repr

/-- the code sites whose activations are the frames of an evaluation -/
inductive Site where
  /-- the embedding program that calls `Func.Eval` / an exporter: root of the calling goroutine -/
  | host
  /-- the function returned by `generateIntern` -/
  | topLevel
  /-- any compiled user code: closures, operators, methods of values, host functions, list producers/consumers -/
  | user
  /-- the function literal around the try part (`GenerateCustom`) -/
  | tryFrame
  /-- the producer returned by `autoParallelStage` (owns `consumerPanic`, raises it again) -/
  | stage
  /-- `recoverProducer(source)` inside `stoppableSource` (runs on the goroutine that iterates the stage) -/
  | stageSource
  /-- the worker loop `go func()` of `iterator.initParallel`: root of a worker goroutine -/
  | libWorker
  /-- the worker closure of `List.Map` -/
  | workerMap
  /-- the worker closure of `List.Accept` -/
  | workerAccept
  /-- the collector `go func()` of `iterator.initParallel`: root of the collector goroutine -/
  | libCollector
  /-- the consumer wrapper `stage(func(item stageItem, _ error) (cont bool) {…})` -/
  | stageConsumer
  /-- the `go func()` of `iterator.ToChan`: root of a goroutine that runs an operand of merge -/
  | libToChan
  /-- `recoverProducer(l.iterable(…))`, first operand of `iterator.Merge` -/
  | mergeA
  /-- `recoverProducer(otherList.iterable(…))`, second operand of `iterator.Merge` -/
  | mergeB
  /-- `multiUseEntry.runConsumer`: root of a goroutine parser2 starts itself (`go mu.runConsumer`) -/
  | muConsumer
  /-- `recoverProducer(l.iterable(st))` run by `run` on the calling goroutine -/
  | muSource
  /-- `export.ToHtml` -/
  | toHtml
  /-- `arg.PanicToError` / `arg.CatchErr` -/
  | argCatch
  deriving DecidableEq, Repr

def Site.all : List Site :=
  [.host, .topLevel, .user, .tryFrame, .stage, .stageSource, .libWorker, .workerMap, .workerAccept, .libCollector,
   .stageConsumer, .libToChan, .mergeA, .mergeB, .muConsumer, .muSource, .toHtml, .argCatch]

theorem Site.mem_all (s : Site) : s ∈ Site.all := by cases s <;> decide

/-- the kinds of goroutines that take part in an evaluation -/
inductive GoKind where
  | caller | worker | collector | mergeProducer | muConsumer
  deriving DecidableEq, Repr

def GoKind.all : List GoKind := [.caller, .worker, .collector, .mergeProducer, .muConsumer]

theorem GoKind.mem_all (k : GoKind) : k ∈ GoKind.all := by cases k <;> decide

/-- the frame at the root of a goroutine -/
def rootOf : GoKind → Site
  | .caller => .host
  | .worker => .libWorker
  | .collector => .libCollector
  | .mergeProducer => .libToChan
  | .muConsumer => .muConsumer

/-- frames of code that is not parser2's and raises no panic of its own (the embedding program as far as the property
is concerned, the loops of the external iterator library): nothing faults while such a frame is on top, and the only
frames it calls are the ones of `inertCalls` (TRUSTED, read from the library source; Tie 1 pins the library's
goroutine-running entry points and which argument each runs where) -/
def inert : Site → Bool
  | .host | .libWorker | .libCollector | .libToChan => true
  | _ => false

/-- what an inert frame calls -/
def inertCalls : Site → List Site
  | .host => [.topLevel, .toHtml]
  | .libWorker => [.workerMap, .workerAccept]
  | .libCollector => [.stageConsumer]
  | .libToChan => [.mergeA, .mergeB]
  | _ => []

/-- the discipline: which site has what deferred recover -/
abbrev Table := Site → Rec

/-- what the deferred functions of a frame do to a panic that unwinds through it -/
inductive Effect where
  | stops (c : Conv)
  | passes
  deriving DecidableEq, Repr

def effect : Rec → Effect
  | .direct .rethrow => .passes
  | .direct c => .stops c
  | .indirect => .passes
  | .none => .passes

def catches (T : Table) (s : Site) : Bool :=
  match effect (T s) with
  | .stops _ => true
  | .passes => false

/-- the predicate the containment theorems need: every goroutine root is inert or stops panics, and whatever an inert
frame calls is inert or stops panics -/
def Disciplined (T : Table) : Bool :=
  GoKind.all.all (fun k => inert (rootOf k) || catches T (rootOf k)) &&
  Site.all.all (fun s => !inert s || (inertCalls s).all (fun s' => inert s' || catches T s'))

/-- the conversions the outcome theorems (`P2.C05R.fault_reaches_caller`, `try_catches_remote_fault`) are stated for -/
def Conversions (T : Table) : Bool :=
  T .topLevel == .direct .errResult && T .tryFrame == .direct .errResult &&
  T .workerMap == .direct .errItem && T .workerAccept == .direct .errItem &&
  T .stageConsumer == .direct .storeReraise &&
  T .stageSource == .direct .errItem && T .mergeA == .direct .errItem && T .mergeB == .direct .errItem &&
  T .muConsumer == .direct .errItem && T .muSource == .direct .errItem && T .toHtml == .direct .errResult

/-- the table as read from the code (the regenerated one is compared with it in `P2.Oblig.RecoverSites`) -/
def pinned : Table
  | .host | .user | .stage | .libWorker | .libCollector | .libToChan => .none
  | .topLevel | .tryFrame | .toHtml => .direct .errResult
  | .workerMap | .workerAccept | .stageSource | .mergeA | .mergeB | .muConsumer | .muSource => .direct .errItem
  | .stageConsumer => .direct .storeReraise
  | .argCatch => .direct .rethrow

/-- `T` with the entry of one site replaced -/
def breakAt (T : Table) (s : Site) (r : Rec) : Table := fun x => if x = s then r else T x

/-! ## processes -/

structure Gor where
  /-- top frame first; `[]`: the goroutine has ended -/
  frames : List Site
  /-- a panic is unwinding the stack -/
  pan : Bool
  /-- the goroutine on which a panic stored by a `storeReraise` frame of this goroutine is raised again -/
  owner : Nat
  /-- stored panics waiting to be raised again on this goroutine -/
  pending : Nat
  deriving DecidableEq, Repr

structure State where
  gs : List Gor
  crashed : Bool
  deriving DecidableEq, Repr

/-- the embedding program on the calling goroutine -/
def init : State := { gs := [{ frames := [.host], pan := false, owner := 0, pending := 0 }], crashed := false }

inductive Act where
  /-- a goroutine of kind `k` is started; panics its frames store are raised again on `owner` -/
  | spawn (owner : Nat) (k : GoKind)
  /-- the top frame of `g` calls a frame of site `s` -/
  | call (g : Nat) (s : Site)
  /-- the top frame of `g` returns normally -/
  | ret (g : Nat)
  /-- a panic is raised in the top frame of `g` (any run-time fault of user code) -/
  | fault (g : Nat)
  /-- the panic of `g` runs the deferred functions of the top frame -/
  | unwind (g : Nat)
  /-- the stage frame on top of `g` finds `consumerPanic` set and panics with it -/
  | reraise (g : Nat)
  deriving DecidableEq, Repr

def bump (gs : List Gor) (o : Nat) : List Gor :=
  match gs[o]? with
  | some x => gs.set o { x with pending := x.pending + 1 }
  | none => gs

def step (T : Table) (st : State) : Act → Option State
  | .spawn o k => some { st with gs := st.gs ++ [{ frames := [rootOf k], pan := false, owner := o, pending := 0 }] }
  | .call g s =>
    match st.gs[g]? with
    | some go =>
      match go.frames with
      | top :: _ =>
        if go.pan = false ∧ (inert top = true → s ∈ inertCalls top) then
          some { st with gs := st.gs.set g { go with frames := s :: go.frames } }
        else none
      | [] => none
    | none => none
  | .ret g =>
    match st.gs[g]? with
    | some go =>
      match go.frames with
      | top :: rest =>
        -- a stage frame does not return while `consumerPanic` is set: it panics with it
        if go.pan = false ∧ ¬ (top = .stage ∧ 0 < go.pending) then
          some { st with gs := st.gs.set g { go with frames := rest } }
        else none
      | [] => none
    | none => none
  | .fault g =>
    match st.gs[g]? with
    | some go =>
      match go.frames with
      | top :: _ =>
        if go.pan = false ∧ inert top = false then some { st with gs := st.gs.set g { go with pan := true } } else none
      | [] => none
    | none => none
  | .unwind g =>
    match st.gs[g]? with
    | some go =>
      if go.pan = true then
        match go.frames with
        | [] => some { st with crashed := true }
        | top :: rest =>
          match effect (T top) with
          | .passes => some { st with gs := st.gs.set g { go with frames := rest } }
          | .stops .storeReraise =>
            some { st with gs := bump (st.gs.set g { go with frames := rest, pan := false }) go.owner }
          | .stops _ => some { st with gs := st.gs.set g { go with frames := rest, pan := false } }
      else none
    | none => none
  | .reraise g =>
    match st.gs[g]? with
    | some go =>
      match go.frames with
      | top :: _ =>
        if go.pan = false ∧ top = .stage ∧ 0 < go.pending then
          some { st with gs := st.gs.set g { go with pan := true, pending := go.pending - 1 } }
        else none
      | [] => none
    | none => none

/-- the states of all schedules -/
inductive Reach (T : Table) : State → Prop
  | init : Reach T init
  | step {s s' : State} (a : Act) : Reach T s → step T s a = some s' → Reach T s'

/-- a schedule run from the initial state (`none`: some action was not enabled) -/
def run (T : Table) : List Act → State → Option State
  | [], s => some s
  | a :: as, s => match step T s a with
    | some s' => run T as s'
    | none => none

/-! ## the invariant -/

def allInert (l : List Site) : Bool := l.all inert

/-- some frame stops panics and everything below it is inert -/
def prot (T : Table) : List Site → Bool
  | [] => false
  | s :: rest => prot T rest || (catches T s && allInert rest)

def safe (T : Table) (l : List Site) : Bool := allInert l || prot T l

/-- per goroutine: its stack is safe, and while it unwinds a panic there is a frame that stops it -/
def GInv (T : Table) (g : Gor) : Prop := safe T g.frames = true ∧ (g.pan = true → prot T g.frames = true)

def Inv (T : Table) (st : State) : Prop := st.crashed = false ∧ ∀ g ∈ st.gs, GInv T g

/-! ## outcomes: what the caller of the evaluation sees

The second half follows one fault to the caller. A parallel `map`/`accept` stage is the data-carrying process model
`P2.ParStage` (main loop, workers, collector, consumer wrapper; every schedule) with the worker function
`contain ∘ raw`: `raw` is what the user's closure does on an element as Go sees it on the goroutine that runs it (a value,
an error, a PANIC, or "rejected" for accept), `contain` is the worker closure with its deferred recover
(`res = stageItem{err: panicToError(rec)}`). The downstream consumer may itself panic on a delivery; the consumer wrapper
stores the value, stops the stage, and `autoParallelStage` raises it again on the iterating goroutine when `stage(…)` is
back (`reraise`; `false` = the seeded change that drops the `if consumerPanic != nil { panic(consumerPanic) }`).
The outcome then travels through the frames of the calling goroutine (user frames, try frames) to the generated
function, whose recover turns a panic into the error of the evaluation call. -/

/-- what the user's closure does on one element -/
inductive Raw (β : Type) where
  | val (b : β)
  | err (e : String)
  | panic (p : String)
  | drop
  deriving DecidableEq, Repr

open P2.ParStage in
/-- the worker closure under the table entry of its site; `none`: the panic leaves the closure, and with it the worker
goroutine of the external library, which has no recover (`Reach`/`crashed` above) -/
def workerOut {β} (r : Rec) : Raw β → Option (Out β)
  | .val b => some (.val b)
  | .err e => some (.err e)
  | .drop => some .drop
  | .panic p => match effect r with
    | .stops _ => some (.err ("panic: " ++ p))
    | .passes => none

open P2.ParStage in
/-- the worker closure as written (`direct errItem`) -/
def contain {β} : Raw β → Out β
  | .val b => .val b
  | .err e => .err e
  | .drop => .drop
  | .panic p => .err ("panic: " ++ p)

/-- what the downstream consumer does with a delivery -/
inductive Dem where
  | more
  | stop
  | panic (p : String)
  deriving DecidableEq, Repr

/-- outcome of a call as the calling frame sees it, on its own goroutine -/
inductive CallOut (γ : Type) where
  | ret (v : γ)
  | err (e : String)
  | panic (p : String)
  deriving DecidableEq, Repr

def CallOut.faulted {γ} : CallOut γ → Bool
  | .ret _ => false
  | _ => true

/-- the text a catch function gets -/
def CallOut.msg {γ} : CallOut γ → String
  | .ret _ => ""
  | .err e => e
  | .panic p => p

open P2.ParStage in
/-- the consuming method: `dem` answers each delivery (given everything received so far), `fin` is its result once the
iteration is over -/
structure Consumer (β γ : Type) where
  dem : List (Out β) → Dem
  fin : List (Out β) → CallOut γ

open P2.ParStage in
def Consumer.more {β γ} (c : Consumer β γ) : List (Out β) → Bool := fun l =>
  match c.dem l with
  | .more => true
  | _ => false

open P2.ParStage in
/-- the consumer's answer to the last delivery (`more` when nothing was delivered) -/
def lastDem {β γ} (c : Consumer β γ) (l : List (Out β)) : Dem :=
  match l with
  | [] => .more
  | _ => c.dem l

open P2.ParStage in
/-- what the call that iterates the stage comes back with, given what was delivered -/
def stageOutcome {β γ} (reraise : Bool) (c : Consumer β γ) (l : List (Out β)) : CallOut γ :=
  match lastDem c l with
  | .panic p => if reraise then .panic p else c.fin l
  | _ => c.fin l

open P2.ParStage in
/-- … in a state of the parallel stage -/
def parOutcome {β γ} (reraise : Bool) (c : Consumer β γ) (s : St β) : CallOut γ :=
  stageOutcome reraise c (delivered c.more s).1

open P2.ParStage in
/-- … of the sequential run (no goroutine is started: `MapAuto` below its switch) over the outcomes of the elements -/
def seqOutcome {β γ} (reraise : Bool) (c : Consumer β γ) (outs : List (Out β)) : CallOut γ :=
  stageOutcome reraise c (seqRun c.more outs).1

/-- frames between the consuming call and the generated function -/
inductive Ctx (γ : Type) where
  /-- user code: goes on with a value, hands an error or a panic on -/
  | user (k : γ → CallOut γ)
  /-- `try … catch`: the try part runs under the deferred recover of site `tryFrame` -/
  | tryF (handler : String → CallOut γ)

def Ctx.isUser {γ} : Ctx γ → Bool
  | .user _ => true
  | .tryF _ => false

def throughFrame {γ} (T : Table) : Ctx γ → CallOut γ → CallOut γ
  | .user k, .ret v => k v
  | .user _, o => o
  | .tryF _, .ret v => .ret v
  | .tryF c, .err e => c e
  | .tryF c, .panic p => match effect (T .tryFrame) with
    | .stops _ => c p
    | .passes => .panic p

/-- innermost frame first -/
def through {γ} (T : Table) : List (Ctx γ) → CallOut γ → CallOut γ
  | [], o => o
  | f :: fs, o => through T fs (throughFrame T f o)

/-- what `Func.Eval` hands to the embedding program -/
inductive EvalRes (γ : Type) where
  | ok (v : γ)
  | err (e : String)
  /-- the panic leaves the generated function -/
  | hostPanic
  deriving DecidableEq, Repr

/-- the generated function with its deferred recover -/
def topLevel {γ} (T : Table) : CallOut γ → EvalRes γ
  | .ret v => .ok v
  | .err e => .err e
  | .panic p => match effect (T .topLevel) with
    | .stops _ => .err p
    | .passes => .hostPanic

def evalCall {γ} (T : Table) (ctx : List (Ctx γ)) (o : CallOut γ) : EvalRes γ := topLevel T (through T ctx o)

/-- the outcome of a call made on a worker goroutine as the worker closure sees it -/
def toRaw {β} : CallOut β → Raw β
  | .ret v => .val v
  | .err e => .err e
  | .panic p => .panic p

end P2.Recover
