import P2.Model.Basic
/-! C14 — executable model of the comparison operators of `value.New()`:
`value/operations.go` (`Equal`, `operationMatrixDeepEqual`, `Less`), `value/value.go` (`New`: `!=`, `~`, `>`,
`<=`, `>=`, static `min`/`max`, `operationMatrixSimple.Calc`), `value/list.go` (`Equals`, `containsItem`,
`containsAllItems`, `Min`, `Max`, `Order`), `value/map.go` (`Equals`, `ContainsKey`) and the equality used
by `switch` (`funcGen/generator.go`, `g.isEqual`).

The float carrier `F` is abstract (`FloatOps F`); the driver instantiates it with Lean's `Float`.
Strings are sequences of code points (`List Char`); Go compares the UTF-8 bytes, which orders valid
UTF-8 strings exactly like their code point sequences.  Maps are association lists in *iteration order*
of the Go storage (`Get` = first match; C13 shows the storages are duplicate-free).  A list carries the
Go field `itemsPresent` because `containsAllItems` looks at it.  Core Lean only. -/
namespace P2.Cmp

/-- operations of the float carrier used by the comparison operators -/
structure FloatOps (F : Type) where
  feq : F → F → Bool        -- Go `==` on float64
  flt : F → F → Bool        -- Go `<` on float64
  ofInt : Int → F           -- Go `float64(int)`
  isNaN : F → Bool

inductive Value (F : Type) where
  | int (i : Int)
  | flt (f : F)
  | str (s : List Char)
  | bool (b : Bool)
  | list (present : Bool) (xs : List (Value F))
  | map (kvs : List (List Char × Value F))
  | clo (args : Nat)

/-- the type ids registered in `value.New` that the property quantifies over -/
inductive Ty where
  | int | flt | str | bool | list | map | clo
  deriving DecidableEq, Repr

/-- Which comparator `Equal` hands to `List.Equals` / `Map.Equals` in today's source.  Probed live by
`tie extract` (Generated/CmpMatrix.lean). -/
structure Cfg where
  /-- the comparator handed to `List.Equals`/`Map.Equals` is the deep one (else: the scalar matrix) -/
  nestedDeep : Bool
  deriving DecidableEq, Repr

/-- the pinned commit: `ef` of `operationMatrixDeepEqual` calls the scalar matrix `m.Calc` -/
def cfgPinned : Cfg := { nestedDeep := false }
/-- after the proposed `fix:` commit: `ef` calls `deepEqual.Calc` -/
def cfgFixed : Cfg := { nestedDeep := true }

variable {F : Type}

def Value.ty : Value F → Ty
  | .int _ => .int
  | .flt _ => .flt
  | .str _ => .str
  | .bool _ => .bool
  | .list _ _ => .list
  | .map _ => .map
  | .clo _ => .clo

/-! ### strings -/

/-- Go `a < b` on strings (code point order) -/
def ltChars : List Char → List Char → Bool
  | [], [] => false
  | [], _ :: _ => true
  | _ :: _, [] => false
  | a :: as, b :: bs => if a.toNat < b.toNat then true else if a = b then ltChars as bs else false

def isPrefix : List Char → List Char → Bool
  | [], _ => true
  | _ :: _, [] => false
  | a :: as, b :: bs => a == b && isPrefix as bs

/-- `strings.Contains(b, a)` -/
def isInfix (a : List Char) : List Char → Bool
  | [] => a.isEmpty
  | b :: bs => isPrefix a (b :: bs) || isInfix a bs

/-! ### the two scalar matrices -/

/-- `Equal`: the six registrations of the `=` matrix; every other type pair is
`operationMatrixSimple.Calc`'s error -/
def simple (O : FloatOps F) : Value F → Value F → Res Bool
  | .bool a, .bool b => .ok (a == b)
  | .int a, .int b => .ok (a == b)
  | .str a, .str b => .ok (a == b)
  | .flt a, .flt b => .ok (O.feq a b)
  | .int a, .flt b => .ok (O.feq (O.ofInt a) b)
  | .flt a, .int b => .ok (O.feq a (O.ofInt b))
  | _, _ => .err

/-- `Less`: the five registrations of the `<` matrix (also `fg.less`, which checks `err` first) -/
def less (O : FloatOps F) : Value F → Value F → Res Bool
  | .int a, .int b => .ok (decide (a < b))
  | .str a, .str b => .ok (ltChars a b)
  | .flt a, .flt b => .ok (O.flt a b)
  | .int a, .flt b => .ok (O.flt (O.ofInt a) b)
  | .flt a, .int b => .ok (O.flt a (O.ofInt b))
  | _, _ => .err

/-! ### deep equality -/

/-- `List.Equals` after the length check: first non-`true` outcome wins -/
def listEquals (eq : Value F → Value F → Res Bool) : List (Value F) → List (Value F) → Res Bool
  | [], [] => .ok true
  | x :: xs, y :: ys =>
    match eq x y with
    | .ok true => listEquals eq xs ys
    | r => r
  | _, _ => .ok false

/-- `MapStorage.Get` on a well-formed storage: first entry with the key -/
def lookupKey {α : Type} (k : List Char) : List (List Char × α) → Option α
  | [] => none
  | (k', v) :: rest => if k' = k then some v else lookupKey k rest

/-- `Map.Equals` after the size check: iterate the LEFT map, `other.Get(key)`, `equal(o, v)` -/
def mapEquals (eq : Value F → Value F → Res Bool) :
    List (List Char × Value F) → List (List Char × Value F) → Res Bool
  | [], _ => .ok true
  | (k, v) :: rest, b =>
    match lookupKey k b with
    | none => .ok false
    | some o =>
      match eq o v with
      | .ok true => mapEquals eq rest b
      | r => r

/-- `operationMatrixDeepEqual.Calc` with the comparator `eq` handed to `Equals` -/
def deepCalc (O : FloatOps F) (eq : Value F → Value F → Res Bool) : Value F → Value F → Res Bool
  | .list _ xs, .list _ ys => if xs.length ≠ ys.length then .ok false else listEquals eq xs ys
  | .map a, .map b => if a.length ≠ b.length then .ok false else mapEquals eq a b
  | a, b => simple O a b

/-- the deep comparator calling itself (`nestedDeep`); recursion depth bounded by fuel -/
def deepF (O : FloatOps F) : Nat → Value F → Value F → Res Bool
  | 0, _, _ => .fuel
  | n + 1, a, b => deepCalc O (deepF O n) a b

mutual
/-- nesting depth of containers -/
def depth : Value F → Nat
  | .list _ xs => depthList xs + 1
  | .map kvs => depthMap kvs + 1
  | _ => 0
def depthList : List (Value F) → Nat
  | [] => 0
  | x :: xs => max (depth x) (depthList xs)
def depthMap : List (List Char × Value F) → Nat
  | [] => 0
  | (_, v) :: rest => max (depth v) (depthMap rest)
end

/-- `equal.Calc(st, a, b)` of `value.New` — the `=` operator.  The fuel is enough for every pair of
values (`P2.Cmp.equal_ne_fuel`). -/
def equal (cfg : Cfg) (O : FloatOps F) (a b : Value F) : Res Bool :=
  if cfg.nestedDeep then deepF O (max (depth a) (depth b) + 1) a b
  else deepCalc O (simple O) a b

/-- `!=`: `eq, err := equal.Calc(..)`; error if `err != nil`, else `!eq`.  (`fg.equal` = `g.isEqual`,
used by `~`, `switch`, is `equal` followed by the same `err` check, i.e. the same outcome.) -/
def notEqual (cfg : Cfg) (O : FloatOps F) (a b : Value F) : Res Bool :=
  match equal cfg O a b with
  | .ok v => .ok (!v)
  | r => r

/-- `>`: `less.Calc(st, b, a)` -/
def greater (O : FloatOps F) (a b : Value F) : Res Bool := less O b a

/-- `<=`: `less(a, b)`, then `equal(a, b)` -/
def lessEq (cfg : Cfg) (O : FloatOps F) (a b : Value F) : Res Bool :=
  match less O a b with
  | .ok true => .ok true
  | .ok false => equal cfg O a b
  | r => r

/-- `>=`: `less(b, a)`, then `equal(a, b)` -/
def greaterEq (cfg : Cfg) (O : FloatOps F) (a b : Value F) : Res Bool :=
  match less O b a with
  | .ok true => .ok true
  | .ok false => equal cfg O a b
  | r => r

/-! ### `~` -/

/-- `List.containsItem` -/
def containsItem (cfg : Cfg) (O : FloatOps F) (item : Value F) : List (Value F) → Res Bool
  | [] => .ok false
  | v :: vs =>
    match equal cfg O item v with
    | .ok false => containsItem cfg O item vs
    | r => r

/-- inner loop of `containsAllItems`: drop the first entry of `lookFor` that equals `v` -/
def removeFirst (cfg : Cfg) (O : FloatOps F) (v : Value F) : List (Value F) → Res (List (Value F))
  | [] => .ok []
  | x :: xs =>
    match equal cfg O x v with
    | .ok true => .ok xs
    | .ok false =>
      match removeFirst cfg O v xs with
      | .ok r => .ok (x :: r)
      | r => r
    | .err => .err
    | .panic => .panic
    | .fuel => .fuel

/-- outer loop of `containsAllItems` -/
def containsAllLoop (cfg : Cfg) (O : FloatOps F) : List (Value F) → List (Value F) → Res Bool
  | lookFor, [] => .ok lookFor.isEmpty
  | lookFor, v :: vs =>
    match removeFirst cfg O v lookFor with
    | .ok lf => if lf.isEmpty then .ok true else containsAllLoop cfg O lf vs
    | .err => .err
    | .panic => .panic
    | .fuel => .fuel

/-- `List.containsAllItems` (`present` = `l.itemsPresent`) -/
def containsAll (cfg : Cfg) (O : FloatOps F) (present : Bool) (lookFor l : List (Value F)) : Res Bool :=
  if present && decide (l.length < lookFor.length) then .ok false
  else containsAllLoop cfg O lookFor l

/-- the `~` operator -/
def tilde (cfg : Cfg) (O : FloatOps F) : Value F → Value F → Res Bool
  | .list _ search, .list present l => containsAll cfg O present search l
  | a, .list _ l => containsItem cfg O a l
  | .str k, .map m => .ok (lookupKey k m).isSome
  | .str a, .str b => .ok (isInfix a b)
  | _, _ => .err

inductive Op where
  | eq | ne | lt | gt | le | ge | tilde
  deriving DecidableEq, Repr

/-- `op.Calc(st, a, b)` for the seven comparison operators -/
def evalOp (cfg : Cfg) (O : FloatOps F) : Op → Value F → Value F → Res Bool
  | .eq, a, b => equal cfg O a b
  | .ne, a, b => notEqual cfg O a b
  | .lt, a, b => less O a b
  | .gt, a, b => greater O a b
  | .le, a, b => lessEq cfg O a b
  | .ge, a, b => greaterEq cfg O a b
  | .tilde, a, b => tilde cfg O a b

/-! ### type-level dispatch tables -/

def eqMatrix : Ty → Ty → Bool
  | .bool, .bool | .int, .int | .str, .str | .flt, .flt | .int, .flt | .flt, .int => true
  | _, _ => false

def ltMatrix : Ty → Ty → Bool
  | .int, .int | .str, .str | .flt, .flt | .int, .flt | .flt, .int => true
  | _, _ => false

/-- does the operator reach a registered implementation for this type pair (otherwise: the
"not defined / not allowed" error) -/
def opDefined : Op → Ty → Ty → Bool
  | .eq, a, b | .ne, a, b => eqMatrix a b || (a == .list && b == .list) || (a == .map && b == .map)
  | .lt, a, b | .le, a, b => ltMatrix a b
  | .gt, a, b | .ge, a, b => ltMatrix b a
  | .tilde, a, b => b == .list || (a == .str && b == .map) || (a == .str && b == .str)

def allTys : List Ty := [.int, .flt, .str, .bool, .list, .map, .clo]
def allOps : List Op := [.eq, .ne, .lt, .gt, .le, .ge, .tilde]

/-- the model's dispatch table in the layout of Generated/CmpMatrix.lean -/
def dispatchTable : List (Op × List (List Bool)) :=
  allOps.map fun op => (op, allTys.map fun a => allTys.map fun b => opDefined op a b)

/-! ### built-ins derived from `<` and `=` -/

/-- loop of static `min` and of `List.Min`: `if less(v, m) { m = v }` -/
def minFold (O : FloatOps F) : Value F → List (Value F) → Res (Value F)
  | m, [] => .ok m
  | m, v :: vs =>
    match less O v m with
    | .ok true => minFold O v vs
    | .ok false => minFold O m vs
    | .err => .err
    | .panic => .panic
    | .fuel => .fuel

/-- loop of static `max` and of `List.Max`: `if less(m, v) { m = v }` -/
def maxFold (O : FloatOps F) : Value F → List (Value F) → Res (Value F)
  | m, [] => .ok m
  | m, v :: vs =>
    match less O m v with
    | .ok true => maxFold O v vs
    | .ok false => maxFold O m vs
    | .err => .err
    | .panic => .panic
    | .fuel => .fuel

/-- static `min(args…)`; without arguments the Go code returns a nil interface (`none`) -/
def minStatic (O : FloatOps F) : List (Value F) → Res (Option (Value F))
  | [] => .ok none
  | x :: xs => match minFold O x xs with
    | .ok m => .ok (some m)
    | .err => .err
    | .panic => .panic
    | .fuel => .fuel

def maxStatic (O : FloatOps F) : List (Value F) → Res (Option (Value F))
  | [] => .ok none
  | x :: xs => match maxFold O x xs with
    | .ok m => .ok (some m)
    | .err => .err
    | .panic => .panic
    | .fuel => .fuel

/-- `list.min()`: error on the empty list -/
def listMin (O : FloatOps F) : List (Value F) → Res (Value F)
  | [] => .err
  | x :: xs => minFold O x xs

def listMax (O : FloatOps F) : List (Value F) → Res (Value F)
  | [] => .err
  | x :: xs => maxFold O x xs

/-- inner loop of Go's `insertionSortCmpFunc`/`insertionSort`: the sorted prefix is held reversed
(its last element first); the new element moves left while it is less than its predecessor -/
def insRev (O : FloatOps F) (x : Value F) : List (Value F) → Res (List (Value F))
  | [] => .ok [x]
  | y :: ys =>
    match less O x y with
    | .ok true =>
      match insRev O x ys with
      | .ok r => .ok (y :: r)
      | r => r
    | .ok false => .ok (x :: y :: ys)
    | .err => .err
    | .panic => .panic
    | .fuel => .fuel

def orderLoop (O : FloatOps F) : List (Value F) → List (Value F) → Res (List (Value F))
  | [], acc => .ok acc.reverse
  | x :: xs, acc =>
    match insRev O x acc with
    | .ok acc' => orderLoop O xs acc'
    | r => r

/-- `list.order(e->e)`: `sort.Sort` with `Sortable.Less = fg.less`; a comparison error is registered
and returned at the end.  For at most 12 elements Go's pdqsort *is* this insertion sort; for longer
lists the harness compares up to the order of elements the comparator does not separate. -/
def orderBy (O : FloatOps F) (xs : List (Value F)) : Res (List (Value F)) := orderLoop O xs []

/-- `switch v case c₀: … case c₁: … default …`: index of the first case whose constant equals `v`
(by `g.isEqual`), `none` = the default branch -/
def switchSel (cfg : Cfg) (O : FloatOps F) (v : Value F) : List (Value F) → Res (Option Nat)
  | [] => .ok none
  | c :: cs =>
    match equal cfg O v c with
    | .ok true => .ok (some 0)
    | .ok false =>
      match switchSel cfg O v cs with
      | .ok r => .ok (r.map (· + 1))
      | r => r
    | .err => .err
    | .panic => .panic
    | .fuel => .fuel

/-! ### side conditions of the theorems (decidable, executable) -/

/-- |i| < 2^53: `float64(i)` is exact -/
def intInRange (i : Int) : Bool := decide (-9007199254740992 < i ∧ i < 9007199254740992)

/-- scalar side condition of the ordering laws -/
def numInRange : Value F → Bool
  | .int i => intInRange i
  | _ => true

def hasKey {α : Type} (k : List Char) : List (List Char × α) → Bool
  | [] => false
  | (k', _) :: rest => k' == k || hasKey k rest

/-- keys pairwise different (what C13 establishes for every map storage) -/
def keysNodup {α : Type} : List (List Char × α) → Bool
  | [] => true
  | (k, _) :: rest => !hasKey k rest && keysNodup rest

mutual
/-- every map inside the value has pairwise different keys -/
def wf : Value F → Bool
  | .list _ xs => wfList xs
  | .map kvs => keysNodup kvs && wfMap kvs
  | _ => true
def wfList : List (Value F) → Bool
  | [] => true
  | x :: xs => wf x && wfList xs
def wfMap : List (List Char × Value F) → Bool
  | [] => true
  | (_, v) :: rest => wf v && wfMap rest
end

mutual
/-- no NaN and no closure anywhere inside the value -/
def plain (O : FloatOps F) : Value F → Bool
  | .flt f => !O.isNaN f
  | .clo _ => false
  | .list _ xs => plainList O xs
  | .map kvs => plainMap O kvs
  | _ => true
def plainList (O : FloatOps F) : List (Value F) → Bool
  | [] => true
  | x :: xs => plain O x && plainList O xs
def plainMap (O : FloatOps F) : List (List Char × Value F) → Bool
  | [] => true
  | (_, v) :: rest => plain O v && plainMap O rest
end

mutual
/-- no map anywhere inside the value -/
def mapFree : Value F → Bool
  | .list _ xs => mapFreeList xs
  | .map _ => false
  | _ => true
def mapFreeList : List (Value F) → Bool
  | [] => true
  | x :: xs => mapFree x && mapFreeList xs
end

end P2.Cmp
