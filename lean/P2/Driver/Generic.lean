import P2.Driver.Util
import P2.Model.Generic
import P2.Generated.ExampleTables
/-! Protocol glue for the generic generator model (C19, C02): request `GEN`.

    GEN <TAB> table <TAB> expr <TAB> args <TAB> assignments

* `table`: `bool` | `minimal` — the extracted table of the example generator; `bool/0110` overrides the
  `IsCommutative` flags row by row (permuted-flag runs of the harness).
* `expr`: prefix tokens `C v` | `V name` | `U op e` | `B op e e` | `F name e` | `L name e e` | `I e e e`;
  values: `0`/`1` for bool, `n/d` for minimal.
* `args`: names separated by blanks (`-` = none); `assignments`: value lists separated by `;`.

Response: `astOn <TAB> outcomesOn <TAB> astOff <TAB> outcomesOff` — the front end's result (same token
format) and per assignment `v:<value>` | `E` (error) | `P` (panic) | `G` (Generate error). -/
namespace P2.Driver.GenericDrv
open P2.Generic P2.Driver

structure ValCodec (V : Type) where
  parse : String → Option V
  render : V → String

def boolCodec : ValCodec Bool :=
  { parse := fun s => if s = "1" then some true else if s = "0" then some false else none,
    render := fun b => if b then "1" else "0" }

def parseRat (s : String) : Option Rat :=
  match s.splitOn "/" with
  | [n] => n.toInt?.map (fun i => (i : Rat))
  | [n, d] => do
      let i ← n.toInt?
      let k ← d.toNat?
      if k = 0 then none else some (mkRat i k)
  | _ => none

def ratCodec : ValCodec Rat :=
  { parse := parseRat, render := fun q => s!"{q.num}/{q.den}" }

/-- prefix token stream → expression (fuel = number of tokens + 1) -/
def parseE {V : Type} (vc : ValCodec V) : Nat → List String → Option (E V × List String)
  | 0, _ => none
  | _+1, "C" :: v :: rest => (vc.parse v).map (fun x => (.const x, rest))
  | _+1, "V" :: x :: rest => some (.var x, rest)
  | n+1, "U" :: o :: rest => do
      let (a, r) ← parseE vc n rest
      pure (.un o a, r)
  | n+1, "B" :: o :: rest => do
      let (a, r) ← parseE vc n rest
      let (b, r') ← parseE vc n r
      pure (.op o a b, r')
  | n+1, "F" :: f :: rest => do
      let (a, r) ← parseE vc n rest
      pure (.call f a, r)
  | n+1, "L" :: x :: rest => do
      let (v, r) ← parseE vc n rest
      let (b, r') ← parseE vc n r
      pure (.letE x v b, r')
  | n+1, "I" :: rest => do
      let (c, r) ← parseE vc n rest
      let (a, r') ← parseE vc n r
      let (b, r'') ← parseE vc n r'
      pure (.ite c a b, r'')
  | _, _ => none

def showE {V : Type} (vc : ValCodec V) : E V → String
  | .const v => "C " ++ vc.render v
  | .var x => "V " ++ x
  | .un o a => "U " ++ o ++ " " ++ showE vc a
  | .op o a b => "B " ++ o ++ " " ++ showE vc a ++ " " ++ showE vc b
  | .call f a => "F " ++ f ++ " " ++ showE vc a
  | .letE x v b => "L " ++ x ++ " " ++ showE vc v ++ " " ++ showE vc b
  | .ite c a b => "I " ++ showE vc c ++ " " ++ showE vc a ++ " " ++ showE vc b

def showOutcome {V : Type} (vc : ValCodec V) : Outcome V → String
  | .genError => "G"
  | .value v => "v:" ++ vc.render v
  | .error => "E"
  | .panic => "P"

/-- override the commutative flags row by row (`0`/`1` per row) -/
def overrideComm (ops : List OpRow) (flags : List Char) : List OpRow :=
  (ops.zip flags).map (fun (r, c) => (r.1, r.2.1, c == '1'))

def genAnswer {V : Type} (vc : ValCodec V) (t : Table V) (cs : Consts V) (exprS argsS asgS : String) : String :=
  let ws := words exprS
  match parseE vc (ws.length + 1) ws with
  | some (e, []) =>
    let args := if argsS = "-" then [] else words argsS
    let asgs : Option (List (List V)) :=
      (asgS.splitOn ";").mapM (fun a => (words a).mapM vc.parse)
    match asgs with
    | none => "BADREQ"
    | some asgs =>
      -- argument names shadow the generator's constants (`idents.AddArgs` on top of the constants)
      let cs' : Consts V := fun y => if args.contains y then none else cs y
      let side (on : Bool) : String :=
        let fe := frontend t on cs' e
        let outs := asgs.map (fun vals => showOutcome vc (run t fe args vals))
        showE vc fe ++ "\t" ++ ";".intercalate outs
      side true ++ "\t" ++ side false
  | _ => "BADREQ"

def handleGen (args : List String) : String :=
  match args with
  | [table, exprS, argsS, asgS] =>
    match table.splitOn "/" with
    | ["bool"] => genAnswer boolCodec (boolTable P2.Generated.boolOperators) boolConsts exprS argsS asgS
    | ["bool", fl] =>
      genAnswer boolCodec (boolTable (overrideComm P2.Generated.boolOperators fl.toList)) boolConsts exprS argsS asgS
    | ["minimal"] =>
      genAnswer ratCodec (minimalTable P2.Generated.minimalOperators P2.Generated.minimalStatics) Consts.none exprS argsS asgS
    | ["minimal", fl] =>
      genAnswer ratCodec (minimalTable (overrideComm P2.Generated.minimalOperators fl.toList) P2.Generated.minimalStatics)
        Consts.none exprS argsS asgS
    | _ => "BADREQ"
  | _ => "BADREQ"

end P2.Driver.GenericDrv

namespace P2.Driver
def handleGen (args : List String) : String := GenericDrv.handleGen args
end P2.Driver
