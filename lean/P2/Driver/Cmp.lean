import P2.Driver.Util
import P2.Model.Cmp
import P2.Generated.CmpMatrix
/-! Protocol glue for the C14 model (`CMP` requests).  Not part of the verified model.

Request:  `CMP <TAB> P|T <TAB> value <TAB> value [<TAB> value]`
Value tokens (space separated, prefix form):
  `I <int>` · `F <16 hex digits of the bit pattern>` · `S <code points|->` · `B 0|1` ·
  `L <itemsPresent 0|1> <n> value…` · `M <n> (<key code points|-> value)…` (iteration order) · `C <args>`
Response: space separated `name=outcome`; outcomes of boolean operators are `T F E P U`
(true, false, error, Go panic — not produced by this model —, out of fuel); value results are the index of the argument they are. -/
namespace P2.Driver.C14
open P2.Cmp P2.Driver

def floatOps : FloatOps Float :=
  { feq := fun a b => a == b, flt := fun a b => decide (a < b), ofInt := Float.ofInt, isNaN := Float.isNaN }

def parseHex64 (s : String) : Option UInt64 :=
  if s.length ≠ 16 then none
  else s.toList.foldlM (fun (acc : Nat) c => (P2.hexDigitVal c).map (acc * 16 + ·)) 0 |>.map UInt64.ofNat

mutual
def parseVal : Nat → List String → Option (Value Float × List String)
  | 0, _ => none
  | _+1, "I" :: s :: rest => do let i ← s.toInt?; pure (.int i, rest)
  | _+1, "F" :: s :: rest => do let b ← parseHex64 s; pure (.flt (Float.ofBits b), rest)
  | _+1, "S" :: s :: rest => do let cs ← cpsField s; pure (.str cs, rest)
  | _+1, "B" :: s :: rest => if s = "1" then some (.bool true, rest) else if s = "0" then some (.bool false, rest) else none
  | _+1, "C" :: s :: rest => do let n ← s.toNat?; pure (.clo n, rest)
  | n+1, "L" :: p :: k :: rest => do
      let k ← k.toNat?
      let (l, r) ← parseVals n k rest
      pure (.list (p = "1") l, r)
  | n+1, "M" :: k :: rest => do
      let k ← k.toNat?
      let (l, r) ← parseKVals n k rest
      pure (.map l, r)
  | _, _ => none
def parseVals : Nat → Nat → List String → Option (List (Value Float) × List String)
  | 0, _, _ => none
  | _+1, 0, rest => some ([], rest)
  | n+1, k+1, rest => do
      let (t, r) ← parseVal n rest
      let (ts, r') ← parseVals n k r
      pure (t :: ts, r')
def parseKVals : Nat → Nat → List String → Option (List (List Char × Value Float) × List String)
  | 0, _, _ => none
  | _+1, 0, rest => some ([], rest)
  | n+1, k+1, key :: rest => do
      let kc ← cpsField key
      let (t, r) ← parseVal n rest
      let (ts, r') ← parseKVals n k r
      pure ((kc, t) :: ts, r')
  | _, _, _ => none
end

def parseValue (s : String) : Option (Value Float) :=
  let ws := words s
  match parseVal (ws.length + 1) ws with
  | some (v, []) => some v
  | _ => none

partial def renderVal : Value Float → String
  | .int i => s!"I {i}"
  | .flt f => s!"F {f.toBits.toNat}"
  | .str s => s!"S {showChars s}"
  | .bool b => if b then "B 1" else "B 0"
  | .clo n => s!"C {n}"
  | .list _ xs => s!"L {xs.length}" ++ String.join (xs.map fun x => " " ++ renderVal x)
  | .map kvs => s!"M {kvs.length}" ++ String.join (kvs.map fun (k, v) => " " ++ showChars k ++ " " ++ renderVal v)

def showB : P2.Res Bool → String
  | .ok true => "T"
  | .ok false => "F"
  | .err => "E"
  | .panic => "P"
  | .fuel => "U"

def indexOf (args : List (Value Float)) (v : Value Float) : String :=
  let r := renderVal v
  match (args.map renderVal).findIdx? (· = r) with
  | some i => toString i
  | none => "?"

def showV (args : List (Value Float)) : P2.Res (Value Float) → String
  | .ok v => indexOf args v
  | .err => "E"
  | .panic => "P"
  | .fuel => "U"

def showOV (args : List (Value Float)) : P2.Res (Option (Value Float)) → String
  | .ok (some v) => indexOf args v
  | .ok none => "nil"
  | .err => "E"
  | .panic => "P"
  | .fuel => "U"

def showL (args : List (Value Float)) : P2.Res (List (Value Float)) → String
  | .ok l => if l.isEmpty then "-" else ".".intercalate (l.map (indexOf args))
  | .err => "E"
  | .panic => "P"
  | .fuel => "U"

def showSel : P2.Res (Option Nat) → String
  | .ok (some i) => toString i
  | .ok none => "d"
  | .err => "E"
  | .panic => "P"
  | .fuel => "U"

def cfgNow : Cfg := P2.Generated.cmpCfg

def opName : Op → String
  | .eq => "eq" | .ne => "ne" | .lt => "lt" | .gt => "gt" | .le => "le" | .ge => "ge" | .tilde => "ti"

def handlePair (a b : Value Float) : String :=
  let O := floatOps
  let ops := allOps.map fun op => s!"{opName op}={showB (evalOp cfgNow O op a b)}"
  let args := [a, b]
  " ".intercalate (ops ++ [
    s!"min={showOV args (minStatic O args)}", s!"max={showOV args (maxStatic O args)}",
    s!"lmin={showV args (listMin O args)}", s!"lmax={showV args (listMax O args)}",
    s!"ord={showL args (orderBy O args)}",
    s!"sw={showSel (switchSel cfgNow O a [b])}"])

def handleTriple (a b c : Value Float) : String :=
  let O := floatOps
  let args := [a, b, c]
  " ".intercalate [
    s!"min={showOV args (minStatic O args)}", s!"max={showOV args (maxStatic O args)}",
    s!"lmin={showV args (listMin O args)}", s!"lmax={showV args (listMax O args)}",
    s!"ord={showL args (orderBy O args)}",
    s!"sw={showSel (switchSel cfgNow O a [b, c])}",
    s!"ti={showB (tilde cfgNow O a (.list true [b, c]))}",
    s!"til={showB (tilde cfgNow O a (.list false [b, c]))}",
    s!"tia={showB (tilde cfgNow O (.list true [a, b]) (.list true [c, b, a]))}"]

/-- `CMP P a b` / `CMP T a b c` -/
def handle (args : List String) : String :=
  match args with
  | ["P", a, b] =>
    match parseValue a, parseValue b with
    | some a, some b => handlePair a b
    | _, _ => "BADREQ"
  | ["T", a, b, c] =>
    match parseValue a, parseValue b, parseValue c with
    | some a, some b, some c => handleTriple a b c
    | _, _, _ => "BADREQ"
  | _ => "BADREQ"

end P2.Driver.C14

namespace P2.Driver
/-- request kind `CMP` (C14) -/
def handleCmp (args : List String) : String := C14.handle args
end P2.Driver
