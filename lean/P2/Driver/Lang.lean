import P2.Driver.Util
import P2.Model.Lang.Sem
import P2.Generated.ValueTables
/-! Protocol glue for the language model: prefix token streams for ASTs and values, the `EVAL` request. -/
namespace P2.Driver
open P2.Lang

def strField (s : String) : Option String := (cpsField s).map (fun cs => String.ofList cs)

def hexNat (s : String) : Option Nat :=
  s.toList.foldlM (fun acc c => (P2.hexDigitVal c).map (fun d => acc * 16 + d)) 0

def floatOfHex (s : String) : Option Float := (hexNat s).map (fun n => Float.ofBits (UInt64.ofNat n))

def takeStrs : Nat → List String → Option (List String × List String)
  | 0, rest => some ([], rest)
  | k+1, s :: rest => do
      let x ← strField s
      let (xs, r) ← takeStrs k rest
      pure (x :: xs, r)
  | _, _ => none

mutual
def parseAST : Nat → List String → Option (AST × List String)
  | 0, _ => none
  | _+1, "c" :: "i" :: v :: rest => do let i ← v.toInt?; pure (.const (.int i), rest)
  | _+1, "c" :: "f" :: v :: rest => do let f ← floatOfHex v; pure (.const (.flt f), rest)
  | _+1, "c" :: "s" :: v :: rest => do let s ← strField v; pure (.const (.str s), rest)
  | _+1, "c" :: "b" :: v :: rest => pure (.const (.bool (v == "1")), rest)
  | _+1, "id" :: v :: rest => do let s ← strField v; pure (.ident s, rest)
  | n+1, "let" :: v :: rest => do
      let x ← strField v
      let (a, r) ← parseAST n rest
      let (b, r) ← parseAST n r
      pure (.letE x a b, r)
  | n+1, "if" :: rest => do
      let (c, r) ← parseAST n rest
      let (t, r) ← parseAST n r
      let (e, r) ← parseAST n r
      pure (.ifE c t e, r)
  | n+1, "sw" :: k :: rest => do
      let k ← k.toNat?
      let (v, r) ← parseAST n rest
      let (cs, r) ← parseCases n k r
      let (d, r) ← parseAST n r
      pure (.switchE v cs d, r)
  | n+1, "try" :: rest => do
      let (t, r) ← parseAST n rest
      let (c, r) ← parseAST n r
      pure (.tryE t c, r)
  | n+1, "un" :: op :: rest => do
      let o ← strField op
      let (a, r) ← parseAST n rest
      pure (.unary o a, r)
  | n+1, "op" :: op :: rest => do
      let o ← strField op
      let (a, r) ← parseAST n rest
      let (b, r) ← parseAST n r
      pure (.binop o a b, r)
  | n+1, "clo" :: k :: rest => do
      let k ← k.toNat?
      let (names, r) ← takeStrs k rest
      match r with
      | m :: r => do
        let m ← m.toNat?
        let (outer, r) ← takeStrs m r
        match r with
        | rc :: this :: r => do
          let this ← strField this
          let (body, r) ← parseAST n r
          pure (.clos names body outer (rc == "1") this, r)
        | _ => none
      | _ => none
  | n+1, "list" :: k :: rest => do
      let k ← k.toNat?
      let (xs, r) ← parseASTs n k rest
      pure (.listLit xs, r)
  | n+1, "idx" :: rest => do
      let (i, r) ← parseAST n rest
      let (l, r) ← parseAST n r
      pure (.index i l, r)
  | n+1, "map" :: k :: rest => do
      let k ← k.toNat?
      let (kvs, r) ← parseKVAs n k rest
      pure (.mapLit kvs, r)
  | n+1, "mem" :: key :: rest => do
      let key ← strField key
      let (m, r) ← parseAST n rest
      pure (.member m key, r)
  | n+1, "call" :: k :: rest => do
      let k ← k.toNat?
      let (f, r) ← parseAST n rest
      let (xs, r) ← parseASTs n k r
      pure (.call f xs, r)
  | n+1, "meth" :: name :: k :: rest => do
      let name ← strField name
      let k ← k.toNat?
      let (recv, r) ← parseAST n rest
      let (xs, r) ← parseASTs n k r
      pure (.method recv name xs, r)
  | _, _ => none
def parseASTs : Nat → Nat → List String → Option (List AST × List String)
  | 0, _, _ => none
  | _+1, 0, rest => some ([], rest)
  | n+1, k+1, rest => do
      let (a, r) ← parseAST n rest
      let (as, r) ← parseASTs n k r
      pure (a :: as, r)
def parseKVAs : Nat → Nat → List String → Option (List (String × AST) × List String)
  | 0, _, _ => none
  | _+1, 0, rest => some ([], rest)
  | n+1, k+1, key :: rest => do
      let key ← strField key
      let (a, r) ← parseAST n rest
      let (as, r) ← parseKVAs n k r
      pure ((key, a) :: as, r)
  | _, _, _ => none
def parseCases : Nat → Nat → List String → Option (List (AST × AST) × List String)
  | 0, _, _ => none
  | _+1, 0, rest => some ([], rest)
  | n+1, k+1, rest => do
      let (c, r) ← parseAST n rest
      let (v, r) ← parseAST n r
      let (cs, r) ← parseCases n k r
      pure ((c, v) :: cs, r)
end

mutual
def parseVal : Nat → List String → Option (Val × List String)
  | 0, _ => none
  | _+1, "i" :: v :: rest => do let i ← v.toInt?; pure (.int i, rest)
  | _+1, "f" :: v :: rest => do let f ← floatOfHex v; pure (.flt f, rest)
  | _+1, "s" :: v :: rest => do let s ← strField v; pure (.str s, rest)
  | _+1, "b" :: v :: rest => pure (.bool (v == "1"), rest)
  | n+1, "L" :: k :: rest => do
      let k ← k.toNat?
      let (xs, r) ← parseVals n k rest
      pure (.list (.items xs), r)
  | n+1, "M" :: k :: rest => do
      let k ← k.toNat?
      let (kvs, r) ← parseKVs' n k rest
      pure (.map kvs, r)
  | _, _ => none
def parseVals : Nat → Nat → List String → Option (List Val × List String)
  | 0, _, _ => none
  | _+1, 0, rest => some ([], rest)
  | n+1, k+1, rest => do
      let (a, r) ← parseVal n rest
      let (as, r) ← parseVals n k r
      pure (a :: as, r)
def parseKVs' : Nat → Nat → List String → Option (List (String × Val) × List String)
  | 0, _, _ => none
  | _+1, 0, rest => some ([], rest)
  | n+1, k+1, key :: rest => do
      let key ← strField key
      let (a, r) ← parseVal n rest
      let (as, r) ← parseKVs' n k r
      pure ((key, a) :: as, r)
  | _, _, _ => none
end

def statics : Statics := fun name =>
  match P2.Generated.valueStatics.find? (fun e => e.1 == name) with
  | some (_, a, p) => some (a, p)
  | none => none

def methods : Methods := fun ty name =>
  match P2.Generated.valueMethods.find? (fun e => e.1 == ty && e.2.1 == name) with
  | some (_, _, a, _) => some a
  | none => none

def hex16 (n : Nat) : String :=
  String.ofList ((List.range 16).reverse.map (fun i => P2.hexDigitChar ((n / 16 ^ i) % 16)))

/-- entries are (key, canonical value text); sorted by the key itself (code-point order = Go's byte
order on valid UTF-8), as `canonValue` does on the Go side -/
def insertSorted (kv : String × String) : List (String × String) → List (String × String)
  | [] => [kv]
  | x :: xs => if kv.1 ≤ x.1 then kv :: x :: xs else x :: insertSorted kv xs

mutual
/-- canonical text of a value, forcing lists deeply, maps sorted by key -/
def canon (ap : Apply) : Nat → Val → R String
  | 0, _ => .fuel
  | _+1, .int i => .ok s!"i{i}"
  | _+1, .flt f => .ok (if f.isNaN then "fNaN" else s!"f{hex16 f.toBits.toNat}")
  | _+1, .str s => .ok s!"s{showChars s.toList}"
  | _+1, .bool b => .ok (if b then "b1" else "b0")
  | k+1, .list l => do
      let xs ← force ap k l
      let ss ← canons ap k xs
      pure ("L[" ++ ",".intercalate ss ++ "]")
  | k+1, .map kvs => do
      let ss ← canonKVs ap k kvs
      let sorted := ss.foldr insertSorted []
      pure ("M{" ++ ",".intercalate (sorted.map (fun kv => showChars kv.1.toList ++ "=" ++ kv.2)) ++ "}")
  | _+1, .sclos names _ _ _ _ => .ok s!"C{names.length}"
  | _+1, .rclos n _ _ _ => .ok s!"C{n}"
def canons (ap : Apply) : Nat → List Val → R (List String)
  | 0, _ => .fuel
  | _+1, [] => .ok []
  | k+1, v :: vs => do
      let s ← canon ap k v
      let ss ← canons ap k vs
      pure (s :: ss)
def canonKVs (ap : Apply) : Nat → List (String × Val) → R (List (String × String))
  | 0, _ => .fuel
  | _+1, [] => .ok []
  | k+1, (key, v) :: vs => do
      let s ← canon ap k v
      let ss ← canonKVs ap k vs
      pure ((key, s) :: ss)
end

def showOutcome (ap : Apply) (fuel : Nat) : R Val → String
  | .ok v => match canon ap fuel v with
    | .ok s => "OK " ++ s
    | .err => "ERR"            -- forcing the result failed
    | .panic => "ERR"
    | .fuel => "FUEL"
    | .unmodelled => "UNMODELLED"
  | .err => "ERR"
  | .panic => "ERR"
  | .fuel => "FUEL"
  | .unmodelled => "UNMODELLED"

def variantOf (s : String) : Variant :=
  match s with
  | "pinned" => { pushedSlots := false, localShadowsStatic := false }
  | _ => {}

/-- `EVAL <variant> <fuel> <argNames (cps, blank separated)> <args tokens> <ast tokens>`
→ `<compiled outcome>\t<reference outcome>`; `GENERR` when the model's Generate fails -/
def handleEval (args : List String) : String :=
  match args with
  | [variant, fuel, names, argToks, astToks] =>
    match fuel.toNat?, (words names).mapM strField with
    | some fuel, some argNames =>
      let aw := words astToks
      let vw := words argToks
      match parseAST (aw.length + 1) aw, parseVals (vw.length + 2) argNames.length vw with
      | some (ast, []), some (argv, []) =>
        let refOut := runReference statics methods fuel ast argNames argv
        let refS := showOutcome (applyS statics methods fuel) fuel refOut
        match generate statics (variantOf variant) ast argNames with
        | none => s!"GENERR\t{refS}"
        | some code =>
          let out := runCompiled methods fuel code argv
          s!"{showOutcome (applyR methods fuel) fuel out}\t{refS}"
      | _, _ => "BADREQ"
    | _, _ => "BADREQ"
  | _ => "BADREQ"

end P2.Driver
