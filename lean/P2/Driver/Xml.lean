import P2.Driver.Util
import P2.Model.Xml
import P2.Spec.XmlDec
import P2.Generated.XmlEsc
/-! Protocol glue for the `XML` and `HTML` requests of the model driver (C18). No proofs here. -/
namespace P2.Driver
open P2.Xml

/-- style tokens: `N` | `T cps` | `O` | `K n (cps (s cps | o))…` -/
def parseStyEntries : Nat → List String → Option (List (List Char × SV) × List String)
  | 0, rest => some ([], rest)
  | k+1, key :: "s" :: v :: rest => do
      let kc ← cpsField key
      let vc ← cpsField v
      let (es, r) ← parseStyEntries k rest
      pure ((kc, .s vc) :: es, r)
  | k+1, key :: "o" :: rest => do
      let kc ← cpsField key
      let (es, r) ← parseStyEntries k rest
      pure ((kc, .o) :: es, r)
  | _, _ => none

def parseSty : List String → Option (Sty × List String)
  | "N" :: rest => some (.none, rest)
  | "O" :: rest => some (.other, rest)
  | "T" :: s :: rest => do let cs ← cpsField s; pure (.str cs, rest)
  | "K" :: n :: rest => do
      let n ← n.toNat?
      let (es, r) ← parseStyEntries n rest
      pure (.map es, r)
  | _ => none

mutual
/-- prefix token stream: `S cps` | `F cps cps` | `L n t…` | `M n (cps t)…` | `X sty cell span t` |
`C (E | R t) cell span t` | `A cps t` | `B name mime b64 size sizeStr` -/
def parseV : Nat → List String → Option (V × List String)
  | 0, _ => none
  | _+1, "S" :: s :: rest => do let cs ← cpsField s; pure (.str cs, rest)
  | _+1, "F" :: a :: b :: rest => do
      let ac ← cpsField a
      let bc ← cpsField b
      pure (.flt ac bc, rest)
  | n+1, "L" :: k :: rest => do
      let k ← k.toNat?
      let (l, r) ← parseVs n k rest
      pure (.arr l, r)
  | n+1, "M" :: k :: rest => do
      let k ← k.toNat?
      let (l, r) ← parseVKVs n k rest
      pure (.obj l, r)
  | n+1, "X" :: rest => do
      let (sty, r) ← parseSty rest
      match r with
      | cell :: span :: r' => do
        let span ← span.toNat?
        let (v, r'') ← parseV n r'
        pure (.fmt sty (cell == "1") span v, r'')
      | _ => none
  | n+1, "C" :: "E" :: cell :: span :: rest => do
      let span ← span.toNat?
      let (v, r) ← parseV n rest
      pure (.fmtCl none (cell == "1") span v, r)
  | n+1, "C" :: "R" :: rest => do
      let (res, r) ← parseV n rest
      match r with
      | cell :: span :: r' => do
        let span ← span.toNat?
        let (v, r'') ← parseV n r'
        pure (.fmtCl (some res) (cell == "1") span v, r'')
      | _ => none
  | n+1, "A" :: h :: rest => do
      let hc ← cpsField h
      let (v, r) ← parseV n rest
      pure (.link hc v, r)
  | _+1, "B" :: name :: mime :: b64 :: size :: sizeStr :: rest => do
      let nc ← cpsField name
      let mc ← cpsField mime
      let bc ← cpsField b64
      let sz ← size.toNat?
      let sc ← cpsField sizeStr
      pure (.file nc mc bc sz sc, rest)
  | _, _ => none
def parseVs : Nat → Nat → List String → Option (List V × List String)
  | 0, _, _ => none
  | _+1, 0, rest => some ([], rest)
  | n+1, k+1, rest => do
      let (t, r) ← parseV n rest
      let (ts, r') ← parseVs n k r
      pure (t :: ts, r')
def parseVKVs : Nat → Nat → List String → Option (List (List Char × V) × List String)
  | 0, _, _ => none
  | _+1, 0, rest => some ([], rest)
  | n+1, k+1, key :: rest => do
      let kc ← cpsField key
      let (t, r) ← parseV n rest
      let (ts, r') ← parseVKVs n k r
      pure ((kc, t) :: ts, r')
  | _, _, _ => none
end

/-- canonical text of a token stream: adjacent character tokens merged;
`s/<name>/<key>=<value>/…`, `e/<name>`, `t/<text>`, all strings as code points -/
def showToks : List Tok → List Char → List String
  | [], acc => if acc.isEmpty then [] else ["t/" ++ showChars acc]
  | .chr c :: ts, acc => showToks ts (acc ++ [c])
  | .start n as :: ts, acc =>
    (if acc.isEmpty then [] else ["t/" ++ showChars acc]) ++
    ["/".intercalate (("s/" ++ showChars n) :: as.map (fun kv => showChars kv.1 ++ "=" ++ showChars kv.2))] ++
    showToks ts []
  | .stop n :: ts, acc =>
    (if acc.isEmpty then [] else ["t/" ++ showChars acc]) ++ ["e/" ++ showChars n] ++ showToks ts []

def showDecoded (toks : Option (List Tok)) (doc : Bool) : String :=
  match toks with
  | none => "D0"
  | some ts =>
    let wf := if doc then wellFormedDoc ts else wellFormed ts
    (if wf then "D1" else "D2") ++ "\t" ++ " ".intercalate (showToks ts [])

def et := P2.Json.escOf P2.Generated.xmlTextEsc
def ea := P2.Json.escOf P2.Generated.xmlAttrEsc

/-- `XML <tree>` → `OK <bytes as code points> (D0 | D1|D2 <tokens>)` | `PANIC`.
`D1`: the model's reference decoder accepts the document as well-formed; `D2`: tokenises but is not a
well-formed document (e.g. no root element); `D0`: rejected. -/
def handleXml (args : List String) : String :=
  match args with
  | [toks] =>
    let ws := words toks
    match parseV (ws.length + 1) ws with
    | some (v, []) =>
      match xmlExport et ea attrKeyOK v with
      | .ok out => s!"OK\t{showChars out}\t{showDecoded (tokensDoc out) true}"
      | .panic => "PANIC"
      | .err => "ERR"
      | .fuel => "FUEL"
    | _ => "BADREQ"
  | _ => "BADREQ"

/-- `HTML <maxListSize> <inline 0|1> <tree>` → `OK <bytes> <classes> (D0 | D1|D2 <tokens>)` | `ERR` -/
def handleHtml (args : List String) : String :=
  match args with
  | [m, inl, toks] =>
    let ws := words toks
    match m.toNat?, parseV (ws.length + 1) ws with
    | some m, some (v, []) =>
      match htmlExport et ea (if m < 1 then 1 else m) (inl == "1") v with
      | .ok (out, classes) =>
        let cl := if classes.isEmpty then "-" else "|".intercalate (classes.map showChars)
        s!"OK\t{showChars out}\t{cl}\t{showDecoded (tokens out) false}"
      | .panic => "PANIC"
      | .err => "ERR"
      | .fuel => "FUEL"
    | _, _ => "BADREQ"
  | _ => "BADREQ"

end P2.Driver
