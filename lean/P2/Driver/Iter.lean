import P2.Driver.Util
import P2.Model.Iter
/-!
Protocol glue for the lazy-list model (request kind `PIPE`; no proofs here).

`PIPE <TAB> <consumer tokens> <TAB> <list tokens>`            tokens separated by blanks

list     := `num N` | `lit v,v,…` | `lit -` | `host N j|-` | `app list list` | `st stage list`
stage    := `map:id:F` | `accept:id:P` | `top:n` | `skip:n` | `combine:id:a,b,c,j` | `combine3:id:a,b,c,d,j`
          | `combineN:id:n:a,c,j` | `iir:id0:id1:F:c,d,h,j` | `iirc:id0:id1:F:c,d,g,h,j` | `number:id:a,b,j`
          | `compact:id:m,j`
F        := `a,b,j`                       e ↦ e*a+b           (j = value on which the closure throws, or `-`)
P        := `M,m,r,j` (e%m=r) | `G,c,j` (e>c) | `E,c,j` (e=c) | `L,c,j` (e<c)
consumer := `build` | `first` | `single` | `last` | `size` | `collect` | `present:id:P` | `indexWhere:id:P`
          | `contains:c` | `reduce:id:a,b,c,j` | `multi:k` followed by k × (`name m stage×m consumer`)
closures:  combine (x,y) ↦ x*a+y*b+c; combine3 (x,y,z) ↦ x*a+y*b+z*c+d; combineN l ↦ l[0]*a+l[n-1]+c (raw ring);
           iir init F, (e,l) ↦ e*c+l*d+h; iirc init F, (p,e,l) ↦ p*c+e*d+l*g+h; number (i,e) ↦ e*a+i*b;
           compact (x,y) ↦ x%m = y%m; reduce (x,y) ↦ x*a+y*b+c.   The throwing test is on the *last* element
           argument (the current element), which is also the argument the Go-side tick function receives.

Response: `<outcome> <TAB> <id:count:hash …> <TAB> <pulled>`; outcome = `OK out;out…` | `ERR` | `PANIC` | `FUEL`;
out = `i:n` | `b:0|1` | `l:v,v,…`; hash folds the last argument of every call of closure `id`, in order.
-/
namespace P2.Driver
open P2 P2.Iter

def pipeOptInt (s : String) : Option (Option Int) :=
  if s = "-" then some none else (s.toInt?).map some

def pipeInts (s : String) : Option (List Int) := (s.splitOn ",").mapM (·.toInt?)

def pipeFailOr {β} (j : Option Int) (x : Int) (r : Res β) : Res β := if some x = j then .err else r

/-- `a,b,j` -/
def pipeParseF (s : String) : Option (Int → Res Int) :=
  match s.splitOn "," with
  | [a, b, j] => do
      let a ← a.toInt?; let b ← b.toInt?; let j ← pipeOptInt j
      pure fun e => pipeFailOr j e (.ok (e * a + b))
  | _ => none

/-- Go's `%` truncates toward zero -/
def pipeParseP (s : String) : Option (Int → Res Bool) :=
  match s.splitOn "," with
  | ["M", m, r, j] => do
      let m ← m.toInt?; let r ← r.toInt?; let j ← pipeOptInt j
      if m = 0 then none else pure fun e => pipeFailOr j e (.ok (Int.tmod e m == r))
  | ["G", c, j] => do let c ← c.toInt?; let j ← pipeOptInt j; pure fun e => pipeFailOr j e (.ok (decide (e > c)))
  | ["E", c, j] => do let c ← c.toInt?; let j ← pipeOptInt j; pure fun e => pipeFailOr j e (.ok (e == c))
  | ["L", c, j] => do let c ← c.toInt?; let j ← pipeOptInt j; pure fun e => pipeFailOr j e (.ok (decide (e < c)))
  | _ => none

def pipeParseStage (tok : String) : Option (Stage Int) :=
  match tok.splitOn ":" with
  | ["map", id, f] => do pure (.map (← id.toNat?) (← pipeParseF f))
  | ["accept", id, p] => do pure (.accept (← id.toNat?) (← pipeParseP p))
  | ["top", n] => do pure (.top (← n.toInt?))
  | ["skip", n] => do pure (.skip (← n.toInt?))
  | ["combine", id, ps] =>
      match ps.splitOn "," with
      | [a, b, c, j] => do
          let a ← a.toInt?; let b ← b.toInt?; let c ← c.toInt?; let j ← pipeOptInt j
          pure (.combine (← id.toNat?) fun x y => pipeFailOr j y (.ok (x * a + y * b + c)))
      | _ => none
  | ["combine3", id, ps] =>
      match ps.splitOn "," with
      | [a, b, c, d, j] => do
          let a ← a.toInt?; let b ← b.toInt?; let c ← c.toInt?; let d ← d.toInt?; let j ← pipeOptInt j
          pure (.combine3 (← id.toNat?) fun x y z => pipeFailOr j z (.ok (x * a + y * b + z * c + d)))
      | _ => none
  | ["combineN", id, n, ps] =>
      match ps.splitOn "," with
      | [a, c, j] => do
          let a ← a.toInt?; let c ← c.toInt?; let j ← pipeOptInt j; let n ← n.toInt?
          pure (.combineN (← id.toNat?) n fun l =>
            match l.head?, l.getLast? with
            | some x, some y => pipeFailOr j y (.ok (x * a + y + c))
            | _, _ => .err)
      | _ => none
  | ["iir", id0, id1, f, ps] =>
      match ps.splitOn "," with
      | [c, d, h, j] => do
          let c ← c.toInt?; let d ← d.toInt?; let h ← h.toInt?; let j ← pipeOptInt j
          pure (.iir (← id0.toNat?) (← id1.toNat?) (← pipeParseF f) fun e l => pipeFailOr j e (.ok (e * c + l * d + h)))
      | _ => none
  | ["iirc", id0, id1, f, ps] =>
      match ps.splitOn "," with
      | [c, d, g, h, j] => do
          let c ← c.toInt?; let d ← d.toInt?; let g ← g.toInt?; let h ← h.toInt?; let j ← pipeOptInt j
          pure (.iirCombine (← id0.toNat?) (← id1.toNat?) (← pipeParseF f)
            fun p e l => pipeFailOr j e (.ok (p * c + e * d + l * g + h)))
      | _ => none
  | ["number", id, ps] =>
      match ps.splitOn "," with
      | [a, b, j] => do
          let a ← a.toInt?; let b ← b.toInt?; let j ← pipeOptInt j
          pure (.number (← id.toNat?) fun i e => pipeFailOr j e (.ok (e * a + (i : Int) * b)))
      | _ => none
  | ["compact", id, ps] =>
      match ps.splitOn "," with
      | [m, j] => do
          let m ← m.toInt?; let j ← pipeOptInt j
          if m = 0 then none else
          pure (.compact (← id.toNat?) fun x y => pipeFailOr j y (.ok (Int.tmod x m == Int.tmod y m)))
      | _ => none
  | _ => none

/-- The driver evaluates generator sources of more than `pipeGenLimit` elements as sources of `pipeGenLimit`
elements and answers `FUEL` when such a clipped source was exhausted: by `P2.C08.size_independent` a run
that pulled fewer elements than the clipped size is the run on the full size. (Keeps the driver total on
requests whose consumer does not decide, e.g. after a change of the code under test.) -/
def pipeGenLimit : Nat := 300000

/-- prefix token tree; fuel = number of tokens -/
def pipeParseList : Nat → List String → Option (LList Int × List String)
  | 0, _ => none
  | _ + 1, "num" :: n :: rest => do pure (numbers (min (← n.toNat?) pipeGenLimit), rest)
  | _ + 1, "lit" :: vs :: rest => do
      if vs = "-" then pure (.items [], rest) else pure (.items (← pipeInts vs), rest)
  | _ + 1, "host" :: n :: j :: rest => do
      let n ← n.toNat?
      let n := min n pipeGenLimit
      let j ← pipeOptInt j
      pure (.gen n (fun i => if some (i : Int) = j then .err else .ok (i : Int)), rest)
  | f + 1, "app" :: rest => do
      let (a, r1) ← pipeParseList f rest
      let (b, r2) ← pipeParseList f r1
      pure (.append a b, r2)
  | f + 1, "st" :: s :: rest => do
      let st ← pipeParseStage s
      let (l, r) ← pipeParseList f rest
      pure (.stage st l, r)
  | _, _ => none

/-- what to print for a consumer's result -/
inductive PipeShape where | asIs | size
  deriving Inhabited

def pipeParseTerm (tok : String) : Option (Term Int × PipeShape) :=
  match tok.splitOn ":" with
  | ["first"] => some (.first, .asIs)
  | ["single"] => some (.single none, .asIs)
  | ["last"] => some (.last none, .asIs)
  | ["size"] => some (.collect [], .size)
  | ["collect"] => some (.collect [], .asIs)
  | ["present", id, p] => do pure (.present (← id.toNat?) (← pipeParseP p), .asIs)
  | ["indexWhere", id, p] => do pure (.indexWhere (← id.toNat?) (← pipeParseP p) 0, .asIs)
  | ["contains", c] => do let c ← c.toInt?; pure (.contains (fun v => .ok (v == c)), .asIs)
  | ["reduce", id, ps] =>
      match ps.splitOn "," with
      | [a, b, c, j] => do
          let a ← a.toInt?; let b ← b.toInt?; let c ← c.toInt?; let j ← pipeOptInt j
          pure (.reduce (← id.toNat?) (fun x y => pipeFailOr j y (.ok (x * a + y * b + c))) none, .asIs)
      | _ => none
  | _ => none

/-- a stage token as the frame a multiUse consumer puts above its terminal -/
def pipeParseFrames : Nat → List String → Option (List (Frame Int) × List String)
  | 0, rest => some ([], rest)
  | m + 1, s :: rest => do
      let st ← pipeParseStage s
      let fr ← st.init
      let (fs, r) ← pipeParseFrames m rest
      pure (fr :: fs, r)
  | _, _ => none

def pipeParseBranches : Nat → List String → Option (List (Branch Int × PipeShape))
  | 0, [] => some []
  | k + 1, _name :: m :: rest => do
      let m ← m.toNat?
      let (fs, r) ← pipeParseFrames m rest
      match r with
      | c :: r' => do
          let (t, sh) ← pipeParseTerm c
          let bs ← pipeParseBranches k r'
          pure ((⟨fs, t, false, false⟩, sh) :: bs)
      | [] => none
  | _, _ => none

def pipeShowOut (sh : PipeShape) : Out Int → String
  | .val v => s!"i:{v}"
  | .int i => s!"i:{i}"
  | .bool b => if b then "b:1" else "b:0"
  | .list l => match sh with
      | .size => s!"i:{l.length}"
      | .asIs => "l:" ++ ",".intercalate (l.map toString)

def pipeHashP : Nat := 2147483647

/-- which argument of closure `id` the Go-side tick function receives: the current element — the last
argument, except for `iir` `(e,l)` (index 0) and `iirCombine` `(p,e,l)` (index 1) -/
def pipeTickArgOverrides (toks : List String) : List (Nat × Nat) :=
  toks.filterMap fun t =>
    match t.splitOn ":" with
    | "iir" :: _ :: id1 :: _ => id1.toNat?.map (·, 0)
    | "iirc" :: _ :: id1 :: _ => id1.toNat?.map (·, 1)
    | _ => none

def pipeFoldTicks (ov : List (Nat × Nat)) (log : Log Int) : List (Nat × Nat × Nat) :=
  log.foldl (fun acc e =>
    let pick : Option Int := match ov.lookup e.1 with
      | some idx => e.2[idx]?
      | none => e.2.getLast?
    let x : Int := match pick with | some v => v | none => 0
    let xv := (Int.emod x pipeHashP).toNat
    let rec upd : List (Nat × Nat × Nat) → List (Nat × Nat × Nat)
      | [] => [(e.1, 1, (xv + 1) % pipeHashP)]
      | (i, c, h) :: rest =>
          if i = e.1 then (i, c + 1, (h * 1000003 + xv + 1) % pipeHashP) :: rest else (i, c, h) :: upd rest
    upd acc) []

def pipeInsertSorted (x : Nat × Nat × Nat) : List (Nat × Nat × Nat) → List (Nat × Nat × Nat)
  | [] => [x]
  | y :: ys => if x.1 ≤ y.1 then x :: y :: ys else y :: pipeInsertSorted x ys

def pipeShowTicks (ov : List (Nat × Nat)) (log : Log Int) : String :=
  let t := (pipeFoldTicks ov log).foldl (fun acc x => pipeInsertSorted x acc) []
  " ".intercalate (t.map fun (i, c, h) => s!"{i}:{c}:{h}")

def pipeShowOutcome (ov : List (Nat × Nat)) (o : Outcome Int) (shapes : List PipeShape) : String :=
  if o.pulled ≥ pipeGenLimit then "FUEL\t\t0" else
  let res := match o.res with
    | .ok outs => "OK " ++ ";".intercalate ((outs.zip shapes).map fun (x, sh) => pipeShowOut sh x)
    | .err => "ERR"
    | .panic => "PANIC"
    | .fuel => "FUEL"
  s!"{res}\t{pipeShowTicks ov o.log}\t{o.pulled}"

def handlePipe (args : List String) : String :=
  match args with
  | [cons, lst] =>
    let lw := words lst
    let ov := pipeTickArgOverrides (lw ++ words cons)
    match pipeParseList (lw.length + 1) lw with
    | some (l, []) =>
      match words cons with
      | ["build"] => pipeShowOutcome ov (Prog.build l).eval [.asIs]
      | [c] =>
        (match c.splitOn ":" with
         | ["multi", _] => "BADREQ"
         | _ => match pipeParseTerm c with
           | some (t, sh) => pipeShowOutcome ov (Prog.consume l (.one t)).eval [sh]
           | none => "BADREQ")
      | m :: rest =>
        (match m.splitOn ":" with
         | ["multi", k] =>
           (match k.toNat? with
            | some k =>
              (match pipeParseBranches k rest with
               | some bs => pipeShowOutcome ov (Prog.consume l (.multi (bs.map (·.1)))).eval (bs.map (·.2))
               | none => "BADREQ")
            | none => "BADREQ")
         | _ => "BADREQ")
      | [] => "BADREQ"
    | _ => "BADREQ"
  | _ => "BADREQ"

end P2.Driver
