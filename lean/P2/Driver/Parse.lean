import P2.Driver.Util
import P2.Spec.Render
/-! Protocol glue for the Parse model (C03): `PARSE` and `RENDER` requests.

```
PARSE  <pin:0|1> <ops> <unary> <scope> <tokens>      → OK <tree> | ERR | PANIC | FUEL
RENDER <mode:min|full> <ops> <unary> <tree>          → tokens of the model's renderer
```
Fields are TAB separated; lists are blank separated; every name is a code point list `97.98` (`-` = empty).
`scope` items `v:cps | f:cps | c:cps` (variable, function, host constant), head = looked up first.
`tokens` items `i: k: n: s: o: x:` + cps (ident, keyword, number, string, operator, invalid) and the
punctuation characters `( ) [ ] { } . , : ;`. Trees are prefix token streams (see `showE`). -/
namespace P2.Driver.C03
open P2.Driver P2.Parse

def strField (s : String) : Option String := (cpsField s).map String.ofList

def showStr (s : String) : String := showChars s.toList

def tokField (w : String) : Option Tok :=
  match w with
  | "(" => some .lp | ")" => some .rp | "[" => some .lb | "]" => some .rb | "{" => some .lc | "}" => some .rc
  | "." => some .dot | "," => some .comma | ":" => some .colon | ";" => some .semi
  | _ =>
    match w.splitOn ":" with
    | [k, v] =>
      match strField v with
      | none => none
      | some s =>
        match k with
        | "i" => some (.ident s) | "k" => some (.kw s) | "n" => some (.num s) | "s" => some (.str s)
        | "o" => some (.op s) | "x" => some (.invalid s) | _ => none
    | _ => none

def showTok : Tok → String
  | .lp => "(" | .rp => ")" | .lb => "[" | .rb => "]" | .lc => "{" | .rc => "}"
  | .dot => "." | .comma => "," | .colon => ":" | .semi => ";"
  | .ident s => "i:" ++ showStr s | .kw s => "k:" ++ showStr s | .num s => "n:" ++ showStr s
  | .str s => "s:" ++ showStr s | .op s => "o:" ++ showStr s | .invalid s => "x:" ++ showStr s

def scopeField (w : String) : Option (String × Kind) :=
  match w.splitOn ":" with
  | [k, v] =>
    match strField v with
    | none => none
    | some s =>
      match k with
      | "v" => some (s, .var) | "f" => some (s, .func) | "c" => some (s, .cst (.cst s)) | _ => none
  | _ => none

mutual
def showE : E → List String
  | .ident s => ["id", showStr s]
  | .num s => ["num", showStr s]
  | .str s => ["str", showStr s]
  | .cst s => ["cst", showStr s]
  | .bin o a b => "bin" :: showStr o :: (showE a ++ showE b)
  | .un o a => "un" :: showStr o :: showE a
  | .call f as => "call" :: (showE f ++ toString as.length :: showEs as)
  | .index l i => "idx" :: (showE l ++ showE i)
  | .member m k => "mem" :: (showE m ++ [showStr k])
  | .method m n as => "meth" :: (showE m ++ showStr n :: toString as.length :: showEs as)
  | .letE n v i => "let" :: showStr n :: (showE v ++ showE i)
  | .funcE n ns b i => "func" :: showStr n :: toString ns.length :: (ns.map showStr ++ showE b ++ showE i)
  | .clos ns b => "clo" :: toString ns.length :: (ns.map showStr ++ showE b)
  | .list as => "list" :: toString as.length :: showEs as
  | .map es => "map" :: toString es.length :: showKVs es
  | .ite c a b => "if" :: (showE c ++ showE a ++ showE b)
  | .tryC a c => "try" :: (showE a ++ showE c)
  | .switch v cs d => "sw" :: (showE v ++ toString cs.length :: (showCs cs ++ showE d))
def showEs : List E → List String
  | [] => []
  | a :: as => showE a ++ showEs as
def showKVs : List (String × E) → List String
  | [] => []
  | (k, v) :: es => showStr k :: (showE v ++ showKVs es)
def showCs : List (E × E) → List String
  | [] => []
  | (c, v) :: cs => showE c ++ showE v ++ showCs cs
end

def takeStrs : Nat → List String → Option (List String × List String)
  | 0, rest => some ([], rest)
  | k+1, w :: rest => do
      let s ← strField w
      let (ss, r) ← takeStrs k rest
      pure (s :: ss, r)
  | _, _ => none

mutual
def readE : Nat → List String → Option (E × List String)
  | 0, _ => none
  | _+1, "id" :: s :: r => do pure (.ident (← strField s), r)
  | _+1, "num" :: s :: r => do pure (.num (← strField s), r)
  | _+1, "str" :: s :: r => do pure (.str (← strField s), r)
  | _+1, "cst" :: s :: r => do pure (.cst (← strField s), r)
  | n+1, "bin" :: o :: r => do
      let o ← strField o
      let (a, r) ← readE n r
      let (b, r) ← readE n r
      pure (.bin o a b, r)
  | n+1, "un" :: o :: r => do
      let o ← strField o
      let (a, r) ← readE n r
      pure (.un o a, r)
  | n+1, "call" :: r => do
      let (f, r) ← readE n r
      match r with
      | k :: r =>
        let (as, r) ← readEs n (← k.toNat?) r
        pure (.call f as, r)
      | [] => none
  | n+1, "idx" :: r => do
      let (l, r) ← readE n r
      let (i, r) ← readE n r
      pure (.index l i, r)
  | n+1, "mem" :: r => do
      let (m, r) ← readE n r
      match r with
      | k :: r => pure (.member m (← strField k), r)
      | [] => none
  | n+1, "meth" :: r => do
      let (m, r) ← readE n r
      match r with
      | name :: k :: r =>
        let (as, r) ← readEs n (← k.toNat?) r
        pure (.method m (← strField name) as, r)
      | _ => none
  | n+1, "let" :: name :: r => do
      let (v, r) ← readE n r
      let (i, r) ← readE n r
      pure (.letE (← strField name) v i, r)
  | n+1, "func" :: name :: k :: r => do
      let (ns, r) ← takeStrs (← k.toNat?) r
      let (b, r) ← readE n r
      let (i, r) ← readE n r
      pure (.funcE (← strField name) ns b i, r)
  | n+1, "clo" :: k :: r => do
      let (ns, r) ← takeStrs (← k.toNat?) r
      let (b, r) ← readE n r
      pure (.clos ns b, r)
  | n+1, "list" :: k :: r => do
      let (as, r) ← readEs n (← k.toNat?) r
      pure (.list as, r)
  | n+1, "map" :: k :: r => do
      let (es, r) ← readKVs n (← k.toNat?) r
      pure (.map es, r)
  | n+1, "if" :: r => do
      let (c, r) ← readE n r
      let (a, r) ← readE n r
      let (b, r) ← readE n r
      pure (.ite c a b, r)
  | n+1, "try" :: r => do
      let (a, r) ← readE n r
      let (c, r) ← readE n r
      pure (.tryC a c, r)
  | n+1, "sw" :: r => do
      let (v, r) ← readE n r
      match r with
      | k :: r =>
        let (cs, r) ← readCs n (← k.toNat?) r
        let (d, r) ← readE n r
        pure (.switch v cs d, r)
      | [] => none
  | _, _ => none
def readEs : Nat → Nat → List String → Option (List E × List String)
  | 0, _, _ => none
  | _+1, 0, r => some ([], r)
  | n+1, k+1, r => do
      let (a, r) ← readE n r
      let (as, r) ← readEs n k r
      pure (a :: as, r)
def readKVs : Nat → Nat → List String → Option (List (String × E) × List String)
  | 0, _, _ => none
  | _+1, 0, r => some ([], r)
  | n+1, k+1, key :: r => do
      let (v, r) ← readE n r
      let (es, r) ← readKVs n k r
      pure ((← strField key, v) :: es, r)
  | _, _, _ => none
def readCs : Nat → Nat → List String → Option (List (E × E) × List String)
  | 0, _, _ => none
  | _+1, 0, r => some ([], r)
  | n+1, k+1, r => do
      let (c, r) ← readE n r
      let (v, r) ← readE n r
      let (cs, r) ← readCs n k r
      pure ((c, v) :: cs, r)
end

def tableOf (pin ops unary : String) : Option Table := do
  let os ← (words ops).mapM strField
  let us ← (words unary).mapM strField
  pure { ops := os, unary := us, pinned := pin == "1" }

def showPR : PR E → String
  | .ok e [] => " ".intercalate ("OK" :: showE e)
  | .ok _ _ => "ERR"
  | .err => "ERR"
  | .panic => "PANIC"
  | .fuel => "FUEL"

def handleParse (args : List String) : String :=
  match args with
  | [pin, ops, unary, scope, toks] =>
    match tableOf pin ops unary, (words scope).mapM scopeField, (words toks).mapM tokField with
    | some t, some σ, some ts => showPR (parse t σ ts)
    | _, _, _ => "BADREQ"
  | _ => "BADREQ"

def handleRender (args : List String) : String :=
  match args with
  | [mode, ops, unary, tree] =>
    let ws := words tree
    match tableOf "0" ops unary, readE (ws.length + 1) ws with
    | some t, some (e, []) =>
      let ρ := if mode == "full" then Deco.full else Deco.min
      " ".intercalate ((render t ρ 0 .none e).map showTok)
    | _, _ => "BADREQ"
  | _ => "BADREQ"

end P2.Driver.C03
