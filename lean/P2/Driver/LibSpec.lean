import P2.Driver.Lang
import P2.Spec.LibSpecExt
/-! Protocol glue for C07: the `SPEC` request. The program (receiver chain of built-in calls) is
evaluated by a small evaluator that sends every *covered* built-in through the eager reference
`P2.LibSpec` and everything else (arguments, callbacks, literals, operators) through the reference
semantics `P2.Lang.eval`. Closures are `sclos` values applied with `P2.Lang.applyS`. -/
namespace P2.Driver
open P2.Lang P2.LibSpec

def svToVal : SV → R Val
  | .val v => .ok v
  | .str s => s.toVal

def svStr (ap : Apply) (k : Nat) : SV → Option Str
  | .str s => some s
  | .val (.list l) => some (drain ap k l)
  | _ => none

mutual
def specEval (fuel : Nat) : Nat → AST → Env → R SV
  | 0, _, _ => .fuel
  | n+1, a, env =>
    let ap := applyS statics methods fuel
    match a with
    | .method recv name args => do
        let rv ← specEval fuel n recv env
        let isField := match rv with
          | .val (.map kvs) => (match mapGet kvs name with | some (.sclos ..) => true | _ => false)
          | _ => false
        if isField then
          -- a closure stored in a field of that name is called (`m.lineFunc(3)`)
          (match rv with
           | .val (.map kvs) => (match mapGet kvs name with
              | some f => do let vs ← specArgs fuel n args env; liftV (ap f vs)
              | none => .err)
           | _ => .err) else
        match methods (SV.typeName rv) name with
        | none => .err
        | some declared =>
          if declared > 0 ∧ declared ≠ args.length + 1 then .err else
          if !isCovered (SV.typeName rv) name then liftV (eval statics methods fuel a env) else do
          let vs ← specArgs fuel n args env
          match LibSpec.methodX ap fuel name rv vs with
          | some r => r
          | none => .unmodelled
    | .call (.ident name) args =>
        match statics name with
        | some (declared, _) =>
          if env.has name ∨ !isCoveredStatic name then liftV (eval statics methods fuel a env) else
          if declared ≥ 0 ∧ declared ≠ args.length then .err else do
          let vs ← specArgs fuel n args env
          match staticFnX ap fuel name vs with
          | some r => r
          | none => .unmodelled
        | none => liftV (eval statics methods fuel a env)
    | .call f args => do
        -- the callee is an expression (`l.createInterpolation(fx, fy)(x)`): it may be the result of a built-in
        let fv ← specEval fuel n f env
        let fv' ← svToVal fv
        let vs ← specArgs fuel n args env
        liftV (ap fv' vs)
    | .member m key => do
        match ← specEval fuel n m env with
        | .val (.map kvs) => liftV (R.ofOption (mapGet kvs key))
        | _ => .err
    | .letE x v i => do
        let xv ← specEval fuel n v env
        let v' ← svToVal xv
        specEval fuel n i ((x, v') :: env)
    | .binop "+" x y => do
        let xv ← specEval fuel n x env
        let yv ← specEval fuel n y env
        match svStr ap fuel xv, svStr ap fuel yv with
        | some sx, some sy => pure (.str (appendS sx sy))
        | _, _ => do
            let x' ← svToVal xv
            let y' ← svToVal yv
            liftV (binop ap fuel "+" x' y')
    | _ => liftV (eval statics methods fuel a env)
def specArgs (fuel : Nat) : Nat → List AST → Env → R (List Val)
  | 0, _, _ => .fuel
  | _+1, [], _ => .ok []
  | n+1, a :: as, env => do
      let v ← specEval fuel n a env
      let v' ← svToVal v
      let vs ← specArgs fuel n as env
      pure (v' :: vs)
end

def insertByKey (kv : String × String) : List (String × String) → List (String × String)
  | [] => [kv]
  | x :: xs => if kv.1 ≤ x.1 then kv :: x :: xs else x :: insertByKey kv xs

mutual
/-- canonical text of a value as in `canon`, maps sorted by the KEY (as the Go side does), not by
the key's code point text -/
def canon7 (ap : Apply) : Nat → Val → R String
  | 0, _ => .fuel
  | k+1, .list l => do
      let xs ← force ap k l
      let ss ← canons7 ap k xs
      pure ("L[" ++ ",".intercalate ss ++ "]")
  | k+1, .map kvs => do
      let ss ← canonKVs7 ap k kvs
      let sorted := ss.foldr insertByKey []
      pure ("M{" ++ ",".intercalate (sorted.map (fun kv => showChars kv.1.toList ++ "=" ++ kv.2)) ++ "}")
  | k+1, v => canon ap (k+1) v
def canons7 (ap : Apply) : Nat → List Val → R (List String)
  | 0, _ => .fuel
  | _+1, [] => .ok []
  | k+1, v :: vs => do
      let s ← canon7 ap k v
      let ss ← canons7 ap k vs
      pure (s :: ss)
def canonKVs7 (ap : Apply) : Nat → List (String × Val) → R (List (String × String))
  | 0, _ => .fuel
  | _+1, [] => .ok []
  | k+1, (key, v) :: vs => do
      let s ← canon7 ap k v
      let ss ← canonKVs7 ap k vs
      pure ((key, s) :: ss)
end

def showOutcome7 (ap : Apply) (fuel : Nat) : R Val → String
  | .ok v => match canon7 ap fuel v with
    | .ok s => "OK " ++ s
    | .err => "ERR"
    | .panic => "ERR"
    | .fuel => "FUEL"
    | .unmodelled => "UNMODELLED"
  | .err => "ERR"
  | .panic => "ERR"
  | .fuel => "FUEL"
  | .unmodelled => "UNMODELLED"

def showSV (ap : Apply) (fuel : Nat) : R SV → String
  | .ok (.val v) => showOutcome7 ap fuel (.ok v)
  | .ok (.str s) =>
    match s.stop with
    | some .fuel => "FUEL"
    | some .unmodelled => "UNMODELLED"
    | some _ => "ERR"
    | none => showOutcome7 ap fuel (.ok (listV s.items))
  | .err => "ERR"
  | .panic => "ERR"
  | .fuel => "FUEL"
  | .unmodelled => "UNMODELLED"

/-- classes of equal keys along a sorted (key, item) list: a new class starts where `lt prev cur` -/
def keyClasses (lt : Val → Val → R Bool) : Nat → List (Val × Val) → List Nat
  | _, [] => []
  | c, [_] => [c]
  | c, x :: y :: rest =>
    let c' := match lt x.1 y.1 with | .ok true => c + 1 | _ => c
    c :: keyClasses lt c' (y :: rest)

/-- for a top-level `order`/`orderRev`/`orderLess` call: the key classes of the spec's result -/
def orderClasses (fuel : Nat) (a : AST) (env : Env) : Option (List Nat) :=
  let ap := applyS statics methods fuel
  match a with
  | .method recv name [fa] =>
    if name = "order" ∨ name = "orderRev" ∨ name = "orderLess" then
      match specEval fuel (fuel + 1) recv env, eval statics methods fuel fa env with
      | .ok rv, .ok f =>
        match svStr ap fuel rv with
        | some s =>
          if name = "orderLess" then
            match orderLessS ap f s with
            | .ok r => some (keyClasses (fun x y => toBoolR (ap f [x, y])) 0 r)
            | _ => none
          else
            let rev := name = "orderRev"
            match orderS ap rev f s with
            | .ok r => some (keyClasses (fun x y => if rev then valLess y x else valLess x y) 0 r)
            | _ => none
        | none => none
      | _, _ => none
    else none
  | _ => none

/-- `SPEC <fuel> <argNames> <arg tokens> <ast tokens>` → `<outcome>` or `<outcome>\tCLS c0,c1,…` -/
def handleSpec (args : List String) : String :=
  match args with
  | [fuel, names, argToks, astToks] =>
    match fuel.toNat?, (words names).mapM strField with
    | some fuel, some argNames =>
      let aw := words astToks
      let vw := words argToks
      match parseAST (aw.length + 1) aw, parseVals (vw.length + 2) argNames.length vw with
      | some (ast, []), some (argv, []) =>
        let env := (bindParams argNames argv).reverse
        let ap := applyS statics methods fuel
        let out := showSV ap fuel (specEval fuel (fuel + 1) ast env)
        match orderClasses fuel ast env with
        | some cls => out ++ "\tCLS " ++ ",".intercalate (cls.map toString)
        | none => out
      | _, _ => "BADREQ"
    | _, _ => "BADREQ"
  | _ => "BADREQ"

end P2.Driver
