import P2.Driver.Util
import P2.Model.Heap
import P2.Generated.HeapFacts
/-! Protocol glue for `HIST` requests (C09): histories of list/map operations over a pool of handles.

  request : HIST <TAB> <grow: go|min|big> <TAB> <op> <TAB> <op> …
  response: one field per op, `<res> <obs delta> <cap delta>`
            res       = H (new handle) | V<tokens> (scalar result) | E (error)
            obs delta = k=<tokens>;…   every pool handle whose observation differs from the previous step
            cap delta = k=len/cap/present;…  representation state of list handles (coverage only)

The facts (which slices the methods write to, window order of `combineN`) are the ones regenerated
from the source tree by `tie extract`. No proofs here. -/
namespace P2.Driver.Heap
open P2.Heap P2.Driver

def tokText : Tok → String
  | .int i => toString i
  | .str s => "\"" ++ s ++ "\""
  | .lb => "["
  | .rb => "]"
  | .mlb n => "{" ++ toString n
  | .mrb => "}"
  | .key k => k ++ ":"
  | .dangling => "!D"
  | .iterErr => "!E"
  | .iterPanic => "!P"
  | .cut => "!C"

def toksText (ts : List Tok) : String := ",".intercalate (ts.map tokText)

/-- Go's growslice for 16-byte elements: double below 256 elements, then round up to a size class -/
def sizeClasses : List Nat :=
  [16, 32, 48, 64, 80, 96, 112, 128, 144, 160, 176, 192, 208, 224, 240, 256, 288, 320, 352, 384, 416, 448,
   480, 512, 576, 640, 704, 768, 896, 1024, 1152, 1280, 1408, 1536, 1792, 2048, 2304, 2688, 3072, 3200,
   3456, 4096, 4864, 5376, 6144, 6528, 6784, 6912, 8192]

def goGrow (c : Nat) : Nat :=
  let want := if c = 0 then 1 else 2 * c
  match sizeClasses.find? (fun s => want * 16 ≤ s) with
  | some s => s / 16
  | none => want

def growOf : String → (Nat → Nat)
  | "min" => fun c => c + 1
  | "big" => fun c => c + 7
  | _ => goGrow

def parseVal (pool : List Val) (s : String) : Option Val :=
  if s.startsWith "i" then (s.drop 1).toInt?.map Val.int
  else if s.startsWith "h" then (s.drop 1).toNat?.bind (fun k => pool[k]?)
  else if s.startsWith "s" then some (.str (s.drop 1).toString)
  else none

def parseVals (pool : List Val) (s : String) : Option (List Val) :=
  if s = "-" then some [] else (s.splitOn ",").mapM (parseVal pool)

def parseKVs (pool : List Val) (s : String) : Option (List (String × Val)) :=
  if s = "-" then some [] else (s.splitOn ",").mapM (fun e =>
    match e.splitOn "=" with
    | [k, v] => (parseVal pool v).map (fun x => (k, x))
    | _ => none)

def parseFn (s : String) : Option Fn :=
  match s.splitOn ":" with
  | ["id"] => some .id
  | ["add", k] => k.toInt?.map Fn.add
  | ["mul", k] => k.toInt?.map Fn.mul
  | _ => none

def parsePred (s : String) : Option Pred :=
  match s.splitOn ":" with
  | ["all"] => some .all
  | ["even"] => some .even
  | ["ge", k] => k.toInt?.map Pred.ge
  | _ => none

def parseWinFn : String → Option WinFn
  | "fl" => some .firstLast
  | "size" => some .size
  | _ => none

def parseOp (pool : List Val) (s : String) : Option Op :=
  let v := parseVal pool
  match words s with
  | ["lit", vs] => (parseVals pool vs).map Op.lit
  | ["num", n] => n.toInt?.map Op.num
  | ["map", f, a] => do pure (Op.map (← parseFn f) (← v a))
  | ["acc", q, a] => do pure (Op.acc (← parsePred q) (← v a))
  | ["top", k, a] => do pure (Op.top (← k.toInt?) (← v a))
  | ["skip", k, a] => do pure (Op.skip (← k.toInt?) (← v a))
  | ["cat", a, b] => do pure (Op.cat (← v a) (← v b))
  | ["cmbn", n, g, a] => do pure (Op.cmbn (← n.toInt?) (← parseWinFn g) (← v a))
  | ["cmbe", n, a] => do pure (Op.cmbe (← n.toInt?) (← v a))
  | ["app", a, b] => do pure (Op.app (← v a) (← v b))
  | ["set", a, i, b] => do pure (Op.set (← v a) (← i.toInt?) (← v b))
  | ["rev", a] => (v a).map Op.rev
  | ["ord", a] => (v a).map Op.ord
  | ["ordr", a] => (v a).map Op.ordr
  | ["ordl", a] => (v a).map Op.ordl
  | ["eval", a] => (v a).map Op.eval
  | ["first", a] => (v a).map Op.first
  | ["idx", a, i] => do pure (Op.idx (← v a) (← i.toInt?))
  | ["size", a] => (v a).map Op.size
  | ["mw", a] => (v a).map Op.mw
  | ["mwr", k, a] => do pure (Op.mwr (← k.toNat?) (← v a))
  | ["grp", kind, k, a] => do pure (Op.grp (← kind.toNat?) (← k.toInt?) (← v a))
  | ["tsa", a, b] => do pure (Op.tsa (← v a) (← v b))
  | ["alias", a] => (v a).map Op.alias
  | ["obs"] => some Op.obsEval
  | ["mlit", kvs] => (parseKVs pool kvs).map Op.mlit
  | ["put", m, k, x] => do pure (Op.put (← v m) k (← v x))
  | ["mrg", a, b] => do pure (Op.mrg (← v a) (← v b))
  | ["rpl", a, b] => do pure (Op.rpl (← v a) (← v b))
  | ["mev", a] => (v a).map Op.mev
  | ["mmap", f, a] => do pure (Op.mmap (← parseFn f) (← v a))
  | ["macc", k, a] => do pure (Op.macc k (← v a))
  | ["mcmb", a, b] => do pure (Op.mcmb (← v a) (← v b))
  | ["mget", a, k] => do pure (Op.mget (← v a) k)
  | _ => none

def obsDepth : Nat := 16

def capText (h : H) : Val → String
  | .ref o => match h.objs[o]? with
    | some ob => s!"{ob.items.len}/{ob.items.cap}/{if ob.present then 1 else 0}"
    | none => "?"
  | _ => "m"

/-- observation texts of all handles, computed from one table -/
def observe (rot : Bool) (st : St) : List String × List String :=
  let lt := table rot st.h
  let mt := mtable st.h
  (st.pool.map (fun v => toksText (absV lt mt obsDepth v)), st.pool.map (capText st.h))

def delta (prev cur : List String) : String :=
  let rec go (k : Nat) (prev cur : List String) (acc : List String) : List String :=
    match cur with
    | [] => acc.reverse
    | c :: cs =>
      match prev with
      | p :: ps => go (k+1) ps cs (if p = c then acc else s!"{k}={c}" :: acc)
      | [] => go (k+1) [] cs (s!"{k}={c}" :: acc)
  let d := go 0 prev cur []
  if d.isEmpty then "-" else ";".intercalate d

def resText (rot : Bool) (st' : St) : Res Val → String
  | .ok v => if isHandle v then (if vok st'.h v then "H" else "H?") else "V" ++ toksText (abs rot obsDepth st'.h v)
  | _ => "E"

def handleHist (args : List String) : String :=
  match args with
  | growName :: ops =>
    let F := P2.Generated.heapFacts
    let cfg : Cfg := ⟨F.combineNCopies, growOf growName⟩
    let rec go (st : St) (prevObs prevCap : List String) (ops : List String) (acc : List String) : List String :=
      match ops with
      | [] => acc.reverse
      | o :: rest =>
        match parseOp st.pool o with
        | none => ("BADOP" :: acc).reverse
        | some op =>
          let p := plan F cfg st op
          let r := p.2
          let h' := runMicros cfg st.h p.1
          let st' : St := { h := h', pool := newPool h' st.pool p.2 }
          let (obs, caps) := observe cfg.rot st'
          go st' obs caps rest (s!"{resText cfg.rot st' r} {delta prevObs obs} {delta prevCap caps}" :: acc)
    "\t".intercalate (go St.init [] [] ops [])
  | _ => "BADREQ"

end P2.Driver.Heap
