import P2.Driver.Lang
import P2.Model.Scope
/-! Protocol glue for the identifier-resolution model (C16): the `SCOPE` request. -/
namespace P2.Driver
open P2.Lang P2.Scope

def parseScalar : List String → Option (Scalar × List String)
  | "i" :: v :: rest => do let i ← v.toInt?; pure (.int i, rest)
  | "f" :: v :: rest => do let f ← floatOfHex v; pure (.flt f, rest)
  | "s" :: v :: rest => do let s ← strField v; pure (.str s, rest)
  | "b" :: v :: rest => pure (.bool (v == "1"), rest)
  | _ => none

mutual
/-- raw trees: the AST token form without annotations; `fn name k params body rest`, `clo k params body` -/
def parseRaw : Nat → List String → Option (Raw × List String)
  | 0, _ => none
  | _+1, "c" :: rest => do let (c, r) ← parseScalar rest; pure (.const c, r)
  | _+1, "id" :: v :: rest => do let s ← strField v; pure (.ident s, rest)
  | n+1, "let" :: v :: rest => do
      let x ← strField v
      let (a, r) ← parseRaw n rest
      let (b, r) ← parseRaw n r
      pure (.letE x a b, r)
  | n+1, "fn" :: v :: k :: rest => do
      let x ← strField v
      let k ← k.toNat?
      let (names, r) ← takeStrs k rest
      let (a, r) ← parseRaw n r
      let (b, r) ← parseRaw n r
      pure (.func x names a b, r)
  | n+1, "clo" :: k :: rest => do
      let k ← k.toNat?
      let (names, r) ← takeStrs k rest
      let (a, r) ← parseRaw n r
      pure (.clos names a, r)
  | n+1, "if" :: rest => do
      let (c, r) ← parseRaw n rest
      let (t, r) ← parseRaw n r
      let (e, r) ← parseRaw n r
      pure (.ifE c t e, r)
  | n+1, "sw" :: k :: rest => do
      let k ← k.toNat?
      let (v, r) ← parseRaw n rest
      let (cs, r) ← parseRawCases n k r
      let (d, r) ← parseRaw n r
      pure (.switchE v cs d, r)
  | n+1, "try" :: rest => do
      let (t, r) ← parseRaw n rest
      let (c, r) ← parseRaw n r
      pure (.tryE t c, r)
  | n+1, "un" :: op :: rest => do
      let o ← strField op
      let (a, r) ← parseRaw n rest
      pure (.unary o a, r)
  | n+1, "op" :: op :: rest => do
      let o ← strField op
      let (a, r) ← parseRaw n rest
      let (b, r) ← parseRaw n r
      pure (.binop o a b, r)
  | n+1, "list" :: k :: rest => do
      let k ← k.toNat?
      let (xs, r) ← parseRaws n k rest
      pure (.listLit xs, r)
  | n+1, "idx" :: rest => do
      let (i, r) ← parseRaw n rest
      let (l, r) ← parseRaw n r
      pure (.index i l, r)
  | n+1, "map" :: k :: rest => do
      let k ← k.toNat?
      let (kvs, r) ← parseRawKVs n k rest
      pure (.mapLit kvs, r)
  | n+1, "mem" :: key :: rest => do
      let key ← strField key
      let (m, r) ← parseRaw n rest
      pure (.member m key, r)
  | n+1, "call" :: k :: rest => do
      let k ← k.toNat?
      let (f, r) ← parseRaw n rest
      let (xs, r) ← parseRaws n k r
      pure (.call f xs, r)
  | n+1, "meth" :: name :: k :: rest => do
      let name ← strField name
      let k ← k.toNat?
      let (recv, r) ← parseRaw n rest
      let (xs, r) ← parseRaws n k r
      pure (.method recv name xs, r)
  | _, _ => none
def parseRaws : Nat → Nat → List String → Option (List Raw × List String)
  | 0, _, _ => none
  | _+1, 0, rest => some ([], rest)
  | n+1, k+1, rest => do
      let (a, r) ← parseRaw n rest
      let (as, r) ← parseRaws n k r
      pure (a :: as, r)
def parseRawKVs : Nat → Nat → List String → Option (List (String × Raw) × List String)
  | 0, _, _ => none
  | _+1, 0, rest => some ([], rest)
  | n+1, k+1, key :: rest => do
      let key ← strField key
      let (a, r) ← parseRaw n rest
      let (as, r) ← parseRawKVs n k r
      pure ((key, a) :: as, r)
  | _, _, _ => none
def parseRawCases : Nat → Nat → List String → Option (List (Raw × Raw) × List String)
  | 0, _, _ => none
  | _+1, 0, rest => some ([], rest)
  | n+1, k+1, rest => do
      let (c, r) ← parseRaw n rest
      let (v, r) ← parseRaw n r
      let (cs, r) ← parseRawCases n k r
      pure ((c, v) :: cs, r)
end

def showStr (s : String) : String := showChars s.toList

def showScalar : Scalar → List String
  | .int i => ["c", "i", toString i]
  | .flt f => ["c", "f", hex16 f.toBits.toNat]
  | .str s => ["c", "s", showStr s]
  | .bool b => ["c", "b", if b then "1" else "0"]

/-- the token form of `astDump` in `tie/lang.go` -/
partial def showAST : AST → List String
  | .const c => showScalar c
  | .ident x => ["id", showStr x]
  | .letE x v i => ["let", showStr x] ++ showAST v ++ showAST i
  | .ifE c t e => ["if"] ++ showAST c ++ showAST t ++ showAST e
  | .switchE v cs d =>
      ["sw", toString cs.length] ++ showAST v ++ (cs.map (fun cr => showAST cr.1 ++ showAST cr.2)).flatten ++ showAST d
  | .tryE t c => ["try"] ++ showAST t ++ showAST c
  | .unary op a => ["un", showStr op] ++ showAST a
  | .binop op a b => ["op", showStr op] ++ showAST a ++ showAST b
  | .clos names body outer r this =>
      ["clo", toString names.length] ++ names.map showStr ++ [toString outer.length] ++ outer.map showStr
        ++ [if r then "1" else "0", showStr this] ++ showAST body
  | .listLit items => ["list", toString items.length] ++ (items.map showAST).flatten
  | .index i l => ["idx"] ++ showAST i ++ showAST l
  | .mapLit kvs => ["map", toString kvs.length] ++ (kvs.map (fun kv => showStr kv.1 :: showAST kv.2)).flatten
  | .member m key => ["mem", showStr key] ++ showAST m
  | .call f args => ["call", toString args.length] ++ showAST f ++ (args.map showAST).flatten
  | .method recv name args =>
      ["meth", showStr name, toString args.length] ++ showAST recv ++ (args.map showAST).flatten

partial def showRaw : Raw → List String
  | .const c => showScalar c
  | .ident x => ["id", showStr x]
  | .letE x v i => ["let", showStr x] ++ showRaw v ++ showRaw i
  | .func name ps body rest =>
      ["fn", showStr name, toString ps.length] ++ ps.map showStr ++ showRaw body ++ showRaw rest
  | .clos ps body => ["clo", toString ps.length] ++ ps.map showStr ++ showRaw body
  | .ifE c t e => ["if"] ++ showRaw c ++ showRaw t ++ showRaw e
  | .switchE v cs d =>
      ["sw", toString cs.length] ++ showRaw v ++ (cs.map (fun cr => showRaw cr.1 ++ showRaw cr.2)).flatten ++ showRaw d
  | .tryE t c => ["try"] ++ showRaw t ++ showRaw c
  | .unary op a => ["un", showStr op] ++ showRaw a
  | .binop op a b => ["op", showStr op] ++ showRaw a ++ showRaw b
  | .listLit items => ["list", toString items.length] ++ (items.map showRaw).flatten
  | .index i l => ["idx"] ++ showRaw i ++ showRaw l
  | .mapLit kvs => ["map", toString kvs.length] ++ (kvs.map (fun kv => showStr kv.1 :: showRaw kv.2)).flatten
  | .member m key => ["mem", showStr key] ++ showRaw m
  | .call f args => ["call", toString args.length] ++ showRaw f ++ (args.map showRaw).flatten
  | .method recv name args =>
      ["meth", showStr name, toString args.length] ++ showRaw recv ++ (args.map showRaw).flatten

/-- base chain: `K name <scalar>` (constant) | `F name` (static function) | `P name` (plain `Add`) -/
def parseBase : Nat → List String → Option Scope
  | _, [] => some []
  | 0, _ => none
  | n+1, "K" :: name :: rest => do
      let name ← strField name
      let (c, r) ← parseScalar rest
      let b ← parseBase n r
      pure (.const name c :: b)
  | n+1, "F" :: name :: rest => do
      let name ← strField name
      let b ← parseBase n rest
      pure (.func name :: b)
  | n+1, "P" :: name :: rest => do
      let name ← strField name
      let b ← parseBase n rest
      pure (.plain name :: b)
  | _, _ => none

def showOpt (a : Option AST) : String :=
  match a with
  | some a => " ".intercalate (showAST a)
  | none => "NONE"

/-- `SCOPE <fixed|pinned> <map name cps> <base tokens> <raw tokens>` →
`<tree of map mode | NONE> TAB <expanded raw tree> TAB <tree of the expanded text in explicit mode | NONE>` -/
def handleScope (args : List String) : String :=
  match args with
  | [variant, m, baseToks, rawToks] =>
    let fixed := variant != "pinned"
    let bw := words baseToks
    let rw := words rawToks
    match strField m, parseBase (bw.length + 1) bw, parseRaw (rw.length + 1) rw with
    | some m, some base, some (t, []) =>
      let t' := expandTop m base t
      let a1 := parse fixed (mapScope base m) t
      let a2 := parse fixed (explicitScope base m) t'
      s!"{showOpt a1}\t{" ".intercalate (showRaw t')}\t{showOpt a2}"
    | _, _, _ => "BADREQ"
  | _ => "BADREQ"

end P2.Driver
