import P2.Driver.Util
import P2.Model.Binning
/-! Protocol glue for C20 (not part of the verified model).

Request  `BIN <TAB> variant <TAB> dim <TAB> axes <TAB> parts`
  * variant: `R` = repaired `getIndex`, `P` = `getIndex` of the pinned commit
  * dim: `1` | `2`
  * axes: words `start size count` (dim 1) or `xStart xSize xCount yStart ySize yCount` (dim 2);
    start/size are float64 bit patterns (16 hex digits), count is a decimal integer
  * parts: parts separated by `|` (at least one, possibly empty), records separated by blanks, the
    numbers of a record (`x,value` or `x,y,value`) separated by `,`, all as 16-hex-digit bit patterns

Response `F whole <TAB> F collected <TAB> k <TAB> X whole <TAB> X collected`
  * `whole` = binning of the concatenated parts, `collected` = collectBinning over the binnings of the parts
    (printed as `=` when it is textually equal to `whole`)
  * F: run of the model on IEEE doubles (`floatOps`), numbers printed as bit patterns (NaN canonical)
  * X: run on exact numbers (`exactOps`): every input is decoded to `m·2^e`, all are scaled by the common
    `2^k`, results are printed as decimal integers (to be divided by `2^k`); `-` for all three fields if
    an input is NaN or ±Inf
Result syntax: `OK <descr>;<values>` (dim 1), `OK <yDescr>;<xd>=<row>;<xd>=<row>…` (dim 2), `ERR`, `PANIC`;
a descr is `min:max` with `-` for an absent bound; lists are comma separated. -/
namespace P2.Driver.Bin
open P2.Binning P2.Driver

def hexVal64 (c : Char) : Option UInt64 :=
  if '0' ≤ c ∧ c ≤ '9' then some (c.toNat - 48).toUInt64
  else if 'a' ≤ c ∧ c ≤ 'f' then some (c.toNat - 87).toUInt64
  else none

def parseHex64 (s : String) : Option UInt64 :=
  if s.utf8ByteSize ≠ 16 then none
  else s.foldl (fun (acc : Option UInt64) c =>
    match acc, hexVal64 c with
    | some a, some d => some (a <<< 4 ||| d)
    | _, _ => none) (some 0)

def hexChar64 (d : UInt64) : Char :=
  if d < 10 then Char.ofNat (48 + d.toNat) else Char.ofNat (87 + d.toNat)

def hex64 (b : UInt64) : String :=
  let rec go : Nat → String → String
    | 0, acc => acc
    | i+1, acc => go i (acc.push (hexChar64 ((b >>> (4 * i).toUInt64) &&& 15)))
  go 16 ""

def showFloat (f : Float) : String :=
  if f.isNaN then "7ff8000000000000" else hex64 f.toBits

/-- strip factors of two from the mantissa -/
def normDyadic : Nat → UInt64 → Int → UInt64 × Int
  | 0, m, e => (m, e)
  | fuel+1, m, e => if m ≠ 0 ∧ m &&& 1 = 0 then normDyadic fuel (m >>> 1) (e + 1) else (m, e)

/-- a finite float64 as `(m, e)` with value `m · 2^e`; none for NaN / ±Inf -/
def decodeDyadic (b : UInt64) : Option (Int × Int) :=
  let neg := b >>> 63 = 1
  let ex := (b >>> 52) &&& 0x7ff
  let fr := b &&& 0xfffffffffffff
  if ex = 0x7ff then none
  else
    let (m, e) := if ex = 0 then normDyadic 64 fr (-1074)
      else normDyadic 64 (fr ||| 0x10000000000000) ((ex.toNat : Int) - 1075)
    if m = 0 then some (0, 0) else some (if neg then -(m.toNat : Int) else (m.toNat : Int), e)

structure Req where
  pinned : Bool
  dim2 : Bool
  axes : List (UInt64 × UInt64 × Int)       -- (start, size, count) per axis
  parts : List (List (List UInt64))

def parseRec (s : String) : Option (List UInt64) := (s.splitOn ",").mapM parseHex64

def parsePart (s : String) : Option (List (List UInt64)) := (words s).mapM parseRec

def parseAxes : List String → Option (List (UInt64 × UInt64 × Int))
  | [] => some []
  | a :: b :: c :: rest => do
    let a ← parseHex64 a
    let b ← parseHex64 b
    let c ← c.toInt?
    let r ← parseAxes rest
    pure ((a, b, c) :: r)
  | _ => none

def parseReq (args : List String) : Option Req :=
  match args with
  | [v, d, ax, ps] => do
    let pinned ← (if v = "P" then some true else if v = "R" then some false else none)
    let dim2 ← (if d = "2" then some true else if d = "1" then some false else none)
    let axes ← parseAxes (words ax)
    let parts ← (ps.splitOn "|").mapM parsePart
    let arity := if dim2 then 3 else 2
    if axes.length ≠ (if dim2 then 2 else 1) then none
    else if parts.all (fun p => p.all (fun r => r.length = arity)) then pure ⟨pinned, dim2, axes, parts⟩
    else none
  | _ => none

def showBin {F} (sh : F → String) (b : Bin F) : String :=
  (match b.min with | some m => sh m | none => "-") ++ ":" ++ (match b.max with | some m => sh m | none => "-")

def showList {α} (sh : α → String) (l : List α) : String := ",".intercalate (l.map sh)

def showRes {α} (sh : α → String) : Res α → String
  | .ok a => "OK " ++ sh a
  | .err => "ERR"
  | .panic => "PANIC"
  | .fuel => "FUEL"

def showR1 {F} (sh : F → String) (r : Result1 F) : String :=
  showList (showBin sh) r.descr ++ ";" ++ showList sh r.values

def showR2 {F} (sh : F → String) (r : Result2 F) : String :=
  ";".intercalate (showList (showBin sh) r.yDescr :: r.values.map (fun row => showBin sh row.xd ++ "=" ++ showList sh row.row))

/-- run one request on a carrier: (whole, collected) -/
def runOn {F} (ops : NumOps F) (sh : F → String) (pinned dim2 : Bool) (axes : List (F × F × Int))
    (parts : List (List (List F))) : String × String :=
  let gi := if pinned then getIndexPinned ops else getIndex ops
  match dim2, axes with
  | false, [(s, z, c)] =>
    let toRec := fun (r : List F) => match r with | [x, w] => (x, w) | _ => (ops.zero, ops.zero)
    let ps := parts.map (·.map toRec)
    let f := binningWith ops gi s z c
    (showRes (showR1 sh) (f ps.flatten), showRes (showR1 sh) (mapRes f ps >>= collect1 ops))
  | true, [(xs, xz, xc), (ys, yz, yc)] =>
    let toRec := fun (r : List F) => match r with | [x, y, w] => (x, y, w) | _ => (ops.zero, ops.zero, ops.zero)
    let ps := parts.map (·.map toRec)
    let f := binning2dWith ops gi xs xz xc ys yz yc
    (showRes (showR2 sh) (f ps.flatten), showRes (showR2 sh) (mapRes f ps >>= collect2 ops))
  | _, _ => ("BADREQ", "BADREQ")

/-- `=` when the collected result is textually the whole result (keeps the responses short) -/
def same (whole collected : String) : String := if collected = whole then "=" else collected

def handle (args : List String) : String :=
  match parseReq args with
  | none => "BADREQ"
  | some rq =>
    let fAxes := rq.axes.map (fun (a, b, c) => (Float.ofBits a, Float.ofBits b, c))
    let fParts := rq.parts.map (·.map (·.map Float.ofBits))
    let (fw, fc) := runOn floatOps showFloat rq.pinned rq.dim2 fAxes fParts
    -- exact run: decode everything, scale to a common unit 2^-k
    let allBits : List UInt64 := rq.axes.flatMap (fun (a, b, _) => [a, b]) ++ rq.parts.flatMap (·.flatMap id)
    match allBits.mapM decodeDyadic with
    | none => s!"{fw}\t{same fw fc}\t-\t-\t-"
    | some ds =>
      let k : Int := ds.foldl (fun k (_, e) => if -e > k then -e else k) 0
      let sc := fun (b : UInt64) => match decodeDyadic b with
        | some (m, e) => m * (2 : Int) ^ (e + k).toNat
        | none => 0   -- unreachable: all inputs decoded above
      let xAxes := rq.axes.map (fun (a, b, c) => (sc a, sc b, c))
      let xParts := rq.parts.map (·.map (·.map sc))
      let (xw, xc) := runOn exactOps (fun (i : Int) => toString i) rq.pinned rq.dim2 xAxes xParts
      s!"{fw}\t{same fw fc}\t{k}\t{xw}\t{same xw xc}"

end P2.Driver.Bin

/-- request kind `BIN` -/
def P2.Driver.handleBin (args : List String) : String := P2.Driver.Bin.handle args
