import P2.Driver.Util
import P2.Spec.LexSpec
import P2.Generated.LexTables
import Std.Data.HashMap
/-! Protocol glue for the scanner model.

`LEX <flags> <ops> <textops> <keywords> <extra> <runes>` (tab separated)
* flags: three digits `comments comfort pinned`
* ops, keywords: words of dotted code points; textops: words `key=value` (dotted code points)
* extra: words `cp:cls` — class bits (1 = unicode.IsLetter, 2 = unicode.IsNumber) of runes that do not occur
  in the input (alias targets)
* runes: words `cp` or `cp:cls` — the rune sequence Go's decoder yields, with the class bits per rune

answer: `OK <tokens> <S1|S0>` with tokens as words `kind:cps:line` (`S1`: the reference scanner
`Spec.tokenize` returns the same tokens), or `FUEL` / `PANIC` / `ERR`. -/
namespace P2.Driver.Lex
open P2.Lex P2.Driver

def parseRuneCls (w : String) : Option (Nat × Nat) :=
  match w.splitOn ":" with
  | [cp] => do let c ← cp.toNat?; pure (c, 0)
  | [cp, cls] => do let c ← cp.toNat?; let k ← cls.toNat?; pure (c, k)
  | _ => none

def parseTextOp (w : String) : Option (List Char × List Char) :=
  match w.splitOn "=" with
  | [k, v] => do let k ← cpsField k; let v ← cpsField v; pure (k, v)
  | _ => none

def showToken (t : Token) : String :=
  s!"{t.kind.toNat}:{showChars t.image}:{t.line}"

def showTokens (ts : List Token) : String :=
  if ts.isEmpty then "-" else " ".intercalate (ts.map showToken)

def handleLex (args : List String) : String :=
  match args with
  | [flags, ops, textops, keywords, extra, runes] =>
    match flags.toList, (words ops).mapM cpsField, (words textops).mapM parseTextOp,
        (words keywords).mapM cpsField, (words extra).mapM parseRuneCls, (words runes).mapM parseRuneCls with
    | [fc, ff, fp], some ops, some tops, some kws, some extra, some rs =>
      let cls : Std.HashMap Nat Nat := (extra ++ rs).foldl (fun m (c, k) => m.insert c k) {}
      let bit (b : Nat) (c : Char) : Bool := ((cls.getD c.toNat 0) / b) % 2 == 1
      let cfg : Cfg :=
        { tables := P2.Generated.lexTables
          ops := ops
          textOps := tops
          keywords := kws
          comments := fc == '1'
          comfort := ff == '1'
          pinned := fp == '1'
          isLetter := bit 1
          isNumber := bit 2 }
      let src := rs.map fun (c, _) => Char.ofNat c
      match tokenize cfg src with
      | .ok ts =>
        let s := if Spec.tokenize cfg src == ts then "S1" else "S0"
        s!"OK\t{showTokens ts}\t{s}"
      | .fuel => "FUEL"
      | .panic => "PANIC"
      | .err => "ERR"
    | _, _, _, _, _, _ => "BADREQ"
  | _ => "BADREQ"

end P2.Driver.Lex
