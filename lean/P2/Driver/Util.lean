import P2.Model.Basic
/-! Protocol glue of the model driver (not part of the verified model; parsing of request lines). -/
namespace P2.Driver

def cpsField (s : String) : Option (List Char) :=
  if s = "-" then some [] else (P2.parseCps s).map P2.cpsToChars

def showChars (l : List Char) : String :=
  if l.isEmpty then "-" else P2.showCps (P2.charsToCps l)

def splitTab (s : String) : List String := s.splitOn "\t"

def words (s : String) : List String := (s.splitOn " ").filter (· ≠ "")

end P2.Driver
