import P2.Driver.Lang
import P2.Model.Lang.Opt
/-! Protocol glue for the optimizer model: the `OPT` request (C02). The dump is the token form of
`tie/lang.go` `astDump`, with two conventions shared with `tie/c02.go` `optDump`: a constant closure
is `kclo <arity>` (Go holds compiled code, not a body) and the entries of a constant map are sorted
by key (a folded map has no source order). -/
namespace P2.Driver.LangOpt
open P2.Driver P2.Lang P2.Lang.Opt

def optTables : Tables where
  opPure := fun op => match P2.Generated.valueOperators.find? (fun e => e.1 == op) with
    | some (_, p, _) => p
    | none => false
  opComm := fun op => match P2.Generated.valueOperators.find? (fun e => e.1 == op) with
    | some (_, _, c) => c
    | none => false
  methPure := fun ty name => match P2.Generated.valueMethods.find? (fun e => e.1 == ty && e.2.1 == name) with
    | some (_, _, _, p) => p
    | none => false

def showScalar : Scalar → List String
  | .int i => ["c", "i", toString i]
  | .flt f => ["c", "f", hex16 f.toBits.toNat]
  | .str s => ["c", "s", showChars s.toList]
  | .bool b => ["c", "b", if b then "1" else "0"]

def insertKV (kv : String × List String) : List (String × List String) → List (String × List String)
  | [] => [kv]
  | x :: xs => if kv.1 ≤ x.1 then kv :: x :: xs else x :: insertKV kv xs

section
/- `raw`: the tree as parsed (no constant conventions) -/
variable (S : Statics) (cfg : Cfg) (raw : Bool)
mutual
def dumpAST : AST → List String
  | .const c => showScalar c
  | .ident x => ["id", showChars x.toList]
  | .letE x v i => ["let", showChars x.toList] ++ dumpAST v ++ dumpAST i
  | .ifE c t e => ["if"] ++ dumpAST c ++ dumpAST t ++ dumpAST e
  | .switchE v cases d => ["sw", toString cases.length] ++ dumpAST v ++ dumpCases cases ++ dumpAST d
  | .tryE t c => ["try"] ++ dumpAST t ++ dumpAST c
  | .unary op a => ["un", showChars op.toList] ++ dumpAST a
  | .binop op a b => ["op", showChars op.toList] ++ dumpAST a ++ dumpAST b
  | .clos names body outer r this =>
      if !raw && isConst S cfg (.clos names body outer r this) then ["kclo", toString names.length]
      else ["clo", toString names.length] ++ names.map (fun n => showChars n.toList)
        ++ [toString outer.length] ++ outer.map (fun n => showChars n.toList)
        ++ [if r then "1" else "0", showChars this.toList] ++ dumpAST body
  | .listLit items => ["list", toString items.length] ++ dumpList items
  | .index i l => ["idx"] ++ dumpAST i ++ dumpAST l
  | .mapLit kvs =>
      let es := dumpKVs kvs
      let es := if !raw && allConstKVs S cfg kvs then es.foldr insertKV [] else es
      ["map", toString kvs.length] ++ (es.map (fun kv => showChars kv.1.toList :: kv.2)).flatten
  | .member m key => ["mem", showChars key.toList] ++ dumpAST m
  | .call f args => ["call", toString args.length] ++ dumpAST f ++ dumpList args
  | .method recv name args => ["meth", showChars name.toList, toString args.length] ++ dumpAST recv ++ dumpList args
def dumpList : List AST → List String
  | [] => []
  | a :: as => dumpAST a ++ dumpList as
def dumpKVs : List (String × AST) → List (String × List String)
  | [] => []
  | (k, a) :: as => (k, dumpAST a) :: dumpKVs as
def dumpCases : List (AST × AST) → List String
  | [] => []
  | (c, r) :: rest => dumpAST c ++ dumpAST r ++ dumpCases rest
end
end

/-- `name:arity:pure` (name as code points) -/
def parseExtra (w : String) : Option (String × Int × Bool) :=
  match w.splitOn ":" with
  | [n, a, p] => do
      let n ← strField n
      let a ← a.toInt?
      pure (n, a, p == "1")
  | _ => none

def optCfgOf (variant : String) : Cfg :=
  match variant with
  | "prefix" => { closureFieldWins := false }
  | _ => {}

/-- `OPT <variant> <argNames> <extra statics> <ast tokens>` →
`OK <changed 0|1> <tokens of optimize ast>` or `UNMODELLED <why>` -/
def handleOpt (args : List String) : String :=
  match args with
  | [variant, names, extra, astToks] =>
    match (words names).mapM strField, (words extra).mapM parseExtra with
    | some argNames, some extras =>
      let aw := words astToks
      match parseAST (aw.length + 1) aw with
      | some (ast, []) =>
        let S : Statics := fun name =>
          match extras.find? (fun e => e.1 == name) with
          | some (_, a, p) => some (a, p)
          | none => statics name
        -- host methods declared impure travel as extra entries `.name:arity:0`; the shipped method table is regenerated
        let cfg : Cfg := { optCfgOf variant with
          methNamePure := fun name =>
            !(extras.any (fun e => e.1 == "." ++ name && !e.2.2)) &&
            P2.Generated.valueMethods.all (fun e => e.2.1 != name || e.2.2.2) }
        match optimize S methods optTables cfg argNames ast with
        | .ok a' =>
          let before := " ".intercalate (dumpAST S cfg true ast)
          let after := " ".intercalate (dumpAST S cfg false a')
          s!"OK\t{if before == after then "0" else "1"}\t{after}"
        | .error why => s!"UNMODELLED\t{why}"
      | _ => "BADREQ"
    | _, _ => "BADREQ"
  | _ => "BADREQ"

end P2.Driver.LangOpt
