import P2.Driver.Util
import P2.Spec.JsonDec
import P2.Generated.JsonEsc
namespace P2.Driver
open P2.Json

mutual
/-- prefix token stream: `S cps` | `L n t…` | `M n (cps t)…` -/
def parseTree : Nat → List String → Option (JTree × List String)
  | 0, _ => none
  | n+1, "S" :: s :: rest => do let cs ← cpsField s; pure (.str cs, rest)
  | n+1, "L" :: k :: rest => do
      let k ← k.toNat?
      let (l, r) ← parseTrees n k rest
      pure (.arr l, r)
  | n+1, "M" :: k :: rest => do
      let k ← k.toNat?
      let (l, r) ← parseKVs n k rest
      pure (.obj l, r)
  | _, _ => none
def parseTrees : Nat → Nat → List String → Option (List JTree × List String)
  | 0, _, _ => none
  | _+1, 0, rest => some ([], rest)
  | n+1, k+1, rest => do
      let (t, r) ← parseTree n rest
      let (ts, r') ← parseTrees n k r
      pure (t :: ts, r')
def parseKVs : Nat → Nat → List String → Option (List (List Char × JTree) × List String)
  | 0, _, _ => none
  | _+1, 0, rest => some ([], rest)
  | n+1, k+1, key :: rest => do
      let kc ← cpsField key
      let (t, r) ← parseTree n rest
      let (ts, r') ← parseKVs n k r
      pure ((kc, t) :: ts, r')
  | _, _, _ => none
end

/-- `JSON <tree tokens>` → code points of the exported document, then `D1` if the model's own
reference decoder reads it back as the (sorted) tree's rendering, `D0` otherwise -/
def handleJson (args : List String) : String :=
  match args with
  | [toks] =>
    let ws := words toks
    match parseTree (ws.length + 1) ws with
    | some (t, []) =>
      let out := exportDoc (escOf P2.Generated.jsonEscTable) t
      let back := match decodeDoc out with
        | some t' => if render (escOf P2.Generated.jsonEscTable) t' = out then "D1" else "D0"
        | none => "D0"
      s!"{showChars out}\t{back}"
    | _ => "BADREQ"
  | _ => "BADREQ"

end P2.Driver
