import P2.Driver.Util
import P2.Model.Memo
/-!
Protocol glue for the memo-cell model (request kind `MEMO`; no proofs here).

`MEMO <TAB> <items> <TAB> <ops>`      items and ops separated by blanks
item := `val:need:bad(0|1)`           (`-` = no items)
op   := `F<free>` (force) | `I<free>:<k>` (iterate at most k items)
Response: the outcomes separated by `|`; outcome = `ok v,v,…` | `overflow v,v,…` | `item v,v,…` (the values delivered
before the fault; `-` = none), followed by `<TAB>cached` / `<TAB>lazy` for the cell after the history.
-/
namespace P2.Driver
open P2 P2.Memo

def memoItem (s : String) : Option Item :=
  match s.splitOn ":" with
  | [v, n, b] => do
      let v ← v.toNat?; let n ← n.toNat?
      let b ← (if b = "0" then some false else if b = "1" then some true else none)
      pure ⟨v, n, b⟩
  | _ => none

def memoOp (s : String) : Option Op :=
  if s.startsWith "F" then (s.drop 1).toNat?.map Op.force
  else if s.startsWith "I" then
    match (s.drop 1).toString.splitOn ":" with
    | [f, k] => do let f ← f.toNat?; let k ← k.toNat?; pure (Op.iter f k)
    | _ => none
  else none

def memoShow (r : Memo.Res) : String :=
  let vs := if r.1.isEmpty then "-" else ",".intercalate (r.1.map toString)
  match r.2 with
  | none => "ok " ++ vs
  | some .overflow => "overflow " ++ vs
  | some .item => "item " ++ vs

def handleMemo (args : List String) : String :=
  match args with
  | [items, ops] =>
    match (if items = "-" then some [] else (words items).mapM memoItem), (words ops).mapM memoOp with
    | some src, some hist =>
      let c := fresh src
      "|".intercalate ((c.outcomes hist).map memoShow) ++ "\t" ++
        (if (c.after hist).cache.isSome then "cached" else "lazy")
    | _, _ => "BADREQ"
  | _ => "BADREQ"

end P2.Driver
