import P2.Driver.Util
import P2.Model.MapSt
import P2.Generated.MapCfg
/-! Protocol glue for C13: `MAPHIST <history tokens> <probe keys>`.

History tokens (prefix form, blank separated; keys as code points `97.98`, `-` = empty key; values ints):
`L n (k v)*` literal · `E` EmptyMap · `X i` argument of the i-th enclosing replace function ·
`P h k v` put · `M a b` merge · `R o r` replace · `V h` eval · `F code c k h` map ·
`A code c k h` accept · `C code c a b` combine · `U n k* m (k v)*` function wrapper (listed keys, answered
keys) · `W n (k v)*` struct wrapper (Attr calls in order) · `H n (k v)*` hash map · `B isMin isMax s mn mx` bin.

Response: `ERR` or `OK kind ord size <n k:v …> <get per probe key: v|_> <string() as code points> <4 equality outcomes> shape`. -/
namespace P2.Driver
open P2.MapSt P2.FMap

def keyField (s : String) : Option String := (cpsField s).map String.ofList

def parseKVn : Nat → List String → Option (Entries Int × List String)
  | 0, rest => some ([], rest)
  | n + 1, k :: v :: rest => do
    let k ← keyField k
    let v ← v.toInt?
    let (es, r) ← parseKVn n rest
    pure ((k, v) :: es, r)
  | _, _ => none

def parseKn : Nat → List String → Option (List String × List String)
  | 0, rest => some ([], rest)
  | n + 1, k :: rest => do
    let k ← keyField k
    let (ks, r) ← parseKn n rest
    pure (k :: ks, r)
  | _, _ => none

/-- the callbacks the harness uses in `map` -/
def mapFn (code : Nat) (c : Int) (key : String) : String → Int → Option Int :=
  match code with
  | 0 => fun _ v => some v
  | 1 => fun _ _ => some c
  | 2 => fun _ v => some (v + c)
  | _ => fun k v => if k = key then none else some v

/-- … in `accept` (code 4: the callback returns a non-bool for `key`) -/
def acceptFn (code : Nat) (c : Int) (key : String) : String → Int → Option Bool :=
  match code with
  | 0 => fun _ _ => some true
  | 1 => fun k _ => some (k != key)
  | 2 => fun _ v => some (v % 2 == 0)
  | 3 => fun _ v => some (v < c)
  | _ => fun k _ => if k = key then none else some true

/-- … in `combine` -/
def combineFn (code : Nat) (c : Int) : Int → Int → Option Int :=
  match code with
  | 0 => fun x _ => some x
  | 1 => fun _ y => some y
  | 2 => fun x y => some ((x * 7 + y) % 1000)
  | _ => fun x y => if y = c then none else some (x + y)

def parseBool (s : String) : Option Bool := if s = "1" then some true else if s = "0" then some false else none

def parseHist : Nat → List String → Option (Hist Int × List String)
  | 0, _ => none
  | _ + 1, "E" :: rest => some (.emptyMap, rest)
  | _ + 1, "X" :: i :: rest => do pure (.var (← i.toNat?), rest)
  | _ + 1, "L" :: n :: rest => do
    let (es, r) ← parseKVn (← n.toNat?) rest
    pure (.lit es, r)
  | _ + 1, "W" :: n :: rest => do
    let (es, r) ← parseKVn (← n.toNat?) rest
    pure (.wrap es, r)
  | _ + 1, "H" :: n :: rest => do
    let (es, r) ← parseKVn (← n.toNat?) rest
    pure (.real es, r)
  | _ + 1, "U" :: n :: rest => do
    let (ks, r) ← parseKn (← n.toNat?) rest
    match r with
    | m :: r =>
      let (ans, r) ← parseKVn (← m.toNat?) r
      pure (.func ks (fun k => lookup ans k), r)
    | [] => none
  | _ + 1, "B" :: a :: b :: s :: mn :: mx :: rest => do
    pure (.bin (← parseBool a) (← parseBool b) (← s.toInt?) (← mn.toInt?) (← mx.toInt?), rest)
  | f + 1, "P" :: rest => do
    let (h, r) ← parseHist f rest
    match r with
    | k :: v :: r => pure (.put h (← keyField k) (← v.toInt?), r)
    | _ => none
  | f + 1, "M" :: rest => do
    let (a, r) ← parseHist f rest
    let (b, r) ← parseHist f r
    pure (.merge a b, r)
  | f + 1, "R" :: rest => do
    let (a, r) ← parseHist f rest
    let (b, r) ← parseHist f r
    pure (.replace a b, r)
  | f + 1, "V" :: rest => do
    let (h, r) ← parseHist f rest
    pure (.eval h, r)
  | f + 1, "F" :: code :: c :: k :: rest => do
    let (h, r) ← parseHist f rest
    pure (.map h (mapFn (← code.toNat?) (← c.toInt?) (← keyField k)), r)
  | f + 1, "A" :: code :: c :: k :: rest => do
    let (h, r) ← parseHist f rest
    pure (.accept h (acceptFn (← code.toNat?) (← c.toInt?) (← keyField k)), r)
  | f + 1, "C" :: code :: c :: rest => do
    let (a, r) ← parseHist f rest
    let (b, r) ← parseHist f r
    pure (.combine a b (combineFn (← code.toNat?) (← c.toInt?)), r)
  | _, _ => none

/-- a Go map with more than one entry on top: iteration order unspecified -/
def ordTop : St Int → Bool
  | .real es => es.length ≤ 1
  | .wrap es => es.length ≤ 1
  | _ => true

/-- `run` of the model (same operation functions, same recursion) which in addition tracks whether the
iteration order of each result is determined by the code: `false` as soon as a Go map with more than
one entry (hash map, struct wrapper, `eval`, a flattening into a `RealMap`) was ranged over to produce
it. `handleMapHist` checks that the storage agrees with the one `run` computes. -/
def runOrd (cfg : Cfg) : List (St Int × Bool) → Hist Int → Res (St Int × Bool)
  | _, .lit es => (litOp es).bind fun s => .ok (s, true)
  | _, .emptyMap => .ok (.empty, true)
  | env, .var i => match env[i]? with | some s => .ok s | none => .err
  | env, .put h k v => (runOrd cfg env h).bind fun s => (putOp s.1 k v).bind fun t => .ok (t, s.2)
  | env, .merge a b => (runOrd cfg env a).bind fun x => (runOrd cfg env b).bind fun y =>
      (mergeOp x.1 y.1).bind fun t => .ok (t, x.2 && y.2)
  | env, .replace o r => (runOrd cfg env o).bind fun x => (runOrd cfg (x :: env) r).bind fun y =>
      let t := replaceOp cfg x.1 y.1
      .ok (t, x.2 && ordTop t)
  | env, .eval h => (runOrd cfg env h).bind fun s => let t := evalOp s.1; .ok (t, ordTop t)
  | env, .map h f => (runOrd cfg env h).bind fun s => (mapOp f s.1).bind fun t => .ok (t, s.2)
  | env, .accept h p => (runOrd cfg env h).bind fun s => (acceptOp p s.1).bind fun t => .ok (t, s.2)
  | env, .combine a b f => (runOrd cfg env a).bind fun x => (runOrd cfg env b).bind fun y =>
      (combineOp f x.1 y.1).bind fun t => .ok (t, x.2)
  | _, .func ks f => .ok (.func ks f, true)
  | _, .wrap attrs => let t := wrapOp attrs; .ok (t, ordTop t)
  | _, .real es => let t := realOp es; .ok (t, ordTop t)
  | _, .bin isMin isMax s mn mx => .ok (.bin isMin isMax s mn mx, true)

def kindOf : St Int → String
  | .list _ => "list"
  | .real _ => "real"
  | .empty => "empty"
  | .append .. => "append"
  | .merge .. => "merge"
  | .replace .. => "replace"
  | .func .. => "func"
  | .wrap _ => "wrap"
  | .bin .. => "bin"

def shapeOf : St Int → String
  | .list es => s!"L{es.length}"
  | .real es => s!"H{es.length}"
  | .empty => "E"
  | .append _ _ p => s!"A({shapeOf p})"
  | .merge a b => s!"M({shapeOf a},{shapeOf b})"
  | .replace o r d => s!"R{d}({shapeOf o},{shapeOf r})"
  | .func ks _ => s!"U{ks.length}"
  | .wrap es => s!"W{es.length}"
  | .bin .. => "B"

def showKey (k : String) : String := showChars k.toList

def showEntries (es : Entries Int) : String :=
  " ".intercalate (toString es.length :: es.map fun e => s!"{showKey e.1}:{e.2}")

def intEq (x y : Int) : Option Bool := some (x == y)

def showRes : Res Bool → String
  | .ok true => "1"
  | .ok false => "0"
  | _ => "e"

/-- `=` against four maps derived from the entries: the same entries in reverse order as a hash map
(expected true), all values + 1, one more key, every key changed -/
def eqOutcomes (s : St Int) : String :=
  let es := iter s
  let t1 : St Int := .real es.reverse
  let t2 : St Int := .list (es.map fun e => (e.1, e.2 + 1))
  let t3 : St Int := .list (es ++ [("\x01new", 0)])
  let t4 : St Int := .list (es.map fun e => (e.1 ++ "'", e.2))
  String.join ([t1, t2, t3, t4].map fun t => showRes (equals intEq s t) ++ showRes (equals intEq t s))

def handleMapHist (args : List String) : String :=
  match args with
  | [toks, probes] =>
    let ws := words toks
    match parseHist (ws.length + 1) ws, (words probes).mapM keyField with
    | some (h, []), some ps =>
      match run P2.Generated.mapCfg [] h with
      | .ok s =>
        let gets := " ".intercalate (ps.map fun k => match get s k with | some v => toString v | none => "_")
        let str := match toStr (fun v => some (toString v)) s with
          | .ok t => showChars t.toList
          | _ => "ERR"
        let ord := match runOrd P2.Generated.mapCfg [] h with
          | .ok (s', o) =>
            if shapeOf s' == shapeOf s && iter s' == iter s then (if o then "1" else "0") else "DRIVERBUG"
          | _ => "DRIVERBUG"
        s!"OK\t{kindOf s}\t{ord}\t{size s}\t{showEntries (iter s)}\t{gets}\t{str}\t{eqOutcomes s}\t{shapeOf s}"
      | .err => "ERR"
      | .panic => "PANIC"
      | .fuel => "FUEL"
    | _, _ => "BADREQ"
  | _ => "BADREQ"

end P2.Driver
