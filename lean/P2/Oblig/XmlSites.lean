import P2.Props.C18
import P2.Generated.XmlSites
/-! Obligation over the regenerated list of all `XMLWriter.Open` / `Attr` / `WriteHTML` call sites (Tie 1, C18):
every literal element/attribute name is an XML name the model knows, and the only site whose name is
computed from data is the one the model treats as data-dependent (`xmlMapExporter.Add`: `Attr(key, …)` for
a "simple" map, guarded in the model by the key rule; the guard of the real code is what the
correspondence run and the predicate check on keys of every spelling). -/
namespace P2.Oblig
open P2.Xml

/-- names used by the models of xml.go and html.go, plus the MathML names of the (unmodelled, value-free)
helper `FormatedFloat.MathMl` -/
def knownNames : List (List Char) :=
  [tList, tEntry, tMap, tKey, tA, tHref, tTarget, tDownload, tTable, tTr, tTd, tSpan, tStyle, tClass, tColspan,
   ['m', 'n'], ['m', 'o'], ['m', 's', 'u', 'p']]

/-- (file, function, method, argument): the data-dependent name sites the model covers -/
def modelledDynamicSites : List (List Char × List Char × List Char × List Char) :=
  [(['x', 'm', 'l', '.', 'g', 'o'],
    ['x', 'm', 'l', 'M', 'a', 'p', 'E', 'x', 'p', 'o', 'r', 't', 'e', 'r', '.', 'A', 'd', 'd'],
    ['A', 't', 't', 'r'], ['k', 'e', 'y'])]

theorem xmlSites_literal_are_names :
    P2.Generated.xmlLiteralSites.all (fun s => isXmlName s.2.1) = true := by decide

theorem xmlSites_literal_known :
    P2.Generated.xmlLiteralSites.all (fun s => knownNames.contains s.2.1) = true := by decide

theorem xmlSites_dynamic_modelled :
    P2.Generated.xmlDynamicSites.all (fun s => modelledDynamicSites.contains s) = true := by decide

/-- (file, function, argument): the sites that write markup without escaping; both are outside the
property by design — the caller-supplied `custom` HTML producer of `ToHtml` (type `template.HTML`), and the
constant `&middot;` of the exported helper `FormatedFloat.MathMl`, which `ToHtml` does not call -/
def knownRawSites : List (List Char × List Char × List Char) :=
  [(['h', 't', 'm', 'l', '.', 'g', 'o'], ['h', 't', 'm', 'l', 'E', 'x', 'p', 'o', 'r', 't', 'e', 'r', '.', 't', 'o', 'H', 't', 'm', 'l'], ['h', 't', 'm']),
   (['h', 't', 'm', 'l', '.', 'g', 'o'], ['F', 'o', 'r', 'm', 'a', 't', 'e', 'd', 'F', 'l', 'o', 'a', 't', '.', 'M', 'a', 't', 'h', 'M', 'l'], ['"', '&', 'm', 'i', 'd', 'd', 'o', 't', ';', '"'])]

theorem xmlSites_raw_known :
    P2.Generated.xmlRawSites.all (fun s => knownRawSites.contains s) = true := by decide

theorem xmlSites_nonempty : P2.Generated.xmlLiteralSites.isEmpty = false := by decide

end P2.Oblig
