import P2.Props.C06
import P2.Generated.Stages
/-! Obligation over the regenerated stage table (Tie 1, C06/C05/C12). -/
namespace P2.Oblig

/-- every goroutine-spawning stage of today's `value/*.go` hands its source producers a fresh stack,
and every combinator in use is one the models know -/
theorem stages_ok : P2.C06.StagesOK P2.Generated.stageSites = true := by decide

end P2.Oblig
