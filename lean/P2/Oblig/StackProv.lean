import P2.Generated.StackProv
/-! Obligations over the regenerated table of list producer factories (Tie 1, C01/C06).

A lazy list is `func(st Stack) Producer`: `st` is the stack of whoever iterates the list. The models run the
callbacks of a stage on the iteration-time stack (`P2.Lang`: a fresh frame above the live one; `P2.Inter`:
the storage the iterating thread owns). A factory that mentions a stack captured from the enclosing method
(the stack of the moment the list was CREATED) writes callback arguments over whatever frame is live when
the list is finally iterated, and bypasses the fresh stack a parallel stage or merge gives its source. -/
namespace P2.Oblig

/-- the methods whose lazy result runs callbacks or iterates a source list -/
def stageMethods : List String :=
  ["Accept", "Map", "Compact", "Cross", "Merge", "Combine", "Combine3", "CombineN", "IIr", "IIrCombine",
   "IIrApply", "FSM", "Top", "Skip", "Number", "Add"]

/-- no producer factory of today's `value/*.go` mentions a captured stack -/
theorem factories_use_the_iteration_stack :
    P2.Generated.producerFactories.all (fun s => s.2.2.2.isEmpty) = true := by decide

/-- the extractor still sees the factories (a table that lost them would pass the line above vacuously) -/
theorem factories_found :
    stageMethods.all (fun m => P2.Generated.producerFactories.any (fun s => s.2.1 == m)) = true := by decide

end P2.Oblig
