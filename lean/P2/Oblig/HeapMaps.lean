import P2.Props.C09
import P2.Generated.HeapFacts
/-! Obligations over the regenerated facts about maps (Tie 1, C09): call sites of `ListMap.Append`
and the methods of the map storage types. -/
namespace P2.Oblig
open P2.Heap

/-- every call site of `ListMap.Append` on maps of values is a linear chain (`listmap_linear` applies) -/
theorem listMapSites_linear : lmSitesLinear P2.Generated.listMapAppendSites = true := by decide

end P2.Oblig
