import P2.Props.C19
import P2.Generated.ExampleTables
/-! Obligations over the regenerated table of `example/bool.go` (Tie 1, C19/C02), and the C19
statement instantiated at today's table.  The flag obligation of `example/minimal.go` and what depends on
it live in `P2/Oblig/ExampleTablesMinimal.lean` (a separate module, so that a flag outside the lawful
set breaks exactly the statements that need it). -/
namespace P2.Oblig
open P2.Generic

/-- every operator `example/bool.go` registers has a meaning in the model (`boolSem`) -/
theorem bool_ops_modelled : ∀ r ∈ P2.Generated.boolOperators, r.1 ∈ boolModelled := by decide

/-- … and so has every unary operator; no static functions are registered -/
theorem bool_unary_modelled :
    (∀ u ∈ P2.Generated.boolUnary, u ∈ boolUnaryModelled) ∧ P2.Generated.boolStatics = [] := by decide

/-- `flaggedCommutative boolParser ⊆ boolAssocComm`: every operator flagged commutative is in the set
proved lawful over `Bool` -/
theorem bool_flags_lawful : ∀ o ∈ flaggedCommutative P2.Generated.boolOperators, o ∈ boolLawful := by decide

/-- hence today's table satisfies `Laws` -/
theorem bool_table_laws : Laws (boolTable P2.Generated.boolOperators) :=
  laws_of_flags boolSem boolLawful bool_lawful _ bool_flags_lawful _ rfl rfl

/-- C19.1 at the table of today's source: for every well-scoped boolean expression of any size over
any argument list, every assignment and optimizer on/off, `Generate` succeeds and the generated
function returns the denotation of the expression. -/
theorem bool_chain_correct_current (on : Bool) (e : E Bool) (args : List String) (vals : List Bool)
    (hws : WS (boolTable P2.Generated.boolOperators) e (P2.C19.visOf boolConsts args))
    (hlen : args.length = vals.length) (hd : vals.length + depth e ≤ stackLimit + 1) :
    chain (boolTable P2.Generated.boolOperators) on boolConsts e args vals
      = Outcome.ofOption (eval (boolTable P2.Generated.boolOperators) e (overlay boolConsts (envOf args vals))) :=
  P2.C19.generic_chain_correct _ on (fun _ => bool_table_laws) _ e args vals hws hlen hd

/-- every operator `example/minimal.go` registers has a meaning in the exact model (`minimalSem`) -/
theorem minimal_ops_modelled : ∀ r ∈ P2.Generated.minimalOperators, r.1 ∈ minimalModelled := by decide

theorem minimal_unary_modelled : ∀ u ∈ P2.Generated.minimalUnary, u ∈ minimalUnaryModelled := by decide

/-- all registered static functions take one argument (the model's `call` node) -/
theorem minimal_statics_unary : ∀ r ∈ P2.Generated.minimalStatics, r.2.1 = 1 := by decide

end P2.Oblig
