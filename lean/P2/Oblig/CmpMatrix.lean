import P2.Props.C14
import P2.Generated.CmpMatrix
/-! Obligation over the regenerated operator matrix (Tie 1, C14): the table probed from the live
operator implementations of `value.New()` (value vs. error on one representative per type pair, for
`= != < > <= >= ~`) is the dispatch table of the model. -/
namespace P2.Oblig
open P2.Cmp

theorem cmpMatrix_eq_dispatch : P2.Generated.cmpMatrix = dispatchTable := by decide

/-- C14 "incomparable operands fail with an error" instantiated at today's comparator configuration -/
theorem incomparable_is_error_current {F : Type} (O : FloatOps F) (op : Op) (a b : Value F)
    (h : opDefined op a.ty b.ty = false) : evalOp P2.Generated.cmpCfg O op a b = .err :=
  P2.C14.incomparable_is_error _ O op a b h

end P2.Oblig
