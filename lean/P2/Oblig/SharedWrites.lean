import P2.Generated.SharedWrites
import P2.Props.C10Shared
/-! Obligations over the regenerated inventory of writes to state that outlives one evaluation (Tie 1, C10 / C11).

`P2.Generated.sharedWrites` lists, for every function body of the repository, the writes that do NOT go to an object created in
that body, with their guard and with whether the body is reachable from the run-time entry points (`Func.Eval`,
`Function.Eval/EvalSt`, `Closure.Eval/EvalSt`, the exported methods of `*value.List`, the exported functions of `value/export`), from
Generate and from `Parser.Parse`. The theorems of `P2.C10S` are generic in a write table with the hypothesis `Table.Allowed`; this
module

* classifies every reachable row by RULE (`clsOf`: captured locals of a running invocation, objects of types that are created per
  evaluation / export / Parse call, the memo cell, the freeze of the derived tables — a row no rule covers is classified as a write
  to a generator table and breaks `shared_writes_allowed`),
* turns the classified rows into a `P2.Shared.Table` (`goTable`) and proves `goTable.Allowed` (`shared_writes_allowed`),
* instantiates the theorems for it.

What the classification as `.priv` (an object of the running operation) rests on is stated per line. Where the analysis cannot
see it (receivers and parameters: `stackStorage.set` writes whatever storage it is called on) the line says what else establishes
it. Package-level variables can never be classified away (`toWrite`), and neither can a captured variable whose declaring body does
not run during evaluations (`-outlives`) on the run-time side.
 -/
namespace P2.Oblig
open P2.Generated P2.Shared

/-- how a row is classified -/
inductive Cls
  | priv      -- an object of the running operation
  | cell      -- the memo cell of a lazy list
  | derived   -- the tables derived from the configuration on first use
  deriving DecidableEq, Repr

def guardOf (g : String) : Guard :=
  if g == "none" then .none
  else if g == "mutex:l.mu" then .mutex
  else if g == "once" then .once
  else if g == "atomic" then .atomic
  else .lazyNil

/-- a row that no rule classifies: treated as a write to a generator table -/
def unlisted : Write := ⟨.cfg 0, .none, 0⟩

/-! ### The classification is by RULE, not by line

A row is classified by what it writes to, never by the name of a local variable or by its position in the table, so that a
harmless edit (a renamed or an additional local of a callback, a further field of an exporter object, a helper method on the
value stack) leaves the obligation alone, while a write to anything that is not on these lists - a package-level variable, a
field of the generator, of the parser, of a method table, of a generated function, an unguarded field of a list - is `unlisted`
and breaks `shared_writes_allowed`. -/

/-- rule 1: captured variables. The extractor marks a captured variable whose declaring body does not run during evaluations
(`-outlives`: it runs inside Generate / Parse) or runs in the configuration phase only (`-config`). Without a mark the variable
is a local of an invocation that runs during this very operation (written by a callback or a deferred function that invocation
runs or hands out: `innerErr`, `keys`, `first`, the state of one run of `autoParallelStage`, the single-use flag of a multiUse
copy, …). -/
def capturedCls (runtime : Bool) (base : String) : Option Cls :=
  if base == "captured" || base == "capturedfresh" || base == "capturedfreshpath" then some .priv
  else if !runtime && (base == "captured-outlives" || base == "capturedfresh-outlives" || base == "capturedfreshpath-outlives") then some .priv
  else none

/-- rule 2 (run time): types whose objects are created by the evaluation (or export call) that writes them -/
def evalPrivOwners : List String := [
  "funcGen.Stack", "funcGen.stackStorage",  -- the value stack: NOT decidable here whether a storage is evaluation-local - it is by StackProv (every Eval / producer runs on NewEmptyStack or on the stack it is handed); the one long-lived storage is the optimizer's scratch stack, written only inside Generate
  "listMap.ListMap", "listMap.listMapEntry", -- ListMap.Append: every caller builds a map of its own (C09 HeapMaps: persistent maps never call it on a shared ListMap)
  "value.BinningData", "value.Binning2dData", "value.collectBinning1d", "value.collectBinning2d", -- accumulators created by the call that fills them
  "value.Sortable", "value.SortableLess",    -- sort helper over a copy, one per sort call
  "value.multiUseEntry",                     -- entry of the multiUse call that created it
  "value/export.htmlExporter", "value/export.jsonListExporter", "value/export.jsonMapExporter", "value/export.sepOut", "value/export.simpleListExporter",
  "value/export.tableExporter", "value/export.textExporter", "value/export.xmlListExporter", "value/export.xmlMapExporter", "value/export/xmlWriter.XMLWriter"] -- exporter / writer objects created per export call

/-- rule 3 (run time): the remaining rows, by function and kind -/
def evalPrivSites : List (String × String) := [
  ("value/arg/error.go|value/arg.CatchErr", "deref"),   -- writes the named error result of its caller through the pointer the caller passes (`defer CatchErr(&err)`)
  ("value/list.go|value.groupBy", "deref"),             -- `*l` points into the table this groupBy call has built
  ("value/export/file.go|value/export.Data.Add", "append")] -- append onto the capacity-clipped slice of the COPY `n := *d` made in the same function (fix e58b028)

/-- rule 2 (Generate / Parse): objects created by this Parse / Generate call -/
def genPrivOwners : List String := [
  "funcGen.argsList",                         -- argument-name list built by this Generate call
  "parser2.Case", "parser2.ClosureLiteral", "parser2.FunctionCall", "parser2.If", "parser2.Let", "parser2.ListAccess", "parser2.ListLiteral", "parser2.MapAccess", "parser2.MapLiteral",
  "parser2.MethodCall", "parser2.Operate", "parser2.Switch", "parser2.TryCatch", "parser2.Unary", "parser2.Const", "parser2.Ident", -- AST nodes of this Parse call (the optimizer rewrites the tree in place before it is handed out)
  "parser2.Tokenizer", "parser2.OperatorDetector", -- tokenizer / detector of this Parse call
  "parser2.posWriter", "parser2.writer"]      -- pretty printer state of one PrettyPrint call (debug output)

/-- the builder methods `GetParser` calls on the parser object it has just created (`NewParser()`), before it is stored -/
def parserBuilders : List String := [
  "parser2.go|parser2.Parser.Comfort", "parser2.go|parser2.Parser.Op", "parser2.go|parser2.Parser.SetKeyWords", "parser2.go|parser2.Parser.SetNumberParser",
  "parser2.go|parser2.Parser.SetOptimizer", "parser2.go|parser2.Parser.SetStringConverter", "parser2.go|parser2.Parser.Unary", "parser2.go|parser2.Parser.TextOperator",
  "parser2.go|parser2.Parser.AllowComments", "parser2.go|parser2.Parser.SetNumberMatcher", "parser2.go|parser2.Parser.SetIdentMatcher"]

/-- the freeze of the tables derived from the configuration on the first Generate / Parse: unsynchronised `if g.parser == nil` /
`if p.operatorDetect == nil`, computed from the configuration only (idempotent: `derived_tables_history_independent`); by
function AND field, so that any other field written there is unlisted -/
def derivedSites : List (String × String) := [
  ("funcGen/generator.go|funcGen.FunctionGenerator.GetParser", "funcGen.FunctionGenerator.parser"),
  ("funcGen/generator.go|funcGen.FunctionGenerator.GetParser", "funcGen.FunctionGenerator.opMap"),
  ("funcGen/generator.go|funcGen.FunctionGenerator.GetParser", "funcGen.FunctionGenerator.uMap"),
  ("parser2.go|parser2.Parser.Parse", "parser2.Parser.operatorDetect"),
  ("parser2.go|parser2.Parser.Parse", "parser2.unaryEntry.opPos")]

def genPrivSites : List (String × String) := [
  ("funcGen/generator.go|funcGen.argsList.copyAndAdd", "copy"),  -- argument slice built by this Generate call
  ("token.go|parser2.NewOperatorDetector", "deref")]              -- detector node created by this call

def capturedBases : List String := ["captured", "capturedfresh", "capturedfreshpath", "captured-outlives", "capturedfresh-outlives",
  "capturedfreshpath-outlives", "captured-config", "capturedfresh-config", "capturedfreshpath-config"]

def clsOf (runtime : Bool) (w : SharedWrite) : Option Cls :=
  if capturedBases.contains w.base then capturedCls runtime w.base
  else if runtime then
    if w.owner == "value.List" then some .cell
    else if evalPrivOwners.contains w.owner || evalPrivSites.contains (w.fn, w.kind) then some .priv else none
  else
    if derivedSites.contains (w.fn, w.target) then some .derived
    else if genPrivOwners.contains w.owner || genPrivSites.contains (w.fn, w.kind) then some .priv
    else if w.owner == "parser2.Parser" && parserBuilders.contains w.fn then some .priv
    else none

/-- the model write of a row. A package-level variable stays one whatever the rules say. -/
def toWrite (runtime : Bool) (w : SharedWrite) : Write :=
  if w.base == "global" || w.kind == "pkgvar" || w.kind == "addr" then ⟨.pkg 0, guardOf w.guard, 0⟩
  else match clsOf runtime w with
    | some .priv => ⟨.priv, guardOf w.guard, 0⟩
    | some .cell => ⟨.cell, guardOf w.guard, 0⟩
    | some .derived => ⟨.derived, guardOf w.guard, 0⟩
    | none => unlisted

def evalRows : List SharedWrite := sharedWrites.filter (·.eval)
def genRows : List SharedWrite := sharedWrites.filter (fun w => !w.eval && (w.gen || w.parse))

/-- today's code as a write table of the model -/
def goTable : Table where
  evalW := evalRows.map (toWrite true)
  genW := genRows.map (toWrite false)
  parseW := []      -- Parse is reachable from Generate: its rows are in `genW`
  newW := []        -- `value.New` / `funcGen.New` write the generator they create (see `config_written_by_builders_only`)

/-- THE obligation: every write reachable from an evaluation is classified as private or as the memo-cell store under `l.mu`;
every other write reachable from Generate / Parse as private or as the freeze of the derived tables; none is a package-level
variable. -/
theorem shared_writes_allowed : goTable.Allowed = true := by decide

set_option maxRecDepth 8000 in
/-- the extractor still sees the code (a table that lost its rows would pass everything above vacuously): the memo-cell stores,
the value stack, both freezes, a builder, the entry points, and a call graph of the known size -/
theorem shared_writes_found :
    sharedWrites.any (fun w => w.fn == "value/list.go|value.List.Eval" && w.target == "value.List.itemsPresent" && w.eval) = true ∧
    sharedWrites.any (fun w => w.fn == "funcGen/generator.go|funcGen.stackStorage.set" && w.eval && w.gen && w.parse) = true ∧
    sharedWrites.any (fun w => w.fn == "funcGen/generator.go|funcGen.FunctionGenerator.GetParser" && w.gen && !w.eval) = true ∧
    sharedWrites.any (fun w => w.fn == "parser2.go|parser2.Parser.Parse" && w.parse && !w.eval) = true ∧
    sharedWrites.any (fun w => w.fn == "funcGen/generator.go|funcGen.FunctionGenerator.AddStaticFunction" && !w.eval && !w.gen) = true ∧
    sharedWriteEvalRoots.contains "funcGen.Func.Eval" = true ∧ sharedWriteEvalRoots.contains "value.List.Iterate" = true ∧
    sharedWriteGenRoots.contains "funcGen.FunctionGenerator.Generate" = true ∧
    sharedWriteStats.all (fun s => (s.1 != "bodies" || Nat.ble 900 s.2) && (s.1 != "evalReach" || Nat.ble 500 s.2) &&
      (s.1 != "genReach" || Nat.ble 500 s.2) && (s.1 != "parseReach" || Nat.ble 500 s.2) && (s.1 != "edges" || Nat.ble 5000 s.2)) = true := by
  decide

/-! ## The theorems of `P2.C10S` for today's table -/

theorem go_generate_eval_preserve_config (sem : Sem) (s : State) (hg : P2.C10S.Good s) (hist : List HOp) :
    (Shared.run sem goTable s hist).cfg = s.cfg ∧ (Shared.run sem goTable s hist).pkg = s.pkg ∧
      ∀ d, s.derived = some d → (Shared.run sem goTable s hist).derived = some d :=
  P2.C10S.generate_eval_preserve_config sem goTable shared_writes_allowed s hg hist

theorem go_generate_independent_of_history (sem : Sem) (s : State) (hg : P2.C10S.Good s) (hist : List HOp) (p : Nat) :
    (step sem goTable (Shared.run sem goTable s hist) (.generate p)).2 = (step sem goTable s (.generate p)).2 :=
  P2.C10S.generate_independent_of_history sem goTable shared_writes_allowed s hg hist p

theorem go_eval_independent_of_history (sem : Sem) (s : State) (hg : P2.C10S.Good s) (p : Nat) (hist : List HOp) (args free : Nat)
    (hfree : P2.Memo.maxNeed (sem.compile s.cfg s.pkg p).src ≤ (sem.cellOp (sem.compile s.cfg s.pkg p) args free).free) :
    (step sem goTable (Shared.run sem goTable (step sem goTable s (.generate p)).1 hist) (.eval s.funs.length args free)).2 =
      (step sem goTable (step sem goTable s (.generate p)).1 (.eval s.funs.length args free)).2 :=
  P2.C10S.eval_independent_of_history sem goTable shared_writes_allowed s hg p hist args free hfree

theorem go_concurrent_evals_commute (sem : Sem) (fn : Fn) (s : CState) (hinv : P2.Memo.Inv s.cell) (hsrc : s.cell.src = fn.src)
    (argsA freeA argsB freeB : Nat) (sched : List (Bool × Acc))
    (hA : P2.Memo.maxNeed fn.src ≤ (sem.cellOp fn argsA freeA).free) (hB : P2.Memo.maxNeed fn.src ≤ (sem.cellOp fn argsB freeB).free)
    (h : Interleave (evalAtoms goTable argsA freeA) (evalAtoms goTable argsB freeB) sched) :
    hasRace sched = false ∧ cresults sem fn s sched = isolatedResults sem fn s.cfg s.pkg sched :=
  P2.C10S.concurrent_evals_commute sem goTable shared_writes_allowed fn s hinv hsrc argsA freeA argsB freeB sched hA hB h

end P2.Oblig
