import P2.Generated.SharedWrites
import P2.Props.C10Shared
/-! Obligations over the regenerated inventory of writes to state that outlives one evaluation (Tie 1, C10 / C11).

`P2.Generated.sharedWrites` lists, for every function body of the repository, the writes that do NOT go to an object created in
that body, with their guard and with whether the body is reachable from the run-time entry points (`Func.Eval`,
`Function.Eval/EvalSt`, `Closure.Eval/EvalSt`, the exported methods of `*value.List`, the exported functions of `value/export`), from
Generate and from `Parser.Parse`. The theorems of `P2.C10S` are generic in a write table with the hypothesis `Table.Allowed`; this
module

* classifies every reachable row (`evalAllowed`, `genAllowed`: an explicit list, one justified line per row, in the order of the
  generated table — a row that is not listed is classified as a write to a generator table and breaks `go_table_allowed`),
* turns the classified rows into a `P2.Shared.Table` (`goTable`) and proves `goTable.Allowed` (`shared_writes_allowed`),
* instantiates the theorems for it.

What the classification as `.priv` (an object of the running operation) rests on is stated per line. Where the analysis cannot
see it (receivers and parameters: `stackStorage.set` writes whatever storage it is called on) the line says what else establishes
it. Package-level variables can never be classified away (`toWrite`), and neither can a captured variable whose declaring body does
not run during evaluations (`-outlives`) on the run-time side.

To add an entry keep the order of the generated table (sorted by function, target, kind, guard, base). -/
namespace P2.Oblig
open P2.Generated P2.Shared

/-- fn, kind, target, guard, base -/
abbrev WKey := String × String × String × String × String

def wkey (w : SharedWrite) : WKey := (w.fn, w.kind, w.target, w.guard, w.base)

/-- how a listed row is classified -/
inductive Cls
  | priv      -- an object of the running operation
  | cell      -- the memo cell of a lazy list
  | derived   -- the tables derived from the configuration on first use
  deriving DecidableEq, Repr

def guardOf (g : String) : Guard :=
  if g == "none" then .none
  else if g == "mutex:l.mu" then .mutex
  else if g == "once" then .once
  else if g == "atomic" then .atomic
  else .lazyNil

/-- a row that no list classifies: treated as a write to a generator table -/
def unlisted : Write := ⟨.cfg 0, .none, 0⟩

/-- the model write of a row. A package-level variable stays one whatever the list says; on the run-time side so does a captured
variable that outlives the evaluation. -/
def toWrite (runtime : Bool) (w : SharedWrite) (c : Cls) : Write :=
  if w.base == "global" || w.kind == "pkgvar" || w.kind == "addr" then ⟨.pkg 0, guardOf w.guard, 0⟩
  else if runtime && (w.base == "captured-outlives" || w.base == "capturedfresh-outlives" || w.base == "capturedfreshpath-outlives") then unlisted
  else match c with
    | .priv => ⟨.priv, guardOf w.guard, 0⟩
    | .cell => ⟨.cell, guardOf w.guard, 0⟩
    | .derived => if runtime then unlisted else ⟨.derived, guardOf w.guard, 0⟩

/-- walk the rows and the list side by side (both in the order of the generated table); list entries without a row are skipped -/
def classify (runtime : Bool) : Nat → List SharedWrite → List (WKey × Cls) → List Write
  | 0, [], _ => []
  | 0, _ :: _, _ => [unlisted]
  | _ + 1, [], _ => []
  | fuel + 1, _ :: rs, [] => unlisted :: classify runtime fuel rs []
  | fuel + 1, r :: rs, (k, c) :: as =>
    if wkey r == k then toWrite runtime r c :: classify runtime fuel rs as else classify runtime fuel (r :: rs) as

/-- every write reachable from the run-time entry points, in the order of the generated table -/
def evalAllowed : List (WKey × Cls) := [
  (("funcGen/generator.go|funcGen.FunctionDescription.WriteTo$lit", "captured", "pos@decl", "none", "captured"), .priv), -- local of the declared function (one per call), written by a callback the function itself runs before it returns (Iter / Result / recover)
  (("funcGen/generator.go|funcGen.FunctionGenerator.GenerateFunc$lit", "captured", "innerError@lit", "none", "captured"), .priv), -- variable of an enclosing invocation that runs during this operation, written by a callback / deferred function of it
  (("funcGen/generator.go|funcGen.FunctionGenerator.GenerateFunc$lit", "captured", "mapValues@lit", "none", "captured"), .priv), -- variable of an enclosing invocation that runs during this operation, written by a callback / deferred function of it
  (("funcGen/generator.go|funcGen.FunctionGenerator.generateIntern$lit", "captured", "err@lit", "none", "captured"), .priv), -- variable of an enclosing invocation that runs during this operation, written by a callback / deferred function of it
  (("funcGen/generator.go|funcGen.FunctionGenerator.generateIntern$lit", "captured", "val@lit", "none", "captured"), .priv), -- variable of an enclosing invocation that runs during this operation, written by a callback / deferred function of it
  (("funcGen/generator.go|funcGen.Stack.CreateFrame", "field", "funcGen.Stack.size", "none", "recv"), .priv), -- value stack: NOT decidable here whether the storage is evaluation-local - it is by StackProv (every Eval / producer runs on NewEmptyStack or on the stack it is handed); the one long-lived storage is the optimizer scratch stack of a generator, written only inside Generate
  (("funcGen/generator.go|funcGen.Stack.Push", "field", "funcGen.Stack.size", "none", "recv"), .priv), -- value stack: NOT decidable here whether the storage is evaluation-local - it is by StackProv (every Eval / producer runs on NewEmptyStack or on the stack it is handed); the one long-lived storage is the optimizer scratch stack of a generator, written only inside Generate
  (("funcGen/generator.go|funcGen.stackStorage.set", "field", "funcGen.stackStorage.data", "none", "recv"), .priv), -- value stack: NOT decidable here whether the storage is evaluation-local - it is by StackProv (every Eval / producer runs on NewEmptyStack or on the stack it is handed); the one long-lived storage is the optimizer scratch stack of a generator, written only inside Generate
  (("funcGen/generator.go|funcGen.stackStorage.set", "elem", "funcGen.stackStorage.data[]", "none", "recv"), .priv), -- value stack: NOT decidable here whether the storage is evaluation-local - it is by StackProv (every Eval / producer runs on NewEmptyStack or on the stack it is handed); the one long-lived storage is the optimizer scratch stack of a generator, written only inside Generate
  (("listMap/listMap.go|listMap.ListMap.Append", "append", "l", "none", "recv"), .priv), -- ListMap.Append: writes the slot of an existing key / appends; every caller builds a map of its own (C09 HeapMaps: persistent maps never call it on a shared ListMap)
  (("listMap/listMap.go|listMap.ListMap.Append", "field", "listMap.listMapEntry.value", "none", "recv"), .priv), -- ListMap.Append: writes the slot of an existing key / appends; every caller builds a map of its own (C09 HeapMaps: persistent maps never call it on a shared ListMap)
  (("parser2.go|parser2.MapLiteral.String$lit", "captured", "first@decl", "none", "captured"), .priv), -- local of the declared function (one per call), written by a callback the function itself runs before it returns (Iter / Result / recover)
  (("value/arg/error.go|value/arg.CatchErr", "deref", "*e", "none", "param"), .priv), -- writes the named error result of its caller through the pointer the caller passes (defer CatchErr(&err))
  (("value/binning.go|value.Binning$lit", "append", "desc", "none", "capturedfresh"), .priv), -- variable of an enclosing invocation that runs during this operation, written by a callback / deferred function of it
  (("value/binning.go|value.Binning$lit", "captured", "desc@decl", "none", "captured"), .priv), -- local of the declared function (one per call), written by a callback the function itself runs before it returns (Iter / Result / recover)
  (("value/binning.go|value.Binning$lit", "append", "vals", "none", "capturedfresh"), .priv), -- variable of an enclosing invocation that runs during this operation, written by a callback / deferred function of it
  (("value/binning.go|value.Binning$lit", "captured", "vals@decl", "none", "captured"), .priv), -- local of the declared function (one per call), written by a callback the function itself runs before it returns (Iter / Result / recover)
  (("value/binning.go|value.Binning2d$lit", "append", "bin", "none", "capturedfresh"), .priv), -- variable of an enclosing invocation that runs during this operation, written by a callback / deferred function of it
  (("value/binning.go|value.Binning2d$lit", "captured", "bin@lit", "none", "captured"), .priv), -- variable of an enclosing invocation that runs during this operation, written by a callback / deferred function of it
  (("value/binning.go|value.Binning2d$lit", "append", "vals", "none", "capturedfresh"), .priv), -- variable of an enclosing invocation that runs during this operation, written by a callback / deferred function of it
  (("value/binning.go|value.Binning2d$lit", "captured", "vals@decl", "none", "captured"), .priv), -- local of the declared function (one per call), written by a callback the function itself runs before it returns (Iter / Result / recover)
  (("value/binning.go|value.Binning2d$lit", "append", "yDesc", "none", "capturedfresh"), .priv), -- variable of an enclosing invocation that runs during this operation, written by a callback / deferred function of it
  (("value/binning.go|value.Binning2d$lit", "captured", "yDesc@decl", "none", "captured"), .priv), -- local of the declared function (one per call), written by a callback the function itself runs before it returns (Iter / Result / recover)
  (("value/binning.go|value.Binning2dData.Add", "elem", "value.Binning2dData.bins[][]", "none", "recv"), .priv), -- binning accumulator created by the call that fills it (NewBinning…, collectBinning)
  (("value/binning.go|value.BinningData.Add", "elem", "value.BinningData.bins[]", "none", "recv"), .priv), -- binning accumulator created by the call that fills it (NewBinning…, collectBinning)
  (("value/binning.go|value.collectBinning1d.add", "field", "value.collectBinning1d.vals", "unsync-lazy-init:c.vals", "recv"), .priv), -- binning accumulator created by the call that fills it (NewBinning…, collectBinning)
  (("value/binning.go|value.collectBinning1d.add", "elem", "value.collectBinning1d.vals[]", "none", "recv"), .priv), -- binning accumulator created by the call that fills it (NewBinning…, collectBinning)
  (("value/binning.go|value.collectBinning2d.add", "field", "value.collectBinning2d.vals", "unsync-lazy-init:c.vals", "recv"), .priv), -- binning accumulator created by the call that fills it (NewBinning…, collectBinning)
  (("value/binning.go|value.collectBinning2d.add", "elem", "value.collectBinning2d.vals[]", "unsync-lazy-init:c.vals[i]", "recv"), .priv), -- binning accumulator created by the call that fills it (NewBinning…, collectBinning)
  (("value/binning.go|value.collectBinning2d.add", "elem", "value.collectBinning2d.vals[][]", "none", "recv"), .priv), -- binning accumulator created by the call that fills it (NewBinning…, collectBinning)
  (("value/binning.go|value.collectBinning2d.add", "field", "value.collectBinning2d.xd", "unsync-lazy-init:c.vals", "recv"), .priv), -- binning accumulator created by the call that fills it (NewBinning…, collectBinning)
  (("value/binning.go|value.collectBinning2d.add", "elem", "value.collectBinning2d.xd[]", "unsync-lazy-init:c.vals[i]", "recv"), .priv), -- binning accumulator created by the call that fills it (NewBinning…, collectBinning)
  (("value/export/export.go|value/export.Export$lit", "append", "keys", "none", "capturedfresh"), .priv), -- variable of an enclosing invocation that runs during this operation, written by a callback / deferred function of it
  (("value/export/export.go|value/export.Export$lit", "captured", "keys@decl", "none", "captured"), .priv), -- local of the declared function (one per call), written by a callback the function itself runs before it returns (Iter / Result / recover)
  (("value/export/file.go|value/export.Data.Add", "append", "value/export.Data.DataContent", "none", "local"), .priv), -- append onto the capacity-clipped slice of the COPY `n := *d` made in the same function (fix e58b028); listed because of the alias into the receiver
  (("value/export/html.go|value/export.ToHtml$lit", "captured", "err@decl", "none", "captured"), .priv), -- local of the declared function (one per call), written by a callback the function itself runs before it returns (Iter / Result / recover)
  (("value/export/html.go|value/export.ToHtml$lit", "captured", "res@decl", "none", "captured"), .priv), -- local of the declared function (one per call), written by a callback the function itself runs before it returns (Iter / Result / recover)
  (("value/export/html.go|value/export.htmlExporter.getClassName", "field", "value/export.htmlExporter.classList", "none", "recv"), .priv), -- exporter / writer object created by the export call that uses it (New…Exporter, XML(), JSON(), htmlExporter literal)
  (("value/export/html.go|value/export.htmlExporter.getClassName", "elem", "value/export.htmlExporter.styleMap[]", "none", "recv"), .priv), -- exporter / writer object created by the export call that uses it (New…Exporter, XML(), JSON(), htmlExporter literal)
  (("value/export/html.go|value/export.htmlExporter.toHtml$lit", "append", "keys", "none", "capturedfresh"), .priv), -- variable of an enclosing invocation that runs during this operation, written by a callback / deferred function of it
  (("value/export/html.go|value/export.htmlExporter.toHtml$lit", "captured", "keys@decl", "none", "captured"), .priv), -- local of the declared function (one per call), written by a callback the function itself runs before it returns (Iter / Result / recover)
  (("value/export/html.go|value/export.simpleListExporter.add", "field", "value/export.simpleListExporter.i", "none", "recv"), .priv), -- exporter / writer object created by the export call that uses it (New…Exporter, XML(), JSON(), htmlExporter literal)
  (("value/export/html.go|value/export.tableExporter.add", "field", "value/export.tableExporter.row", "none", "recv"), .priv), -- exporter / writer object created by the export call that uses it (New…Exporter, XML(), JSON(), htmlExporter literal)
  (("value/export/html.go|value/export.tableExporter.open", "field", "value/export.tableExporter.tableFormat", "none", "recv"), .priv), -- exporter / writer object created by the export call that uses it (New…Exporter, XML(), JSON(), htmlExporter literal)
  (("value/export/html.go|value/export.toStyleStr$lit", "append", "keys", "none", "capturedfresh"), .priv), -- variable of an enclosing invocation that runs during this operation, written by a callback / deferred function of it
  (("value/export/html.go|value/export.toStyleStr$lit", "captured", "keys@decl", "none", "captured"), .priv), -- local of the declared function (one per call), written by a callback the function itself runs before it returns (Iter / Result / recover)
  (("value/export/json.go|value/export.jsonListExporter.Add", "field", "value/export.jsonListExporter.first", "none", "recv"), .priv), -- exporter / writer object created by the export call that uses it (New…Exporter, XML(), JSON(), htmlExporter literal)
  (("value/export/json.go|value/export.jsonMapExporter.Add", "field", "value/export.jsonMapExporter.first", "none", "recv"), .priv), -- exporter / writer object created by the export call that uses it (New…Exporter, XML(), JSON(), htmlExporter literal)
  (("value/export/textExport.go|value/export.sepOut.out", "field", "value/export.sepOut.last", "none", "recv"), .priv), -- exporter / writer object created by the export call that uses it (New…Exporter, XML(), JSON(), htmlExporter literal)
  (("value/export/textExport.go|value/export.textExporter.dec", "field", "value/export.textExporter.spaces", "none", "recv"), .priv), -- exporter / writer object created by the export call that uses it (New…Exporter, XML(), JSON(), htmlExporter literal)
  (("value/export/textExport.go|value/export.textExporter.inc", "field", "value/export.textExporter.spaces", "none", "recv"), .priv), -- exporter / writer object created by the export call that uses it (New…Exporter, XML(), JSON(), htmlExporter literal)
  (("value/export/textExport.go|value/export.textExporter.newLine", "field", "value/export.textExporter.newline", "none", "recv"), .priv), -- exporter / writer object created by the export call that uses it (New…Exporter, XML(), JSON(), htmlExporter literal)
  (("value/export/textExport.go|value/export.textExporter.toText$lit", "append", "keys", "none", "capturedfresh"), .priv), -- variable of an enclosing invocation that runs during this operation, written by a callback / deferred function of it
  (("value/export/textExport.go|value/export.textExporter.toText$lit", "captured", "keys@decl", "none", "captured"), .priv), -- local of the declared function (one per call), written by a callback the function itself runs before it returns (Iter / Result / recover)
  (("value/export/textExport.go|value/export.textExporter.write", "field", "value/export.textExporter.newline", "none", "recv"), .priv), -- exporter / writer object created by the export call that uses it (New…Exporter, XML(), JSON(), htmlExporter literal)
  (("value/export/xml.go|value/export.isSimpleMap$lit", "captured", "isSimple@decl", "none", "captured"), .priv), -- local of the declared function (one per call), written by a callback the function itself runs before it returns (Iter / Result / recover)
  (("value/export/xmlWriter/xmlWriter.go|value/export/xmlWriter.XMLWriter.AvoidShort", "field", "value/export/xmlWriter.XMLWriter.avoidShort", "none", "recv"), .priv), -- exporter / writer object created by the export call that uses it (New…Exporter, XML(), JSON(), htmlExporter literal)
  (("value/export/xmlWriter/xmlWriter.go|value/export/xmlWriter.XMLWriter.Close", "field", "value/export/xmlWriter.XMLWriter.depth", "none", "recv"), .priv), -- exporter / writer object created by the export call that uses it (New…Exporter, XML(), JSON(), htmlExporter literal)
  (("value/export/xmlWriter/xmlWriter.go|value/export/xmlWriter.XMLWriter.Close", "field", "value/export/xmlWriter.XMLWriter.open", "none", "recv"), .priv), -- exporter / writer object created by the export call that uses it (New…Exporter, XML(), JSON(), htmlExporter literal)
  (("value/export/xmlWriter/xmlWriter.go|value/export/xmlWriter.XMLWriter.Close", "field", "value/export/xmlWriter.XMLWriter.tagIsOpen", "none", "recv"), .priv), -- exporter / writer object created by the export call that uses it (New…Exporter, XML(), JSON(), htmlExporter literal)
  (("value/export/xmlWriter/xmlWriter.go|value/export/xmlWriter.XMLWriter.Open", "field", "value/export/xmlWriter.XMLWriter.depth", "none", "recv"), .priv), -- exporter / writer object created by the export call that uses it (New…Exporter, XML(), JSON(), htmlExporter literal)
  (("value/export/xmlWriter/xmlWriter.go|value/export/xmlWriter.XMLWriter.Open", "field", "value/export/xmlWriter.XMLWriter.inLine", "none", "recv"), .priv), -- exporter / writer object created by the export call that uses it (New…Exporter, XML(), JSON(), htmlExporter literal)
  (("value/export/xmlWriter/xmlWriter.go|value/export/xmlWriter.XMLWriter.Open", "field", "value/export/xmlWriter.XMLWriter.open", "none", "recv"), .priv), -- exporter / writer object created by the export call that uses it (New…Exporter, XML(), JSON(), htmlExporter literal)
  (("value/export/xmlWriter/xmlWriter.go|value/export/xmlWriter.XMLWriter.Open", "field", "value/export/xmlWriter.XMLWriter.tagIsOpen", "none", "recv"), .priv), -- exporter / writer object created by the export call that uses it (New…Exporter, XML(), JSON(), htmlExporter literal)
  (("value/export/xmlWriter/xmlWriter.go|value/export/xmlWriter.XMLWriter.PrettyPrint", "field", "value/export/xmlWriter.XMLWriter.prettyPrint", "none", "recv"), .priv), -- exporter / writer object created by the export call that uses it (New…Exporter, XML(), JSON(), htmlExporter literal)
  (("value/export/xmlWriter/xmlWriter.go|value/export/xmlWriter.XMLWriter.checkIndent", "field", "value/export/xmlWriter.XMLWriter.inLine", "unsync-lazy-init:w.inLine", "recv"), .priv), -- exporter / writer object created by the export call that uses it (New…Exporter, XML(), JSON(), htmlExporter literal)
  (("value/export/xmlWriter/xmlWriter.go|value/export/xmlWriter.XMLWriter.checkOpenTag", "field", "value/export/xmlWriter.XMLWriter.tagIsOpen", "none", "recv"), .priv), -- exporter / writer object created by the export call that uses it (New…Exporter, XML(), JSON(), htmlExporter literal)
  (("value/export/xmlWriter/xmlWriter.go|value/export/xmlWriter.XMLWriter.newLine", "field", "value/export/xmlWriter.XMLWriter.inLine", "none", "recv"), .priv), -- exporter / writer object created by the export call that uses it (New…Exporter, XML(), JSON(), htmlExporter literal)
  (("value/list.go|value.List.Accept$lit", "captured", "res@lit", "none", "captured"), .priv), -- variable of an enclosing invocation that runs during this operation, written by a callback / deferred function of it
  (("value/list.go|value.List.Append", "append", "value.List.items", "mutex:l.mu", "recv"), .cell), -- THE memo cell (P2.Memo): stored under the list mutex l.mu, taken in the first statement of the method (MemoCell obligations)
  (("value/list.go|value.List.Append", "field", "value.List.items", "mutex:l.mu", "recv"), .cell), -- THE memo cell (P2.Memo): stored under the list mutex l.mu, taken in the first statement of the method (MemoCell obligations)
  (("value/list.go|value.List.Eval", "field", "value.List.items", "mutex:l.mu", "recv"), .cell), -- THE memo cell (P2.Memo): stored under the list mutex l.mu, taken in the first statement of the method (MemoCell obligations)
  (("value/list.go|value.List.Eval", "field", "value.List.itemsPresent", "mutex:l.mu", "recv"), .cell), -- THE memo cell (P2.Memo): stored under the list mutex l.mu, taken in the first statement of the method (MemoCell obligations)
  (("value/list.go|value.List.Eval", "field", "value.List.producer", "mutex:l.mu", "recv"), .cell), -- THE memo cell (P2.Memo): stored under the list mutex l.mu, taken in the first statement of the method (MemoCell obligations)
  (("value/list.go|value.List.Map$lit", "captured", "res@lit", "none", "captured"), .priv), -- variable of an enclosing invocation that runs during this operation, written by a callback / deferred function of it
  (("value/list.go|value.Sortable.Swap", "elem", "value.Sortable.items[]", "none", "recv"), .priv), -- sort helper created by the sorting method on a COPY of the items (CopyToSlice) for this call
  (("value/list.go|value.Sortable.registerError", "field", "value.Sortable.err", "unsync-lazy-init:s.err", "recv"), .priv), -- sort helper created by the sorting method on a COPY of the items (CopyToSlice) for this call
  (("value/list.go|value.SortableLess.Less", "field", "value.SortableLess.err", "unsync-lazy-init:s.err", "recv"), .priv), -- sort helper created by the sorting method on a COPY of the items (CopyToSlice) for this call
  (("value/list.go|value.SortableLess.Swap", "elem", "value.SortableLess.items[]", "none", "recv"), .priv), -- sort helper created by the sorting method on a COPY of the items (CopyToSlice) for this call
  (("value/list.go|value.autoParallelStage$lit", "captured", "consumerPanic@lit", "none", "captured"), .priv), -- variable of an enclosing invocation that runs during this operation, written by a callback / deferred function of it
  (("value/list.go|value.autoParallelStage$lit", "captured", "cont@lit", "none", "captured"), .priv), -- variable of an enclosing invocation that runs during this operation, written by a callback / deferred function of it
  (("value/list.go|value.autoParallelStage$lit", "atomic", "stopped", "atomic", "captured"), .priv), -- local of the declared function (one per call), written by a callback the function itself runs before it returns (Iter / Result / recover)
  (("value/list.go|value.autoParallelStage$lit", "atomic", "workers", "atomic", "captured"), .priv), -- local of the declared function (one per call), written by a callback the function itself runs before it returns (Iter / Result / recover)
  (("value/list.go|value.deepEvalLists$lit", "captured", "innerErr@decl", "none", "captured"), .priv), -- local of the declared function (one per call), written by a callback the function itself runs before it returns (Iter / Result / recover)
  (("value/list.go|value.groupBy", "deref", "*l", "none", "local"), .priv), -- `*l = append(*l, v)`: l points into the slice table groupBy has just built for this call
  (("value/map.go|value.Map.Accept$lit", "captured", "innerErr@decl", "none", "captured"), .priv), -- local of the declared function (one per call), written by a callback the function itself runs before it returns (Iter / Result / recover)
  (("value/map.go|value.Map.Accept$lit", "captured", "newMap@decl", "none", "captured"), .priv), -- local of the declared function (one per call), written by a callback the function itself runs before it returns (Iter / Result / recover)
  (("value/map.go|value.Map.Combine$lit", "captured", "innerErr@decl", "none", "captured"), .priv), -- local of the declared function (one per call), written by a callback the function itself runs before it returns (Iter / Result / recover)
  (("value/map.go|value.Map.Combine$lit", "captured", "result@decl", "none", "captured"), .priv), -- local of the declared function (one per call), written by a callback the function itself runs before it returns (Iter / Result / recover)
  (("value/map.go|value.Map.Equals$lit", "captured", "eq@decl", "none", "captured"), .priv), -- local of the declared function (one per call), written by a callback the function itself runs before it returns (Iter / Result / recover)
  (("value/map.go|value.Map.Equals$lit", "captured", "innerErr@decl", "none", "captured"), .priv), -- local of the declared function (one per call), written by a callback the function itself runs before it returns (Iter / Result / recover)
  (("value/map.go|value.Map.Eval$lit", "elem", "rm[]", "none", "capturedfresh"), .priv), -- variable of an enclosing invocation that runs during this operation, written by a callback / deferred function of it
  (("value/map.go|value.Map.Map$lit", "captured", "innerErr@decl", "none", "captured"), .priv), -- local of the declared function (one per call), written by a callback the function itself runs before it returns (Iter / Result / recover)
  (("value/map.go|value.Map.Map$lit", "captured", "newMap@decl", "none", "captured"), .priv), -- local of the declared function (one per call), written by a callback the function itself runs before it returns (Iter / Result / recover)
  (("value/map.go|value.Map.Merge$lit", "captured", "exists@decl", "none", "captured"), .priv), -- local of the declared function (one per call), written by a callback the function itself runs before it returns (Iter / Result / recover)
  (("value/map.go|value.Map.Merge$lit", "captured", "found@decl", "none", "captured"), .priv), -- local of the declared function (one per call), written by a callback the function itself runs before it returns (Iter / Result / recover)
  (("value/map.go|value.Map.ToString$lit", "captured", "first@decl", "none", "captured"), .priv), -- local of the declared function (one per call), written by a callback the function itself runs before it returns (Iter / Result / recover)
  (("value/map.go|value.Map.ToString$lit", "captured", "innerErr@decl", "none", "captured"), .priv), -- local of the declared function (one per call), written by a callback the function itself runs before it returns (Iter / Result / recover)
  (("value/map.go|value.Map.keyListDescription$lit", "append", "keys", "none", "capturedfresh"), .priv), -- variable of an enclosing invocation that runs during this operation, written by a callback / deferred function of it
  (("value/map.go|value.Map.keyListDescription$lit", "captured", "keys@decl", "none", "captured"), .priv), -- local of the declared function (one per call), written by a callback the function itself runs before it returns (Iter / Result / recover)
  (("value/map.go|value.ReplaceMap.createFlat$lit", "captured", "lm@decl", "none", "captured"), .priv), -- local of the declared function (one per call), written by a callback the function itself runs before it returns (Iter / Result / recover)
  (("value/map.go|value.ReplaceMap.createFlat$lit", "elem", "rm[]", "none", "capturedfresh"), .priv), -- variable of an enclosing invocation that runs during this operation, written by a callback / deferred function of it
  (("value/multiUse.go|value.multiUseEntry.runConsumer", "field", "value.multiUseEntry.result", "none", "recv"), .priv), -- entry of the multiUse call that created it
  (("value/multiUse.go|value.multiUseEntry.runConsumer$lit", "captured", "innerErr@decl", "none", "captured"), .priv), -- local of the declared function (one per call), written by a callback the function itself runs before it returns (Iter / Result / recover)
  (("value/multiUse.go|value.multiUseEntry.runConsumer$lit", "captured", "used@decl", "none", "captured"), .priv), -- local of the declared function (one per call), written by a callback the function itself runs before it returns (Iter / Result / recover)
  (("value/value.go|value.FunctionGenerator.GenerateCustom$lit", "captured", "err@lit", "none", "captured"), .priv), -- variable of an enclosing invocation that runs during this operation, written by a callback / deferred function of it
  (("value/value.go|value.FunctionGenerator.GenerateCustom$lit", "captured", "v@lit", "none", "captured"), .priv) --- variable of an enclosing invocation that runs during this operation, written by a callback / deferred function of it
]

/-- every write reachable from Generate / Parse that is not reachable from an evaluation -/
def genAllowed : List (WKey × Cls) := [
  (("funcGen/generator.go|funcGen.FunctionGenerator.GetParser", "field", "funcGen.FunctionGenerator.opMap", "unsync-lazy-init:g.parser", "recv"), .derived), -- freeze of the derived tables on the first Generate: unsynchronised `if g.parser == nil`, computed from the configuration only; the builder methods panic once g.parser is set
  (("funcGen/generator.go|funcGen.FunctionGenerator.GetParser", "field", "funcGen.FunctionGenerator.parser", "unsync-lazy-init:g.parser", "recv"), .derived), -- freeze of the derived tables on the first Generate: unsynchronised `if g.parser == nil`, computed from the configuration only; the builder methods panic once g.parser is set
  (("funcGen/generator.go|funcGen.FunctionGenerator.GetParser", "field", "funcGen.FunctionGenerator.uMap", "unsync-lazy-init:g.parser", "recv"), .derived), -- freeze of the derived tables on the first Generate: unsynchronised `if g.parser == nil`, computed from the configuration only; the builder methods panic once g.parser is set
  (("funcGen/generator.go|funcGen.FunctionGenerator.genCodeMap$lit", "captured", "args@decl", "none", "captured-outlives"), .priv), -- local of the declared function (one per call), written by a callback the function itself runs before it returns (Iter / Result / recover)
  (("funcGen/generator.go|funcGen.FunctionGenerator.genCodeMap$lit", "captured", "err@decl", "none", "captured-outlives"), .priv), -- local of the declared function (one per call), written by a callback the function itself runs before it returns (Iter / Result / recover)
  (("funcGen/generator.go|funcGen.FunctionGenerator.genCodeMap$lit", "captured", "pure@decl", "none", "captured-outlives"), .priv), -- local of the declared function (one per call), written by a callback the function itself runs before it returns (Iter / Result / recover)
  (("funcGen/generator.go|funcGen.argsList.add", "append", "am", "none", "recv"), .priv), -- argument-name list / argument slice built by this Generate call
  (("funcGen/generator.go|funcGen.argsList.copyAndAdd", "copy", "n", "none", "local"), .priv), -- argument-name list / argument slice built by this Generate call
  (("parser2.go|parser2.ClosureLiteral.Optimize", "field", "parser2.ClosureLiteral.Func", "none", "recv"), .priv), -- AST node created by this Parse call (the optimizer rewrites the tree in place before it is handed out)
  (("parser2.go|parser2.FunctionCall.Optimize", "elem", "parser2.FunctionCall.Args[]", "none", "recv"), .priv), -- AST node created by this Parse call (the optimizer rewrites the tree in place before it is handed out)
  (("parser2.go|parser2.FunctionCall.Optimize", "field", "parser2.FunctionCall.Func", "none", "recv"), .priv), -- AST node created by this Parse call (the optimizer rewrites the tree in place before it is handed out)
  (("parser2.go|parser2.Identifiers.AddArgs$lit", "deref", "*outersUsed", "none", "captured-outlives"), .priv), -- local of the declared function (one per call), written by a callback the function itself runs before it returns (Iter / Result / recover)
  (("parser2.go|parser2.Identifiers.AddThis$lit", "deref", "*used", "none", "captured-outlives"), .priv), -- local of the declared function (one per call), written by a callback the function itself runs before it returns (Iter / Result / recover)
  (("parser2.go|parser2.If.Optimize", "field", "parser2.If.Cond", "none", "recv"), .priv), -- AST node created by this Parse call (the optimizer rewrites the tree in place before it is handed out)
  (("parser2.go|parser2.If.Optimize", "field", "parser2.If.Else", "none", "recv"), .priv), -- AST node created by this Parse call (the optimizer rewrites the tree in place before it is handed out)
  (("parser2.go|parser2.If.Optimize", "field", "parser2.If.Then", "none", "recv"), .priv), -- AST node created by this Parse call (the optimizer rewrites the tree in place before it is handed out)
  (("parser2.go|parser2.Let.Optimize", "field", "parser2.Let.Inner", "none", "recv"), .priv), -- AST node created by this Parse call (the optimizer rewrites the tree in place before it is handed out)
  (("parser2.go|parser2.ListAccess.Optimize", "field", "parser2.ListAccess.Index", "none", "recv"), .priv), -- AST node created by this Parse call (the optimizer rewrites the tree in place before it is handed out)
  (("parser2.go|parser2.ListAccess.Optimize", "field", "parser2.ListAccess.List", "none", "recv"), .priv), -- AST node created by this Parse call (the optimizer rewrites the tree in place before it is handed out)
  (("parser2.go|parser2.ListLiteral.Optimize", "elem", "parser2.ListLiteral.List[]", "none", "recv"), .priv), -- AST node created by this Parse call (the optimizer rewrites the tree in place before it is handed out)
  (("parser2.go|parser2.MapAccess.Optimize", "field", "parser2.MapAccess.MapValue", "none", "recv"), .priv), -- AST node created by this Parse call (the optimizer rewrites the tree in place before it is handed out)
  (("parser2.go|parser2.MethodCall.Optimize", "elem", "parser2.MethodCall.Args[]", "none", "recv"), .priv), -- AST node created by this Parse call (the optimizer rewrites the tree in place before it is handed out)
  (("parser2.go|parser2.MethodCall.Optimize", "field", "parser2.MethodCall.Value", "none", "recv"), .priv), -- AST node created by this Parse call (the optimizer rewrites the tree in place before it is handed out)
  (("parser2.go|parser2.Operate.Optimize", "field", "parser2.Operate.A", "none", "recv"), .priv), -- AST node created by this Parse call (the optimizer rewrites the tree in place before it is handed out)
  (("parser2.go|parser2.Operate.Optimize", "field", "parser2.Operate.B", "none", "recv"), .priv), -- AST node created by this Parse call (the optimizer rewrites the tree in place before it is handed out)
  (("parser2.go|parser2.Optimize$lit", "captured", "astRet@decl", "none", "captured-outlives"), .priv), -- local of the declared function (one per call), written by a callback the function itself runs before it returns (Iter / Result / recover)
  (("parser2.go|parser2.Parser.Comfort", "field", "parser2.Parser.comfort", "none", "recv"), .priv), -- builder call on the parser object GetParser has just created (NewParser()), before it is stored
  (("parser2.go|parser2.Parser.Op", "field", "parser2.Parser.operators", "none", "recv"), .priv), -- builder call on the parser object GetParser has just created (NewParser()), before it is stored
  (("parser2.go|parser2.Parser.Op", "field", "parser2.Parser.operators", "unsync-lazy-init:p.operators", "recv"), .priv), -- builder call on the parser object GetParser has just created (NewParser()), before it is stored
  (("parser2.go|parser2.Parser.Parse", "field", "parser2.Parser.operatorDetect", "unsync-lazy-init:p.operatorDetect", "recv"), .derived), -- freeze of the operator detector / unary positions on the first Parse: unsynchronised `if p.operatorDetect == nil`, computed from operators and unary only
  (("parser2.go|parser2.Parser.Parse", "field", "parser2.unaryEntry.opPos", "unsync-lazy-init:p.operatorDetect", "local"), .derived), -- freeze of the operator detector / unary positions on the first Parse: unsynchronised `if p.operatorDetect == nil`, computed from operators and unary only
  (("parser2.go|parser2.Parser.SetKeyWords", "field", "parser2.Parser.keyWords", "none", "recv"), .priv), -- builder call on the parser object GetParser has just created (NewParser()), before it is stored
  (("parser2.go|parser2.Parser.SetNumberParser", "field", "parser2.Parser.numberParser", "none", "recv"), .priv), -- builder call on the parser object GetParser has just created (NewParser()), before it is stored
  (("parser2.go|parser2.Parser.SetOptimizer", "field", "parser2.Parser.optimizer", "none", "recv"), .priv), -- builder call on the parser object GetParser has just created (NewParser()), before it is stored
  (("parser2.go|parser2.Parser.SetStringConverter", "field", "parser2.Parser.stringHandler", "none", "recv"), .priv), -- builder call on the parser object GetParser has just created (NewParser()), before it is stored
  (("parser2.go|parser2.Parser.Unary", "elem", "parser2.Parser.unary[]", "none", "recv"), .priv), -- builder call on the parser object GetParser has just created (NewParser()), before it is stored
  (("parser2.go|parser2.Switch.Optimize", "field", "parser2.Case.Value", "none", "recv"), .priv), -- AST node created by this Parse call (the optimizer rewrites the tree in place before it is handed out)
  (("parser2.go|parser2.Switch.Optimize", "field", "parser2.Switch.Default", "none", "recv"), .priv), -- AST node created by this Parse call (the optimizer rewrites the tree in place before it is handed out)
  (("parser2.go|parser2.Switch.Optimize", "field", "parser2.Switch.SwitchValue", "none", "recv"), .priv), -- AST node created by this Parse call (the optimizer rewrites the tree in place before it is handed out)
  (("parser2.go|parser2.TryCatch.Optimize", "field", "parser2.TryCatch.Catch", "none", "recv"), .priv), -- AST node created by this Parse call (the optimizer rewrites the tree in place before it is handed out)
  (("parser2.go|parser2.TryCatch.Optimize", "field", "parser2.TryCatch.Try", "none", "recv"), .priv), -- AST node created by this Parse call (the optimizer rewrites the tree in place before it is handed out)
  (("parser2.go|parser2.Unary.Optimize", "field", "parser2.Unary.Value", "none", "recv"), .priv), -- AST node created by this Parse call (the optimizer rewrites the tree in place before it is handed out)
  (("parser2.go|parser2.simpleNumber$lit", "captured", "last@decl", "none", "captured-outlives"), .priv), -- local of the declared function (one per call), written by a callback the function itself runs before it returns (Iter / Result / recover)
  (("prettyPrint.go|parser2.posWriter.newLine", "field", "parser2.posWriter.col", "none", "recv"), .priv), -- pretty printer state of one PrettyPrint call (debug output)
  (("prettyPrint.go|parser2.posWriter.writeString", "field", "parser2.posWriter.col", "none", "recv"), .priv), -- pretty printer state of one PrettyPrint call (debug output)
  (("prettyPrint.go|parser2.writeArgs$lit", "captured", "cmplx@decl", "none", "captured-outlives"), .priv), -- local of the declared function (one per call), written by a callback the function itself runs before it returns (Iter / Result / recover)
  (("token.go|parser2.NewOperatorDetector", "deref", "*l", "none", "local"), .priv), -- tokenizer / detector node created by this Parse call
  (("token.go|parser2.Tokenizer.Next", "field", "parser2.Tokenizer.tokenAvail", "none", "recv"), .priv), -- tokenizer / detector node created by this Parse call
  (("token.go|parser2.Tokenizer.Next", "elem", "parser2.Tokenizer.token[]", "none", "recv"), .priv), -- tokenizer / detector node created by this Parse call
  (("token.go|parser2.Tokenizer.SetComfort", "field", "parser2.Tokenizer.comfortEnabled", "none", "recv"), .priv), -- tokenizer / detector node created by this Parse call
  (("token.go|parser2.Tokenizer.SetComments", "field", "parser2.Tokenizer.allowComments", "none", "recv"), .priv), -- tokenizer / detector node created by this Parse call
  (("token.go|parser2.Tokenizer.SetKeyWords", "elem", "parser2.Tokenizer.keyWord[]", "none", "recv"), .priv), -- tokenizer / detector node created by this Parse call
  (("token.go|parser2.Tokenizer.SetTextOperators", "field", "parser2.Tokenizer.textOperators", "none", "recv"), .priv), -- tokenizer / detector node created by this Parse call
  (("token.go|parser2.Tokenizer.consume", "field", "parser2.Tokenizer.isLast", "none", "recv"), .priv), -- tokenizer / detector node created by this Parse call
  (("token.go|parser2.Tokenizer.forward", "field", "parser2.Tokenizer.tokenAvail", "none", "recv"), .priv), -- tokenizer / detector node created by this Parse call
  (("token.go|parser2.Tokenizer.forward", "elem", "parser2.Tokenizer.token[]", "none", "recv"), .priv), -- tokenizer / detector node created by this Parse call
  (("token.go|parser2.Tokenizer.peek", "field", "parser2.Tokenizer.isLast", "none", "recv"), .priv), -- tokenizer / detector node created by this Parse call
  (("token.go|parser2.Tokenizer.peek", "field", "parser2.Tokenizer.last", "none", "recv"), .priv), -- tokenizer / detector node created by this Parse call
  (("token.go|parser2.Tokenizer.peek", "field", "parser2.Tokenizer.lastStr", "none", "recv"), .priv), -- tokenizer / detector node created by this Parse call
  (("token.go|parser2.Tokenizer.peek", "field", "parser2.Tokenizer.line", "none", "recv"), .priv), -- tokenizer / detector node created by this Parse call
  (("token.go|parser2.Tokenizer.peek", "field", "parser2.Tokenizer.str", "none", "recv"), .priv), -- tokenizer / detector node created by this Parse call
  (("token.go|parser2.Tokenizer.run", "field", "parser2.Tokenizer.line", "none", "recv"), .priv), -- tokenizer / detector node created by this Parse call
  (("token.go|parser2.Tokenizer.unread", "field", "parser2.Tokenizer.isLast", "none", "recv"), .priv), -- tokenizer / detector node created by this Parse call
  (("token.go|parser2.Tokenizer.unread", "field", "parser2.Tokenizer.str", "none", "recv"), .priv) --- tokenizer / detector node created by this Parse call
]

def evalRows : List SharedWrite := sharedWrites.filter (·.eval)
def genRows : List SharedWrite := sharedWrites.filter (fun w => !w.eval && (w.gen || w.parse))

/-- today's code as a write table of the model -/
def goTable : Table where
  evalW := classify true (evalRows.length + evalAllowed.length) evalRows evalAllowed
  genW := classify false (genRows.length + genAllowed.length) genRows genAllowed
  parseW := []      -- Parse is reachable from Generate: its rows are in `genW`
  newW := []        -- `value.New` / `funcGen.New` write the generator they create (see `config_written_by_builders_only`)

/-- THE obligation: every write reachable from an evaluation is classified as private or as the memo-cell store under `l.mu`;
every other write reachable from Generate / Parse as private or as the freeze of the derived tables; none is a package-level
variable. -/
theorem shared_writes_allowed : goTable.Allowed = true := by decide

set_option maxRecDepth 8000 in
/-- the extractor still sees the code (a table that lost its rows would pass everything above vacuously): the memo-cell stores,
the value stack, both freezes, a builder, the entry points, and a call graph of the known size -/
theorem shared_writes_found :
    sharedWrites.any (fun w => w.fn == "value/list.go|value.List.Eval" && w.target == "value.List.itemsPresent" && w.eval) = true ∧
    sharedWrites.any (fun w => w.fn == "funcGen/generator.go|funcGen.stackStorage.set" && w.eval && w.gen && w.parse) = true ∧
    sharedWrites.any (fun w => w.fn == "funcGen/generator.go|funcGen.FunctionGenerator.GetParser" && w.gen && !w.eval) = true ∧
    sharedWrites.any (fun w => w.fn == "parser2.go|parser2.Parser.Parse" && w.parse && !w.eval) = true ∧
    sharedWrites.any (fun w => w.fn == "funcGen/generator.go|funcGen.FunctionGenerator.AddStaticFunction" && !w.eval && !w.gen) = true ∧
    sharedWriteEvalRoots.contains "funcGen.Func.Eval" = true ∧ sharedWriteEvalRoots.contains "value.List.Iterate" = true ∧
    sharedWriteGenRoots.contains "funcGen.FunctionGenerator.Generate" = true ∧
    sharedWriteStats.all (fun s => (s.1 != "bodies" || Nat.ble 900 s.2) && (s.1 != "evalReach" || Nat.ble 500 s.2) &&
      (s.1 != "genReach" || Nat.ble 500 s.2) && (s.1 != "parseReach" || Nat.ble 500 s.2) && (s.1 != "edges" || Nat.ble 5000 s.2)) = true := by
  decide

/-! ## The theorems of `P2.C10S` for today's table -/

theorem go_generate_eval_preserve_config (sem : Sem) (s : State) (hg : P2.C10S.Good s) (hist : List HOp) :
    (Shared.run sem goTable s hist).cfg = s.cfg ∧ (Shared.run sem goTable s hist).pkg = s.pkg ∧
      ∀ d, s.derived = some d → (Shared.run sem goTable s hist).derived = some d :=
  P2.C10S.generate_eval_preserve_config sem goTable shared_writes_allowed s hg hist

theorem go_generate_independent_of_history (sem : Sem) (s : State) (hg : P2.C10S.Good s) (hist : List HOp) (p : Nat) :
    (step sem goTable (Shared.run sem goTable s hist) (.generate p)).2 = (step sem goTable s (.generate p)).2 :=
  P2.C10S.generate_independent_of_history sem goTable shared_writes_allowed s hg hist p

theorem go_eval_independent_of_history (sem : Sem) (s : State) (hg : P2.C10S.Good s) (p : Nat) (hist : List HOp) (args free : Nat)
    (hfree : P2.Memo.maxNeed (sem.compile s.cfg s.pkg p).src ≤ (sem.cellOp (sem.compile s.cfg s.pkg p) args free).free) :
    (step sem goTable (Shared.run sem goTable (step sem goTable s (.generate p)).1 hist) (.eval s.funs.length args free)).2 =
      (step sem goTable (step sem goTable s (.generate p)).1 (.eval s.funs.length args free)).2 :=
  P2.C10S.eval_independent_of_history sem goTable shared_writes_allowed s hg p hist args free hfree

theorem go_concurrent_evals_commute (sem : Sem) (fn : Fn) (s : CState) (hinv : P2.Memo.Inv s.cell) (hsrc : s.cell.src = fn.src)
    (argsA freeA argsB freeB : Nat) (sched : List (Bool × Acc))
    (hA : P2.Memo.maxNeed fn.src ≤ (sem.cellOp fn argsA freeA).free) (hB : P2.Memo.maxNeed fn.src ≤ (sem.cellOp fn argsB freeB).free)
    (h : Interleave (evalAtoms goTable argsA freeA) (evalAtoms goTable argsB freeB) sched) :
    hasRace sched = false ∧ cresults sem fn s sched = isolatedResults sem fn s.cfg s.pkg sched :=
  P2.C10S.concurrent_evals_commute sem goTable shared_writes_allowed fn s hinv hsrc argsA freeA argsB freeB sched hA hB h

end P2.Oblig
