import P2.Generated.RecoverSites
import P2.Props.C05Recover
/-! Obligations over the regenerated recover sites (Tie 1, C05 panic containment).

The containment theorems of `P2.C05R` are generic in the table `site → deferred recover`. Here the table is BUILT from
what `tie extract` read from the code (`tableOf`) and the predicates the theorems need are decided on it:

* a deferred recover counts only if `recover()` is called DIRECTLY in the deferred function (`indirect` otherwise), if the
  extractor recognised what is done with the recovered value, and if the enclosing function makes no call in front of the
  defer statement other than an atomic load (code in front of the defer is not guarded by it);
* the worker closures are the literals returned by the factories handed to `iterator.MapAuto` in `List.Map`/`List.Accept`,
  the merge operands are the arguments at the library's remote parameters `ai`/`bi` (wrapper chain: local wrappers that
  only call their parameters and an atomic load, then the recovering producer), the multiUse consumer is the function its
  `go` statement starts;
* every `go` statement of the repository starts a function with such a recover at its root, or is the tokenizer of `Parse`
  (no evaluation code runs there); every argument the repository hands to a goroutine-running parameter of the iterator
  library is protected; every call of a library function whose CONSUMER runs on a library goroutine is made inside
  `autoParallelStage`, whose consumer wrapper stores the panic and raises it again behind the call of the stage;
* the goroutine-running entry points of the library are the ones the model's topology was read from.

A recover moved into a helper, a dropped `recoverProducer`, a removed re-raise, a new `go` statement or a new parallel
stage outside `autoParallelStage` no longer checks here. -/
namespace P2.Oblig.RecoverSites
open P2.Recover P2.Generated.RecoverSites

def convOf : String → Option Conv
  | "errResult" => some .errResult
  | "errItem" => some .errItem
  | "storeReraise" => some .storeReraise
  | "rethrow" => some .rethrow
  | _ => none

/-- calls in front of a defer statement that cannot panic and run no user code (`atomic.Bool.Load`) -/
def harmlessCalls : List String := [".Load"]

/-- the table entry of a deferred recover, by its key -/
def recOf (key : String) : Rec :=
  match deferRecovers.find? (fun d => d.1 == key) with
  | some (_, form, conv, before) =>
    if form == "direct" then
      match convOf conv with
      | some c => if before.all (harmlessCalls.contains ·) then .direct c else .none
      | none => .none
    else if form == "indirect" then .indirect
    else .none
  | none => .none

/-- a wrapper chain around code that runs on another goroutine: a factory whose returned literal recovers, or local
wrappers (which only call their parameters and harmless functions) around the recovering producer -/
def chainOK (chain : List String) : Bool :=
  chain == ["factory"] ||
    (chain.getLast? == some "<recover>" && chain.dropLast.all (· == "<local wrapper>") &&
      wrapperCalls.all (fun w => w.2.all (harmlessCalls.contains ·)))

/-- the recover that protects what the repository hands to a remote parameter of a library call -/
def remoteRec (call param : String) : Rec :=
  match remoteArgs.find? (fun r => r.1 == call && r.2.1 == param) with
  | some (_, _, chain, key) => if chainOK chain then recOf key else .none
  | none => .none

def goRec (stmt : String) : Rec :=
  match goRoots.find? (fun g => g.1 == stmt) with
  | some (_, key) => recOf key
  | none => .none

/-- the table of the code -/
def tableOf : Table
  | .topLevel => recOf topLevelRecover
  | .tryFrame => recOf tryRecover
  | .toHtml => recOf toHtmlRecover
  | .workerMap => remoteRec "value/list.go|List.Map|iterator.MapAuto" "mapperFac"
  | .workerAccept => remoteRec "value/list.go|List.Accept|iterator.MapAuto" "mapperFac"
  | .mergeA => remoteRec "value/list.go|List.Merge|iterator.Merge" "ai"
  | .mergeB => remoteRec "value/list.go|List.Merge|iterator.Merge" "bi"
  | .stageConsumer => recOf stageConsumerRecover
  | .stageSource => if stageSourceWrapped then recOf recoverProducerRecover else .none
  | .muConsumer => goRec "value/multiUse.go|List.MultiUse|multiUseEntry.runConsumer"
  | .muSource => if recoverProducerUses.contains "value/multiUse.go|List.MultiUse" then recOf recoverProducerRecover else .none
  | .argCatch => recOf "value/arg/error.go|PanicToError#0"
  | .host | .user | .stage | .libWorker | .libCollector | .libToChan => .none

/-- the regenerated table is the one the model was read from -/
theorem table_is_pinned : ∀ s ∈ Site.all, tableOf s = pinned s := by decide

/-- … and has the discipline and the conversions the theorems need -/
theorem table_disciplined : Disciplined tableOf = true ∧ Conversions tableOf = true := by decide

/-- the panic the consumer wrapper stores is raised again behind the call of the stage -/
theorem consumer_panic_reraised : stageStoreReraised = true := by decide

/-- `go` statements that run no evaluation code: the tokenizer of `Parse` (C04/C12) -/
def notEvaluation : List String := ["token.go|Tokenizer.Start|Tokenizer.run"]

/-- every goroutine parser2 starts itself has a recover that stops panics at its root -/
theorem go_statements_covered :
    goRoots.all (fun g => notEvaluation.contains g.1 || effect (recOf g.2) != .passes) = true := by decide

/-- the goroutine-running entry points of the iterator library, and which argument runs on the other goroutine -/
theorem library_entry_points :
    libRemote = [("Equals", ["i1", "i2"]), ("FilterAuto", ["acceptFac", "yield"]), ("FilterParallel", ["p", "acceptFac"]),
      ("MapAuto", ["mapperFac", "yield"]), ("MapParallel", ["p", "mapperFac"]), ("Merge", ["ai", "bi"]),
      ("MergeElements", ["it1", "it2"]), ("ToChan", ["it"]), ("initParallel", ["yield", "mapperFac"])] := by decide

/-- whatever the repository hands to another goroutine through the library is protected by a recover that stops panics -/
theorem remote_args_covered :
    remoteArgs.all (fun r => chainOK r.2.2.1 && effect (recOf r.2.2.2) != .passes) = true := by decide

/-- a consumer runs on a library goroutine only below `autoParallelStage` -/
theorem remote_consumers_in_stage : remoteConsumers.all (·.2) = true := by decide

/-! ## the theorems for the table of the code -/

/-- C05 (containment) for the code's table: no schedule of any evaluation reaches a crashed state -/
theorem no_crash_code (s : State) (h : Reach tableOf s) : s.crashed = false :=
  P2.C05R.no_crash tableOf table_disciplined.1 s h

open P2.ParStage in
/-- C05 (the fault reaches the caller) for the code's table -/
theorem fault_reaches_caller_code {α β γ : Type} (items : List α) (raw : α → Raw β) (c : Consumer β γ) (workers : Nat)
    (s : St β) (h : P2.ParStage.Reach items (fun x => contain (raw x)) workers s) (hfin : final items c.more s)
    (ctx : List (Ctx γ)) (hu : ∀ f ∈ ctx, f.isUser = true) :
    evalCall tableOf ctx (parOutcome true c s) =
        evalCall tableOf ctx (seqOutcome true c (items.map fun x => contain (raw x))) ∧
    ((seqOutcome true c (items.map fun x => contain (raw x))).faulted = true →
      evalCall tableOf ctx (parOutcome true c s) = .err (seqOutcome true c (items.map fun x => contain (raw x))).msg) :=
  P2.C05R.fault_reaches_caller tableOf table_disciplined.2 items raw c workers s h hfin ctx hu

open P2.ParStage in
/-- C05 (catchable) for the code's table -/
theorem try_catches_remote_fault_code {α β γ : Type} (items : List α) (raw : α → Raw β) (c : Consumer β γ) (workers : Nat)
    (s : St β) (h : P2.ParStage.Reach items (fun x => contain (raw x)) workers s) (hfin : final items c.more s)
    (inner outer : List (Ctx γ)) (handler : String → CallOut γ) (hu : ∀ f ∈ inner, f.isUser = true)
    (hfault : (seqOutcome true c (items.map fun x => contain (raw x))).faulted = true) :
    evalCall tableOf (inner ++ .tryF handler :: outer) (parOutcome true c s) =
      evalCall tableOf outer (handler (seqOutcome true c (items.map fun x => contain (raw x))).msg) :=
  P2.C05R.try_catches_remote_fault tableOf table_disciplined.2 items raw c workers s h hfin inner outer handler hu hfault

end P2.Oblig.RecoverSites
