import P2.Generated.SharedWrites
/-! Obligations over the regenerated inventory of shared writes (Tie 1, C10 / C11), part "configuration objects" — see `P2.Oblig.SharedWrites` for
the table and the classification. -/
namespace P2.Oblig
open P2.Generated

/-- the builder methods: the only bodies that write a field or an element of the generator / parser configuration objects -/
def builders : List String := [
  "funcGen/generator.go|funcGen.FunctionGenerator.AddConstant", "funcGen/generator.go|funcGen.FunctionGenerator.AddOpBehind",
  "funcGen/generator.go|funcGen.FunctionGenerator.AddStaticFunction", "funcGen/generator.go|funcGen.FunctionGenerator.AddUnary",
  "funcGen/generator.go|funcGen.FunctionGenerator.EnhanceStaticFunction", "funcGen/generator.go|funcGen.FunctionGenerator.SetClosureHandler",
  "funcGen/generator.go|funcGen.FunctionGenerator.SetComfort", "funcGen/generator.go|funcGen.FunctionGenerator.SetCustomGenerator",
  "funcGen/generator.go|funcGen.FunctionGenerator.SetIsEqual", "funcGen/generator.go|funcGen.FunctionGenerator.SetKeyWords",
  "funcGen/generator.go|funcGen.FunctionGenerator.SetListHandler", "funcGen/generator.go|funcGen.FunctionGenerator.SetMapHandler",
  "funcGen/generator.go|funcGen.FunctionGenerator.SetMethodHandler", "funcGen/generator.go|funcGen.FunctionGenerator.SetNumberParser",
  "funcGen/generator.go|funcGen.FunctionGenerator.SetOptimizer", "funcGen/generator.go|funcGen.FunctionGenerator.SetStringConverter",
  "funcGen/generator.go|funcGen.FunctionGenerator.SetToBool",
  "parser2.go|parser2.Parser.AllowComments", "parser2.go|parser2.Parser.Comfort", "parser2.go|parser2.Parser.Debug", "parser2.go|parser2.Parser.Op",
  "parser2.go|parser2.Parser.SetIdentMatcher", "parser2.go|parser2.Parser.SetKeyWords", "parser2.go|parser2.Parser.SetNumberMatcher",
  "parser2.go|parser2.Parser.SetNumberParser", "parser2.go|parser2.Parser.SetOptimizer", "parser2.go|parser2.Parser.SetStringConverter",
  "parser2.go|parser2.Parser.TextOperator", "parser2.go|parser2.Parser.Unary",
  "value/operations.go|value.Equal", "value/operations.go|value.Less",
  "value/value.go|value.FunctionGenerator.RegisterMethods", "value/value.go|value.FunctionGenerator.RegisterType",
  "value/value.go|value.MethodMap.Alias", "value/value.go|value.MethodMap.add",
  "value/value.go|value.SimpleUnary.Register", "value/value.go|value.operationMatrixSimple.Register",
  "value/wrapper.go|value.ToMap.Attr"]

/-- the two freezes of derived tables (first Generate / first Parse) -/
def freezes : List String := ["funcGen/generator.go|funcGen.FunctionGenerator.GetParser", "parser2.go|parser2.Parser.Parse"]

/-- the configuration objects: generator, parser, operator matrices, unary lists, method tables, reflection tables. A write to
ANY field or element of them (also one added later) must come from a builder or a freeze. -/
def configOwners : List String := ["funcGen.FunctionGenerator", "parser2.Parser", "parser2.unaryEntry", "value.FunctionGenerator",
  "value.MethodMap", "value.SimpleUnary", "value.operationMatrixSimple", "value.ToMap"]

def configRows : List SharedWrite := sharedWrites.filter (fun w => configOwners.contains w.owner)

/-- generator and parser tables are written by the builder methods and by the two freezes only -/
theorem config_written_by_builders_only :
    configRows.all (fun w => builders.contains w.fn || freezes.contains w.fn) = true := by decide

/-- … and no write to a configuration object is reachable from an evaluation; from Generate / Parse only the two freezes and the
`parser2.Parser` setters that `GetParser` calls on the parser it has just created -/
theorem builders_not_reachable_at_run_time :
    configRows.all (fun w => !w.eval) = true ∧
    (configRows.filter (fun w => w.gen || w.parse)).all
      (fun w => freezes.contains w.fn ||
        ["parser2.go|parser2.Parser.Comfort", "parser2.go|parser2.Parser.Op", "parser2.go|parser2.Parser.SetKeyWords",
        "parser2.go|parser2.Parser.SetNumberParser", "parser2.go|parser2.Parser.SetOptimizer", "parser2.go|parser2.Parser.SetStringConverter",
        "parser2.go|parser2.Parser.Unary"].contains w.fn) = true := by decide

end P2.Oblig
