import P2.Props.C09
import P2.Generated.HeapFacts
/-! Obligations over the facts regenerated from `value/list.go`, `value/map.go` and all call sites of
`ListMap.Append` (Tie 1, C09), and the property theorems instantiated with them. -/
namespace P2.Oblig
open P2.Heap

/-- today's `Append` caps the parent, `ToSlice` is capped, `CopyToSlice` is fresh, `Set`/`Reverse`/
`Order*` write into copies, the windows of `movingWindow*` are capped, `combineN` passes a copy -/
theorem heapFacts_ok : P2.Generated.heapFacts.OK = true := by decide

/-- C09.2/3 instantiated at today's source facts -/
theorem step_inv_current (cfg : Cfg) (st : St) (op : Op) (hinv : Inv st.h) :
    Inv (step P2.Generated.heapFacts cfg st op).h := P2.C09.step_inv heapFacts_ok cfg st op hinv

theorem elems_stable_current (cfg : Cfg) (ops1 ops2 : List Op) (o : Nat)
    (ho : o < (run P2.Generated.heapFacts cfg St.init ops1).h.objs.length) :
    elems cfg.rot (run P2.Generated.heapFacts cfg (run P2.Generated.heapFacts cfg St.init ops1) ops2).h o =
      elems cfg.rot (run P2.Generated.heapFacts cfg St.init ops1).h o :=
  P2.C09.elems_stable heapFacts_ok cfg ops1 ops2 o ho

end P2.Oblig
