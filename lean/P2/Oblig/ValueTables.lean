import P2.Props.C02
import P2.Generated.ValueTables
/-! Obligations over the regenerated tables of `value.New()` (Tie 1; C01, C02, C07, C10). -/
namespace P2.Oblig
open P2.Lang P2.Generated

def genStatic (name : String) : Option (Int × Bool) :=
  match valueStatics.find? (fun e => e.1 == name) with
  | some (_, a, p) => some (a, p)
  | none => none

def genMethod (ty name : String) : Option Int :=
  match valueMethods.find? (fun e => e.1 == ty && e.2.1 == name) with
  | some (_, _, a, _) => some a
  | none => none

/-- static functions the language model implements -/
def modelledStatics : List String :=
  ["throw", "string", "isFloat", "isInt", "float", "int", "abs", "sign", "sqr", "round", "numbers",
   "sqrt", "floor", "ceil", "trunc", "min", "max", "goto"]

/-- every modelled static function exists in today's generator with the arity and purity the model assumes -/
theorem statics_agree : modelledStatics.all (fun n => staticSig n == genStatic n) = true := by decide

/-- methods the language model implements: (type, name) -/
def modelledMethods : List (String × String) :=
  [("list", "map"), ("list", "accept"), ("list", "reduce"), ("list", "sum"), ("list", "mapReduce"),
   ("list", "size"), ("list", "first"), ("list", "last"), ("list", "top"), ("list", "skip"),
   ("list", "append"), ("list", "reverse"), ("list", "indexWhere"), ("list", "present"),
   ("list", "string"), ("list", "eval"), ("map", "get"), ("map", "put"), ("map", "size"),
   ("map", "isAvail"), ("map", "map"), ("map", "accept"), ("map", "string"), ("map", "eval"),
   ("string", "len"), ("string", "string"), ("string", "contains"), ("int", "string"),
   ("float", "string"), ("bool", "string"), ("closure", "args"), ("closure", "invoke")]

/-- declared `Args` of a method counts the receiver; −1 stays −1 -/
def withReceiver (a : Int) : Int := if a ≥ 0 then a + 1 else a

theorem methods_agree :
    modelledMethods.all (fun tn => (methodSig tn.1 tn.2).map withReceiver == genMethod tn.1 tn.2) = true := by decide

/-- C02: every operator today's table flags commutative is in the set for which the regrouping
laws are proved (`P2.C02.lawfulCommutative`) -/
theorem commutative_flags_lawful :
    (valueOperators.filter (fun o => o.2.2)).all (fun o => P2.C02.lawfulCommutative.contains o.1) = true := by decide

/-- C02: the functions that must never be folded are declared impure -/
theorem impure_declared : (genStatic "throw").map (·.2) = some false ∧ (genStatic "random").map (·.2) = some false := by decide

/-- the operator spellings the model's `binop`/`unop` interpret are exactly today's table -/
theorem operator_spellings :
    valueOperators.map (·.1) = ["|", "&", "=", "!=", "~", "<", ">", "<=", ">=", "+", "-", "<<", ">>", "*", "%", "/", "^"]
    ∧ valueUnary = ["-", "!"] := by decide

end P2.Oblig
