import P2.Props.C19
import P2.Generated.ExampleTables
/-! Obligations over the regenerated table of `example/minimal.go` (Tie 1, C19/C02).
At the pinned commit `minimal_flags_lawful` FAILS: `=` is registered with `isCommutative = true`
(B19; see `P2.C19.pinned_b19_diverges`).  With the repair (`=` not flagged) it holds. -/
namespace P2.Oblig
open P2.Generic

/-- `flaggedCommutative minimal ⊆ {+, *}`: the operators for which both regrouping identities hold in
exact arithmetic -/
theorem minimal_flags_lawful :
    ∀ o ∈ flaggedCommutative P2.Generated.minimalOperators, o ∈ minimalLawful := by decide

theorem minimal_table_laws : Laws (minimalTable P2.Generated.minimalOperators P2.Generated.minimalStatics) :=
  laws_of_flags minimalSem minimalLawful minimal_lawful _ minimal_flags_lawful _ rfl rfl

/-- C19.2 at the table of today's source, over exact numbers -/
theorem float_chain_correct_current (on : Bool) (cs : Consts Rat) (e : E Rat) (args : List String)
    (vals : List Rat)
    (hws : WS (minimalTable P2.Generated.minimalOperators P2.Generated.minimalStatics) e (P2.C19.visOf cs args))
    (hlen : args.length = vals.length) (hd : vals.length + depth e ≤ stackLimit + 1) :
    chain (minimalTable P2.Generated.minimalOperators P2.Generated.minimalStatics) on cs e args vals
      = Outcome.ofOption (eval (minimalTable P2.Generated.minimalOperators P2.Generated.minimalStatics) e
          (overlay cs (envOf args vals))) :=
  P2.C19.float_chain_correct _ _ minimal_flags_lawful on cs e args vals hws hlen hd

end P2.Oblig
