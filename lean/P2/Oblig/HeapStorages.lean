import P2.Props.C09
import P2.Generated.HeapFacts
/-! Obligation over the regenerated list of methods of the map storage types (Tie 1, C09). -/
namespace P2.Oblig
open P2.Heap

/-- no method of a map storage type has a pointer receiver or assigns through its receiver -/
theorem mapStorages_immutable : storagesImmutable P2.Generated.mapStorageMethods = true := by decide

end P2.Oblig
