import P2.Model.MapSt
import P2.Generated.MapStorages
/-! Obligation over generated facts for C13: the model covers every `MapStorage` implementation that
exists in the source tree today (`tie extract` lists them with go/ast). A new storage type makes
`decide` fail until the model is extended. -/
namespace P2.Oblig
open P2.MapSt

/-- every type of the source tree that has the three methods `Get(string) (_, bool)`, `Iter(func…)`,
`Size() int` has a constructor in the model (and the extractor found the known ones at all) -/
theorem mapStorages_covered :
    P2.Generated.mapStorageTypes.length ≥ 9 ∧
    P2.Generated.mapStorageTypes.all (fun t => modelledStorages.any (·.1 == t)) = true := by decide

end P2.Oblig
