import P2.Model.Xml
import P2.Generated.XmlNames
/-! Obligations over the regenerated attribute-name tables (Tie 1, C18): the real XML exporter, run over every Unicode
scalar value, accepts in the key of a simple map exactly the characters the model's `attrKeyOK` accepts, and no key that
starts with a case variant of `xml`. (`attrKeyOK_isXmlName` then makes every accepted key an XML name, which is the
hypothesis of `xml_export_safe`.) -/
namespace P2.Oblig
open P2.Xml

def inRanges (rs : List (Nat × Nat)) (n : Nat) : Bool := rs.any (fun r => Nat.ble r.1 n && Nat.ble n r.2)

/-- the model's character rule, as ranges -/
theorem asciiNameChar_first (c : Char) :
    asciiNameChar true c = inRanges [(65, 90), (95, 95), (97, 122)] c.toNat := by
  simp only [asciiNameChar, inRanges, List.any_cons, List.any_nil, Bool.not_true, Bool.false_and, Bool.or_false]
  rw [Bool.eq_iff_iff]
  simp only [Bool.or_eq_true, Bool.and_eq_true, Nat.ble_eq, beq_iff_eq]
  omega

theorem asciiNameChar_later (c : Char) :
    asciiNameChar false c = inRanges [(45, 46), (48, 57), (65, 90), (95, 95), (97, 122)] c.toNat := by
  simp only [asciiNameChar, inRanges, List.any_cons, List.any_nil, Bool.not_false, Bool.true_and, Bool.or_false]
  rw [Bool.eq_iff_iff]
  simp only [Bool.or_eq_true, Bool.and_eq_true, Nat.ble_eq, beq_iff_eq]
  omega

/-- today's exporter accepts exactly these code points at the first position of a key … -/
theorem xmlNames_first : P2.Generated.xmlAttrNameFirst = [(65, 90), (95, 95), (97, 122)] := by decide

/-- … and these at a later position -/
theorem xmlNames_later : P2.Generated.xmlAttrNameLater = [(45, 46), (48, 57), (65, 90), (95, 95), (97, 122)] := by decide

/-- so the exporter and the model agree on every single character, at both positions -/
theorem xmlNames_agree (c : Char) :
    asciiNameChar true c = inRanges P2.Generated.xmlAttrNameFirst c.toNat ∧
      asciiNameChar false c = inRanges P2.Generated.xmlAttrNameLater c.toNat := by
  rw [xmlNames_first, xmlNames_later]
  exact ⟨asciiNameChar_first c, asciiNameChar_later c⟩

/-- no key that starts with `xml` (any case) is written as an attribute name; the control keys are -/
theorem xmlNames_xml_prefix_rejected :
    P2.Generated.xmlAttrNameXmlPrefixAccepted = [] ∧
      P2.Generated.xmlAttrNameControls = ["xm", "ml", "axml", "a", "ab", "a-b", "a.b", "a_b", "A9"] := by decide

/-- the model on the same control keys -/
example : (["xm", "ml", "axml", "a", "ab", "a-b", "a.b", "a_b", "A9", "xml", "Xmla", "xML_1"].map
    (fun s => attrKeyOK s.toList)) = [true, true, true, true, true, true, true, true, true, false, false, false] := by decide

end P2.Oblig
