import P2.Model.MapSt
import P2.Generated.MapStorages
/-! Obligation over generated facts for C13: every method registered for maps in `createMapMethods`
(keys of the method table, listed by `tie extract` with go/ast) is modelled. -/
namespace P2.Oblig
open P2.MapSt

theorem mapMethods_covered :
    P2.Generated.mapMethods.length ≥ 12 ∧
    P2.Generated.mapMethods.all (fun t => modelledMethods.any (·.1 == t)) = true := by decide

end P2.Oblig
