import P2.Props.C03
import P2.Generated.OpTables
/-! Obligation over the regenerated operator table of the shipped generator `value.New()` (Tie 1, C03):
the table satisfies `TableWF` (distinct binary operators, `->` not an operator), hence C03.1 holds for
the language users actually get. -/
namespace P2.Oblig
open P2.Parse

/-- the operator table of `value.New()` as extracted from the live parser on this run -/
def valueTable : Table := { ops := P2.Generated.probedValueOps, unary := P2.Generated.probedValueUnary }

/-- every priority of the live parser was observed (no operator is registered twice) -/
theorem valueTable_complete : P2.Generated.probedValueOpsGaps = 0 := by decide

theorem valueTable_wf : TableWF valueTable := ⟨by decide, by decide, by decide, rfl⟩

/-- the code of the pinned commit cannot panic on this table either (`-`,`!` are not the last operator) -/
theorem valueTable_pinnedOK : PinnedOK { valueTable with pinned := true } :=
  ⟨by decide, by decide⟩

/-- C03.1 instantiated at today's table of `value.New()` -/
theorem parse_render_value (σ : Scope) (e : E) (ρ : Deco) (hw : WF valueTable σ true e) :
    parse valueTable σ (render valueTable ρ 0 .none e) = .ok e [] :=
  P2.C03.parse_render valueTable_wf σ e ρ hw

end P2.Oblig
