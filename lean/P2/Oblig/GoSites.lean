import P2.Generated.GoSites
/-! Obligations over the regenerated goroutine sites (Tie 1, C12).

The process model `P2.Proc` knows two kinds of goroutines that parser2 itself starts: the tokenizer of a `Parse` (it ends
when its channel is drained: `parse_drains` needs the `Drain()` that `Parse` defers directly behind the statement that
starts the tokenizer, so that NO return path is in between) and the consumers of `multiUse` (they end when the source was
run: `P2.C12.multiuse_cleanup` needs that nothing returns between starting them and `run`, and that a panic of the
source becomes an error item). Everything else is started by the external iterator library behind its stop protocol. A new `go`
statement, a second place that starts a tokenizer, or a return path in one of the two windows no longer checks here. -/
namespace P2.Oblig
open P2.Generated

theorem go_statements_known :
    goStatements = ["token.go|Tokenizer.Start|.run", "value/multiUse.go|List.MultiUse|.runConsumer"] := by decide

theorem tokenizer_started_by_parse_only :
    tokenizerStartSites = ["parser2.go|Parser.Parse"] ∧ parseDefersDrainBehindStart = true ∧
      channelCloseSites = ["token.go|Tokenizer.run|<chan>"] := by decide

theorem multiUse_runs_what_it_started :
    multiUseReturnsBetweenGoAndRun = 0 ∧ multiUseRunArg = "recoverProducer(<list>.iterable(…))" := by decide

end P2.Oblig
