import P2.Spec.LibSpec
import P2.Generated.ValueTables
/-! Obligation over the regenerated tables of `value.New()` (Tie 1, C07): every (type, method) and
every static function of today's generator is either covered by the eager specification
`P2.LibSpec` with the same declared arity, or named in the explicit `unmodelled` list; and every
covered entry still exists with that arity. A new, removed or re-aritied built-in breaks it. -/
namespace P2.Oblig
open P2.LibSpec P2.Generated

def methodAccounted (e : String × String × Int × Bool) : Bool :=
  covered.contains (e.1, e.2.1, e.2.2.1) || unmodelledMethods.contains (e.1, e.2.1)

def staticAccounted (e : String × Int × Bool) : Bool :=
  coveredStatics.contains (e.1, e.2.1) || unmodelledStatics.contains e.1

def coveredExists (e : String × String × Int) : Bool :=
  valueMethods.any (fun g => g.1 == e.1 && g.2.1 == e.2.1 && g.2.2.1 == e.2.2)

def coveredStaticExists (e : String × Int) : Bool :=
  valueStatics.any (fun g => g.1 == e.1 && g.2.1 == e.2)

/-- every built-in of today's `value.New()` is covered (same arity) or explicitly unmodelled -/
theorem lib_covered :
    valueMethods.all methodAccounted = true ∧ valueStatics.all staticAccounted = true := by decide

/-- everything the spec claims to cover exists today with the arity the spec assumes; nothing is
both covered and unmodelled -/
theorem lib_covered_exists :
    covered.all coveredExists = true ∧ coveredStatics.all coveredStaticExists = true ∧
    unmodelledMethods.all (fun e => !isCovered e.1 e.2) = true ∧
    unmodelledStatics.all (fun n => !isCoveredStatic n) = true := by decide

end P2.Oblig
