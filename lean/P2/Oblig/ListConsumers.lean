import P2.Generated.ListConsumers
/-! Obligations over the regenerated table of list consumers (Tie 1, C08).

`P2.Iter` models `first`, `single`, `indexWhere`, `present` and `~` as consumers that decide at a prefix (`decides_at_*`,
`drive_prefix`): in the code they have to iterate their receiver directly, leave that loop as soon as the answer is fixed, and
must not materialise the receiver first. The methods that need every item (`size`, `reverse`, `order`, …) materialise; the
aggregates (`sum`, `min`, `max`, `last`, …) iterate to the end. A method that moves from one class to another — a `first` that
materialises, a `present` without early exit — no longer checks here. -/
namespace P2.Oblig
open P2.Generated

def consumerRow (n : String) : Option (Bool × Bool × Bool) := (listConsumers.find? (fun e => e.1 == n)).map (·.2)

/-- the short-circuit consumers: no materialisation, a direct iteration with an early exit -/
theorem short_circuit_consumers_exit_early :
    ["First", "Single", "IndexWhere", "Present", "containsItem", "containsAllItems"].all
      (fun n => consumerRow n == some (false, true, true)) = true := by decide

/-- the classification of every consuming method of today's `value/list.go` -/
theorem list_consumers_classified :
    listConsumers = [
      ("Append", true, false, false), ("CopyToSlice", true, false, false), ("CreateInterpolation", false, true, true),
      ("Equals", true, false, false), ("First", false, true, true), ("GroupByEqual", false, true, false),
      ("IndexWhere", false, true, true), ("Last", false, true, false), ("Linear", false, true, false),
      ("Max", false, true, false), ("Mean", false, true, false), ("Min", false, true, false), ("MinMax", false, true, false),
      ("MovingWindow", true, false, false), ("MovingWindowRemove", true, false, false), ("Order", true, false, false),
      ("OrderLess", true, false, false), ("Present", false, true, true), ("Reverse", true, false, false),
      ("Set", true, false, false), ("Single", false, true, true), ("Size", true, false, false), ("String", false, true, true),
      ("Sum", false, true, false), ("ToSlice", true, false, false), ("ToString", false, true, false),
      ("Visit", false, true, false), ("containsAllItems", false, true, true), ("containsItem", false, true, true)] := by decide

end P2.Oblig
