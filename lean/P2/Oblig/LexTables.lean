import P2.Props.C15
import P2.Generated.LexTables
/-! Obligations over the regenerated scanner tables (Tie 1; C15, reused by C04 / C12), and the scanner
theorems instantiated at today's tables. -/
namespace P2.Oblig
open P2.Lex P2.C15

/-- the extractor understood every case of the switches it reads -/
theorem lexExtract_ok : P2.Generated.lexExtractError = "" := by decide

/-- the cases of `run`'s switch that are more than sending constant tokens are exactly the hand-modelled ones -/
theorem lexSpecial_ok : (P2.Generated.lexSpecial.all handSpecial.contains && handSpecial.all P2.Generated.lexSpecial.contains) = true := by
  decide

/-- the image of the invalid token of `readStr` -/
theorem lexEolImage_ok : P2.Generated.lexEolImage = eolImage := by decide

/-- `Kind.toNat` is the iota order of the TokenType constants -/
theorem lexKindOrder_ok : P2.Generated.lexKindOrder.map Kind.toNat = List.range 17 := by decide

/-- the table predicate all scanner theorems assume -/
theorem lexTables_ok : tablesOK P2.Generated.lexTables = true := by decide

/-- the typographic aliases the property names are in `peek`'s switch: `•` and `×` for `*`, `÷` for `/`, `–` for `-`,
    `ˆ` for `^` -/
theorem lexAliases_current :
    ([('•', '*'), ('×', '*'), ('÷', '/'), ('–', '-'), ('ˆ', '^')].all
      fun p => P2.Generated.lexTables.aliases.lookup p.1 == some p.2) = true := by
  decide

/-- the superscript digits `⁰ … ⁹` send `^` and the digit and count as a number in comfort mode -/
theorem lexSupers_current :
    ((superRunes.zip "0123456789".toList).all fun (c, d) =>
      P2.Generated.lexTables.emit.lookup c == some ([(.operate, ['^']), (.number, [d])], .number)) = true := by
  decide

/-- a configuration over today's tables -/
def currentOK (cfg : Cfg) : Prop := cfg.tables = P2.Generated.lexTables ∧ cfg.pinned = false ∧ cfgOK cfg = true

theorem currentOK_scannerOK {cfg : Cfg} (h : currentOK cfg) : scannerOK cfg :=
  ⟨h.2.1, by rw [h.1]; exact lexTables_ok, h.2.2⟩

/-- C04.1 at today's tables: the scanner model returns the reference scanner's tokens for every input -/
theorem tokenize_refines_current (cfg : Cfg) (h : currentOK cfg) (src : List Char) :
    tokenize cfg src = .ok (Spec.tokenize cfg src) :=
  tokenize_refines cfg h.2.1 (currentOK_scannerOK h).2.1 h.2.2 src

/-- C15.3 at today's tables -/
theorem string_literal_roundtrip_current (cfg : Cfg) (h : currentOK cfg) (s : List Char) (hs : ∀ c ∈ s, c ≠ EOF) :
    tokenize cfg ('"' :: (s.flatMap escChar ++ ['"'])) = .ok [⟨.string, s, 1⟩] :=
  string_literal_roundtrip cfg (currentOK_scannerOK h) s hs

/-- C15.4 at today's tables -/
theorem quoted_ident_exact_current (cfg : Cfg) (h : currentOK cfg) (s : List Char) (hs : ∀ c ∈ s, c ≠ '\'' ∧ c ≠ EOF) :
    tokenize cfg ('\'' :: (s ++ ['\''])) = .ok [⟨.ident, s, 1⟩] :=
  quoted_ident_exact cfg (currentOK_scannerOK h) s hs

/-- C15.1 at today's tables -/
theorem layout_invariant_current (cfg : Cfg) (h : currentOK cfg) (ls ls' : Layout) (s0 s0' : Sep) (tl tl' : Tail)
    (hlex : ls.map (·.1) = ls'.map (·.1))
    (hs0 : s0.wf cfg.comments = true) (hs0' : s0'.wf cfg.comments = true)
    (htl : tl.wf cfg.comments = true) (htl' : tl'.wf cfg.comments = true)
    (hadm : admissible cfg ls tl.text = true) (hadm' : admissible cfg ls' tl'.text = true)
    (hblank : cfg.comfort = true → blankAgree ls ls' = true) :
    ∃ ts ts', tokenize cfg (source s0 ls tl) = .ok ts ∧ tokenize cfg (source s0' ls' tl') = .ok ts' ∧
      ts.map strip = ts'.map strip :=
  layout_invariant cfg (currentOK_scannerOK h) ls ls' s0 s0' tl tl' hlex hs0 hs0' htl htl' hadm hadm' hblank

end P2.Oblig
