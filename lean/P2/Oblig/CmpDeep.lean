import P2.Props.C14
import P2.Generated.CmpMatrix
/-! Obligation over the regenerated comparator fact (Tie 1, C14): `Equal` hands the DEEP comparison to
`List.Equals` / `Map.Equals` (probe: `[[1]] = [[1]]` and `{a:{b:1}} = {a:{b:1}}` give a value).  The
theorems about nested values (`eq_refl`, `eq_list`, `eq_map`) need it. -/
namespace P2.Oblig
open P2.Cmp

theorem cmpCfg_nestedDeep : P2.Generated.cmpCfg.nestedDeep = true := by decide

/-- C14 reflexivity instantiated at today's comparator -/
theorem eq_refl_current {F : Type} {O : FloatOps F} (hO : FloatOrder O) (a : Value F)
    (hw : wf a = true) (hp : plain O a = true) : equal P2.Generated.cmpCfg O a a = .ok true :=
  P2.C14.eq_refl hO _ cmpCfg_nestedDeep a hw hp

/-- C14 "lists element-wise, maps key-wise" instantiated at today's comparator -/
theorem eq_list_current {F : Type} (O : FloatOps F) (p q : Bool) (xs ys : List (Value F)) :
    equal P2.Generated.cmpCfg O (.list p xs) (.list q ys) = .ok true ↔
      xs.length = ys.length ∧ ∀ e ∈ xs.zip ys, equal P2.Generated.cmpCfg O e.1 e.2 = .ok true :=
  P2.C14.eq_list _ cmpCfg_nestedDeep O p q xs ys

theorem eq_map_current {F : Type} (O : FloatOps F) (a b : List (List Char × Value F)) :
    equal P2.Generated.cmpCfg O (.map a) (.map b) = .ok true ↔
      a.length = b.length ∧ ∀ kv ∈ a, ∃ o, lookupKey kv.1 b = some o ∧ equal P2.Generated.cmpCfg O o kv.2 = .ok true :=
  P2.C14.eq_map _ cmpCfg_nestedDeep O a b

end P2.Oblig
