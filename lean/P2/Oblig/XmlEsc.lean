import P2.Props.C18
import P2.Generated.XmlEsc
/-! Obligations over the regenerated XML escape tables (Tie 1, C18) and the theorems instantiated at the
escape behaviour of today's `xmlWriter` and at the key rule the model is run with. -/
namespace P2.Oblig
open P2.Xml
open P2.Json (escOf)

/-- `XmlEscOK`, character data: every legal character is written so that it decodes to itself -/
theorem xmlTextEsc_tableOK : TextTableOK P2.Generated.xmlTextEsc = true := by decide

/-- `XmlEscOK`, attribute values -/
theorem xmlAttrEsc_tableOK : AttrTableOK P2.Generated.xmlAttrEsc = true := by decide

/-- the exhaustive dump found no code point for which the writer's output lost its frame -/
theorem xmlEsc_no_malformed : P2.Generated.xmlEscMalformed = 0 := by decide

theorem xml_export_safe_current (v : V) (hl : legalV v = true) (hd : distinctV v = true) :
    ∃ out, xmlExport (escOf P2.Generated.xmlTextEsc) (escOf P2.Generated.xmlAttrEsc) attrKeyOK v = .ok out ∧
      tokensDoc out = some (.chr '\n' :: layout true (xmlNodes attrKeyOK (sortV v))) ∧
      wellFormed (.chr '\n' :: layout true (xmlNodes attrKeyOK (sortV v))) = true :=
  P2.C18.xml_export_safe _ _ xmlTextEsc_tableOK xmlAttrEsc_tableOK attrKeyOK attrKeyOK_isXmlName v hl hd

theorem html_export_safe_current (maxListSize : Nat) (inlineStyle : Bool) (v : V) (hl : legalV v = true) :
    (htmlCallsOf maxListSize inlineStyle v = .err ∧
        htmlExport (escOf P2.Generated.xmlTextEsc) (escOf P2.Generated.xmlAttrEsc) maxListSize inlineStyle v = .err) ∨
    ∃ out classes ns,
      htmlExport (escOf P2.Generated.xmlTextEsc) (escOf P2.Generated.xmlAttrEsc) maxListSize inlineStyle v = .ok (out, classes) ∧
      htmlCallsOf maxListSize inlineStyle v = .ok (flattenL ns, classes) ∧ nodesOK ns = true ∧
      tokens out = some (layout true ns) ∧ wellFormed (layout true ns) = true :=
  P2.C18.html_export_safe_partial _ _ xmlTextEsc_tableOK xmlAttrEsc_tableOK maxListSize inlineStyle v hl

end P2.Oblig
