import P2.Generated.BinFacts
/-! Obligations over the regenerated statements of the binning arithmetic (Tie 1, C20).

`P2.Binning.getIndex` is written from the Go text quoted in its doc comment; `getDescr` from `to := start + i*size`,
`from := to - size`; `Add` counts a value in exactly ONE cell, the one `getIndex` names, and the constructors allocate
`count + 2` cells (underflow and overflow) per axis, every row of a 2-d histogram on its own. These obligations pin the text
the model was written from: a change of the arithmetic (a precomputed scale, another clamping order, a shared row) no
longer checks here, whatever the sampled workloads of Tie 2 happen to hit. -/
namespace P2.Oblig
open P2.Generated

def shapeOf (n : String) : List String := ((binShapes.find? (fun e => e.1 == n)).map (·.2)).getD []

theorem bin_index_formula :
    shapeOf "axis.getIndex" =
      ["f := math.Floor((v - a.start) / a.size)",
       "if f >= float64(a.bins-1) { return a.bins - 1 } else if f >= 0 { return int(f) + 1 }",
       "return 0"] := by decide

set_option maxRecDepth 8000 in
theorem bin_descr_formula :
    shapeOf "axis.getDescr" =
      ["to := a.start + float64(i)*a.size",
       "from := to - a.size",
       "switch i { case 0: return bin{IsMax: true, Max: to} case a.bins - 1: return bin{IsMin: true, Min: from} default: return bin{IsMin: true, Min: from, IsMax: true, Max: to} }"] := by
  decide

theorem bin_add_one_cell :
    shapeOf "BinningData.Add" = ["s.bins[s.a.getIndex(value)] += toSum"] ∧
      shapeOf "Binning2dData.Add" = ["xi := s.x.getIndex(x)", "yi := s.y.getIndex(y)", "s.bins[xi][yi] += toSum"] := by decide

set_option maxRecDepth 8000 in
theorem bin_constructors :
    shapeOf "newBinning" = ["bins := make([]float64, count+2)", "return &BinningData{axis{start, size, len(bins)}, bins}"] ∧
      shapeOf "New2d" =
        ["bins := make([][]float64, xCount+2)",
         "for i := range bins { bins[i] = make([]float64, yCount+2) }",
         "return &Binning2dData{axis{xStart, xSize, len(bins)}, axis{yStart, ySize, len(bins[0])}, bins}"] := by decide

end P2.Oblig
