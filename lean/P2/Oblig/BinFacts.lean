import P2.Generated.BinFacts
/-! Obligations over the regenerated statements of the binning arithmetic (Tie 1, C20).

`P2.Binning.getIndex` is written from the Go text quoted in its doc comment; `getDescr` from `to := start + i*size`,
`from := to - size`; `Add` counts a value in exactly ONE cell, the one `getIndex` names, and the constructors allocate
`count + 2` cells (underflow and overflow) per axis, every row of a 2-d histogram on its own. These obligations pin the text
the model was written from (the locals written `x1`, `x2`, … in the order they are declared: `to` = x1 and `from` = x2 in `getDescr`, so that a renamed
local is not a change): a change of the arithmetic (a precomputed scale, another clamping order, a shared row) no
longer checks here, whatever the sampled workloads of Tie 2 happen to hit. -/
namespace P2.Oblig
open P2.Generated

def shapeOf (n : String) : List String := ((binShapes.find? (fun e => e.1 == n)).map (·.2)).getD []

theorem bin_index_formula :
    shapeOf "axis.getIndex" =
      ["x1 := math.Floor((v - a.start) / a.size)",
       "if x1 >= float64(a.bins-1) { return a.bins - 1 } else if x1 >= 0 { return int(x1) + 1 }",
       "return 0"] := by decide

set_option maxRecDepth 8000 in
theorem bin_descr_formula :
    shapeOf "axis.getDescr" =
      ["x1 := a.start + float64(i)*a.size",
       "x2 := x1 - a.size",
       "switch i { case 0: return bin{IsMax: true, Max: x1} case a.bins - 1: return bin{IsMin: true, Min: x2} default: return bin{IsMin: true, Min: x2, IsMax: true, Max: x1} }"] := by
  decide

theorem bin_add_one_cell :
    shapeOf "BinningData.Add" = ["s.bins[s.a.getIndex(value)] += toSum"] ∧
      shapeOf "Binning2dData.Add" = ["x1 := s.x.getIndex(x)", "x2 := s.y.getIndex(y)", "s.bins[x1][x2] += toSum"] := by decide

set_option maxRecDepth 8000 in
theorem bin_constructors :
    shapeOf "newBinning" = ["x1 := make([]float64, count+2)", "return &BinningData{axis{start, size, len(x1)}, x1}"] ∧
      shapeOf "New2d" =
        ["x1 := make([][]float64, xCount+2)",
         "for x2 := range x1 { x1[x2] = make([]float64, yCount+2) }",
         "return &Binning2dData{axis{xStart, xSize, len(x1)}, axis{yStart, ySize, len(x1[0])}, x1}"] := by decide

end P2.Oblig
