import P2.Generated.SharedWrites
/-! Obligations over the regenerated inventory of shared writes (Tie 1, C10 / C11), part "guards" — see `P2.Oblig.SharedWrites` for
the table and the classification. -/
namespace P2.Oblig
open P2.Generated

/-- nothing reachable at run time, from Generate or from Parse writes a package-level variable, takes its address, or stores
into an element of one (the defect of cee1484 would show here as `value.IntTypeId …` written by `value.New`, which a
generator created inside a static function would reach) -/
theorem no_package_state_written_after_configuration :
    (sharedWrites.filter (fun w => (w.eval || w.gen || w.parse) && (w.base == "global" || w.kind == "pkgvar" || w.kind == "addr"))).isEmpty = true := by
  decide

/-- every field of a `*value.List` (the memo cell and whatever is added to it) is written under its mutex only, by `List.Eval` and `List.Append` only (the defect of c0afced would show here
as guard `none`) -/
theorem memo_cell_written_under_its_mutex :
    (sharedWrites.filter (fun w => w.owner == "value.List")).all
      (fun w => w.guard == "mutex:l.mu" && w.base == "recv" &&
        (w.fn == "value/list.go|value.List.Eval" || w.fn == "value/list.go|value.List.Append")) = true := by decide

/-- the only unsynchronised lazy initialisations of generator / parser state are the two freezes, and no evaluation reaches them -/
theorem lazy_freezes_not_reachable_from_eval :
    (sharedWrites.filter (fun w => w.fn == "funcGen/generator.go|funcGen.FunctionGenerator.GetParser" || w.fn == "parser2.go|parser2.Parser.Parse")).all
      (fun w => !w.eval) = true := by decide

end P2.Oblig
