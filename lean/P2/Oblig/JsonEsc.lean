import P2.Props.C17
import P2.Generated.JsonEsc
/-! Obligation over the regenerated JSON escape table (Tie 1, C17). -/
namespace P2.Oblig
open P2.Json

theorem jsonEsc_tableOK : TableOK P2.Generated.jsonEscTable = true := by decide

/-- the regenerated table is complete: the exhaustive dump was not cut off and every code point gave a
quoted, valid UTF-8 string -/
theorem jsonEsc_complete : P2.Generated.jsonEscTruncated = false ∧ P2.Generated.jsonEscMalformed = 0 := by decide

/-- C17 instantiated at the escape behaviour of today's `jsonExporter.String`. -/
theorem json_export_roundtrip_current (t : JTree) :
    decodeDoc (exportDoc (escOf P2.Generated.jsonEscTable) t) = some (sortTree t) :=
  P2.C17.json_export_roundtrip _ jsonEsc_tableOK t

end P2.Oblig
