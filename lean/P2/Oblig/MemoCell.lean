import P2.Generated.MemoCell
/-! Obligations over the regenerated shape of the memo cell of a lazy list (Tie 1, C10/C11).

`P2.Memo.Cell.step` says what `List.Eval` (`force`) and `List.iterable` (`iter`) do; the theorems of C10/C11 about
shared lazy lists rest on exactly these facts:

* `force` runs under the mutex from its first statement on (C11: the critical sections are the atomic steps);
* the items of a running materialisation go to a LOCAL slice, and an error item ends `Eval` with `return err` before
  anything of the cell is written (`memo_failing_step_harmless`);
* `items`, `itemsPresent` and the slice iterable are stored after the loop, from that local slice (`memo_cache_correct`);
* the producer runs on the stack of the consumer (`st`), which is where the free-slot dependence comes from;
* `iterable` takes the producer under the mutex and calls it outside (`memo_snapshot_atomic`); `evaluated` reads under
  the mutex;
* nothing else writes the three fields (`Append` only clips the capacity of `items`), and no other method of `*List`
  mentions them. -/
namespace P2.Oblig
open P2.Generated

theorem memo_eval_shape :
    memoEvalShape = ["l.mu.Lock()", "defer l.mu.Unlock()", "if !l.itemsPresent", "return nil"] ∧
      memoEvalLocksFirst = true ∧ memoEvalProducerArg = "st" := by decide

theorem memo_eval_collects_locally :
    memoEvalLoopAppends = ["local:it"] ∧ memoEvalLoopReturns = ["return err"] := by decide

theorem memo_eval_stores_after_the_loop :
    memoEvalWrites = [("items", "after-loop", "it"), ("itemsPresent", "after-loop", "true"),
      ("producer", "after-loop", "createSliceIterable(it)")] := by decide

theorem memo_iterable_is_a_snapshot :
    memoIterableShape = ["l.mu.Lock()", "p := l.producer", "l.mu.Unlock()", "return p(st)"] ∧
      memoEvaluatedShape = ["l.mu.Lock()", "defer l.mu.Unlock()", "return l.items, l.itemsPresent"] := by decide

theorem memo_cell_written_by_eval_only :
    memoCellWrites = [("Eval", "items", "it"), ("Eval", "itemsPresent", "true"),
      ("Eval", "producer", "createSliceIterable(it)"),
      ("Append", "items", "l.items[:len(l.items):len(l.items)]")] ∧
    memoCellMentions.all (fun m => ["iterable", "evaluated", "Eval", "Append"].contains m.1) = true := by decide

end P2.Oblig
