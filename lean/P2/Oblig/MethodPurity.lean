import P2.Generated.MethodPurity
/-! Obligation over the regenerated facts about the purity of method calls (Tie 1, C02, repair 8aa887a).

The model counts `recv.name(args)` as pure only if `cfg.methNamePure name` (`P2.Lang.Opt.pureA`); `P2.C02Lang.pinned_impure_method_closure_not_constant`
shows that without it a closure calling an impure host method is a constant (and is executed during Generate when it is applied to
constants). In the code this is the third conjunct of the purity `GenerateFunc` returns for a method call, asked from the method
handler, which for the value language looks at the `IsPure` flags of the method tables of all types. -/
namespace P2.Oblig
open P2.Generated

theorem method_call_purity_from_name :
    methodCallPurityAsksHandler = true ∧ valueImplementsIsMethodPure = true ∧ methodCallPurity ≠ "fPure && aPure" := by decide

end P2.Oblig
