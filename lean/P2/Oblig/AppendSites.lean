import P2.Generated.AppendSites
/-! Obligation over the regenerated construction sites of `AppendMap` (Tie 1, C13).

`P2.MapSt` proves that putting one key in front of a parent storage preserves "keys are unique" only when the parent does not have the
key (`reachable_wf` goes through the guarded `put`; `P2.C13.pinned_*` show what an unguarded wrapper does). In the Go code three places
build an `AppendMap`: `Map.PutM` and the two closures of `createLowPass` (the second kind was unguarded until repair da223be:
`createLowPass("x", …).initial({t:0, x:5})` = `{x:5, t:0, x:5}`). Every site - also one that is added later - has to be behind a
key-presence check on the parent; the sites of today are found (a table that lost its rows would pass vacuously). -/
namespace P2.Oblig
open P2.Generated

theorem append_sites_guarded : appendMapSites.all (·.2) = true := by decide

theorem append_sites_found :
    appendMapSites.any (fun s => s.1 == "map.go|Map.PutM") = true ∧
      (appendMapSites.filter (fun s => s.1 == "value.go|createLowPass$lit")).length = 2 := by decide

end P2.Oblig
