import Proto.PrecCore
/-! C04.2 prototype: the fuel `(|toks|+1)·(n+3)` always suffices for the precedence parser:
    it never answers `fuel`, and what it leaves over is never longer than its input. -/
namespace PC

/-- the measure: c·(len+1) − k, with c = n+3 -/
def W (t : Table) (ts : List Tok) : Nat := (ts.length + 1) * (t.n + 3)

theorem W_cons (t : Table) (x : Tok) (ts : List Tok) : W t (x :: ts) = W t ts + (t.n + 3) := by
  simp [W, Nat.succ_mul]

theorem W_mono (t : Table) {a b : List Tok} (h : a.length ≤ b.length) : W t a ≤ W t b := by
  unfold W; exact Nat.mul_le_mul_right _ (by omega)

def Good (ts : List Tok) (r : R) : Prop :=
  r ≠ .fuel ∧ ∀ e rest, r = .ok e rest → rest.length ≤ ts.length

theorem Good.err (ts : List Tok) : Good ts .err := ⟨by simp, by intro _ _ h; cases h⟩
theorem Good.ok (ts : List Tok) (e : E) (rest : List Tok) (h : rest.length ≤ ts.length) : Good ts (.ok e rest) :=
  ⟨by simp, by intro _ _ h'; cases h'; exact h⟩
theorem Good.weaken {a b : List Tok} {r : R} (h : Good a r) (hab : a.length ≤ b.length) : Good b r :=
  ⟨h.1, fun e rest hr => Nat.le_trans (h.2 e rest hr) hab⟩

theorem fuel_enough (t : Table) : ∀ f,
    (∀ k ts, k ≤ t.n + 1 → W t ts - k ≤ f → Good ts (entry t f k ts)) ∧
    (∀ k o a ts, k < t.n → W t ts - k - 1 ≤ f → Good ts (loop t f k o a ts)) := by
  intro f
  induction f with
  | zero =>
    refine ⟨fun k ts hk hf => ?_, fun k o a ts hk hf => ?_⟩
    · have : t.n + 3 ≤ W t ts := by unfold W; exact Nat.le_mul_of_pos_left _ (by omega)
      omega
    · have : t.n + 3 ≤ W t ts := by unfold W; exact Nat.le_mul_of_pos_left _ (by omega)
      omega
  | succ f ih =>
    obtain ⟨ihE, ihL⟩ := ih
    refine ⟨fun k ts hk hf => ?_, fun k o a ts hk hf => ?_⟩
    · -- entry
      simp only [entry]
      by_cases hkn : k < t.n
      · simp only [hkn, if_true]
        cases ho : t.ops[k]? with
        | none => exact Good.err ts
        | some o =>
          simp only
          have h1 := ihE (k+1) ts (by omega) (by omega)
          cases hr : entry t f (k+1) ts with
          | fuel => exact absurd hr h1.1
          | err => exact Good.err ts
          | ok a rest =>
            simp only
            have hlen := h1.2 a rest hr
            have := W_mono t hlen
            exact (ihL k o a rest hkn (by omega)).weaken hlen
      · simp only [hkn, if_false]
        by_cases hke : k = t.n
        · simp only [hke, if_true]
          have hskip : Good ts (entry t f (t.n+1) ts) := ihE (t.n+1) ts (Nat.le_refl _) (by omega)
          match ts, hf, hskip with
          | [], _, hskip => exact hskip
          | .atom _ :: _, _, hskip => exact hskip
          | .lp :: _, _, hskip => exact hskip
          | .rp :: _, _, hskip => exact hskip
          | .op s :: rest, hf, hskip =>
            simp only
            by_cases hs : s ∈ t.unary
            · simp only [hs, if_true]
              rw [W_cons] at hf
              cases hp : t.pos s with
              | some i =>
                simp only
                have hi : i < t.n := by
                  unfold Table.pos at hp
                  have : ∀ (l : List String) (o : String) (k : Nat), posOf l o = some k → k < l.length := by
                    intro l
                    induction l with
                    | nil => intro o k h; simp [posOf] at h
                    | cons x xs ih =>
                      intro o k h
                      simp only [posOf] at h
                      split at h
                      · cases h; simp
                      · cases hx : posOf xs o with
                        | none => simp [hx] at h
                        | some j => simp [hx] at h; subst h; have := ih o j hx; simp; omega
                  exact this _ _ _ hp
                have h1 := ihE (i+1) rest (by omega) (by omega)
                cases hr : entry t f (i+1) rest with
                | fuel => exact absurd hr h1.1
                | err => exact Good.err _
                | ok a rest' => exact Good.ok _ _ _ (by have := h1.2 a rest' hr; simp; omega)
              | none =>
                simp only
                have h1 := ihE (t.n+1) rest (Nat.le_refl _) (by omega)
                cases hr : entry t f (t.n+1) rest with
                | fuel => exact absurd hr h1.1
                | err => exact Good.err _
                | ok a rest' => exact Good.ok _ _ _ (by have := h1.2 a rest' hr; simp; omega)
            · simp only [hs, if_false]; exact hskip
        · simp only [hke, if_false]
          have hk' : k = t.n + 1 := by omega
          match ts, hf with
          | [], _ => exact Good.err _
          | .atom s :: rest, _ => exact Good.ok _ _ _ (by simp)
          | .op _ :: _, _ => exact Good.err _
          | .rp :: _, _ => exact Good.err _
          | .lp :: rest, hf =>
            simp only
            rw [W_cons] at hf
            have h1 := ihE 0 rest (by omega) (by omega)
            cases hr : entry t f 0 rest with
            | fuel => exact absurd hr h1.1
            | err => exact Good.err _
            | ok e rest' =>
              have hlen := h1.2 e rest' hr
              match rest', hlen with
              | [], _ => exact Good.err _
              | .rp :: r2, hlen => exact Good.ok _ _ _ (by simp at hlen ⊢; omega)
              | .lp :: _, _ => exact Good.err _
              | .atom _ :: _, _ => exact Good.err _
              | .op _ :: _, _ => exact Good.err _
    · -- loop
      simp only [loop]
      match ts, hf with
      | [], _ => exact Good.ok _ _ _ (Nat.le_refl _)
      | .atom _ :: _, _ => exact Good.ok _ _ _ (Nat.le_refl _)
      | .lp :: _, _ => exact Good.ok _ _ _ (Nat.le_refl _)
      | .rp :: _, _ => exact Good.ok _ _ _ (Nat.le_refl _)
      | .op s :: rest, hf =>
        simp only
        by_cases hs : s = o
        · simp only [hs, if_true]
          rw [W_cons] at hf
          have h1 := ihE (k+1) rest (by omega) (by omega)
          cases hr : entry t f (k+1) rest with
          | fuel => exact absurd hr h1.1
          | err => exact Good.err _
          | ok b rest' =>
            simp only
            have hlen := h1.2 b rest' hr
            have := W_mono t hlen
            exact (ihL k o (.bin o a b) rest' hk (by omega)).weaken (by simp; omega)
        · simp only [hs, if_false]; exact Good.ok _ _ _ (Nat.le_refl _)

/-- C04.2 (core): with fuel (|toks|+1)·(n+3) the parser never runs out of fuel -/
theorem parse_fuel_enough (t : Table) (ts : List Tok) : entry t (W t ts) 0 ts ≠ .fuel :=
  ((fuel_enough t (W t ts)).1 0 ts (by omega) (by omega)).1

#print axioms parse_fuel_enough
end PC
