/-! C01 prototype with closures: reference semantics (environments) vs compiled semantics
    (stack slots + closure context), lock-step fuel, errors, recursion via self slot. -/
namespace Clo

inductive AST where
  | const (v : Int)
  | ident (name : String)
  | letE (name : String) (val inner : AST)
  | add (a b : AST)
  | ifz (c t e : AST)
  | clos (names : List String) (body : AST) (outer : List String) (recursive : Bool) (this : String)
  | call (f : AST) (args : List AST)

inductive Code where
  | const (v : Int)
  | stk (i : Nat)
  | cs (i : Nat)
  | letE (val inner : Code)
  | add (a b : Code)
  | ifz (c t e : Code)
  | clos (nargs : Nat) (body : Code) (capture : List (Bool × Nat)) (recursive : Bool)
  | call (f : Code) (args : List Code)

inductive SVal where                      -- values of the reference semantics
  | int (i : Int)
  | clos (names : List String) (body : AST) (env : List (String × SVal)) (recursive : Bool) (this : String)

inductive RVal where                      -- values of the compiled semantics
  | int (i : Int)
  | clos (nargs : Nat) (body : Code) (ctx : List RVal) (recursive : Bool)

abbrev Env := List (String × SVal)
def Env.get : Env → String → Option SVal
  | [], _ => none
  | (n, v) :: rest, x => if n = x then some v else Env.get rest x

inductive Res (α : Type) where
  | ok (a : α) | err | fuel

instance : Monad Res where
  pure := .ok
  bind x f := match x with | .ok a => f a | .err => .err | .fuel => .fuel

@[simp] theorem Res.bind_ok {α β} (a : α) (f : α → Res β) : (Res.ok a >>= f) = f a := rfl
@[simp] theorem Res.bind_err {α β} (f : α → Res β) : ((Res.err : Res α) >>= f) = .err := rfl
@[simp] theorem Res.bind_fuel {α β} (f : α → Res β) : ((Res.fuel : Res α) >>= f) = .fuel := rfl
@[simp] theorem Res.pure_eq {α} (a : α) : (pure a : Res α) = .ok a := rfl

def ofOpt {α} : Option α → Res α | some a => .ok a | none => .err

/-! reference semantics -/
def bindParams : List String → List SVal → Env
  | n :: ns, v :: vs => (n, v) :: bindParams ns vs
  | _, _ => []

mutual
def eval : Nat → AST → Env → Res SVal
  | 0, _, _ => .fuel
  | n+1, a, env =>
    match a with
    | .const v => .ok (.int v)
    | .ident x => ofOpt (env.get x)
    | .letE x v i => do let xv ← eval n v env; eval n i ((x, xv) :: env)
    | .add a b => do
        let x ← eval n a env
        let y ← eval n b env
        match x, y with
        | .int i, .int j => .ok (.int (i + j))
        | _, _ => .err
    | .ifz c t e => do
        let cv ← eval n c env
        match cv with
        | .int i => if i = 0 then eval n t env else eval n e env
        | _ => .err
    | .clos names body _ r this => .ok (.clos names body env r this)
    | .call f args => do
        let fv ← eval n f env
        match fv with
        | .clos names body cenv r this =>
          if names.length ≠ args.length then .err else do
          let vs ← evalArgs n args env
          eval n body (bindParams names vs ++ (if r then [(this, fv)] else []) ++ cenv)
        | _ => .err
def evalArgs : Nat → List AST → Env → Res (List SVal)
  | 0, _, _ => .fuel
  | _+1, [], _ => .ok []
  | n+1, a :: as, env => do let v ← eval n a env; let vs ← evalArgs n as env; .ok (v :: vs)
end

/-! compiler (with the pushed-argument accounting) -/
abbrev Names := List (Option String)
def idx : Names → String → Option Nat
  | [], _ => none
  | x :: xs, n => if x = some n then some 0 else (idx xs n).map (· + 1)
def idxS : List String → String → Option Nat
  | [], _ => none
  | x :: xs, n => if x = n then some 0 else (idxS xs n).map (· + 1)

def captureOf (am : Names) (cm : List String) : List String → Option (List (Bool × Nat))
  | [] => some []
  | x :: xs => do
    let c ← match idx am x with
      | some i => some (true, i)
      | none => (idxS cm x).map (false, ·)
    let cs ← captureOf am cm xs
    pure (c :: cs)

mutual
def gen : AST → Names → List String → Option Code
  | .const v, _, _ => some (.const v)
  | .ident x, am, cm =>
    match idx am x with
    | some i => some (.stk i)
    | none => (idxS cm x).map .cs
  | .letE x v i, am, cm => do
      if (idx am x).isSome then none else
      let cv ← gen v am cm
      let ci ← gen i (am ++ [some x]) cm
      pure (.letE cv ci)
  | .add a b, am, cm => do let ca ← gen a am cm; let cb ← gen b am cm; pure (.add ca cb)
  | .ifz c t e, am, cm => do
      let cc ← gen c am cm; let ct ← gen t am cm; let ce ← gen e am cm; pure (.ifz cc ct ce)
  | .clos names body outer r this, am, cm => do
      let cb ← gen body (names.map some) (outer ++ (if r then [this] else []))
      let cap ← captureOf am cm outer
      pure (.clos names.length cb cap r)
  | .call f args, am, cm => do
      let cf ← gen f am cm
      let cas ← genArgs args am cm
      pure (.call cf cas)
def genArgs : List AST → Names → List String → Option (List Code)
  | [], _, _ => some []
  | a :: as, am, cm => do
      let c ← gen a am cm
      let cs ← genArgs as (am ++ [none]) cm
      pure (c :: cs)
end

/-! compiled semantics -/
structure Stack where
  data : List RVal
  offs : Nat
  size : Nat

def setAt (d : List RVal) (n : Nat) (v : RVal) : List RVal :=
  if n < d.length then d.set n v else d ++ [v]

def Stack.push (s : Stack) (v : RVal) : Stack :=
  { s with data := setAt s.data (s.offs + s.size) v, size := s.size + 1 }

def readCapture (st : Stack) (cs : List RVal) : List (Bool × Nat) → Option (List RVal)
  | [] => some []
  | (true, i) :: rest => do let v ← st.data[st.offs + i]?; let vs ← readCapture st cs rest; pure (v :: vs)
  | (false, j) :: rest => do let v ← cs[j]?; let vs ← readCapture st cs rest; pure (v :: vs)

mutual
def exec : Nat → Code → Stack → List RVal → Res (RVal × List RVal)
  | 0, _, _, _ => .fuel
  | n+1, c, st, cs =>
    match c with
    | .const v => .ok (.int v, st.data)
    | .stk i => do let v ← ofOpt (st.data[st.offs + i]?); .ok (v, st.data)
    | .cs j => do let v ← ofOpt (cs[j]?); .ok (v, st.data)
    | .letE v i => do
        let (x, d) ← exec n v st cs
        exec n i ({ st with data := d }.push x) cs
    | .add a b => do
        let (x, d) ← exec n a st cs
        let (y, d) ← exec n b { st with data := d } cs
        match x, y with
        | .int i, .int j => .ok (.int (i + j), d)
        | _, _ => .err
    | .ifz c t e => do
        let (cv, d) ← exec n c st cs
        match cv with
        | .int i => if i = 0 then exec n t { st with data := d } cs else exec n e { st with data := d } cs
        | _ => .err
    | .clos na body cap r => do
        let ctx ← ofOpt (readCapture st cs cap)
        .ok (.clos na body ctx r, st.data)
    | .call f args => do
        let (fv, d) ← exec n f st cs
        match fv with
        | .clos na body ctx r =>
          if na ≠ args.length then .err else do
          let st' ← execArgs n args { st with data := d } cs
          let frame : Stack := { data := st'.data, offs := st'.offs + st'.size - na, size := na }
          exec n body frame (ctx ++ (if r then [fv] else []))
        | _ => .err
def execArgs : Nat → List Code → Stack → List RVal → Res Stack
  | 0, _, _, _ => .fuel
  | _+1, [], st, _ => .ok st
  | n+1, a :: as, st, cs => do
      let (v, d) ← exec n a st cs
      execArgs n as ({ st with data := d }.push v) cs
end

/-! demo: func fact-like recursion  sum(n) = if n=0 then 0 else n + sum(n + -1);  let k = 10; sum(k) + (x -> x + k)(5) -/
def demo : AST :=
  .letE "k" (.const 10)
   (.letE "sum" (.clos ["n"] (.ifz (.ident "n") (.const 0)
        (.add (.ident "n") (.call (.ident "sum") [.add (.ident "n") (.const (-1))]))) [] true "sum")
     (.add (.call (.ident "sum") [.ident "k"])
           (.call (.clos ["x"] (.add (.ident "x") (.ident "k")) ["k"] false "") [.const 5])))

def showS : Res SVal → String | .ok (.int i) => s!"{i}" | .ok _ => "clos" | .err => "err" | .fuel => "fuel"
def showR : Res (RVal × List RVal) → String | .ok (.int i, _) => s!"{i}" | .ok _ => "clos" | .err => "err" | .fuel => "fuel"
#eval showS (eval 100 demo [])
#eval match gen demo [] [] with | some c => showR (exec 100 c ⟨[], 0, 0⟩ []) | none => "generr"
end Clo
