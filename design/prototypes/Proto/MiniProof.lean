import Proto.Mini
namespace Mini

structure EnvRel (am : Names) (env : Env) (st : Stack) : Prop where
  size : st.size = am.length
  bound : st.offs + st.size ≤ st.data.length
  slots : ∀ i n, idx am n = some i → env.get n = st.data[st.offs + i]?

def Preserves (st : Stack) (d : List Int) : Prop :=
  st.data.length ≤ d.length ∧ ∀ j, j < st.offs + st.size → d[j]? = st.data[j]?

theorem Preserves.refl (st : Stack) : Preserves st st.data := ⟨Nat.le_refl _, fun _ _ => rfl⟩

theorem setAt_length_ge (d : List Int) (n v) : d.length ≤ (setAt d n v).length := by
  unfold setAt; split <;> simp

theorem setAt_length_gt (d : List Int) (n v) (h : n ≤ d.length) : n < (setAt d n v).length := by
  unfold setAt; split <;> simp <;> omega

theorem setAt_get_lt (d : List Int) (n v j) (h : j < n) (hn : n ≤ d.length) : (setAt d n v)[j]? = d[j]? := by
  unfold setAt; split
  · simp [List.getElem?_set]; omega
  · simp [List.getElem?_append]; intro h2; omega

theorem setAt_get_eq (d : List Int) (n v) (h : n ≤ d.length) : (setAt d n v)[n]? = some v := by
  unfold setAt; split
  · rename_i hn; simp [hn]
  · have : n = d.length := by omega
    subst this; simp

theorem idx_lt : ∀ {am : Names} {n i}, idx am n = some i → i < am.length
  | [], _, _, h => by simp [idx] at h
  | x :: xs, n, i, h => by
    simp only [idx] at h
    split at h
    · cases h; simp
    · cases hx : idx xs n with
      | none => simp [hx] at h
      | some j => simp [hx] at h; subst h; have := idx_lt hx; simp; omega

theorem idx_append : ∀ (am : Names) (x : Option String) (n : String),
    idx (am ++ [x]) n = match idx am n with
      | some i => some i
      | none => if x = some n then some am.length else none
  | [], x, n => by simp [idx]
  | y :: ys, x, n => by
    simp only [List.cons_append, idx]
    split
    · rfl
    · rw [idx_append ys x n]
      cases idx ys n with
      | some i => simp
      | none => simp

theorem EnvRel.push {am env st} (h : EnvRel am env st) (d : List Int) (hp : Preserves st d) (v : Int)
    (x : Option String) (env' : Env)
    (henv : ∀ n, x ≠ some n → env'.get n = env.get n)
    (hnew : ∀ n, x = some n → idx am n = none ∧ env'.get n = some v) :
    EnvRel (am ++ [x]) env' ({ st with data := d }.push v) := by
  obtain ⟨hs, hb, hsl⟩ := h
  obtain ⟨hlen, hkeep⟩ := hp
  refine ⟨by simp [Stack.push, hs], ?_, ?_⟩
  · simp only [Stack.push]
    have := setAt_length_gt d (st.offs + st.size) v (by omega)
    omega
  · intro i n hi
    rw [idx_append] at hi
    simp only [Stack.push]
    cases hx : idx am n with
    | some j =>
      simp [hx] at hi; subst hi
      have hlt := idx_lt hx
      have hne : x ≠ some n := by
        intro hxe; have := (hnew n hxe).1; simp [this] at hx
      rw [henv n hne, hsl j n hx, setAt_get_lt _ _ _ _ (by omega) (by omega)]
      exact (hkeep _ (by omega)).symm
    | none =>
      simp [hx] at hi
      obtain ⟨hxe, hi⟩ := hi
      subst hi
      rw [(hnew n hxe).2, ← hs, setAt_get_eq _ _ _ (by omega)]

end Mini

namespace Mini
theorem Preserves.trans {st : Stack} {d d' : List Int} (h1 : Preserves st d)
    (h2 : Preserves { st with data := d } d') : Preserves st d' :=
  ⟨Nat.le_trans h1.1 h2.1, fun j hj => (h2.2 j hj).trans (h1.2 j hj)⟩

theorem EnvRel.withData {am env st} (h : EnvRel am env st) (d) (hp : Preserves st d) :
    EnvRel am env { st with data := d } :=
  ⟨h.size, Nat.le_trans h.bound hp.1, fun i n hi => by
    rw [h.slots i n hi]; exact (hp.2 _ (by have := idx_lt hi; have := h.size; omega)).symm⟩

theorem Env.get_cons_ne (env : Env) (n m : String) (x : Int) (h : n ≠ m) : Env.get ((n, x) :: env) m = Env.get env m := by
  have : (n == m) = false := by simpa using h
  simp [Env.get, List.find?, this]
theorem Env.get_cons_eq (env : Env) (n : String) (x : Int) : Env.get ((n, x) :: env) n = some x := by
  simp [Env.get, List.find?]

mutual
theorem gen_correct : ∀ (a : AST) (am : Names) (env : Env) (st : Stack) (c : Code),
    gen true a am = some c → EnvRel am env st →
    ∃ v d, eval a env = some v ∧ exec c st = some (v, d) ∧ Preserves st d
  | .const v, am, env, st, c, hg, hr => by
    simp [gen] at hg; subst hg
    exact ⟨v, st.data, by simp [eval], by simp [exec], Preserves.refl st⟩
  | .ident n, am, env, st, c, hg, hr => by
    simp [gen] at hg
    obtain ⟨i, hi, rfl⟩ := hg
    have hlt := idx_lt hi
    have hb := hr.bound; have hs := hr.size
    have hget : st.offs + i < st.data.length := by omega
    refine ⟨st.data[st.offs + i], st.data, ?_, ?_, Preserves.refl st⟩
    · simp [eval, hr.slots i n hi, List.getElem?_eq_getElem hget]
    · simp [exec, List.getElem?_eq_getElem hget]
  | .letE n v i, am, env, st, c, hg, hr => by
    simp only [gen] at hg
    split at hg
    · cases hg
    · rename_i hfresh
      cases hcv : gen true v am with
      | none => simp [hcv] at hg
      | some cv =>
        cases hci : gen true i (am ++ [some n]) with
        | none => simp [hcv, hci] at hg
        | some ci =>
          simp [hcv, hci] at hg; subst hg
          obtain ⟨x, d, hev, hex, hp⟩ := gen_correct v am env st cv hcv hr
          have hr' : EnvRel (am ++ [some n]) ((n, x) :: env) ({ st with data := d }.push x) :=
            hr.push d hp x (some n) _
              (fun m hne => Env.get_cons_ne env n m x (by intro h; exact hne (by rw [h])))
              (fun m hm => by
                cases hm
                refine ⟨?_, Env.get_cons_eq env n x⟩
                cases hidx : idx am n with
                | none => rfl
                | some j => simp [hidx] at hfresh)
          obtain ⟨y, d', hev', hex', hp'⟩ := gen_correct i _ _ _ ci hci hr'
          refine ⟨y, d', by simp [eval, hev, hev'], by simp [exec, hex, hex'], ?_⟩
          refine ⟨?_, ?_⟩
          · have := hp'.1; simp only [Stack.push] at this
            have := setAt_length_ge d (st.offs + st.size) x; have := hp.1; omega
          · intro j hj
            have h1 := hp'.2 j (by simp [Stack.push]; omega)
            simp only [Stack.push] at h1
            rw [h1, setAt_get_lt _ _ _ _ hj (by have := hp.1; have := hr.bound; omega)]
            exact hp.2 j hj
  | .add a b, am, env, st, c, hg, hr => by
    simp only [gen] at hg
    cases hca : gen true a am with
    | none => simp [hca] at hg
    | some ca =>
      cases hcb : gen true b am with
      | none => simp [hca, hcb] at hg
      | some cb =>
        simp [hca, hcb] at hg; subst hg
        obtain ⟨x, d, hev, hex, hp⟩ := gen_correct a am env st ca hca hr
        obtain ⟨y, d', hev', hex', hp'⟩ := gen_correct b am env _ cb hcb (hr.withData d hp)
        exact ⟨x + y, d', by simp [eval, hev, hev'], by simp [exec, hex, hex'], hp.trans hp'⟩
  | .call args, am, env, st, c, hg, hr => by
    simp only [gen] at hg
    cases hcs : genList true args am 0 with
    | none => simp [hcs] at hg
    | some cs =>
      simp [hcs] at hg; subst hg
      obtain ⟨vs, st', hev, hex, ho, hsz, hp, hfr, hlen⟩ := genList_correct args am env st cs 0 hcs hr
      refine ⟨hostFn vs, st'.data, by simp [eval, hev], ?_, hp⟩
      simp only [exec, hex, Option.bind_eq_bind, Option.bind_some, Option.pure_def, Option.some.injEq, Prod.mk.injEq, and_true]
      congr 1
      rw [hlen, ho, hsz]
      have : st.offs + (st.size + args.length) - args.length = st.offs + st.size := by omega
      rw [this]; exact hfr
theorem genList_correct : ∀ (as : List AST) (am : Names) (env : Env) (st : Stack) (cs : List Code) (k : Nat),
    genList true as am k = some cs → EnvRel am env st →
    ∃ vs st', evalList as env = some vs ∧ execArgs cs st = some st' ∧ st'.offs = st.offs ∧
      st'.size = st.size + as.length ∧ Preserves st st'.data ∧
      (st'.data.drop (st.offs + st.size)).take as.length = vs ∧ cs.length = as.length
  | [], am, env, st, cs, k, hg, hr => by
    simp [genList] at hg; subst hg
    exact ⟨[], st, by simp [evalList], by simp [execArgs], rfl, by simp, Preserves.refl st, by simp, rfl⟩
  | a :: as, am, env, st, cs, k, hg, hr => by
    simp only [genList, if_true] at hg
    cases hc : gen true a am with
    | none => simp [hc] at hg
    | some c =>
      cases hcs : genList true as (am ++ [none]) (k+1) with
      | none => simp [hc, hcs] at hg
      | some cs' =>
        simp [hc, hcs] at hg; subst hg
        obtain ⟨v, d, hev, hex, hp⟩ := gen_correct a am env st c hc hr
        have hr' : EnvRel (am ++ [none]) env ({ st with data := d }.push v) :=
          hr.push d hp v none env (fun _ _ => rfl) (fun _ h => by cases h)
        obtain ⟨vs, st', hev', hex', ho, hsz, hp', hfr, hlen⟩ := genList_correct as _ env _ cs' (k+1) hcs hr'
        have hb := hr.bound; have hp1 := hp.1
        have hpush : Preserves st ({ st with data := d }.push v).data := by
          refine ⟨?_, fun j hj => ?_⟩
          · simp only [Stack.push]; have := setAt_length_ge d (st.offs + st.size) v; omega
          · simp only [Stack.push]; rw [setAt_get_lt _ _ _ _ hj (by omega)]; exact hp.2 j hj
        refine ⟨v :: vs, st', by simp [evalList, hev, hev'], by simp [execArgs, hex, hex'],
          by simpa [Stack.push] using ho, by simp [Stack.push] at hsz; simp [hsz]; omega, ?_, ?_, by simp [hlen]⟩
        · refine ⟨Nat.le_trans hpush.1 hp'.1, fun j hj => ?_⟩
          rw [hp'.2 j (by simp [Stack.push]; omega)]
          exact hpush.2 j hj
        · have htop : st'.data[st.offs + st.size]? = some v := by
            rw [hp'.2 _ (by simp [Stack.push])]
            simp only [Stack.push]
            exact setAt_get_eq _ _ _ (by omega)
          simp only [Stack.push] at hfr
          have hlt : st.offs + st.size < st'.data.length := by
            cases h : st'.data[st.offs + st.size]? with
            | none => simp [h] at htop
            | some _ => exact (List.getElem?_eq_some_iff.mp h).1
          rw [List.drop_eq_getElem_cons hlt, List.length_cons, List.take_succ_cons]
          have : st'.data[st.offs + st.size] = v := by
            simpa [List.getElem?_eq_getElem hlt] using htop
          rw [this]
          congr 1
end
end Mini
#print axioms Mini.gen_correct
