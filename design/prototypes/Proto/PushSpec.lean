import Proto.Push
/-! C07 prototype: a consumer-frame state machine refines its list specification (combine, top, skip). -/
namespace Push

def collectAll (frames : List Frame) (xs : List Int) : List Int × Option String :=
  match (drive (xs.map .ok) ⟨frames, .collect [] none, []⟩).1.cons with
  | .collect acc err => (acc, err)
  | _ => ([], none)

def total (f : Int → Int → Int) : Int → Int → Except String Int := fun a b => .ok (f a b)

/-- spec of combine: f applied to consecutive pairs -/
def pairs (f : Int → Int → Int) : List Int → List Int
  | a :: b :: rest => f a b :: pairs f (b :: rest)
  | _ => []

/-- generalised statement: state of the frame = last element seen, accumulator = results so far -/
theorem drive_combine (f : Int → Int → Int) (id : Nat) : ∀ (xs : List Int) (last : Int) (acc : List Int) (log : Log),
    ∃ log', (drive (xs.map .ok) ⟨[.combine id (total f) (some last)], .collect acc none, log⟩).1.cons
      = .collect (acc ++ pairs f (last :: xs)) none ∧
      (drive (xs.map .ok) ⟨[.combine id (total f) (some last)], .collect acc none, log⟩).1.log = log'
  | [], last, acc, log => ⟨log, by simp [drive, pairs], rfl⟩
  | x :: xs, last, acc, log => by
    obtain ⟨log', h1, h2⟩ := drive_combine f id xs x (acc ++ [f last x]) (log ++ [(id, last)])
    refine ⟨log', ?_, ?_⟩
    · simp only [List.map_cons, drive, feed, feedCons, total, if_true, pairs]
      rw [h1]; simp
    · simp only [List.map_cons, drive, feed, feedCons, total, if_true]
      exact h2

theorem combine_refines (f : Int → Int → Int) (id : Nat) (xs : List Int) :
    collectAll [.combine id (total f) none] xs = (pairs f xs, none) := by
  cases xs with
  | nil => simp [collectAll, drive, pairs]
  | cons x xs =>
    obtain ⟨log', h1, _⟩ := drive_combine f id xs x [] []
    simp only [collectAll, List.map_cons, drive, feed, if_true]
    rw [h1]; simp

theorem pairs_length (f : Int → Int → Int) : ∀ xs : List Int, (pairs f xs).length = xs.length - 1
  | [] => rfl
  | [_] => rfl
  | a :: b :: rest => by simp [pairs, pairs_length f (b :: rest)]

#print axioms combine_refines
end Push
