import Proto.Clo
namespace Clo

-- closure literals are annotated consistently: the function's own name is not an outer identifier
mutual
def WA : AST → Prop
  | .const _ => True
  | .ident _ => True
  | .letE _ v i => WA v ∧ WA i
  | .add a b => WA a ∧ WA b
  | .ifz c t e => WA c ∧ WA t ∧ WA e
  | .clos _ body outer r this => WA body ∧ (r = true → idxS outer this = none)
  | .call f args => WA f ∧ WAs args
def WAs : List AST → Prop
  | [] => True
  | a :: as => WA a ∧ WAs as
end

mutual
inductive VRel : SVal → RVal → Prop
  | int (i : Int) : VRel (.int i) (.int i)
  | clos {names : List String} {body : AST} {env : Env} {r : Bool} {this : String}
      {outer : List String} {code : Code} {ctx : List RVal} :
      gen body (names.map some) (outer ++ (if r then [this] else [])) = some code →
      WA body →
      (r = true → idxS outer this = none) →
      CtxRel env outer ctx →
      VRel (.clos names body env r this) (.clos names.length code ctx r)
inductive CtxRel : Env → List String → List RVal → Prop
  | nil {env : Env} : CtxRel env [] []
  | cons {env : Env} {name : String} {outer : List String} {sv : SVal} {rv : RVal} {ctx : List RVal} :
      env.get name = some sv → VRel sv rv → CtxRel env outer ctx →
      CtxRel env (name :: outer) (rv :: ctx)
end

def Preserves (st : Stack) (d : List RVal) : Prop :=
  st.data.length ≤ d.length ∧ ∀ j, j < st.offs + st.size → d[j]? = st.data[j]?

theorem Preserves.refl (st : Stack) : Preserves st st.data := ⟨Nat.le_refl _, fun _ _ => rfl⟩
theorem Preserves.trans {st : Stack} {d d' : List RVal} (h1 : Preserves st d)
    (h2 : Preserves { st with data := d } d') : Preserves st d' :=
  ⟨Nat.le_trans h1.1 h2.1, fun j hj => (h2.2 j hj).trans (h1.2 j hj)⟩

structure EnvRel (am : Names) (cm : List String) (env : Env) (st : Stack) (cs : List RVal) : Prop where
  size : st.size = am.length
  bound : st.offs + st.size ≤ st.data.length
  slots : ∀ x i, idx am x = some i → ∃ sv rv, env.get x = some sv ∧ st.data[st.offs + i]? = some rv ∧ VRel sv rv
  cslots : ∀ x j, idx am x = none → idxS cm x = some j →
    ∃ sv rv, env.get x = some sv ∧ cs[j]? = some rv ∧ VRel sv rv

def ORel (st : Stack) : Res SVal → Res (RVal × List RVal) → Prop
  | .ok sv, .ok (rv, d) => VRel sv rv ∧ Preserves st d
  | .err, .err => True
  | .fuel, .fuel => True
  | _, _ => False

def ORelArgs (st : Stack) (k : Nat) : Res (List SVal) → Res Stack → Prop
  | .ok vs, .ok st' => st'.offs = st.offs ∧ st'.size = st.size + k ∧ Preserves st st'.data ∧ vs.length = k ∧
      ∀ j, j < k → ∃ sv rv, vs[j]? = some sv ∧ st'.data[st.offs + st.size + j]? = some rv ∧ VRel sv rv
  | .err, .err => True
  | .fuel, .fuel => True
  | _, _ => False

/-! storage lemmas -/
theorem setAt_length_ge (d : List RVal) (n v) : d.length ≤ (setAt d n v).length := by
  unfold setAt; split <;> simp
theorem setAt_length_gt (d : List RVal) (n v) (h : n ≤ d.length) : n < (setAt d n v).length := by
  unfold setAt; split <;> simp <;> omega
theorem setAt_get_lt (d : List RVal) (n v j) (h : j < n) (hn : n ≤ d.length) : (setAt d n v)[j]? = d[j]? := by
  unfold setAt; split
  · simp [List.getElem?_set]; omega
  · simp [List.getElem?_append]; intro h2; omega
theorem setAt_get_eq (d : List RVal) (n v) (h : n ≤ d.length) : (setAt d n v)[n]? = some v := by
  unfold setAt; split
  · rename_i hn; simp [hn]
  · have : n = d.length := by omega
    subst this; simp

theorem idx_lt : ∀ {am : Names} {n i}, idx am n = some i → i < am.length
  | [], _, _, h => by simp [idx] at h
  | x :: xs, n, i, h => by
    simp only [idx] at h
    split at h
    · cases h; simp
    · cases hx : idx xs n with
      | none => simp [hx] at h
      | some j => simp [hx] at h; subst h; have := idx_lt hx; simp; omega

theorem idx_append : ∀ (am : Names) (x : Option String) (n : String),
    idx (am ++ [x]) n = match idx am n with
      | some i => some i
      | none => if x = some n then some am.length else none
  | [], x, n => by simp [idx]
  | y :: ys, x, n => by
    simp only [List.cons_append, idx]
    split
    · rfl
    · rw [idx_append ys x n]
      cases idx ys n with
      | some i => simp
      | none => simp

theorem Preserves.push {st : Stack} {d : List RVal} (hp : Preserves st d) (hb : st.offs + st.size ≤ st.data.length)
    (v : RVal) : Preserves st ({ st with data := d }.push v).data := by
  refine ⟨?_, fun j hj => ?_⟩
  · simp only [Stack.push]; have := setAt_length_ge d (st.offs + st.size) v; have := hp.1; omega
  · simp only [Stack.push]; rw [setAt_get_lt _ _ _ _ hj (by have := hp.1; omega)]; exact hp.2 j hj

theorem EnvRel.withData {am cm env st cs} (h : EnvRel am cm env st cs) (d) (hp : Preserves st d) :
    EnvRel am cm env { st with data := d } cs :=
  ⟨h.size, Nat.le_trans h.bound hp.1, fun x i hi => by
    obtain ⟨sv, rv, h1, h2, h3⟩ := h.slots x i hi
    refine ⟨sv, rv, h1, ?_, h3⟩
    rw [← h2]; exact hp.2 _ (by have := idx_lt hi; have := h.size; show st.offs + i < st.offs + st.size; omega), h.cslots⟩

theorem EnvRel.push {am cm env st cs} (h : EnvRel am cm env st cs) (d : List RVal) (hp : Preserves st d)
    (v : RVal) (x : Option String) (env' : Env)
    (henv : ∀ n, x ≠ some n → env'.get n = env.get n)
    (hnew : ∀ n, x = some n → idx am n = none ∧ ∃ sv, env'.get n = some sv ∧ VRel sv v) :
    EnvRel (am ++ [x]) cm env' ({ st with data := d }.push v) cs := by
  obtain ⟨hs, hb, hsl, hcs⟩ := h
  obtain ⟨hlen, hkeep⟩ := hp
  refine ⟨by simp [Stack.push, hs], ?_, ?_, ?_⟩
  · simp only [Stack.push]
    have := setAt_length_gt d (st.offs + st.size) v (by omega)
    omega
  · intro n i hi
    rw [idx_append] at hi
    simp only [Stack.push]
    cases hx : idx am n with
    | some j =>
      simp [hx] at hi; subst hi
      have hlt := idx_lt hx
      have hne : x ≠ some n := by
        intro hxe; have := (hnew n hxe).1; simp [this] at hx
      obtain ⟨sv, rv, h1, h2, h3⟩ := hsl n j hx
      refine ⟨sv, rv, by rw [henv n hne, h1], ?_, h3⟩
      rw [setAt_get_lt _ _ _ _ (by omega) (by omega), hkeep _ (by omega), h2]
    | none =>
      simp [hx] at hi
      obtain ⟨hxe, hi⟩ := hi
      subst hi
      obtain ⟨_, sv, h1, h2⟩ := hnew n hxe
      exact ⟨sv, v, h1, by rw [← hs]; exact setAt_get_eq _ _ _ (by omega), h2⟩
  · intro n j hi hj
    rw [idx_append] at hi
    cases hx : idx am n with
    | some j' => simp [hx] at hi
    | none =>
      simp [hx] at hi
      obtain ⟨sv, rv, h1, h2, h3⟩ := hcs n j hx hj
      exact ⟨sv, rv, by rw [henv n hi, h1], h2, h3⟩

end Clo

namespace Clo

theorem Env.get_append : ∀ (a b : Env) (x : String),
    Env.get (a ++ b) x = match Env.get a x with | some v => some v | none => Env.get b x
  | [], b, x => by simp [Env.get]
  | (n, v) :: rest, b, x => by
    simp only [List.cons_append, Env.get]
    split
    · rfl
    · exact Env.get_append rest b x

theorem idxS_lt : ∀ {l : List String} {x j}, idxS l x = some j → j < l.length
  | [], _, _, h => by simp [idxS] at h
  | y :: ys, x, j, h => by
    simp only [idxS] at h
    split at h
    · cases h; simp
    · cases hx : idxS ys x with
      | none => simp [hx] at h
      | some j' => simp [hx] at h; subst h; have := idxS_lt hx; simp; omega

theorem idxS_append : ∀ (a b : List String) (x : String),
    idxS (a ++ b) x = match idxS a x with
      | some i => some i
      | none => (idxS b x).map (· + a.length)
  | [], b, x => by simp [idxS]
  | y :: ys, b, x => by
    simp only [List.cons_append, idxS]
    split
    · rfl
    · rw [idxS_append ys b x]
      cases idxS ys x with
      | some i => simp
      | none => cases idxS b x <;> simp; omega

theorem bindParams_get : ∀ (names : List String) (vs : List SVal) (x : String), names.length = vs.length →
    match idx (names.map some) x with
    | some i => Env.get (bindParams names vs) x = vs[i]? ∧ i < vs.length
    | none => Env.get (bindParams names vs) x = none
  | [], [], x, _ => by simp [idx, bindParams, Env.get]
  | n :: ns, v :: vs, x, h => by
    simp only [List.map_cons, idx, bindParams, Env.get]
    by_cases hn : n = x
    · simp [hn]
    · have hn' : ¬ (some n = some x) := by simpa using hn
      simp only [hn, hn', if_false]
      have ih := bindParams_get ns vs x (by simpa using h)
      cases hi : idx (ns.map some) x with
      | some i => simp [hi] at ih ⊢; exact ⟨ih.1, by omega⟩
      | none => simp [hi] at ih ⊢; exact ih
  | [], _ :: _, _, h => by simp at h
  | _ :: _, [], _, h => by simp at h

theorem CtxRel.length : ∀ {env outer ctx}, CtxRel env outer ctx → ctx.length = outer.length
  | _, _, _, .nil => rfl
  | _, _, _, .cons _ _ h => by simp [CtxRel.length h]

theorem CtxRel.lookup : ∀ {env outer ctx}, CtxRel env outer ctx → ∀ {x j}, idxS outer x = some j →
    ∃ sv rv, env.get x = some sv ∧ ctx[j]? = some rv ∧ VRel sv rv
  | _, _, _, .nil, x, j, h => by simp [idxS] at h
  | _, _, _, .cons (name := name) (outer := outer) h1 h2 h3, x, j, h => by
    simp only [idxS] at h
    by_cases hn : name = x
    · subst hn; simp at h; subst h
      exact ⟨_, _, h1, by simp, h2⟩
    · simp only [hn, if_false] at h
      cases hx : idxS outer x with
      | none => simp [hx] at h
      | some j' =>
        simp [hx] at h; subst h
        obtain ⟨sv, rv, a, b, c⟩ := CtxRel.lookup h3 hx
        exact ⟨sv, rv, a, by simpa using b, c⟩

theorem capture_sound {am cm env st cs} (h : EnvRel am cm env st cs) : ∀ (outer : List String) (cap),
    captureOf am cm outer = some cap → ∃ ctx, readCapture st cs cap = some ctx ∧ CtxRel env outer ctx
  | [], cap, hc => by simp [captureOf] at hc; subst hc; exact ⟨[], rfl, .nil⟩
  | x :: xs, cap, hc => by
    simp only [captureOf] at hc
    cases hi : idx am x with
    | some i =>
      simp only [hi, Option.bind_eq_bind, Option.bind_some] at hc
      cases hr : captureOf am cm xs with
      | none => simp [hr] at hc
      | some cap' =>
        simp [hr] at hc; subst hc
        obtain ⟨ctx, h1, h2⟩ := capture_sound h xs cap' hr
        obtain ⟨sv, rv, a, b, c⟩ := h.slots x i hi
        exact ⟨rv :: ctx, by simp [readCapture, b, h1], .cons a c h2⟩
    | none =>
      simp only [hi] at hc
      cases hj : idxS cm x with
      | none => simp [hj] at hc
      | some j =>
        cases hr : captureOf am cm xs with
        | none => simp [hj, hr] at hc
        | some cap' =>
          simp [hj, hr] at hc; subst hc
          obtain ⟨ctx, h1, h2⟩ := capture_sound h xs cap' hr
          obtain ⟨sv, rv, a, b, c⟩ := h.cslots x j hi hj
          exact ⟨rv :: ctx, by simp [readCapture, b, h1], .cons a c h2⟩

theorem genArgs_length : ∀ (as : List AST) (am cm codes), genArgs as am cm = some codes → codes.length = as.length
  | [], _, _, codes, h => by simp [genArgs] at h; subst h; rfl
  | a :: as, am, cm, codes, h => by
    simp only [genArgs] at h
    cases hc : gen a am cm with
    | none => simp [hc] at h
    | some c =>
      cases hcs : genArgs as (am ++ [none]) cm with
      | none => simp [hc, hcs] at h
      | some cs => simp [hc, hcs] at h; subst h; simp [genArgs_length as _ _ cs hcs]

end Clo

namespace Clo

theorem ORel.cases {st : Stack} {r1 : Res SVal} {r2 : Res (RVal × List RVal)} (h : ORel st r1 r2) :
    (∃ sv rv d, r1 = .ok sv ∧ r2 = .ok (rv, d) ∧ VRel sv rv ∧ Preserves st d) ∨
    (r1 = .err ∧ r2 = .err) ∨ (r1 = .fuel ∧ r2 = .fuel) := by
  cases r1 <;> cases r2 <;> simp [ORel] at h ⊢
  rename_i sv p; obtain ⟨rv, d⟩ := p
  exact ⟨rv, d, rfl, h⟩

theorem ORelArgs.cases {st : Stack} {k : Nat} {r1 : Res (List SVal)} {r2 : Res Stack} (h : ORelArgs st k r1 r2) :
    (∃ vs st', r1 = .ok vs ∧ r2 = .ok st' ∧ st'.offs = st.offs ∧ st'.size = st.size + k ∧ Preserves st st'.data ∧
      vs.length = k ∧ ∀ j, j < k → ∃ sv rv, vs[j]? = some sv ∧ st'.data[st.offs + st.size + j]? = some rv ∧ VRel sv rv) ∨
    (r1 = .err ∧ r2 = .err) ∨ (r1 = .fuel ∧ r2 = .fuel) := by
  cases r1 <;> cases r2 <;> simp [ORelArgs] at h ⊢
  exact h

theorem ORel.weaken {st st2 : Stack} {r1 r2} (h : ORel st2 r1 r2) (hw : ∀ d, Preserves st2 d → Preserves st d) :
    ORel st r1 r2 := by
  rcases h.cases with ⟨sv, rv, d, h1, h2, hv, hp⟩ | ⟨h1, h2⟩ | ⟨h1, h2⟩ <;> subst h1 <;> subst h2 <;> simp [ORel]
  exact ⟨hv, hw d hp⟩

theorem Preserves.of_push {st : Stack} {d d' : List RVal} {v : RVal} (hp : Preserves st d)
    (hb : st.offs + st.size ≤ st.data.length)
    (h : Preserves ({ st with data := d }.push v) d') : Preserves st d' := by
  have h0 := hp.push hb v
  refine ⟨Nat.le_trans h0.1 h.1, fun j hj => ?_⟩
  rw [h.2 j (by simp [Stack.push]; omega)]
  exact h0.2 j hj

theorem main : ∀ n,
    (∀ a am cm env st cs code, WA a → gen a am cm = some code → EnvRel am cm env st cs →
      ORel st (eval n a env) (exec n code st cs)) ∧
    (∀ as am cm env st cs codes, WAs as → genArgs as am cm = some codes → EnvRel am cm env st cs →
      ORelArgs st as.length (evalArgs n as env) (execArgs n codes st cs)) := by
  intro n
  induction n with
  | zero => exact ⟨fun _ _ _ _ _ _ _ _ _ _ => by simp [eval, exec, ORel],
                   fun _ _ _ _ _ _ _ _ _ _ => by simp [evalArgs, execArgs, ORelArgs]⟩
  | succ n ih =>
    obtain ⟨ihE, ihA⟩ := ih
    refine ⟨?_, ?_⟩
    · intro a am cm env st cs code hwa hg hr
      cases a with
      | const v =>
        simp [gen] at hg; subst hg
        simp [eval, exec, ORel]; exact ⟨.int v, Preserves.refl st⟩
      | ident x =>
        simp only [gen] at hg
        cases hi : idx am x with
        | some i =>
          simp [hi] at hg; subst hg
          obtain ⟨sv, rv, h1, h2, h3⟩ := hr.slots x i hi
          simp [eval, exec, h1, h2, ofOpt, ORel]; exact ⟨h3, Preserves.refl st⟩
        | none =>
          simp [hi] at hg
          obtain ⟨j, hj, rfl⟩ := hg
          obtain ⟨sv, rv, h1, h2, h3⟩ := hr.cslots x j hi hj
          simp [eval, exec, h1, h2, ofOpt, ORel]; exact ⟨h3, Preserves.refl st⟩
      | letE x v i =>
        simp only [gen] at hg
        split at hg
        · cases hg
        · rename_i hfresh
          cases hcv : gen v am cm with
          | none => simp [hcv] at hg
          | some cv =>
            cases hci : gen i (am ++ [some x]) cm with
            | none => simp [hcv, hci] at hg
            | some ci =>
              simp [hcv, hci] at hg; subst hg
              rcases (ihE v am cm env st cs cv hwa.1 hcv hr).cases with ⟨sv, rv, d, h1, h2, hv, hp⟩ | ⟨h1, h2⟩ | ⟨h1, h2⟩
              · simp only [eval, exec, h1, h2, Res.bind_ok]
                have hr' : EnvRel (am ++ [some x]) cm ((x, sv) :: env) ({ st with data := d }.push rv) cs :=
                  hr.push d hp rv (some x) _
                    (fun m hne => by simp only [Env.get]; rw [if_neg (by intro h; exact hne (by rw [h]))])
                    (fun m hm => by
                      cases hm
                      refine ⟨?_, sv, by simp [Env.get], hv⟩
                      cases hidx : idx am x with
                      | none => rfl
                      | some j => simp [hidx] at hfresh)
                exact (ihE i _ cm _ _ cs ci hwa.2 hci hr').weaken (fun d' h => Preserves.of_push hp hr.bound h)
              · simp [eval, exec, h1, h2, ORel]
              · simp [eval, exec, h1, h2, ORel]
      | add a b =>
        simp only [gen] at hg
        cases hca : gen a am cm with
        | none => simp [hca] at hg
        | some ca =>
          cases hcb : gen b am cm with
          | none => simp [hca, hcb] at hg
          | some cb =>
            simp [hca, hcb] at hg; subst hg
            rcases (ihE a am cm env st cs ca hwa.1 hca hr).cases with ⟨sv, rv, d, h1, h2, hv, hp⟩ | ⟨h1, h2⟩ | ⟨h1, h2⟩
            · rcases (ihE b am cm env _ cs cb hwa.2 hcb (hr.withData d hp)).cases with ⟨sv', rv', d', h1', h2', hv', hp'⟩ | ⟨h1', h2'⟩ | ⟨h1', h2'⟩
              · simp only [eval, exec, h1, h2, h1', h2', Res.bind_ok]
                cases hv <;> cases hv' <;> simp [ORel]
                exact ⟨.int _, hp.trans hp'⟩
              · simp [eval, exec, h1, h2, h1', h2', ORel]
              · simp [eval, exec, h1, h2, h1', h2', ORel]
            · simp [eval, exec, h1, h2, ORel]
            · simp [eval, exec, h1, h2, ORel]
      | ifz c t e =>
        simp only [gen] at hg
        cases hcc : gen c am cm with
        | none => simp [hcc] at hg
        | some cc =>
          cases hct : gen t am cm with
          | none => simp [hcc, hct] at hg
          | some ct =>
            cases hce : gen e am cm with
            | none => simp [hcc, hct, hce] at hg
            | some ce =>
              simp [hcc, hct, hce] at hg; subst hg
              rcases (ihE c am cm env st cs cc hwa.1 hcc hr).cases with ⟨sv, rv, d, h1, h2, hv, hp⟩ | ⟨h1, h2⟩ | ⟨h1, h2⟩
              · simp only [eval, exec, h1, h2, Res.bind_ok]
                cases hv with
                | int i =>
                  simp only
                  split
                  · exact (ihE t am cm env _ cs ct hwa.2.1 hct (hr.withData d hp)).weaken (fun d' h => hp.trans h)
                  · exact (ihE e am cm env _ cs ce hwa.2.2 hce (hr.withData d hp)).weaken (fun d' h => hp.trans h)
                | clos _ _ _ _ => simp [ORel]
              · simp [eval, exec, h1, h2, ORel]
              · simp [eval, exec, h1, h2, ORel]
      | clos names body outer r this =>
        simp only [gen] at hg
        cases hcb : gen body (names.map some) (outer ++ (if r then [this] else [])) with
        | none => simp [hcb] at hg
        | some cb =>
          cases hcap : captureOf am cm outer with
          | none => simp [hcb, hcap] at hg
          | some cap =>
            simp [hcb, hcap] at hg; subst hg
            obtain ⟨ctx, hrc, hctx⟩ := capture_sound hr outer cap hcap
            simp [eval, exec, hrc, ofOpt, ORel]
            exact ⟨.clos hcb hwa.1 hwa.2 hctx, Preserves.refl st⟩
      | call f args =>
        simp only [gen] at hg
        cases hcf : gen f am cm with
        | none => simp [hcf] at hg
        | some cf =>
          cases hcas : genArgs args am cm with
          | none => simp [hcf, hcas] at hg
          | some cas =>
            simp [hcf, hcas] at hg; subst hg
            have hlenc := genArgs_length args am cm cas hcas
            rcases (ihE f am cm env st cs cf hwa.1 hcf hr).cases with ⟨sv, rv, d, h1, h2, hv, hp⟩ | ⟨h1, h2⟩ | ⟨h1, h2⟩
            · cases hv with
              | int i => simp [eval, exec, h1, h2, ORel]
              | @clos names body cenv r this outer code ctx hgen hwab hthis hctx =>
                simp only [eval, exec, h1, h2, Res.bind_ok, hlenc]
                by_cases harity : names.length = args.length
                · have hne : ¬ (names.length ≠ args.length) := by simp [harity]
                  simp only [hne, if_false]
                  rcases (ihA args am cm env _ cs cas hwa.2 hcas (hr.withData d hp)).cases with ⟨vs, st', h1', h2', ho, hsz, hp', hlen, hfr⟩ | ⟨h1', h2'⟩ | ⟨h1', h2'⟩
                  · simp only [h1', h2', Res.bind_ok]
                    simp only at ho hsz hp' hfr
                    have hb := hr.bound
                    have hoffs : st'.offs + st'.size - names.length = st.offs + st.size := by rw [ho, hsz]; omega
                    rw [hoffs]
                    -- the callee's frame and its environment
                    have hbound : st.offs + st.size + args.length ≤ st'.data.length := by
                      cases hk : args.length with
                      | zero => have := hp'.1; have := hp.1; simp at *; omega
                      | succ k =>
                        obtain ⟨_, rv', _, a2, _⟩ := hfr k (by omega)
                        have := (List.getElem?_eq_some_iff.mp a2).1
                        omega
                    have hrel : EnvRel (names.map some) (outer ++ (if r then [this] else []))
                        (bindParams names vs ++ (if r then [(this, SVal.clos names body cenv r this)] else []) ++ cenv)
                        { data := st'.data, offs := st.offs + st.size, size := names.length }
                        (ctx ++ (if r then [RVal.clos names.length code ctx r] else [])) := by
                      refine ⟨by simp, by simpa [harity] using hbound, ?_, ?_⟩
                      · intro x i hi
                        have hbp := bindParams_get names vs x (by omega)
                        rw [hi] at hbp
                        obtain ⟨hget, hilt⟩ := hbp
                        obtain ⟨sv', rv', a1, a2, a3⟩ := hfr i (by omega)
                        refine ⟨sv', rv', ?_, a2, a3⟩
                        rw [List.append_assoc, Env.get_append, hget, a1]
                      · intro x j hi hj
                        have hbp := bindParams_get names vs x (by omega)
                        rw [hi] at hbp
                        rw [idxS_append] at hj
                        have hcl := hctx.length
                        cases hjo : idxS outer x with
                        | some j0 =>
                          simp [hjo] at hj; subst hj
                          obtain ⟨sv', rv', a1, a2, a3⟩ := hctx.lookup hjo
                          have hne : ¬ (r = true ∧ this = x) := by
                            rintro ⟨hr1, rfl⟩; rw [hthis hr1] at hjo; cases hjo
                          refine ⟨sv', rv', ?_, ?_, a3⟩
                          · rw [List.append_assoc, Env.get_append, hbp, Env.get_append]
                            have : Env.get (if r then [(this, SVal.clos names body cenv r this)] else []) x = none := by
                              by_cases hr1 : r = true
                              · simp only [hr1, if_true, Env.get]
                                rw [if_neg (fun h => hne ⟨hr1, h⟩)]
                              · simp [hr1, Env.get]
                            simp only [this, a1]
                          · have := idxS_lt hjo
                            rw [List.getElem?_append_left (by omega)]; exact a2
                        | none =>
                          simp only [hjo] at hj
                          by_cases hr1 : r = true
                          · simp only [hr1, if_true, idxS] at hj ⊢
                            by_cases hx : this = x
                            · subst hx
                              simp at hj; subst hj
                              refine ⟨_, _, ?_, ?_, .clos hgen hwab hthis hctx⟩
                              · rw [List.append_assoc, Env.get_append, hbp]
                                simp [Env.get, hr1]
                              · rw [← hcl]; simp [hr1]
                            · simp [hx] at hj
                          · simp [hr1, idxS] at hj
                    refine (ihE body _ _ _ _ _ code hwab hgen hrel).weaken (fun d' h => ?_)
                    refine ⟨?_, fun j hj => ?_⟩
                    · have := h.1; have := hp'.1; have := hp.1; simp at *; omega
                    · rw [h.2 j (by simp; omega)]
                      simp only
                      rw [hp'.2 j (by simpa using hj)]
                      exact hp.2 j hj
                  · simp [h1', h2', ORel]
                  · simp [h1', h2', ORel]
                · simp [harity, ORel]
            · simp [eval, exec, h1, h2, ORel]
            · simp [eval, exec, h1, h2, ORel]
    · intro as am cm env st cs codes hwa hg hr
      cases as with
      | nil =>
        simp [genArgs] at hg; subst hg
        simp [evalArgs, execArgs, ORelArgs]
        exact Preserves.refl st
      | cons a as =>
        simp only [genArgs] at hg
        cases hc : gen a am cm with
        | none => simp [hc] at hg
        | some c =>
          cases hcs : genArgs as (am ++ [none]) cm with
          | none => simp [hc, hcs] at hg
          | some cs' =>
            simp [hc, hcs] at hg; subst hg
            rcases (ihE a am cm env st cs c hwa.1 hc hr).cases with ⟨sv, rv, d, h1, h2, hv, hp⟩ | ⟨h1, h2⟩ | ⟨h1, h2⟩
            · have hr' : EnvRel (am ++ [none]) cm env ({ st with data := d }.push rv) cs :=
                hr.push d hp rv none env (fun _ _ => rfl) (fun _ h => by cases h)
              rcases (ihA as _ cm env _ cs cs' hwa.2 hcs hr').cases with ⟨vs, st', h1', h2', ho, hsz, hp', hlen, hfr⟩ | ⟨h1', h2'⟩ | ⟨h1', h2'⟩
              · simp only [evalArgs, execArgs, h1, h2, h1', h2', Res.bind_ok, ORelArgs]
                have hb := hr.bound
                refine ⟨by simpa [Stack.push] using ho, by simp [Stack.push] at hsz; simp [hsz]; omega,
                  Preserves.of_push hp hb hp', by simp [hlen], ?_⟩
                intro j hj
                cases j with
                | zero =>
                  refine ⟨sv, rv, by simp, ?_, hv⟩
                  rw [hp'.2 _ (by simp [Stack.push])]
                  simp only [Stack.push, Nat.add_zero]
                  exact setAt_get_eq _ _ _ (by have := hp.1; omega)
                | succ j =>
                  obtain ⟨sv', rv', a1, a2, a3⟩ := hfr j (by simp at hj; omega)
                  refine ⟨sv', rv', by simpa using a1, ?_, a3⟩
                  simp only [Stack.push] at a2
                  rw [← a2]; congr 1; omega
              · simp [evalArgs, execArgs, h1, h2, h1', h2', ORelArgs]
              · simp [evalArgs, execArgs, h1, h2, h1', h2', ORelArgs]
            · simp [evalArgs, execArgs, h1, h2, ORelArgs]
            · simp [evalArgs, execArgs, h1, h2, ORelArgs]

end Clo

namespace Clo
/-- top level: a closed, well-annotated program evaluates the same in both semantics -/
theorem compile_correct (n : Nat) (a : AST) (code : Code) (hwa : WA a) (hg : gen a [] [] = some code) :
    ORel ⟨[], 0, 0⟩ (eval n a []) (exec n code ⟨[], 0, 0⟩ []) :=
  (main n).1 a [] [] [] ⟨[], 0, 0⟩ [] code hwa hg
    ⟨rfl, Nat.le_refl _, fun x i h => by simp [idx] at h, fun x j _ h => by simp [idxS] at h⟩
#print axioms compile_correct
end Clo
