/-! C04/C12/C15 prototype: faithful model of token.go's scanner (state str/isLast/last/line,
    comment skipping inside peek, alias switch, readStr, quoted identifiers, operator detector,
    comfort-mode bookkeeping), over the decoded rune sequence. Rune classes are parameters. -/
namespace Lex

inductive Kind where
  | ident | keyword | open_ | close | openBracket | closeBracket | openCurly | closeCurly
  | dot | comma | colon | semicolon | number | string | operate | invalid
deriving Repr, DecidableEq

structure Token where
  kind : Kind
  image : String
  line : Nat
deriving Repr, DecidableEq

structure Cfg where
  ops : List String                       -- detector set: binary ++ ["=", "->"] ++ unary
  textOps : List (String × String)
  keywords : List String
  comments : Bool
  comfort : Bool
  isLetter : Char → Bool
  isNumber : Char → Bool

def EOFc : Char := Char.ofNat 0
def runeError : Char := Char.ofNat 0xFFFD
def superscripts : List Char := "⁰¹²³⁴⁵⁶⁷⁸⁹".toList

structure S where
  str : List Char
  isLast : Bool
  last : Char
  line : Nat

/-- utf8.DecodeRuneInString on the rune-level model: (rune, width) -/
def decode : List Char → Char × Nat
  | [] => (runeError, 0)
  | c :: _ => (c, 1)

/-- the `//` loop: drop runes up to (not including) LF/CR; returns none when the input ends (peek returns EOF) -/
def skipLine : Nat → List Char → Option (List Char)
  | 0, _ => none
  | f+1, str =>
    let (s, l) := decode str
    if s ≠ '\n' ∧ s ≠ '\r' then
      let str' := str.drop l
      if str'.isEmpty then none else skipLine f str'
    else some str

/-- the `/* */` loop; counts LF; none when the input ends inside (or directly after) the comment -/
def skipBlock : Nat → List Char → Nat → Option (List Char × Nat)
  | 0, _, _ => none
  | f+1, str, line =>
    let (s, l) := decode str
    if s = '*' ∧ str.length > l then
      let (s2, l2) := decode (str.drop l)
      if s2 = '/' then
        let str' := str.drop (l + l2)
        if str'.isEmpty then none else some (str', line)
      else skipBlock f (str.drop l) line
    else
      let line' := if s = '\n' then line + 1 else line
      let str' := str.drop l
      if str'.isEmpty then none else skipBlock f str' line'

def alias (c : Char) : Char :=
  if c = '•' then '*' else if c = '×' then '*' else if c = '÷' then '/' else if c = '–' then '-'
  else if c = 'ˆ' then '^' else c

/-- Tokenizer.peek -/
def peek (cfg : Cfg) (skipComment : Bool) (t : S) : Char × S :=
  if t.isLast then (t.last, t)
  else if t.str.isEmpty then (EOFc, { t with last := EOFc })
  else
    let (c0, size0) := decode t.str
    -- result of the comment branch: either "return EOF" (none) or continue with (str, line, last, size)
    let cont : Option (List Char × Nat × Char × Nat) :=
      if cfg.comments ∧ skipComment ∧ c0 = '/' ∧ t.str.length > size0 then
        let (s, l) := decode (t.str.drop size0)
        if s = '/' then
          match skipLine (t.str.length + 1) (t.str.drop (size0 + l)) with
          | none => none
          | some str' => let (c, sz) := decode str'; some (str', t.line, c, sz)
        else if s = '*' then
          match skipBlock (t.str.length + 1) (t.str.drop (size0 + l)) t.line with
          | none => none
          | some (str', line') => let (c, sz) := decode str'; some (str', line', c, sz)
        else some (t.str, t.line, c0, size0)
      else some (t.str, t.line, c0, size0)
    match cont with
    | none => (EOFc, { t with str := [], last := c0 })      -- stale `last`, isLast stays false; line of skipped LFs is lost only at EOF
    | some (str', line', c, sz) =>
      let c' := alias c
      (c', { str := str'.drop sz, isLast := true, last := c', line := line' })

def consume (cfg : Cfg) (skip : Bool) (t : S) : S :=
  let t' := if !t.isLast then (peek cfg skip t).2 else t
  { t' with isLast := false }

def unread (t : S) : S := { t with isLast := true }

def next (cfg : Cfg) (skip : Bool) (t : S) : Char × S :=
  let (n, t1) := peek cfg skip t
  (n, consume cfg skip t1)

/-- readSkip with a stateful validity predicate (the number matcher remembers the last rune) -/
def readWhile (cfg : Cfg) (skip : Bool) (valid : Char → Char → Bool) : Nat → Char → S → List Char → List Char × S
  | 0, _, t, acc => (acc, t)
  | f+1, prev, t, acc =>
    let (c, t1) := next cfg skip t
    if c ≠ EOFc ∧ valid prev c then readWhile cfg skip valid f c t1 (acc ++ [c])
    else (acc, unread t1)

def numberStart (cfg : Cfg) (c : Char) : Bool := cfg.isNumber c
def numberNext (cfg : Cfg) (prev c : Char) : Bool :=
  (cfg.isNumber c && !superscripts.contains c) || c = '.' || c = 'e' || (prev = 'e' && c = '-') || (prev = 'e' && c = '+')
def identStart (cfg : Cfg) (c : Char) : Bool := cfg.isLetter c || c = '_'
def identNext (cfg : Cfg) (_prev c : Char) : Bool :=
  cfg.isLetter c || (cfg.isNumber c && !superscripts.contains c) || c = '_'

/-- readStr: returns the token and the state -/
def readStr (cfg : Cfg) : Nat → S → List Char → Token × S
  | 0, t, _ => (⟨.invalid, "EOL", t.line⟩, t)
  | f+1, t, acc =>
    let (c, t1) := next cfg false t
    if c = '"' then (⟨.string, String.ofList acc, t1.line⟩, t1)
    else if c = EOFc ∨ c = '\n' ∨ c = '\r' then (⟨.invalid, "EOL", t1.line⟩, t1)
    else if c = '\\' then
      let (i, t2) := next cfg false t1
      let add : List Char :=
        if i = 'n' then ['\n'] else if i = 'r' then ['\r'] else if i = 't' then ['\t']
        else if i = '"' then ['"'] else if i = '\\' then ['\\'] else ['\\', i]
      readStr cfg f t2 (acc ++ add)
    else readStr cfg f t1 (acc ++ [c])

def isPrefixOf (p o : List Char) : Bool := o.take p.length == p
def extends_ (cfg : Cfg) (p : List Char) : Bool := cfg.ops.any fun o => isPrefixOf p o.toList
def member (cfg : Cfg) (p : List Char) : Bool := cfg.ops.any fun o => o.toList == p

/-- parseOperator -/
def opLoop (cfg : Cfg) : Nat → S → List Char → (List Char × Bool) × S
  | 0, t, op => ((op, false), t)
  | f+1, t, op =>
    let (r, t1) := next cfg false t
    if extends_ cfg (op ++ [r]) then opLoop cfg f t1 (op ++ [r])
    else ((op, member cfg op), unread t1)

def parseOperator (cfg : Cfg) (t : S) : (List Char × Bool) × S :=
  let (r, t1) := next cfg false t
  if extends_ cfg [r] then opLoop cfg (t1.str.length + 2) t1 [r]
  else (([r], false), t1)

structure Run where
  lastType : Option Kind      -- tNumber / tIdent / tClose, only in comfort mode
  lastBlank : Bool

def single : List (Char × Kind) :=
  [(')', .close), ('[', .openBracket), (']', .closeBracket), ('{', .openCurly), ('}', .closeCurly),
   ('.', .dot), (':', .colon), (',', .comma), (';', .semicolon)]

def star (t : S) : Token := ⟨.operate, "*", t.line⟩

/-- Tokenizer.run: the list of tokens sent on the channel -/
def run (cfg : Cfg) : Nat → S → Run → List Token → List Token
  | 0, _, _, acc => acc
  | f+1, t, r, acc =>
    let (n, t1) := next cfg true t
    if n = '\n' then run cfg f { t1 with line := t1.line + 1 } { r with lastBlank := true } acc
    else if n = ' ' ∨ n = '\r' ∨ n = '\t' then run cfg f t1 { r with lastBlank := true } acc
    else if n = EOFc then acc
    else if n = '(' then
      let mul := r.lastType = some .number ∨ r.lastType = some .close ∨ (r.lastType = some .ident ∧ r.lastBlank)
      run cfg f t1 ⟨none, false⟩ (acc ++ (if mul then [star t1] else []) ++ [⟨.open_, "(", t1.line⟩])
    else if n = ')' then
      run cfg f t1 ⟨if cfg.comfort then some .close else none, false⟩ (acc ++ [⟨.close, ")", t1.line⟩])
    else match single.lookup n with
    | some k => run cfg f t1 ⟨none, false⟩ (acc ++ [⟨k, String.singleton n, t1.line⟩])
    | none =>
      if n = '"' then
        let (tok, t2) := readStr cfg (t1.str.length + 2) t1 []
        run cfg f t2 ⟨none, false⟩ (acc ++ [tok])
      else if n = '\'' then
        let (img, t2) := readWhile cfg false (fun _ c => c ≠ '\'') (t1.str.length + 2) ' ' t1 []
        let (_, t3) := next cfg false t2
        run cfg f t3 ⟨none, false⟩ (acc ++ [⟨.ident, String.ofList img, t3.line⟩])
      else match superscripts.idxOf? n with
      | some d =>
        run cfg f t1 ⟨none, false⟩ (acc ++ [⟨.operate, "^", t1.line⟩, ⟨.number, toString d, t1.line⟩])
      | none =>
        let t2 := unread t1
        let (c, t3) := peek cfg true t2
        let juxta := r.lastType = some .number ∨ r.lastType = some .ident ∨ r.lastType = some .close
        if numberStart cfg c then
          let (img, t4) := readWhile cfg true (numberNext cfg) (t3.str.length + 2) ' ' t3 []
          run cfg f t4 ⟨if cfg.comfort then some .number else none, false⟩
            (acc ++ (if juxta then [star t3] else []) ++ [⟨.number, String.ofList img, t4.line⟩])
        else if identStart cfg c then
          let (img, t4) := readWhile cfg true (identNext cfg) (t3.str.length + 2) ' ' t3 []
          let image := String.ofList img
          match cfg.textOps.lookup image with
          | some o => run cfg f t4 ⟨none, false⟩ (acc ++ [⟨.operate, o, t4.line⟩])
          | none =>
            if cfg.keywords.contains image then run cfg f t4 ⟨none, false⟩ (acc ++ [⟨.keyword, image, t4.line⟩])
            else run cfg f t4 ⟨if cfg.comfort then some .ident else none, false⟩
              (acc ++ (if juxta then [star t4] else []) ++ [⟨.ident, image, t4.line⟩])
        else
          let ((op, ok), t4) := parseOperator cfg t3
          run cfg f t4 ⟨none, false⟩ (acc ++ [⟨if ok then .operate else .invalid, String.ofList op, t4.line⟩])

def tokenize (cfg : Cfg) (src : String) : List Token :=
  run cfg (src.length + 2) ⟨src.toList, false, ' ', 1⟩ ⟨none, false⟩ []

/-- ASCII-only classes for the prototype -/
def valueCfg (comments comfort : Bool) : Cfg :=
  { ops := ["|","&","=","!=","~","<",">","<=",">=","+","-","<<",">>","*","%","/","^","=","->","-","!"],
    textOps := [], keywords := ["let","func","if","then","else","switch","case","default","const","try","catch"],
    comments := comments, comfort := comfort,
    isLetter := fun c => c.isAlpha, isNumber := fun c => c.isDigit || superscripts.contains c }

def show_ (ts : List Token) : String := " ".intercalate (ts.map fun t => s!"{t.image}@{t.line}")
#eval show_ (tokenize (valueCfg true false) "1 +/*a*/ 2")
#eval show_ (tokenize (valueCfg true false) "1 /*a*//*b*/ + 2")
#eval show_ (tokenize (valueCfg true false) "1 + /*a*/ 2 // rest")
#eval show_ (tokenize (valueCfg true false) "x/*\n\n*/+1")
#eval show_ (tokenize (valueCfg true false) "x /*\n\n*/+1")
#eval show_ (tokenize (valueCfg true false) "1 + 2/*x")
#eval show_ (tokenize (valueCfg false false) "\"a\\\\b\\n\" 'a//b' a<=b a<<=b x²")
#eval show_ (tokenize (valueCfg false true) "2a 2 a a(2) a (2) (a)(2) 2(a)")
end Lex
