import Proto.Heap
namespace Heap

def spareOf (s : Slice) : List Nat := (List.range (s.cap - s.len)).map (· + s.off + s.len)
def visible (s : Slice) (p : Nat) : Bool := decide (s.off ≤ p) && decide (p < s.off + s.len)

def invB (h : H) : Bool :=
  let n := h.objs.length
  -- I1 bounds
  (h.objs.all fun s => decide (s.arr < h.arrays.length) && decide (s.len ≤ s.cap) &&
      decide (s.off + s.cap ≤ (h.arrayOf s.arr).length)) &&
  -- I2 spare slots are invisible everywhere; I3 spare ranges of distinct objects are disjoint
  ((List.range n).all fun i => (List.range n).all fun j =>
    match h.objs[i]?, h.objs[j]? with
    | some s1, some s2 =>
      if s1.arr = s2.arr then
        (spareOf s1).all (fun p => !visible s2 p) &&
        (i == j || (spareOf s1).all (fun p => !(spareOf s2).contains p))
      else true
    | _, _ => true)

/-- all op sequences of a given length over a small alphabet -/
def opsAlphabet (nh : Nat) : List Op :=
  [.lit [1,2], .lit [], .evalLazy [3,4] 2, .evalLazy [] 1] ++
  (List.range nh).flatMap fun hd =>
    [.append hd 9 0, .append hd 8 2, .set hd 0 7, .sub hd 0 1, .sub hd 1 2]

def allSeqs : Nat → Nat → List (List Op)
  | 0, _ => [[]]
  | n+1, nh => (allSeqs n nh).flatMap fun s => (opsAlphabet (min nh (s.length))).map fun o => s ++ [o]

/-- check on one sequence: invariant after every step, and every existing handle keeps its observation -/
def checkSeq (ops : List Op) : Bool :=
  let rec go (h : H) : List Op → Bool
    | [] => true
    | o :: os =>
      let h' := step h o
      invB h' && (h.obs == h'.obs.take h.obs.length) && go h' os
  go ⟨[], []⟩ ops

#eval (allSeqs 4 4).length
#eval ((allSeqs 4 4).filter (fun s => !checkSeq s)).length
#eval (allSeqs 5 3).length
#eval ((allSeqs 5 3).filter (fun s => !checkSeq s)).length
end Heap
