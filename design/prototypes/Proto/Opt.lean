/-! C02 prototype: the binary-operator rules of optimizer.go (fold, the two regrouping rules) on an
    expression language with abstract values; soundness under per-operator laws, errors included. -/
namespace Opt

variable {V : Type}

inductive E (V : Type) where
  | const (v : V)
  | var (x : String)
  | op (o : String) (a b : E V)

structure Table (V : Type) where
  sem : String → V → V → Option V          -- none = the operator returns an error
  pure : String → Bool
  comm : String → Bool

def eval (t : Table V) (env : String → Option V) : E V → Option V
  | .const v => some v
  | .var x => env x
  | .op o a b => do let x ← eval t env a; let y ← eval t env b; t.sem o x y

/-- optimizer.Optimize for an Operate node whose children are already optimised -/
def rule (t : Table V) : E V → E V
  | .op o a (.const bc) =>
    match a with
    | .const ac =>
      if t.pure o then
        match t.sem o ac bc with
        | some co => .const co
        | none => .op o a (.const bc)
      else .op o a (.const bc)            -- (a constant `a` is never an Operate, so no regrouping)
    | .op o' (.const iac) x =>
      if t.comm o ∧ o' = o then
        match t.sem o iac bc with
        | some co => .op o (.const co) x
        | none => .op o a (.const bc)
      else .op o a (.const bc)
    | .op o' x (.const ibc) =>
      if t.comm o ∧ o' = o then
        match t.sem o ibc bc with
        | some co => .op o x (.const co)
        | none => .op o a (.const bc)
      else .op o a (.const bc)
    | _ => .op o a (.const bc)
  | e => e

/-- children first, then the node (parser2.Optimize / opt) -/
def optimize (t : Table V) : E V → E V
  | .op o a b => rule t (.op o (optimize t a) (optimize t b))
  | e => e

/-- what the regrouping rules need from an operator flagged commutative: both laws, on all values,
    error behaviour included (the flag alone promises neither) -/
structure Laws (t : Table V) : Prop where
  left : ∀ o, t.comm o = true → ∀ c1 c2 co, t.sem o c1 c2 = some co →
    ∀ x, (t.sem o c1 x).bind (fun y => t.sem o y c2) = t.sem o co x
  right : ∀ o, t.comm o = true → ∀ c1 c2 co, t.sem o c1 c2 = some co →
    ∀ x, (t.sem o x c1).bind (fun y => t.sem o y c2) = t.sem o x co

theorem rule_sound (t : Table V) (hl : Laws t) (env : String → Option V) (e : E V) :
    eval t env (rule t e) = eval t env e := by
  unfold rule
  split
  · rename_i o a bc
    split
    · rename_i ac
      split
      · split
        · rename_i co hco; simp [eval, hco]
        · rfl
      · rfl
    · rename_i o' iac x
      split
      · rename_i hc
        obtain ⟨hc1, hc2⟩ := hc; subst hc2
        split
        · rename_i co hco
          simp only [eval, Option.bind_eq_bind, Option.bind_some]
          cases hx : eval t env x with
          | none => simp
          | some xv =>
            have := hl.left o' hc1 iac bc co hco xv
            simp only [Option.bind_some]
            exact this.symm
        · rfl
      · rfl
    · rename_i o' x ibc hnot
      split
      · rename_i hc
        obtain ⟨hc1, hc2⟩ := hc; subst hc2
        split
        · rename_i co hco
          simp only [eval, Option.bind_eq_bind, Option.bind_some]
          cases hx : eval t env x with
          | none => simp
          | some xv =>
            have := hl.right o' hc1 ibc bc co hco xv
            simp only [Option.bind_some]
            exact this.symm
        · rfl
      · rfl
    · rfl
  · rfl

theorem optimize_sound (t : Table V) (hl : Laws t) (env : String → Option V) :
    ∀ e : E V, eval t env (optimize t e) = eval t env e
  | .const _ => rfl
  | .var _ => rfl
  | .op o a b => by
    simp only [optimize]
    rw [rule_sound t hl env]
    simp only [eval, optimize_sound t hl env a, optimize_sound t hl env b]

/-! the float example of the repository: `=` on {0,1}-valued numbers is flagged commutative -/
def minimalEq : Table Int :=
  { sem := fun o a b => if o = "=" then some (if a = b then 1 else 0) else none,
    pure := fun _ => true, comm := fun o => o = "=" }

-- (2 = a) = 1  with a = 2: the optimizer's answer differs (a test on one input, by evaluation)
def w : E Int := .op "=" (.op "=" (.const 2) (.var "a")) (.const 1)
example : eval minimalEq (fun _ => some 2) (optimize minimalEq w) ≠ eval minimalEq (fun _ => some 2) w := by decide
-- consequently the flag violates the laws
example : ¬ Laws minimalEq := fun h => by
  have := h.left "=" rfl 2 1 0 (by decide) 2
  revert this; decide

#print axioms optimize_sound
end Opt
