/-! Prototype: slot discipline of GenerateFunc for let + call-argument pushing. -/
namespace Mini

inductive AST where
  | const (v : Int)
  | ident (name : String)
  | letE (name : String) (val inner : AST)
  | add (a b : AST)
  | call (args : List AST)          -- static n-ary function: sums args weighted by position
deriving Repr

inductive Code where
  | const (v : Int)
  | stk (i : Nat)
  | letE (val inner : Code)
  | add (a b : Code)
  | call (args : List Code)
deriving Repr

/-- the host function: depends on position so that argument mix-ups are visible -/
def hostFn : List Int → Int
  | [] => 0
  | x :: xs => x + 10 * hostFn xs

abbrev Env := List (String × Int)
def Env.get (e : Env) (n : String) : Option Int := (e.find? (·.1 == n)).map (·.2)

-- reference semantics
mutual
def eval : AST → Env → Option Int
  | .const v, _ => some v
  | .ident n, env => env.get n
  | .letE n v i, env => do let x ← eval v env; eval i ((n, x) :: env)
  | .add a b, env => do let x ← eval a env; let y ← eval b env; pure (x + y)
  | .call args, env => do let vs ← evalList args env; pure (hostFn vs)
def evalList : List AST → Env → Option (List Int)
  | [], _ => some []
  | a :: as, env => do let v ← eval a env; let vs ← evalList as env; pure (v :: vs)
end

abbrev Names := List (Option String)   -- none = anonymous slot (a pushed call argument)
def idx : Names → String → Option Nat
  | [], _ => none
  | x :: xs, n => if x = some n then some 0 else (idx xs n).map (· + 1)

-- compile, parameterised by whether pushed args are accounted for (fixed) or not (HEAD)
mutual
def gen (fixed : Bool) : AST → Names → Option Code
  | .const v, _ => some (.const v)
  | .ident n, am => (idx am n).map .stk
  | .letE n v i, am => do
      if (idx am n).isSome then none else
      let cv ← gen fixed v am
      let ci ← gen fixed i (am ++ [some n])
      pure (.letE cv ci)
  | .add a b, am => do let ca ← gen fixed a am; let cb ← gen fixed b am; pure (.add ca cb)
  | .call args, am => do let cs ← genList fixed args am 0; pure (.call cs)
def genList (fixed : Bool) : List AST → Names → Nat → Option (List Code)
  | [], _, _ => some []
  | a :: as, am, k => do
      let c ← gen fixed a am
      let cs ← genList fixed as (if fixed then am ++ [none] else am) (k+1)   -- dummy name for the pushed arg
      pure (c :: cs)
end

structure Stack where
  data : List Int
  offs : Nat
  size : Nat
deriving Repr

def setAt (d : List Int) (n : Nat) (v : Int) : List Int :=
  if n < d.length then d.set n v else d ++ [v]   -- n = length: append (n > length cannot happen under the invariant)

def Stack.push (s : Stack) (v : Int) : Stack :=
  { s with data := setAt s.data (s.offs + s.size) v, size := s.size + 1 }

mutual
def exec : Code → Stack → Option (Int × List Int)
  | .const v, st => some (v, st.data)
  | .stk i, st => (st.data[st.offs + i]?).map (·, st.data)
  | .letE v i, st => do
      let (x, d) ← exec v st
      exec i ({ st with data := d }.push x)
  | .add a b, st => do
      let (x, d) ← exec a st
      let (y, d) ← exec b { st with data := d }
      pure (x + y, d)
  | .call args, st => do
      let st' ← execArgs args st
      let n := args.length
      let frame := (st'.data.drop (st'.offs + st'.size - n)).take n
      pure (hostFn frame, st'.data)
def execArgs : List Code → Stack → Option Stack
  | [], st => some st
  | a :: as, st => do
      let (v, d) ← exec a st
      execArgs as ({ st with data := d }.push v)
end

def run (fixed : Bool) (a : AST) (args : List (String × Int)) : Option Int := do
  let c ← gen fixed a (args.map (some ·.1))
  let (v, _) ← exec c ⟨args.map (·.2), 0, args.length⟩
  pure v

-- max(a, a+1, let x=a*10; x)-like witness:  call [a, let x = a+100; x]
def witness : AST := .call [.ident "a", .letE "x" (.add (.ident "a") (.const 100)) (.ident "x")]
#eval (run false witness [("a", 3)], run true witness [("a", 3)], eval witness [("a", 3)])

theorem head_model_violates : run false witness [("a", 3)] ≠ eval witness [("a", 3)] := by decide
theorem fixed_model_agrees : run true witness [("a", 3)] = eval witness [("a", 3)] := by decide
end Mini
