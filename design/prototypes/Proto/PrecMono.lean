import Proto.PrecProof
import Proto.PrecFuel
/-! fuel monotonicity for the parser (via open recursion), and the round trip for the concrete fuel. -/
namespace PC

/-- one unfolding of `entry`, with the recursive calls abstracted -/
def entryBody (t : Table) (En : Nat → List Tok → R) (Lp : Nat → String → E → List Tok → R)
    (k : Nat) (ts : List Tok) : R :=
  if k < t.n then
    match t.ops[k]? with
    | none => .err
    | some o =>
      match En (k+1) ts with
      | .ok a rest => Lp k o a rest
      | r => r
  else if k = t.n then
    match ts with
    | .op s :: rest =>
      if s ∈ t.unary then
        match t.pos s with
        | some i => match En (i+1) rest with
          | .ok a rest' => .ok (.un s a) rest'
          | r => r
        | none => match En (t.n+1) rest with
          | .ok a rest' => .ok (.un s a) rest'
          | r => r
      else En (t.n+1) ts
    | _ => En (t.n+1) ts
  else
    match ts with
    | .atom s :: rest => .ok (.atom s) rest
    | .lp :: rest =>
      match En 0 rest with
      | .ok e (.rp :: rest') => .ok e rest'
      | .ok _ _ => .err
      | r => r
    | _ => .err

def loopBody (En : Nat → List Tok → R) (Lp : Nat → String → E → List Tok → R)
    (k : Nat) (o : String) (a : E) (ts : List Tok) : R :=
  match ts with
  | .op s :: rest =>
    if s = o then
      match En (k+1) rest with
      | .ok b rest' => Lp k o (.bin o a b) rest'
      | r => r
    else .ok a ts
  | _ => .ok a ts

theorem entry_succ (t : Table) (f k : Nat) (ts : List Tok) :
    entry t (f+1) k ts = entryBody t (entry t f) (loop t f) k ts := by
  simp only [entry, entryBody]
  repeat' split
  all_goals first | rfl | (simp_all; done) | (simp_all; grind) | grind

theorem loop_succ (t : Table) (f k : Nat) (o : String) (a : E) (ts : List Tok) :
    loop t (f+1) k o a ts = loopBody (entry t f) (loop t f) k o a ts := by
  simp only [loop, loopBody]
  repeat' split
  all_goals first | rfl | (simp_all; done) | (simp_all; grind) | grind

/-- bodies are monotone in their recursive calls -/
theorem entryBody_mono (t : Table) {En En' : Nat → List Tok → R} {Lp Lp' : Nat → String → E → List Tok → R}
    (hE : ∀ k ts, En k ts ≠ .fuel → En' k ts = En k ts)
    (hL : ∀ k o a ts, Lp k o a ts ≠ .fuel → Lp' k o a ts = Lp k o a ts)
    (k : Nat) (ts : List Tok) (h : entryBody t En Lp k ts ≠ .fuel) :
    entryBody t En' Lp' k ts = entryBody t En Lp k ts := by
  unfold entryBody at h ⊢
  by_cases hkn : k < t.n
  · simp only [hkn, if_true] at h ⊢
    cases ho : t.ops[k]? with
    | none => rfl
    | some o =>
      simp only [ho] at h ⊢
      cases hr : En (k+1) ts with
      | fuel => simp [hr] at h
      | err => rw [hE _ _ (by simp [hr]), hr]
      | ok a rest =>
        rw [hE _ _ (by simp [hr]), hr]
        simp only [hr] at h ⊢
        exact hL k o a rest h
  · simp only [hkn, if_false] at h ⊢
    by_cases hke : k = t.n
    · simp only [hke, if_true] at h ⊢
      match ts, h with
      | [], h => exact hE _ _ h
      | .atom _ :: _, h => exact hE _ _ h
      | .lp :: _, h => exact hE _ _ h
      | .rp :: _, h => exact hE _ _ h
      | .op s :: rest, h =>
        simp only at h ⊢
        by_cases hs : s ∈ t.unary
        · simp only [hs, if_true] at h ⊢
          cases hp : t.pos s with
          | some i =>
            simp only [hp] at h ⊢
            cases hr : En (i+1) rest with
            | fuel => simp [hr] at h
            | err => rw [hE _ _ (by simp [hr]), hr]
            | ok a rest' => rw [hE _ _ (by simp [hr]), hr]
          | none =>
            simp only [hp] at h ⊢
            cases hr : En (t.n+1) rest with
            | fuel => simp [hr] at h
            | err => rw [hE _ _ (by simp [hr]), hr]
            | ok a rest' => rw [hE _ _ (by simp [hr]), hr]
        · simp only [hs, if_false] at h ⊢
          exact hE _ _ h
    · simp only [hke, if_false] at h ⊢
      match ts, h with
      | [], _ => rfl
      | .atom s :: rest, _ => rfl
      | .op _ :: _, _ => rfl
      | .rp :: _, _ => rfl
      | .lp :: rest, h =>
        simp only at h ⊢
        cases hr : En 0 rest with
        | fuel => simp [hr] at h
        | err => rw [hE _ _ (by simp [hr]), hr]
        | ok e rest' => rw [hE _ _ (by simp [hr]), hr]

theorem loopBody_mono {En En' : Nat → List Tok → R} {Lp Lp' : Nat → String → E → List Tok → R}
    (hE : ∀ k ts, En k ts ≠ .fuel → En' k ts = En k ts)
    (hL : ∀ k o a ts, Lp k o a ts ≠ .fuel → Lp' k o a ts = Lp k o a ts)
    (k : Nat) (o : String) (a : E) (ts : List Tok) (h : loopBody En Lp k o a ts ≠ .fuel) :
    loopBody En' Lp' k o a ts = loopBody En Lp k o a ts := by
  unfold loopBody at h ⊢
  match ts, h with
  | [], _ => rfl
  | .atom _ :: _, _ => rfl
  | .lp :: _, _ => rfl
  | .rp :: _, _ => rfl
  | .op s :: rest, h =>
    simp only at h ⊢
    by_cases hs : s = o
    · simp only [hs, if_true] at h ⊢
      cases hr : En (k+1) rest with
      | fuel => simp [hr] at h
      | err => rw [hE _ _ (by simp [hr]), hr]
      | ok b rest' =>
        rw [hE _ _ (by simp [hr]), hr]
        simp only [hr] at h ⊢
        exact hL k o _ rest' h
    · simp only [hs, if_false]

theorem mono_step (t : Table) : ∀ f,
    (∀ k ts, entry t f k ts ≠ .fuel → entry t (f+1) k ts = entry t f k ts) ∧
    (∀ k o a ts, loop t f k o a ts ≠ .fuel → loop t (f+1) k o a ts = loop t f k o a ts)
  | 0 => ⟨fun k ts h => absurd (by simp [entry]) h, fun k o a ts h => absurd (by simp [loop]) h⟩
  | f+1 => by
    obtain ⟨ihE, ihL⟩ := mono_step t f
    refine ⟨fun k ts h => ?_, fun k o a ts h => ?_⟩
    · rw [entry_succ t (f+1), entry_succ t f] at *
      exact entryBody_mono t ihE ihL k ts h
    · rw [loop_succ t (f+1), loop_succ t f] at *
      exact loopBody_mono ihE ihL k o a ts h

theorem entry_mono (t : Table) (k : Nat) (ts : List Tok) (f : Nat) (h : entry t f k ts ≠ .fuel) :
    ∀ d, entry t (f + d) k ts = entry t f k ts
  | 0 => rfl
  | d+1 => by
    have ih := entry_mono t k ts f h d
    rw [show f + (d+1) = (f + d) + 1 from rfl, (mono_step t (f+d)).1 k ts (by rw [ih]; exact h), ih]

/-- C03.1 (core) for the parser **with its concrete fuel**: for every well-formed table and tree,
    parsing the minimal-parenthesis rendering returns exactly the tree and consumes all tokens. -/
theorem parse_render_concrete (t : Table) (hwf : TableWF t) (e : E) (hw : WF t e) :
    entry t (W t (render t 0 none e)) 0 (render t 0 none e) = .ok e [] := by
  obtain ⟨f0, hf0⟩ := parse_render_core t hwf e hw
  have hne := parse_fuel_enough t (render t 0 none e)
  have h1 := entry_mono t 0 _ _ hne f0
  have h2 := hf0 (W t (render t 0 none e) + f0) (by omega)
  simp only at h2
  rw [← h1, h2]

#print axioms parse_render_concrete
end PC
