/-! C20 prototype over exact integers (scaled dyadics): index rule, mass conservation, additivity. -/
namespace Bin

structure Axis where
  start : Int
  size : Int
  count : Nat

def Axis.bins (a : Axis) : Nat := a.count + 2

/-- axis.getIndex with exact arithmetic: floor((v-start)/size)+1, clamped into the two outer bins -/
def Axis.getIndex (a : Axis) (v : Int) : Nat :=
  let idx := (v - a.start) / a.size + 1
  if idx < 0 then 0 else if idx ≥ (a.bins : Int) then a.bins - 1 else idx.toNat

def addAt : List Int → Nat → Int → List Int
  | [], _, _ => []
  | x :: xs, 0, d => (x + d) :: xs
  | x :: xs, i+1, d => x :: addAt xs i d

def zeros (n : Nat) : List Int := List.replicate n 0

/-- Binning: records are (index value, weight) -/
def binning (a : Axis) (recs : List (Int × Int)) (init : List Int) : List Int :=
  recs.foldl (fun b r => addAt b (a.getIndex r.1) r.2) init

def sum : List Int → Int
  | [] => 0
  | x :: xs => x + sum xs

def addLists : List Int → List Int → List Int
  | x :: xs, y :: ys => (x + y) :: addLists xs ys
  | _, _ => []

/-! index rule -/
theorem getIndex_lt (a : Axis) (v : Int) : a.getIndex v < a.bins := by
  unfold Axis.getIndex
  simp only
  split
  · unfold Axis.bins; omega
  · split
    · unfold Axis.bins; omega
    · omega

theorem index_zero (a : Axis) (hs : 0 < a.size) (v : Int) : a.getIndex v = 0 ↔ v < a.start := by
  have h1 : (v - a.start) / a.size + 1 ≤ 0 ↔ v - a.start < 0 := by
    constructor
    · intro h
      have : (v - a.start) / a.size < 0 := by omega
      have := (Int.ediv_lt_iff_lt_mul hs).mp this
      simpa using this
    · intro h
      have : (v - a.start) / a.size < 0 := (Int.ediv_lt_iff_lt_mul hs).mpr (by simpa using h)
      omega
  unfold Axis.getIndex Axis.bins
  simp only
  split
  · constructor
    · intro _; have := h1.mp (by omega); omega
    · intro _; rfl
  · split
    · constructor
      · intro h; omega
      · intro h; have := h1.mpr (by omega); omega
    · constructor
      · intro h; have := h1.mp (by omega); omega
      · intro h; have := h1.mpr (by omega); omega

theorem index_inner (a : Axis) (hs : 0 < a.size) (v : Int) (i : Nat) (h1 : 1 ≤ i) (h2 : i ≤ a.count) :
    a.getIndex v = i ↔ a.start + ((i : Int) - 1) * a.size ≤ v ∧ v < a.start + (i : Int) * a.size := by
  have hq : (v - a.start) / a.size + 1 = (i : Int) ↔
      ((i : Int) - 1) * a.size ≤ v - a.start ∧ v - a.start < (i : Int) * a.size := by
    rw [← Int.le_ediv_iff_mul_le hs, ← Int.ediv_lt_iff_lt_mul hs]
    omega
  unfold Axis.getIndex Axis.bins
  simp only
  split
  · rename_i hneg
    constructor
    · intro h; omega
    · intro h; have := hq.mpr ⟨by omega, by omega⟩; omega
  · split
    · rename_i hbig
      constructor
      · intro h; omega
      · intro h; have := hq.mpr ⟨by omega, by omega⟩; omega
    · constructor
      · intro h
        have := hq.mp (by omega)
        omega
      · intro h
        have := hq.mpr ⟨by omega, by omega⟩
        omega

theorem index_over (a : Axis) (hs : 0 < a.size) (v : Int) :
    a.getIndex v = a.count + 1 ↔ a.start + (a.count : Int) * a.size ≤ v := by
  have hq : (a.count : Int) ≤ (v - a.start) / a.size ↔ (a.count : Int) * a.size ≤ v - a.start :=
    Int.le_ediv_iff_mul_le hs
  unfold Axis.getIndex Axis.bins
  simp only
  split
  · constructor
    · intro h; omega
    · intro h; have := hq.mpr (by omega); omega
  · split
    · constructor
      · intro _; have := hq.mp (by omega); omega
      · intro _; omega
    · constructor
      · intro h; have := hq.mp (by omega); omega
      · intro h; have := hq.mpr (by omega); omega

/-! mass conservation -/
theorem sum_addAt : ∀ (l : List Int) (i : Nat) (d : Int), i < l.length → sum (addAt l i d) = sum l + d
  | [], i, d, h => by simp at h
  | x :: xs, 0, d, _ => by simp [addAt, sum]; omega
  | x :: xs, i+1, d, h => by
    simp only [addAt, sum]
    rw [sum_addAt xs i d (by simpa using h)]; omega

theorem length_addAt : ∀ (l : List Int) (i : Nat) (d : Int), (addAt l i d).length = l.length
  | [], _, _ => rfl
  | _ :: _, 0, _ => rfl
  | x :: xs, i+1, d => by simp [addAt, length_addAt xs i d]

theorem binning_length (a : Axis) : ∀ (recs : List (Int × Int)) (init : List Int),
    (binning a recs init).length = init.length
  | [], init => rfl
  | r :: rs, init => by
    simp only [binning, List.foldl_cons]
    have := binning_length a rs (addAt init (a.getIndex r.1) r.2)
    simp only [binning] at this
    rw [this, length_addAt]

/-- the bins always sum to what was there plus the sum of the per-element values -/
theorem mass_conserved (a : Axis) : ∀ (recs : List (Int × Int)) (init : List Int), init.length = a.bins →
    sum (binning a recs init) = sum init + sum (recs.map (·.2))
  | [], init, _ => by simp [binning, sum]
  | r :: rs, init, h => by
    simp only [binning, List.foldl_cons, List.map_cons, sum]
    have ih := mass_conserved a rs (addAt init (a.getIndex r.1) r.2) (by rw [length_addAt]; exact h)
    simp only [binning] at ih
    rw [ih, sum_addAt _ _ _ (by rw [h]; exact getIndex_lt a r.1)]
    omega

/-! additivity -/
theorem addLists_addAt : ∀ (x y : List Int) (i : Nat) (d : Int), x.length = y.length →
    addLists x (addAt y i d) = addAt (addLists x y) i d
  | [], [], _, _, _ => rfl
  | a :: as, b :: bs, 0, d, _ => by simp [addAt, addLists]; omega
  | a :: as, b :: bs, i+1, d, h => by
    simp only [addAt, addLists]
    rw [addLists_addAt as bs i d (by simpa using h)]
  | [], _ :: _, _, _, h => by simp at h
  | _ :: _, [], _, _, h => by simp at h

theorem addAt_addLists : ∀ (x y : List Int) (i : Nat) (d : Int), x.length = y.length →
    addLists (addAt x i d) y = addAt (addLists x y) i d
  | [], [], _, _, _ => rfl
  | a :: as, b :: bs, 0, d, _ => by simp [addAt, addLists]; omega
  | a :: as, b :: bs, i+1, d, h => by
    simp only [addAt, addLists]
    rw [addAt_addLists as bs i d (by simpa using h)]
  | [], _ :: _, _, _, h => by simp at h
  | _ :: _, [], _, _, h => by simp at h

theorem zeros_addLists : ∀ (x : List Int), addLists (zeros x.length) x = x
  | [] => rfl
  | a :: as => by
    simp only [zeros, List.length_cons, List.replicate_succ, addLists, Int.zero_add]
    exact congrArg _ (zeros_addLists as)

theorem addLists_zeros : ∀ (x : List Int), addLists x (zeros x.length) = x
  | [] => rfl
  | a :: as => by
    simp only [zeros, List.length_cons, List.replicate_succ, addLists, Int.add_zero]
    exact congrArg _ (addLists_zeros as)

theorem binning_from (a : Axis) : ∀ (recs : List (Int × Int)) (init : List Int),
    binning a recs init = addLists init (binning a recs (zeros init.length))
  | [], init => by simp [binning, addLists_zeros]
  | r :: rs, init => by
    simp only [binning, List.foldl_cons]
    have h1 := binning_from a rs (addAt init (a.getIndex r.1) r.2)
    have h2 := binning_from a rs (addAt (zeros init.length) (a.getIndex r.1) r.2)
    simp only [binning] at h1 h2
    have hz : (zeros init.length).length = init.length := by simp [zeros]
    rw [h1, h2, length_addAt, length_addAt, hz]
    have h3 := binning_length a rs (zeros init.length)
    simp only [binning] at h3
    generalize List.foldl (fun b r => addAt b (a.getIndex r.1) r.2) (zeros init.length) rs = B at h3 ⊢
    rw [hz] at h3
    rw [addAt_addLists init B _ _ h3.symm, addAt_addLists (zeros init.length) B _ _ (by rw [hz, h3])]
    rw [addLists_addAt init _ _ _ (by
      have : (addLists (zeros init.length) B).length = init.length := by
        rw [← h3]; rw [show zeros B.length = zeros B.length from rfl, zeros_addLists B]
      omega)]
    rw [← h3, zeros_addLists B]

/-- C20.5: binning the concatenation = adding up the binnings of the parts (what collectBinning does) -/
theorem additive (a : Axis) (l1 l2 : List (Int × Int)) :
    binning a (l1 ++ l2) (zeros a.bins) =
      addLists (binning a l1 (zeros a.bins)) (binning a l2 (zeros a.bins)) := by
  have : binning a (l1 ++ l2) (zeros a.bins) = binning a l2 (binning a l1 (zeros a.bins)) := by
    simp [binning, List.foldl_append]
  rw [this, binning_from a l2, binning_length]
  simp [zeros]

#print axioms additive
#print axioms mass_conserved
#print axioms index_inner
end Bin
