import Proto.Heap
/-! C09 prototype proof: `append` (in place or copying) keeps the ownership invariant and never changes
    the observation of an existing handle. -/
namespace Heap

def vis (s : Slice) (p : Nat) : Prop := s.off ≤ p ∧ p < s.off + s.len
def spare (s : Slice) (p : Nat) : Prop := s.off + s.len ≤ p ∧ p < s.off + s.cap

structure Inv (h : H) : Prop where
  bounds : ∀ (i : Nat) (s : Slice), h.objs[i]? = some s →
    s.arr < h.arrays.length ∧ s.len ≤ s.cap ∧ s.off + s.cap ≤ (h.arrayOf s.arr).length
  hidden : ∀ (i j : Nat) (s1 s2 : Slice), h.objs[i]? = some s1 → h.objs[j]? = some s2 → s1.arr = s2.arr →
    ∀ p, spare s1 p → ¬ vis s2 p
  disjoint : ∀ (i j : Nat) (s1 s2 : Slice), i ≠ j → h.objs[i]? = some s1 → h.objs[j]? = some s2 → s1.arr = s2.arr →
    ∀ p, spare s1 p → ¬ spare s2 p

/-- writing outside the visible window does not change the observation -/
theorem window_set (l : List Int) (off len p : Nat) (v : Int) (h : ¬ (off ≤ p ∧ p < off + len)) :
    ((l.set p v).drop off).take len = (l.drop off).take len := by
  apply List.ext_getElem?
  intro k
  simp only [List.getElem?_take, List.getElem?_drop, List.getElem?_set]
  by_cases hk : k < len
  · simp only [hk, if_true]
    have : p ≠ off + k := by omega
    simp [this]
  · simp [hk]

theorem arrayOf_set_same (h : H) (a : Nat) (l : List Int) (ha : a < h.arrays.length) :
    ({ h with arrays := h.arrays.set a l } : H).arrayOf a = l := by
  simp [H.arrayOf, List.getElem?_set, ha]

theorem arrayOf_set_other (h : H) (a b : Nat) (l : List Int) (hab : a ≠ b) (objs : List Slice) :
    ({ arrays := h.arrays.set a l, objs := objs } : H).arrayOf b = h.arrayOf b := by
  simp [H.arrayOf, List.getElem?_set, hab]

/-- the in-place branch of `append`, as a function of the parent slice -/
def appendInPlace (h : H) (hd : Nat) (s : Slice) (v : Int) : H :=
  { arrays := h.arrays.set s.arr (writeAt (h.arrayOf s.arr) (s.off + s.len) v),
    objs := (h.objs.set hd { s with cap := s.len }) ++ [{ s with len := s.len + 1 }] }

theorem step_append_inplace (h : H) (hd : Nat) (v : Int) (grow : Nat) (s : Slice)
    (hs : h.objs[hd]? = some s) (hlt : s.len < s.cap) :
    step h (.append hd v grow) = appendInPlace h hd s v := by
  simp [step, hs, hlt, appendInPlace]

/-- C09 core (in-place branch): the observation of every existing handle is unchanged -/
theorem inplace_abs (h : H) (hinv : Inv h) (hd : Nat) (s : Slice) (v : Int)
    (hs : h.objs[hd]? = some s) (hlt : s.len < s.cap) (i : Nat) (t : Slice) (ht : h.objs[i]? = some t) :
    ∃ t', (appendInPlace h hd s v).objs[i]? = some t' ∧ (appendInPlace h hd s v).abs t' = h.abs t := by
  have hilt : i < h.objs.length := (List.getElem?_eq_some_iff.mp ht).1
  have hsb := hinv.bounds hd s hs
  -- the slot that is written is a spare slot of `s`
  have hsp : spare s (s.off + s.len) := ⟨Nat.le_refl _, by omega⟩
  -- which slice handle i holds afterwards
  have hobj : (appendInPlace h hd s v).objs[i]? = some (if i = hd then { s with cap := s.len } else t) := by
    simp only [appendInPlace]
    rw [List.getElem?_append_left (by simpa using hilt), List.getElem?_set]
    by_cases hi : i = hd
    · subst hi; simp [hilt]
    · have hne : ¬ hd = i := fun h' => hi h'.symm
      simp [hi, hne, ht]
  refine ⟨_, hobj, ?_⟩
  -- same window (arr, off, len) as before
  have hwin : ∀ t' : Slice, t'.arr = t.arr → t'.off = t.off → t'.len = t.len →
      (appendInPlace h hd s v).abs t' = h.abs t := by
    intro t' h1 h2 h3
    unfold H.abs
    rw [h1, h2, h3]
    by_cases harr : t.arr = s.arr
    · have hnv : ¬ vis t (s.off + s.len) := hinv.hidden hd i s t hs ht harr.symm _ hsp
      have : (appendInPlace h hd s v).arrayOf t.arr = writeAt (h.arrayOf s.arr) (s.off + s.len) v := by
        rw [harr]; exact arrayOf_set_same h s.arr _ hsb.1
      rw [this, writeAt, ← harr]
      exact window_set _ _ _ _ _ hnv
    · have : (appendInPlace h hd s v).arrayOf t.arr = h.arrayOf t.arr :=
        arrayOf_set_other h s.arr t.arr _ (fun h' => harr h'.symm) _
      rw [this]
  by_cases hi : i = hd
  · subst hi
    rw [hs] at ht; cases ht
    simp only [if_true]
    exact hwin _ rfl rfl rfl
  · simp only [hi, if_false]
    exact hwin t rfl rfl rfl


/-- where a handle of the new state comes from: (origin handle, origin slice) in the old state -/
theorem inplace_origin (h : H) (hd : Nat) (s : Slice) (v : Int) (hs : h.objs[hd]? = some s)
    (i : Nat) (t' : Slice) (ht' : (appendInPlace h hd s v).objs[i]? = some t') :
    (i ≠ hd ∧ h.objs[i]? = some t') ∨
    (i = hd ∧ t' = { s with cap := s.len }) ∨
    (i = h.objs.length ∧ i ≠ hd ∧ t' = { s with len := s.len + 1 }) := by
  have hhd : hd < h.objs.length := (List.getElem?_eq_some_iff.mp hs).1
  simp only [appendInPlace] at ht'
  by_cases hi : i < h.objs.length
  · rw [List.getElem?_append_left (by simpa using hi), List.getElem?_set] at ht'
    by_cases hih : i = hd
    · subst hih
      simp [hi] at ht'
      exact Or.inr (Or.inl ⟨rfl, ht'.symm⟩)
    · have hne : ¬ hd = i := fun h' => hih h'.symm
      simp [hne] at ht'
      exact Or.inl ⟨hih, ht'⟩
  · have hlen : (h.objs.set hd { s with cap := s.len }).length = h.objs.length := by simp
    rw [List.getElem?_append_right (by rw [hlen]; omega), hlen] at ht'
    have : i - h.objs.length = 0 := by
      cases hk : i - h.objs.length with
      | zero => rfl
      | succ k => rw [hk] at ht'; simp at ht'
    rw [this] at ht'
    simp at ht'
    exact Or.inr (Or.inr ⟨by omega, by omega, ht'.symm⟩)

/-- C09 core (in-place branch): the ownership invariant is preserved -/
theorem inplace_inv (h : H) (hinv : Inv h) (hd : Nat) (s : Slice) (v : Int)
    (hs : h.objs[hd]? = some s) (hlt : s.len < s.cap) : Inv (appendInPlace h hd s v) := by
  have hsb := hinv.bounds hd s hs
  have hspw : spare s (s.off + s.len) := ⟨Nat.le_refl _, by omega⟩
  -- every new handle has an origin with the same array, no more spare slots, and no more visible
  -- slots except possibly the written one (only for the new object)
  have horig : ∀ i t', (appendInPlace h hd s v).objs[i]? = some t' →
      ∃ io o, h.objs[io]? = some o ∧ t'.arr = o.arr ∧
        (∀ p, spare t' p → spare o p) ∧
        (∀ p, vis t' p → vis o p ∨ (i = h.objs.length ∧ p = s.off + s.len)) ∧
        (i = h.objs.length → io = hd ∧ ∀ p, spare t' p → p ≠ s.off + s.len) ∧
        (i ≠ h.objs.length → (io = i) ∧ (i = hd → ∀ p, ¬ spare t' p)) := by
    intro i t' ht'
    rcases inplace_origin h hd s v hs i t' ht' with ⟨hne, hold⟩ | ⟨hih, rfl⟩ | ⟨hin, hne, rfl⟩
    · have hilt : i < h.objs.length := (List.getElem?_eq_some_iff.mp hold).1
      exact ⟨i, t', hold, rfl, fun _ h => h, fun _ h => Or.inl h, fun h' => by omega,
        fun _ => ⟨rfl, fun h' => absurd h' hne⟩⟩
    · have hhd : hd < h.objs.length := (List.getElem?_eq_some_iff.mp hs).1
      refine ⟨hd, s, hs, rfl, ?_, ?_, fun h' => by omega, fun _ => ⟨hih.symm, fun _ p hp => ?_⟩⟩
      · intro p hp; simp only [spare] at hp; omega
      · intro p hp; exact Or.inl hp
      · simp only [spare] at hp; omega
    · refine ⟨hd, s, hs, rfl, ?_, ?_, fun _ => ⟨rfl, fun p hp => ?_⟩, fun h' => absurd hin h'⟩
      · intro p hp; simp only [spare] at hp ⊢; omega
      · intro p hp
        simp only [vis] at hp ⊢
        by_cases hp' : p = s.off + s.len
        · exact Or.inr ⟨hin, hp'⟩
        · exact Or.inl (by omega)
      · simp only [spare] at hp; omega
  refine ⟨?_, ?_, ?_⟩
  · -- bounds
    intro i t' ht'
    have hlenArr : (appendInPlace h hd s v).arrays.length = h.arrays.length := by simp [appendInPlace]
    have harrlen : ∀ a, ((appendInPlace h hd s v).arrayOf a).length = (h.arrayOf a).length := by
      intro a
      by_cases ha : a = s.arr
      · subst ha
        have : (appendInPlace h hd s v).arrayOf s.arr = writeAt (h.arrayOf s.arr) (s.off + s.len) v :=
          arrayOf_set_same h s.arr _ hsb.1
        rw [this]; simp [writeAt]
      · have : (appendInPlace h hd s v).arrayOf a = h.arrayOf a :=
          arrayOf_set_other h s.arr a _ (fun h' => ha h'.symm) _
        rw [this]
    rw [hlenArr, harrlen]
    rcases inplace_origin h hd s v hs i t' ht' with ⟨_, hold⟩ | ⟨_, rfl⟩ | ⟨_, _, rfl⟩
    · exact hinv.bounds i t' hold
    · exact ⟨hsb.1, Nat.le_refl _, by simp only; omega⟩
    · exact ⟨hsb.1, by simp only; omega, hsb.2.2⟩
  · -- hidden
    intro i j t1 t2 h1 h2 harr p hsp hvis
    obtain ⟨io, o1, ho1, ha1, hsp1, _, hnew1, hold1⟩ := horig i t1 h1
    obtain ⟨jo, o2, ho2, ha2, _, hv2, _, _⟩ := horig j t2 h2
    have harr' : o1.arr = o2.arr := by rw [← ha1, ← ha2, harr]
    rcases hv2 p hvis with hv | ⟨hj, hp⟩
    · exact hinv.hidden io jo o1 o2 ho1 ho2 harr' p (hsp1 p hsp) hv
    · -- the written slot: t2 is the new object
      by_cases hi : i = h.objs.length
      · exact (hnew1 hi).2 p hsp hp
      · obtain ⟨hio, hnosp⟩ := hold1 hi
        rw [hio] at ho1
        by_cases hih : i = hd
        · exact hnosp hih p hsp
        · -- an old object other than the parent has the parent's spare slot as spare: contradiction
          have hs2 : t2.arr = s.arr := by
            rcases inplace_origin h hd s v hs j t2 h2 with ⟨_, hold⟩ | ⟨hjh, _⟩ | ⟨_, _, rfl⟩
            · have := (List.getElem?_eq_some_iff.mp hold).1; omega
            · have := (List.getElem?_eq_some_iff.mp hs).1; omega
            · rfl
          have : o1.arr = s.arr := by rw [← ha1, harr, hs2]
          exact hinv.disjoint i hd o1 s hih ho1 hs this p (hsp1 p hsp) (hp ▸ hspw)
  · -- disjoint
    intro i j t1 t2 hij h1 h2 harr p hsp1' hsp2'
    obtain ⟨io, o1, ho1, ha1, hsp1, _, hnew1, hold1⟩ := horig i t1 h1
    obtain ⟨jo, o2, ho2, ha2, hsp2, _, hnew2, hold2⟩ := horig j t2 h2
    have harr' : o1.arr = o2.arr := by rw [← ha1, ← ha2, harr]
    by_cases hio : io = jo
    · -- same origin: both come from the parent, and one of them is the capped parent (no spare)
      by_cases hi : i = h.objs.length
      · have hj : j ≠ h.objs.length := fun h' => hij (hi.trans h'.symm)
        obtain ⟨hjo, hnosp⟩ := hold2 hj
        have : j = hd := by rw [← hjo, ← hio]; exact (hnew1 hi).1
        exact hnosp this p hsp2'
      · obtain ⟨hio', hnosp⟩ := hold1 hi
        by_cases hj : j = h.objs.length
        · have : i = hd := by rw [← hio', hio]; exact (hnew2 hj).1
          exact hnosp this p hsp1'
        · obtain ⟨hjo', _⟩ := hold2 hj
          exact hij (by rw [← hio', ← hjo', hio])
    · exact hinv.disjoint io jo o1 o2 hio ho1 ho2 harr' p (hsp1 p hsp1') (hsp2 p hsp2')

#print axioms inplace_abs
#print axioms inplace_inv
end Heap
