/-! C13 prototype: map storages as wrappers, the WF invariant, observers agree with a finite-map view. -/
namespace MapSt

abbrev V := Int
abbrev Entries := List (String × V)

def lookup : Entries → String → Option V
  | [], _ => none
  | (k, v) :: rest, x => if k = x then some v else lookup rest x

def keys (es : Entries) : List String := es.map (·.1)

inductive St where
  | lit (es : Entries)
  | append (k : String) (v : V) (parent : St)
  | merge (a b : St)
  | replace (orig rep : St)
  | empty

/-- `fixed = false` mirrors the pinned commit (ReplaceMap.Get asks the replacement first, for any key) -/
def get (fixed : Bool) : St → String → Option V
  | .lit es, x => lookup es x
  | .append k v p, x => if x = k then some v else get fixed p x
  | .merge a b, x => match get fixed a x with | some v => some v | none => get fixed b x
  | .replace o r, x =>
    if fixed then
      match get fixed o x with
      | none => none
      | some v => match get fixed r x with | some w => some w | none => some v
    else
      match get fixed r x with | some w => some w | none => get fixed o x
  | .empty, _ => none

def iter (fixed : Bool) : St → Entries
  | .lit es => es
  | .append k v p => (k, v) :: iter fixed p
  | .merge a b => iter fixed a ++ iter fixed b
  | .replace o r => (iter fixed o).map fun (k, v) => (k, match get fixed r k with | some w => w | none => v)
  | .empty => []

def size : St → Nat
  | .lit es => es.length
  | .append _ _ p => size p + 1
  | .merge a b => size a + size b
  | .replace o _ => size o
  | .empty => 0

structure WF (fixed : Bool) (s : St) : Prop where
  nodup : (keys (iter fixed s)).Nodup
  size : size s = (iter fixed s).length
  get : ∀ x, get fixed s x = lookup (iter fixed s) x

-- pinned commit: observers disagree for a replacement key outside the original key set
example : get false (.replace (.lit [("a", 1)]) (.lit [("z", 2)])) "z" ≠
          lookup (iter false (.replace (.lit [("a", 1)]) (.lit [("z", 2)]))) "z" := by decide

theorem lookup_none_of_not_mem : ∀ (es : Entries) (x : String), x ∉ keys es → lookup es x = none
  | [], _, _ => rfl
  | (k, v) :: rest, x, h => by
    simp only [keys, List.map_cons, List.mem_cons, not_or] at h
    simp only [lookup]
    rw [if_neg (fun hk => h.1 hk.symm)]
    exact lookup_none_of_not_mem rest x h.2

theorem mem_keys_of_lookup : ∀ (es : Entries) (x : String) (v : V), lookup es x = some v → x ∈ keys es
  | [], _, _, h => by simp [lookup] at h
  | (k, w) :: rest, x, v, h => by
    simp only [lookup] at h
    simp only [keys, List.map_cons, List.mem_cons]
    by_cases hk : k = x
    · exact Or.inl hk.symm
    · rw [if_neg hk] at h; exact Or.inr (mem_keys_of_lookup rest x v h)

theorem lookup_append (a b : Entries) (x : String) :
    lookup (a ++ b) x = match lookup a x with | some v => some v | none => lookup b x := by
  induction a with
  | nil => simp [lookup]
  | cons e es ih =>
    obtain ⟨k, v⟩ := e
    simp only [List.cons_append, lookup]
    split <;> simp_all

theorem wf_lit (fixed : Bool) (es : Entries) (h : (keys es).Nodup) : WF fixed (.lit es) :=
  ⟨h, rfl, fun _ => rfl⟩

theorem wf_empty (fixed : Bool) : WF fixed .empty := ⟨by simp [iter, keys], rfl, fun _ => rfl⟩

/-- `put`: allowed only if the key is absent -/
theorem wf_append (fixed : Bool) (k : String) (v : V) (p : St) (hp : WF fixed p) (habs : get fixed p k = none) :
    WF fixed (.append k v p) := by
  refine ⟨?_, by simp [size, iter, hp.size], fun x => ?_⟩
  · simp only [iter, keys, List.map_cons, List.nodup_cons]
    refine ⟨fun hmem => ?_, hp.nodup⟩
    rw [hp.get] at habs
    -- k is a key of the parent, so its lookup is some
    have : ∃ v, lookup (iter fixed p) k = some v := by
      clear habs
      generalize iter fixed p = es at hmem
      induction es with
      | nil => simp at hmem
      | cons e es ih =>
        obtain ⟨k', v'⟩ := e
        simp only [List.map_cons, List.mem_cons] at hmem
        simp only [lookup]
        by_cases hk : k' = k
        · exact ⟨v', by simp [hk]⟩
        · rw [if_neg hk]; exact ih (hmem.resolve_left (fun h => hk h.symm))
    obtain ⟨v, hv⟩ := this
    rw [hv] at habs; cases habs
  · simp only [get, iter, lookup]
    by_cases hx : x = k
    · simp [hx]
    · rw [if_neg hx, if_neg (fun h => hx h.symm)]; exact hp.get x

/-- `+`: allowed only if no key of `b` is present in `a` -/
theorem wf_merge (fixed : Bool) (a b : St) (ha : WF fixed a) (hb : WF fixed b)
    (hdis : ∀ x ∈ keys (iter fixed b), get fixed a x = none) : WF fixed (.merge a b) := by
  refine ⟨?_, by simp [size, iter, ha.size, hb.size], fun x => ?_⟩
  · simp only [iter, keys, List.map_append]
    refine List.nodup_append.mpr ⟨ha.nodup, hb.nodup, fun x hxa y hyb hxy => ?_⟩
    subst hxy
    have h1 := hdis x hyb
    rw [ha.get] at h1
    -- x ∈ keys a contradicts lookup = none
    have : ∃ v, lookup (iter fixed a) x = some v := by
      generalize iter fixed a = es at hxa
      induction es with
      | nil => simp at hxa
      | cons e es ih =>
        obtain ⟨k', v'⟩ := e
        simp only [List.map_cons, List.mem_cons] at hxa
        simp only [lookup]
        by_cases hk : k' = x
        · exact ⟨v', by simp [hk]⟩
        · rw [if_neg hk]; exact ih (hxa.resolve_left (fun h => hk h.symm))
    obtain ⟨v, hv⟩ := this
    rw [hv] at h1; cases h1
  · simp only [get, iter, lookup_append, ha.get, hb.get]

theorem lookup_map_val (f : String → V → V) : ∀ (es : Entries) (x : String),
    lookup (es.map fun (k, v) => (k, f k v)) x = (lookup es x).map (f x)
  | [], _ => rfl
  | (k, v) :: rest, x => by
    simp only [List.map_cons, lookup]
    by_cases hk : k = x
    · subst hk; simp
    · simp only [hk, if_false]; exact lookup_map_val f rest x

/-- `replace` with the repaired `Get` -/
theorem wf_replace (o r : St) (ho : WF true o) : WF true (.replace o r) := by
  refine ⟨?_, by simp [size, iter, ho.size], fun x => ?_⟩
  · have : keys (iter true (.replace o r)) = keys (iter true o) := by
      simp [iter, keys, List.map_map, Function.comp_def]
    rw [this]; exact ho.nodup
  · simp only [get, iter, if_true]
    rw [lookup_map_val (fun k v => match get true r k with | some w => w | none => v), ← ho.get]
    cases get true o x with
    | none => rfl
    | some v => cases get true r x <;> rfl

#print axioms wf_merge
#print axioms wf_replace
end MapSt
