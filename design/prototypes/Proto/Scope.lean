/-! C01.2 / C16 prototype: the Identifiers chain of parser2 (AddArgs with outersUsed, AddThis, Add,
    AddConst, AddMap) as a list of layers; name resolution of a raw tree computing OuterIdents/Recursive. -/
namespace Scope

inductive Raw where
  | num (n : Int)
  | ident (x : String)
  | lam (names : List String) (body : Raw)
  | func (name : String) (params : List String) (body : Raw) (inner : Raw)     -- func name(params) body; inner
  | letE (x : String) (v : Raw) (inner : Raw)
  | app (f : Raw) (args : List Raw)
  | add (a b : Raw)
  | member (e : Raw) (key : String)

inductive AST where
  | num (n : Int)
  | ident (x : String)
  | clos (names : List String) (body : AST) (outer : List String) (recursive : Bool) (this : String)
  | letE (x : String) (v : AST) (inner : AST)
  | app (f : AST) (args : List AST)
  | add (a b : AST)
  | member (e : AST) (key : String)
  | notFound (x : String)
deriving Repr

inductive Layer where
  | args (names : List String) (track : Bool)
  | this (name : String)
  | var (name : String)
  | const (name : String)
  | map (thisName : String)

inductive Found where
  | local_                    -- non-constant identifier
  | const
  | attr (thisName : String)
  | none

/-- lookup: the kind of identifier and the depth (index of the layer that answered) -/
def lookup : List Layer → String → Nat → Found × Nat
  | [], _, d => (.none, d)
  | .args names _ :: rest, x, d => if names.contains x then (.local_, d) else lookup rest x (d+1)
  | .this n :: rest, x, d => if n = x then (.local_, d) else lookup rest x (d+1)
  | .var n :: rest, x, d => if n = x then (.local_, d) else lookup rest x (d+1)
  | .const n :: rest, x, d => if n = x then (.const, d) else lookup rest x (d+1)
  | .map m :: rest, x, d =>
    match lookup rest x (d+1) with
    | (.const, d') => (.const, d')
    | _ => (.attr m, d)

/-- a use: the name a tracking AddArgs layer records, and the depth of the layer that answered
    (all tracking `args` layers strictly inside that depth record it; a `this` layer at exactly that
    depth gets its `used` flag) -/
structure Use where
  name : String
  depth : Nat
deriving Repr

def addUnique (l : List String) (x : String) : List String := if l.contains x then l else l ++ [x]

/-- shift uses outward across `k` layers that were pushed for a sub-scope; uses answered inside are dropped -/
def outward (k : Nat) (us : List Use) : List Use :=
  us.filterMap fun u => if u.depth < k then none else some { u with depth := u.depth - k }

mutual
/-- `fixed = false`: record the attribute name (pinned commit); `true`: record the map's name -/
def resolve (fixed : Bool) : Raw → List Layer → AST × List Use
  | .num n, _ => (.num n, [])
  | .ident x, ls =>
    match lookup ls x 0 with
    | (.local_, d) => (.ident x, [⟨x, d⟩])
    | (.const, _) => (.ident x, [])
    | (.attr m, d) => (.member (.ident m) x, [⟨if fixed then m else x, d⟩])
    | (.none, _) => (.notFound x, [])
  | .lam names body, ls =>
    let (b, us) := resolve fixed body (.args names true :: ls)
    let outer := (us.filter (·.depth ≥ 1)).foldl (fun acc u => addUnique acc u.name) []
    (.clos names b outer false "", outward 1 us)
  | .func name params body inner, ls =>
    -- idents.AddArgs(names, &outersUsed).AddThis(name, &recursive): `this` is the innermost layer
    let (b, us) := resolve fixed body (.this name :: .args params true :: ls)
    let recursive := us.any (·.depth = 0)
    let outer := (us.filter (·.depth ≥ 2)).foldl (fun acc u => addUnique acc u.name) []
    let (i, us2) := resolve fixed inner (.var name :: ls)
    (.letE name (.clos params b outer recursive name) i, outward 2 us ++ outward 1 us2)
  | .letE x v inner, ls =>
    let (cv, us1) := resolve fixed v ls
    let (ci, us2) := resolve fixed inner (.var x :: ls)
    (.letE x cv ci, us1 ++ outward 1 us2)
  | .app f args, ls =>
    let (cf, us1) := resolve fixed f ls
    let (cas, us2) := resolveList fixed args ls
    (.app cf cas, us1 ++ us2)
  | .add a b, ls =>
    let (ca, us1) := resolve fixed a ls
    let (cb, us2) := resolve fixed b ls
    (.add ca cb, us1 ++ us2)
  | .member e k, ls =>
    let (ce, us) := resolve fixed e ls
    (.member ce k, us)
def resolveList (fixed : Bool) : List Raw → List Layer → List AST × List Use
  | [], _ => ([], [])
  | a :: as, ls =>
    let (c, us1) := resolve fixed a ls
    let (cs, us2) := resolveList fixed as ls
    (c :: cs, us1 ++ us2)
end

/-- Generate(exp, "a"): consts, then the argument layer (not tracking) -/
def topLayers (args : List String) : List Layer := [.args args false, .const "pi", .const "map"]
/-- GenerateWithMap(exp, "m") -/
def mapLayers (m : String) : List Layer := [.args [m] false, .map m, .const "pi", .const "map"]

-- let k=a; func f(x) if x=0 then k else f(x-1); [1,2].map(e->f(e)+k)     (shape only)
def p1 : Raw := .letE "k" (.ident "a")
  (.func "f" ["x"] (.add (.ident "k") (.app (.ident "f") [.add (.ident "x") (.num 1)]))
    (.app (.ident "map") [.lam ["e"] (.add (.app (.ident "f") [.ident "e"]) (.ident "k"))]))
#eval (resolve false p1 (topLayers ["a"])).1
-- a -> b -> a + b + c   with argument c
def p2 : Raw := .lam ["a"] (.lam ["b"] (.add (.add (.ident "a") (.ident "b")) (.ident "c")))
#eval (resolve false p2 (topLayers ["c"])).1
-- map mode:  e -> e + x      (x an attribute)
def p3 : Raw := .lam ["e"] (.add (.ident "e") (.ident "x"))
#eval (resolve false p3 (mapLayers "m")).1      -- pinned commit: outer = ["x"]  (then Generate fails: B16)
#eval (resolve true p3 (mapLayers "m")).1       -- repaired: outer = ["m"]
-- explicit: e -> e + m.x
def p3x : Raw := .lam ["e"] (.add (.ident "e") (.member (.ident "m") "x"))
#eval (resolve true p3x (topLayers ["m"])).1
end Scope
