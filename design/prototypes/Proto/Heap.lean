/-! C09 prototype: list objects as slices over shared backing arrays; Go's append with the
    "cap the parent" trick; ownership invariant; observations of existing handles never change. -/
namespace Heap

structure Slice where
  arr : Nat
  off : Nat
  len : Nat
  cap : Nat            -- capacity counted from `off`
deriving Repr, DecidableEq

structure H where
  arrays : List (List Int)      -- array id ↦ contents (physical length)
  objs : List Slice             -- handle ↦ slice of the list object
deriving Repr

def H.arrayOf (h : H) (a : Nat) : List Int := (h.arrays[a]?).getD []

/-- the observable content of a handle -/
def H.abs (h : H) (s : Slice) : List Int := ((h.arrayOf s.arr).drop s.off).take s.len

inductive Op where
  | lit (xs : List Int)                     -- literal / CopyToSlice-based results: exact capacity
  | evalLazy (xs : List Int) (spare : Nat)  -- materialisation by repeated append: spare capacity
  | append (hd : Nat) (v : Int) (grow : Nat)-- List.Append; `grow` = extra capacity chosen by the runtime
  | set (hd : Nat) (i : Nat) (v : Int)      -- List.Set: copy, then write
  | sub (hd : Nat) (i j : Nat)              -- items[i:j:j] (movingWindow)

def pad (n : Nat) : List Int := List.replicate n 0

def writeAt (l : List Int) (p : Nat) (v : Int) : List Int := l.set p v

def step (h : H) : Op → H
  | .lit xs => { arrays := h.arrays ++ [xs], objs := h.objs ++ [⟨h.arrays.length, 0, xs.length, xs.length⟩] }
  | .evalLazy xs spare =>
      { arrays := h.arrays ++ [xs ++ pad spare], objs := h.objs ++ [⟨h.arrays.length, 0, xs.length, xs.length + spare⟩] }
  | .append hd v grow =>
    match h.objs[hd]? with
    | none => h
    | some s =>
      if s.len < s.cap then
        -- write into the spare slot, cap the parent, the new object owns the rest
        { arrays := h.arrays.set s.arr (writeAt (h.arrayOf s.arr) (s.off + s.len) v),
          objs := (h.objs.set hd { s with cap := s.len }) ++ [{ s with len := s.len + 1 }] }
      else
        { arrays := h.arrays ++ [h.abs s ++ [v] ++ pad grow],
          objs := h.objs ++ [⟨h.arrays.length, 0, s.len + 1, s.len + 1 + grow⟩] }
  | .set hd i v =>
    match h.objs[hd]? with
    | none => h
    | some s =>
      if i < s.len then
        { arrays := h.arrays ++ [(h.abs s).set i v], objs := h.objs ++ [⟨h.arrays.length, 0, s.len, s.len⟩] }
      else h
  | .sub hd i j =>
    match h.objs[hd]? with
    | none => h
    | some s =>
      if i ≤ j ∧ j ≤ s.len then { h with objs := h.objs ++ [⟨s.arr, s.off + i, j - i, j - i⟩] }
      else h

def run (ops : List Op) : H := ops.foldl step ⟨[], []⟩

/-- all observations -/
def H.obs (h : H) : List (List Int) := h.objs.map h.abs

-- a = [1,2].append(3); p = a.append(4); q = a.append(5); r = p.append(6); s = p.append(7)
#eval (run [.lit [1,2], .append 0 3 1, .append 1 4 0, .append 1 5 2, .append 2 6 0, .append 2 7 0]).obs
-- lazily materialised list with spare capacity, branching appends
#eval (run [.evalLazy [3,4,5] 3, .append 0 4 0, .append 0 5 0, .append 1 6 0, .append 1 7 0, .sub 1 1 3]).obs
end Heap
