/-! Prototype: push iterators as consumer-frame stacks; prefix determinacy (C08 shape). -/
namespace Push

abbrev Item := Except String Int          -- an element or the error raised while producing it

/-- effect log: which closure was called on which value -/
abbrev Log := List (Nat × Int)

inductive Frame where
  | map (id : Nat) (f : Int → Except String Int)
  | accept (id : Nat) (p : Int → Except String Bool)
  | top (n : Nat) (seen : Nat)
  | skip (n : Nat) (seen : Nat)
  | combine (id : Nat) (f : Int → Int → Except String Int) (last : Option Int)

inductive Cons where                       -- terminal consumers
  | first (got : Option Item)
  | collect (acc : List Int) (err : Option String)
  | present (id : Nat) (p : Int → Except String Bool) (res : Option (Except String Bool))

structure St where
  frames : List Frame
  cons : Cons
  log : Log

/-- feed one item into the terminal consumer; Bool = continue? -/
def feedCons (c : Cons) (log : Log) (x : Item) : Cons × Log × Bool :=
  match c with
  | .first _ => (.first (some x), log, false)
  | .collect acc _ => match x with
      | .ok v => (.collect (acc ++ [v]) none, log, true)
      | .error e => (.collect acc (some e), log, false)
  | .present id p _ => match x with
      | .error e => (.present id p (some (.error e)), log, false)
      | .ok v => match p v with
        | .error e => (.present id p (some (.error e)), log ++ [(id, v)], false)
        | .ok true => (.present id p (some (.ok true)), log ++ [(id, v)], false)
        | .ok false => (.present id p none, log ++ [(id, v)], true)

/-- feed an item through the frames (mirrors the nested yield calls); returns updated frames -/
def feed : List Frame → Cons → Log → Item → List Frame × Cons × Log × Bool
  | [], c, log, x => let (c', log', k) := feedCons c log x; ([], c', log', k)
  | .map id f :: fs, c, log, x =>
      match x with
      | .error e => let (fs', c', l', k) := feed fs c log (.error e); (.map id f :: fs', c', l', k)
      | .ok v => let (fs', c', l', k) := feed fs c (log ++ [(id, v)]) (f v); (.map id f :: fs', c', l', k)
  | .accept id p :: fs, c, log, x =>
      match x with
      | .error e => let (fs', c', l', k) := feed fs c log (.error e); (.accept id p :: fs', c', l', k)
      | .ok v => match p v with
        | .error e => let (fs', c', l', k) := feed fs c (log ++ [(id, v)]) (.error e); (.accept id p :: fs', c', l', k)
        | .ok true => let (fs', c', l', k) := feed fs c (log ++ [(id, v)]) (.ok v); (.accept id p :: fs', c', l', k)
        | .ok false => (.accept id p :: fs, c, log ++ [(id, v)], true)
  | .top n seen :: fs, c, log, x =>
      if seen = n then (.top n seen :: fs, c, log, false)      -- FirstN: pulled one too many, discards it
      else let (fs', c', l', k) := feed fs c log x; (.top n (seen+1) :: fs', c', l', k)
  | .skip n seen :: fs, c, log, x =>
      if seen < n then
        match x with
        | .error e => let (fs', c', l', k) := feed fs c log (.error e); (.skip n (seen+1) :: fs', c', l', k)
        | .ok _ => (.skip n (seen+1) :: fs, c, log, true)
      else let (fs', c', l', k) := feed fs c log x; (.skip n seen :: fs', c', l', k)
  | .combine id f last :: fs, c, log, x =>
      match last, x with
      | none, .ok v => (.combine id f (some v) :: fs, c, log, true)
      | none, .error e => let (fs', c', l', k) := feed fs c log (.error e); (.combine id f none :: fs', c', l', k)
      | some _, .error e => let (fs', c', l', k) := feed fs c log (.error e); (.combine id f last :: fs', c', l', k)
      | some a, .ok v => let (fs', c', l', k) := feed fs c (log ++ [(id, a)]) (f a v); (.combine id f (some v) :: fs', c', l', k)

/-- the source loop: stops pulling as soon as the chain answers `false` -/
def drive : List Item → St → St × Bool
  | [], s => (s, true)
  | x :: xs, s =>
    let (fs, c, l, k) := feed s.frames s.cons s.log x
    if k then drive xs ⟨fs, c, l⟩ else (⟨fs, c, l⟩, false)

/-- C08 shape: once the chain has said stop inside a prefix, nothing after the prefix matters:
    same frames, same consumer state (result), same log (no further closure calls, no later errors). -/
theorem drive_prefix (xs ys : List Item) (s : St) (h : (drive xs s).2 = false) :
    drive (xs ++ ys) s = drive xs s := by
  induction xs generalizing s with
  | nil => simp [drive] at h
  | cons x xs ih =>
    simp only [List.cons_append, drive]
    simp only [drive] at h
    split
    · rename_i hk; simp only [hk, if_true] at h ⊢; exact ih _ h
    · rfl

/-- `first` decides after one element has reached it -/
theorem first_stops (x : Item) (log : Log) : (feedCons (.first none) log x).2.2 = false := rfl

/-- quantitative: map·first on any non-empty source calls the mapped closure exactly once -/
theorem map_first_one_call (f : Int → Except String Int) (v : Int) (rest : List Item) :
    (drive (.ok v :: rest) ⟨[.map 7 f], .first none, []⟩).1.log = [(7, v)] := by
  simp [drive, feed, feedCons]

#eval (drive ((List.range 1000).map (fun i => .ok (Int.ofNat i)))
        ⟨[.map 1 (fun v => .ok (v*2)), .top 3 0], .collect [] none, []⟩).1.log   -- 4 calls: read-ahead of one
end Push
