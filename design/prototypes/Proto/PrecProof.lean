import Proto.PrecCore
namespace PC

/-- "eventually": for all sufficiently large fuel the result is `r` -/
def Ev (g : Nat → R) (r : R) : Prop := ∃ f0, ∀ f, f0 ≤ f → g f = r

theorem Ev.const (r : R) : Ev (fun _ => r) r := ⟨0, fun _ _ => rfl⟩

/-- from a statement about `f` derive one about `f+1` -/
theorem Ev.succ {g h : Nat → R} {r : R} (hg : Ev g r) (hh : ∀ f, h (f+1) = g f) : Ev h r := by
  obtain ⟨f0, hf⟩ := hg
  refine ⟨f0 + 1, fun f hle => ?_⟩
  obtain ⟨f', rfl⟩ : ∃ f', f = f' + 1 := ⟨f - 1, by omega⟩
  rw [hh, hf f' (by omega)]

/-- sequencing: first computation eventually `ok a rest`, continuation eventually `r` -/
theorem Ev.seq {g1 g2 h : Nat → R} {a : E} {rest : List Tok} {r : R}
    (h1 : Ev g1 (.ok a rest)) (h2 : Ev g2 r)
    (hh : ∀ f, g1 f = .ok a rest → h (f+1) = g2 f) : Ev h r := by
  obtain ⟨f1, hf1⟩ := h1
  obtain ⟨f2, hf2⟩ := h2
  refine ⟨max f1 f2 + 1, fun f hle => ?_⟩
  obtain ⟨f', rfl⟩ : ∃ f', f = f' + 1 := ⟨f - 1, by omega⟩
  rw [hh f' (hf1 f' (by omega)), hf2 f' (by omega)]

/-! table facts -/
theorem posOf_get : ∀ {l : List String} {o k}, posOf l o = some k → l[k]? = some o
  | [], _, _, h => by simp [posOf] at h
  | x :: xs, o, k, h => by
    simp only [posOf] at h
    split at h
    · cases h; simp_all
    · cases hx : posOf xs o with
      | none => simp [hx] at h
      | some j => simp [hx] at h; subst h; simpa using posOf_get hx

theorem posOf_lt {l : List String} {o k} (h : posOf l o = some k) : k < l.length := by
  have := posOf_get h
  exact (List.getElem?_eq_some_iff.mp this).1

theorem posOf_of_get : ∀ {l : List String} {o k}, l.Nodup → l[k]? = some o → posOf l o = some k
  | [], _, _, _, h => by simp at h
  | x :: xs, o, k, hnd, h => by
    simp only [posOf]
    cases k with
    | zero => simp at h; simp [h]
    | succ k =>
      simp at h
      have hmem : o ∈ xs := List.mem_of_getElem? h
      have hx : x ≠ o := by
        intro hxo; subst hxo; exact (List.nodup_cons.mp hnd).1 hmem
      simp [hx, posOf_of_get (List.nodup_cons.mp hnd).2 h]

structure TableWF (t : Table) : Prop where
  nodup : t.ops.Nodup

def WF (t : Table) : E → Prop
  | .atom _ => True
  | .bin o a b => (t.pos o).isSome ∧ WF t a ∧ WF t b
  | .un o a => o ∈ t.unary ∧ WF t a

/-- what may follow an expression parsed by `entry k`: a binary operator only if its level is below
    `k`, and then `follow` names exactly that level -/
def FollowOK (t : Table) (k : Nat) (follow : Option Nat) (rest : List Tok) : Prop :=
  ∀ o tl j, rest = .op o :: tl → t.pos o = some j → follow = some j ∧ j < k

/-- the loop at level k stops when the next token is not its operator -/
theorem loop_stops (t : Table) (hwf : TableWF t) (k : Nat) (o : String) (hk : t.ops[k]? = some o)
    (a : E) (rest : List Tok) (h : ∀ o' tl j, rest = .op o' :: tl → t.pos o' = some j → j < k) :
    Ev (fun f => loop t f k o a rest) (.ok a rest) := by
  refine ⟨1, fun f hf => ?_⟩
  obtain ⟨f', rfl⟩ : ∃ f', f = f' + 1 := ⟨f - 1, by omega⟩
  show loop t (f'+1) k o a rest = _
  match rest, h with
  | [], _ => simp [loop]
  | .op s :: tl, h =>
    by_cases hs : s = o
    · subst hs
      have hp : t.pos s = some k := posOf_of_get hwf.nodup hk
      have := h s tl k rfl hp
      omega
    · simp [loop, hs]
  | .atom _ :: _, _ => simp [loop]
  | .lp :: _, _ => simp [loop]
  | .rp :: _, _ => simp [loop]

/-- pass-through of the binary levels k .. k+d-1 -/
theorem pass_through (t : Table) (hwf : TableWF t) : ∀ (d k : Nat) (toks : List Tok) (e : E) (rest : List Tok),
    k + d ≤ t.n → (∀ o tl j, rest = .op o :: tl → t.pos o = some j → j < k) →
    Ev (fun f => entry t f (k+d) toks) (.ok e rest) → Ev (fun f => entry t f k toks) (.ok e rest)
  | 0, k, toks, e, rest, _, _, h => by simpa using h
  | d+1, k, toks, e, rest, hle, hfol, h => by
    have hk : k < t.n := by omega
    obtain ⟨o, ho⟩ : ∃ o, t.ops[k]? = some o := ⟨t.ops[k]'hk, by simp [Table.n] at hk; simp [hk]⟩
    have h1 : Ev (fun f => entry t f (k+1) toks) (.ok e rest) :=
      pass_through t hwf d (k+1) toks e rest (by omega) (fun o tl j h1 h2 => by have := hfol o tl j h1 h2; omega)
        (by simpa [Nat.add_assoc, Nat.add_comm 1 d] using h)
    refine Ev.seq h1 (loop_stops t hwf k o ho e rest hfol) (fun f hf => ?_)
    show entry t (f+1) k toks = _
    simp only [entry, hk, ho, if_true, hf]

end PC

namespace PC

/-- rendering of a left operand of `o` (level k0): same-operator chains stay flat -/
def flat (t : Table) (k0 : Nat) (o : String) (follow : Option Nat) (e : E) : List Tok :=
  match e with
  | .bin o' _ _ => if o' = o then render t k0 follow e else render t (k0+1) follow e
  | _ => render t (k0+1) follow e

theorem render_bin {t : Table} {o : String} {k0 : Nat} (h : t.pos o = some k0) (k : Nat)
    (follow : Option Nat) (a b : E) :
    render t k follow (.bin o a b) =
      if k0 < k then paren (flat t k0 o (some k0) a ++ .op o :: render t (k0+1) none b)
      else flat t k0 o (some k0) a ++ .op o :: render t (k0+1) follow b := by
  cases a <;> simp [render, flat, h]

theorem render_un_some {t : Table} {o : String} {i : Nat} (h : t.pos o = some i) (k : Nat)
    (follow : Option Nat) (a : E) :
    render t k follow (.un o a) =
      if t.n < k || swallows follow i then paren (.op o :: render t (i+1) none a)
      else .op o :: render t (i+1) follow a := by
  simp [render, h]

theorem render_un_none {t : Table} {o : String} (h : t.pos o = none) (k : Nat)
    (follow : Option Nat) (a : E) :
    render t k follow (.un o a) =
      if t.n < k then paren (.op o :: render t (t.n+1) none a)
      else .op o :: render t (t.n+1) follow a := by
  simp [render, h]

/-! single steps of `entry` -/
theorem entry_bin_step (t : Table) {k : Nat} {o : String} (hk : k < t.n) (ho : t.ops[k]? = some o)
    (f : Nat) (toks : List Tok) {a : E} {rest : List Tok} (h : entry t f (k+1) toks = .ok a rest) :
    entry t (f+1) k toks = loop t f k o a rest := by
  simp only [entry, hk, ho, if_true, h]

theorem entry_gt (t : Table) {k : Nat} (hk : t.n < k) (f : Nat) (toks : List Tok) :
    entry t f k toks = entry t f (t.n+1) toks := by
  cases f with
  | zero => simp [entry]
  | succ f =>
    have h1 : ¬ k < t.n := by omega
    have h2 : ¬ k = t.n := by omega
    have h3 : ¬ t.n + 1 < t.n := by omega
    have h4 : ¬ t.n + 1 = t.n := by omega
    simp only [entry, h1, h2, h3, h4, if_false]

theorem entry_lit_atom (t : Table) (f : Nat) (s : String) (rest : List Tok) :
    entry t (f+1) (t.n+1) (.atom s :: rest) = .ok (.atom s) rest := by
  have h3 : ¬ t.n + 1 < t.n := by omega
  have h4 : ¬ t.n + 1 = t.n := by omega
  simp only [entry, h3, h4, if_false]

theorem entry_lit_paren (t : Table) (f : Nat) (rest : List Tok) {e : E} {rest' : List Tok}
    (h : entry t f 0 rest = .ok e (.rp :: rest')) :
    entry t (f+1) (t.n+1) (.lp :: rest) = .ok e rest' := by
  have h3 : ¬ t.n + 1 < t.n := by omega
  have h4 : ¬ t.n + 1 = t.n := by omega
  simp only [entry, h3, h4, if_false, h]

theorem entry_unary_skip (t : Table) (f : Nat) (toks : List Tok)
    (h : ∀ s tl, toks = .op s :: tl → s ∉ t.unary) :
    entry t (f+1) t.n toks = entry t f (t.n+1) toks := by
  simp only [entry, Nat.lt_irrefl, if_false, if_true]
  match toks, h with
  | [], _ => rfl
  | .op s :: tl, h => simp [h s tl rfl]
  | .atom _ :: _, _ => rfl
  | .lp :: _, _ => rfl
  | .rp :: _, _ => rfl

theorem entry_unary_some (t : Table) (f : Nat) {s : String} {i : Nat} (rest : List Tok)
    (hs : s ∈ t.unary) (hp : t.pos s = some i) {a : E} {rest' : List Tok}
    (h : entry t f (i+1) rest = .ok a rest') :
    entry t (f+1) t.n (.op s :: rest) = .ok (.un s a) rest' := by
  simp only [entry, Nat.lt_irrefl, if_false, if_true, hs, hp, h]

theorem entry_unary_none (t : Table) (f : Nat) {s : String} (rest : List Tok)
    (hs : s ∈ t.unary) (hp : t.pos s = none) {a : E} {rest' : List Tok}
    (h : entry t f (t.n+1) rest = .ok a rest') :
    entry t (f+1) t.n (.op s :: rest) = .ok (.un s a) rest' := by
  simp only [entry, Nat.lt_irrefl, if_false, if_true, hs, hp, h]

theorem loop_step (t : Table) (f k : Nat) (o : String) (a : E) (rest : List Tok) {b : E} {rest' : List Tok}
    (h : entry t f (k+1) rest = .ok b rest') :
    loop t (f+1) k o a (.op o :: rest) = loop t f k o (.bin o a b) rest' := by
  simp only [loop, if_true, h]

/-- from the literal level up to any level `k`, for token lists that do not start with an operator -/
theorem lit_level (t : Table) (hwf : TableWF t) (k : Nat) (toks : List Tok) (e : E) (rest : List Tok)
    (hhead : ∀ s tl, toks ≠ .op s :: tl)
    (hfol : ∀ o tl j, rest = .op o :: tl → t.pos o = some j → j < k)
    (h : Ev (fun f => entry t f (t.n+1) toks) (.ok e rest)) :
    Ev (fun f => entry t f k toks) (.ok e rest) := by
  by_cases hk : t.n < k
  · obtain ⟨f0, hf⟩ := h
    exact ⟨f0, fun f hle => by
      show entry t f k toks = _
      rw [entry_gt t hk]; exact hf f hle⟩
  · have hn : Ev (fun f => entry t f t.n toks) (.ok e rest) :=
      Ev.succ h (fun f => entry_unary_skip t f toks (fun s tl h => absurd h (hhead s tl)))
    have := pass_through t hwf (t.n - k) k toks e rest (by omega) hfol
      (by rw [show k + (t.n - k) = t.n by omega]; exact hn)
    exact this

end PC

namespace PC

theorem pos_lt_n {t : Table} {o : String} {k : Nat} (h : t.pos o = some k) : k < t.n := posOf_lt h
theorem pos_get {t : Table} {o : String} {k : Nat} (h : t.pos o = some k) : t.ops[k]? = some o := posOf_get h

/-- statement (A): parsing the rendering at any level gives back the tree -/
def PA (t : Table) (e : E) : Prop :=
  ∀ k follow rest, FollowOK t k follow rest →
    Ev (fun f => entry t f k (render t k follow e ++ rest)) (.ok e rest)

/-- statement (C): as the left operand of `o` (level k0) the tree is parsed and the loop of level k0
    continues with it as accumulator -/
def PC' (t : Table) (e : E) : Prop :=
  ∀ k0 o follow rest r, t.pos o = some k0 → FollowOK t (k0+1) follow rest →
    Ev (fun f => loop t f k0 o e rest) r →
    Ev (fun f => entry t f k0 (flat t k0 o follow e ++ rest)) r

/-- for trees that are not a chain of `o`, (C) follows from (A) -/
theorem PC_of_PA {t : Table} {e : E} (hA : PA t e) (k0 : Nat) (o : String) (follow : Option Nat)
    (rest : List Tok) (r : R) (hp : t.pos o = some k0) (hflat : flat t k0 o follow e = render t (k0+1) follow e)
    (hfol : FollowOK t (k0+1) follow rest) (hl : Ev (fun f => loop t f k0 o e rest) r) :
    Ev (fun f => entry t f k0 (flat t k0 o follow e ++ rest)) r := by
  rw [hflat]
  exact Ev.seq (hA (k0+1) follow rest hfol) hl
    (fun f hf => entry_bin_step t (pos_lt_n hp) (pos_get hp) f _ hf)

theorem FollowOK.lt {t : Table} {k : Nat} {follow : Option Nat} {rest : List Tok}
    (h : FollowOK t k follow rest) : ∀ o tl j, rest = .op o :: tl → t.pos o = some j → j < k :=
  fun o tl j h1 h2 => (h o tl j h1 h2).2

theorem followOK_rp (t : Table) (k : Nat) (follow : Option Nat) (rest : List Tok) :
    FollowOK t k follow (.rp :: rest) := by
  intro o tl j h; cases h

/-- wrapping in parentheses: if the inner rendering parses at level 0, the parenthesised one parses at any level -/
theorem paren_parses (t : Table) (hwf : TableWF t) (e : E) (inner : List Tok) (k : Nat) (follow : Option Nat)
    (rest : List Tok) (hfol : FollowOK t k follow rest)
    (hin : Ev (fun f => entry t f 0 (inner ++ .rp :: rest)) (.ok e (.rp :: rest))) :
    Ev (fun f => entry t f k (paren inner ++ rest)) (.ok e rest) := by
  have hlit : Ev (fun f => entry t f (t.n+1) (paren inner ++ rest)) (.ok e rest) := by
    obtain ⟨f0, hf⟩ := hin
    refine ⟨f0 + 1, fun f hle => ?_⟩
    obtain ⟨f', rfl⟩ : ∃ f', f = f' + 1 := ⟨f - 1, by omega⟩
    have := hf f' (by omega)
    simp only [paren, List.cons_append, List.append_assoc, List.singleton_append]
    exact entry_lit_paren t f' _ this
  exact lit_level t hwf k _ e rest (by intro s tl h; simp [paren] at h) hfol.lt hlit

theorem roundtrip (t : Table) (hwf : TableWF t) : ∀ e, WF t e → PA t e ∧ PC' t e := by
  intro e
  induction e with
  | atom s =>
    intro _
    have hA : PA t (.atom s) := by
      intro k follow rest hfol
      simp only [render, List.singleton_append]
      refine lit_level t hwf k _ _ rest (by intro s' tl h; cases h) hfol.lt ?_
      exact ⟨1, fun f hle => by
        obtain ⟨f', rfl⟩ : ∃ f', f = f' + 1 := ⟨f - 1, by omega⟩
        exact entry_lit_atom t f' s rest⟩
    exact ⟨hA, fun k0 o follow rest r hp hfol hl => PC_of_PA hA k0 o follow rest r hp rfl hfol hl⟩
  | un u a iha =>
    intro hw
    obtain ⟨hu, hwa⟩ := hw
    obtain ⟨hAa, _⟩ := iha hwa
    have hA : PA t (.un u a) := by
      cases hp : t.pos u with
      | some i =>
        -- unparenthesised form, for contexts k ≤ n whose follower is not swallowed
        have hnp : ∀ k follow rest, k ≤ t.n → swallows follow i = false → FollowOK t k follow rest →
            Ev (fun f => entry t f k (.op u :: render t (i+1) follow a ++ rest)) (.ok (.un u a) rest) := by
          intro k follow rest hk hsw hfol
          have hfa : FollowOK t (i+1) follow rest := by
            intro o tl j h1 h2
            obtain ⟨hf1, _⟩ := hfol o tl j h1 h2
            refine ⟨hf1, ?_⟩
            subst hf1
            simp [swallows] at hsw
            omega
          have hn : Ev (fun f => entry t f t.n (.op u :: (render t (i+1) follow a ++ rest))) (.ok (.un u a) rest) := by
            obtain ⟨f0, hf⟩ := hAa (i+1) follow rest hfa
            refine ⟨f0 + 1, fun f hle => ?_⟩
            obtain ⟨f', rfl⟩ : ∃ f', f = f' + 1 := ⟨f - 1, by omega⟩
            exact entry_unary_some t f' _ hu hp (hf f' (by omega))
          have := pass_through t hwf (t.n - k) k _ _ rest (by omega) hfol.lt
            (by rw [show k + (t.n - k) = t.n by omega]; exact hn)
          simpa using this
        intro k follow rest hfol
        rw [render_un_some hp]
        by_cases hc : (decide (t.n < k) || swallows follow i) = true
        · rw [if_pos hc]
          refine paren_parses t hwf _ _ k follow rest hfol ?_
          have := hnp 0 none (.rp :: rest) (Nat.zero_le _) rfl (followOK_rp t 0 none rest)
          simpa using this
        · rw [if_neg hc]
          simp only [Bool.or_eq_true, decide_eq_true_eq, not_or, Bool.not_eq_true] at hc
          have := hnp k follow rest (by omega) hc.2 hfol
          simpa using this
      | none =>
        have hnp : ∀ k follow rest, k ≤ t.n → FollowOK t k follow rest →
            Ev (fun f => entry t f k (.op u :: render t (t.n+1) follow a ++ rest)) (.ok (.un u a) rest) := by
          intro k follow rest hk hfol
          have hfa : FollowOK t (t.n+1) follow rest := by
            intro o tl j h1 h2
            obtain ⟨hf1, _⟩ := hfol o tl j h1 h2
            exact ⟨hf1, by have := pos_lt_n h2; omega⟩
          have hn : Ev (fun f => entry t f t.n (.op u :: (render t (t.n+1) follow a ++ rest))) (.ok (.un u a) rest) := by
            obtain ⟨f0, hf⟩ := hAa (t.n+1) follow rest hfa
            refine ⟨f0 + 1, fun f hle => ?_⟩
            obtain ⟨f', rfl⟩ : ∃ f', f = f' + 1 := ⟨f - 1, by omega⟩
            exact entry_unary_none t f' _ hu hp (hf f' (by omega))
          have := pass_through t hwf (t.n - k) k _ _ rest (by omega) hfol.lt
            (by rw [show k + (t.n - k) = t.n by omega]; exact hn)
          simpa using this
        intro k follow rest hfol
        rw [render_un_none hp]
        by_cases hc : t.n < k
        · rw [if_pos hc]
          refine paren_parses t hwf _ _ k follow rest hfol ?_
          have := hnp 0 none (.rp :: rest) (Nat.zero_le _) (followOK_rp t 0 none rest)
          simpa using this
        · rw [if_neg hc]
          have := hnp k follow rest (by omega) hfol
          simpa using this
    exact ⟨hA, fun k0 o follow rest r hp hfol hl => PC_of_PA hA k0 o follow rest r hp rfl hfol hl⟩
  | bin o a b iha ihb =>
    intro hw
    obtain ⟨hpo, hwa, hwb⟩ := hw
    obtain ⟨k0, hp⟩ := Option.isSome_iff_exists.mp hpo
    obtain ⟨_, hCa⟩ := iha hwa
    obtain ⟨hAb, _⟩ := ihb hwb
    have hk0 := pos_lt_n hp
    -- (C) at the tree's own level: parse the flat rendering, end in the loop with the tree as accumulator
    have hself : ∀ follow rest r, FollowOK t (k0+1) follow rest →
        Ev (fun f => loop t f k0 o (.bin o a b) rest) r →
        Ev (fun f => entry t f k0 ((flat t k0 o (some k0) a ++ .op o :: render t (k0+1) follow b) ++ rest)) r := by
      intro follow rest r hfol hl
      have hfol' : FollowOK t (k0+1) (some k0) (.op o :: (render t (k0+1) follow b ++ rest)) := by
        intro o' tl j h1 h2
        cases h1
        rw [hp] at h2; cases h2
        exact ⟨rfl, Nat.lt_succ_self _⟩
      have hl' : Ev (fun f => loop t f k0 o a (.op o :: (render t (k0+1) follow b ++ rest))) r :=
        Ev.seq (hAb (k0+1) follow rest hfol) hl (fun f hf => loop_step t f k0 o a _ hf)
      have := hCa k0 o (some k0) _ r hp hfol' hl'
      simpa [List.append_assoc] using this
    have hA : PA t (.bin o a b) := by
      have hnp : ∀ k follow rest, k ≤ k0 → FollowOK t k follow rest →
          Ev (fun f => entry t f k ((flat t k0 o (some k0) a ++ .op o :: render t (k0+1) follow b) ++ rest))
            (.ok (.bin o a b) rest) := by
        intro k follow rest hk hfol
        have hfol1 : FollowOK t (k0+1) follow rest := fun o' tl j h1 h2 => by
          obtain ⟨x, y⟩ := hfol o' tl j h1 h2; exact ⟨x, by omega⟩
        have hstop := loop_stops t hwf k0 o (pos_get hp) (.bin o a b) rest
          (fun o' tl j h1 h2 => by have := (hfol o' tl j h1 h2).2; omega)
        have hk0' := hself follow rest _ hfol1 hstop
        have := pass_through t hwf (k0 - k) k _ _ rest (by omega) hfol.lt
          (by rw [show k + (k0 - k) = k0 by omega]; exact hk0')
        exact this
      intro k follow rest hfol
      rw [render_bin hp]
      by_cases hc : k0 < k
      · rw [if_pos hc]
        refine paren_parses t hwf _ _ k follow rest hfol ?_
        exact hnp 0 none (.rp :: rest) (Nat.zero_le _) (followOK_rp t 0 none rest)
      · rw [if_neg hc]
        exact hnp k follow rest (by omega) hfol
    refine ⟨hA, ?_⟩
    intro k1 o1 follow rest r hp1 hfol hl
    by_cases ho : o = o1
    · subst ho
      rw [hp] at hp1; cases hp1
      have : flat t k0 o follow (.bin o a b) = flat t k0 o (some k0) a ++ .op o :: render t (k0+1) follow b := by
        simp [flat, render_bin hp]
      rw [this]
      exact hself follow rest r hfol hl
    · exact PC_of_PA hA k1 o1 follow rest r hp1 (by simp [flat, ho]) hfol hl

/-- C03 core, all tables and all trees: parsing the minimal-parenthesis rendering returns the tree
    and consumes exactly the rendering (for every sufficiently large fuel). -/
theorem parse_render_core (t : Table) (hwf : TableWF t) (e : E) (hw : WF t e) :
    Ev (fun f => entry t f 0 (render t 0 none e)) (.ok e []) := by
  have := (roundtrip t hwf e hw).1 0 none [] (by intro o tl j h; cases h)
  simpa using this

#print axioms parse_render_core
end PC
