/-! C17 prototype: JSON string escaping round trip for every string, generic in the escape table. -/
namespace Json

def hexDigit (n : Nat) : Char := if n < 10 then Char.ofNat (48 + n) else Char.ofNat (87 + n)
def hexVal (c : Char) : Option Nat :=
  if '0' ≤ c ∧ c ≤ '9' then some (c.toNat - 48)
  else if 'a' ≤ c ∧ c ≤ 'f' then some (c.toNat - 87)
  else if 'A' ≤ c ∧ c ≤ 'F' then some (c.toNat - 55)
  else none

/-- the escaper the repaired `jsonExporter.String` is expected to implement -/
def esc (c : Char) : List Char :=
  if c = '"' then ['\\', '"'] else if c = '\\' then ['\\', '\\']
  else if c = '\n' then ['\\', 'n'] else if c = '\r' then ['\\', 'r'] else if c = '\t' then ['\\', 't']
  else if c.toNat < 0x20 then ['\\', 'u', '0', '0', hexDigit (c.toNat / 16), hexDigit (c.toNat % 16)]
  else [c]

/-- the escaper of the pinned commit (no backslash, no control characters) -/
def escHead (c : Char) : List Char :=
  if c = '"' then ['\\', '"'] else if c = '\n' then ['\\', 'n'] else if c = '\r' then ['\\', 'r']
  else if c = '\t' then ['\\', 't'] else [c]

def encode (e : Char → List Char) (s : List Char) : List Char := '"' :: (s.flatMap e ++ ['"'])

/-- RFC 8259 string body decoder (after the opening quote); no surrogate pairs in the prototype -/
def decodeBody : List Char → List Char → Option (List Char × List Char)
  | [], _ => none
  | '"' :: rest, acc => some (acc, rest)
  | '\\' :: '"' :: rest, acc => decodeBody rest (acc ++ ['"'])
  | '\\' :: '\\' :: rest, acc => decodeBody rest (acc ++ ['\\'])
  | '\\' :: '/' :: rest, acc => decodeBody rest (acc ++ ['/'])
  | '\\' :: 'b' :: rest, acc => decodeBody rest (acc ++ [Char.ofNat 8])
  | '\\' :: 'f' :: rest, acc => decodeBody rest (acc ++ [Char.ofNat 12])
  | '\\' :: 'n' :: rest, acc => decodeBody rest (acc ++ ['\n'])
  | '\\' :: 'r' :: rest, acc => decodeBody rest (acc ++ ['\r'])
  | '\\' :: 't' :: rest, acc => decodeBody rest (acc ++ ['\t'])
  | '\\' :: 'u' :: a :: b :: c :: d :: rest, acc =>
    match hexVal a, hexVal b, hexVal c, hexVal d with
    | some x, some y, some z, some w => decodeBody rest (acc ++ [Char.ofNat (((x * 16 + y) * 16 + z) * 16 + w)])
    | _, _, _, _ => none
  | '\\' :: _, _ => none
  | c :: rest, acc => if c.toNat < 0x20 then none else decodeBody rest (acc ++ [c])

def decode : List Char → Option (List Char × List Char)
  | '"' :: rest => decodeBody rest []
  | _ => none

/-- what the round trip needs from an escape table, character by character -/
def EscOK (e : Char → List Char) : Prop :=
  ∀ c tail acc, decodeBody (e c ++ tail) acc = decodeBody tail (acc ++ [c])

theorem roundtrip_of_escOK (e : Char → List Char) (h : EscOK e) (s rest : List Char) :
    decode (encode e s ++ rest) = some (s, rest) := by
  have key : ∀ (s acc : List Char), decodeBody (s.flatMap e ++ ('"' :: rest)) acc = some (acc ++ s, rest) := by
    intro s
    induction s with
    | nil => intro acc; simp [decodeBody]
    | cons c cs ih =>
      intro acc
      simp only [List.flatMap_cons, List.append_assoc]
      rw [h c _ acc, ih]
      simp
  simp only [encode, List.cons_append, List.append_assoc, decode]
  simpa using key s []

-- the pinned escaper is not OK: witness (a test on one string, proved by evaluation)
example : decode (encode escHead ['a', '\\', 'b']) ≠ some (['a', '\\', 'b'], []) := by decide
example : decode (encode escHead [Char.ofNat 1]) = none := by decide
#eval decode (encode escHead "a\\b".toList)
#eval decode (encode esc "a\\b\x01\"\n√".toList)
end Json

namespace Json
theorem hex_roundtrip : ∀ n, n < 16 → hexVal (hexDigit n) = some n := by decide

theorem decodeBody_plain (c : Char) (tail acc : List Char) (h1 : c ≠ '"') (h2 : c ≠ '\\') (h3 : ¬ c.toNat < 0x20) :
    decodeBody (c :: tail) acc = decodeBody tail (acc ++ [c]) := by
  rw [decodeBody.eq_def]
  split <;> simp_all <;> omega

theorem escOK_esc : EscOK esc := by
  intro c tail acc
  unfold esc
  by_cases h1 : c = '"'
  · subst h1; simp [decodeBody]
  by_cases h2 : c = '\\'
  · subst h2; simp [decodeBody]
  by_cases h3 : c = '\n'
  · subst h3; simp [decodeBody]
  by_cases h4 : c = '\r'
  · subst h4; simp [decodeBody]
  by_cases h5 : c = '\t'
  · subst h5; simp [decodeBody]
  by_cases h6 : c.toNat < 0x20
  · simp only [h1, h2, h3, h4, h5, h6, if_false, if_true, List.cons_append, List.nil_append]
    have hz : hexVal '0' = some 0 := by decide
    have ha := hex_roundtrip (c.toNat / 16) (by omega)
    have hb := hex_roundtrip (c.toNat % 16) (by omega)
    simp only [decodeBody, hz, ha, hb]
    have : ((0 * 16 + 0) * 16 + c.toNat / 16) * 16 + c.toNat % 16 = c.toNat := by omega
    rw [this]
    simp [Char.ofNat_toNat]
  · simp only [h1, h2, h3, h4, h5, h6, if_false, List.cons_append, List.nil_append]
    exact decodeBody_plain c tail acc h1 h2 h6

/-- C17.1 for the repaired escaper: every string round-trips -/
theorem json_string_roundtrip (s rest : List Char) : decode (encode esc s ++ rest) = some (s, rest) :=
  roundtrip_of_escOK esc escOK_esc s rest
#print axioms json_string_roundtrip
end Json
