import Proto.Lex
/-! C15 prototype: string literal round trip on the faithful scanner model (pinned commit): holds for
    strings without NUL and without the typographic alias runes (which `peek` rewrites everywhere). -/
namespace Lex

def escChar (c : Char) : List Char :=
  if c = '\\' then ['\\', '\\'] else if c = '"' then ['\\', '"'] else if c = '\n' then ['\\', 'n']
  else if c = '\r' then ['\\', 'r'] else if c = '\t' then ['\\', 't'] else [c]

def Plain (c : Char) : Prop := alias c = c ∧ c ≠ EOFc

theorem decode_cons (c : Char) (rest : List Char) : decode (c :: rest) = (c, 1) := rfl

/-- `next` without comment skipping on a fresh state just takes the head rune (after the alias switch) -/
theorem next_fresh (cfg : Cfg) (c : Char) (rest : List Char) (last : Char) (line : Nat) :
    next cfg false ⟨c :: rest, false, last, line⟩ = (alias c, ⟨rest, false, alias c, line⟩) := by
  simp [next, peek, consume, decode_cons]

theorem alias_of_ascii {c : Char} (h : c.toNat < 128) : alias c = c := by
  unfold alias
  have h1 : c ≠ '•' := by intro h'; subst h'; revert h; decide
  have h2 : c ≠ '×' := by intro h'; subst h'; revert h; decide
  have h3 : c ≠ '÷' := by intro h'; subst h'; revert h; decide
  have h4 : c ≠ '–' := by intro h'; subst h'; revert h; decide
  have h5 : c ≠ 'ˆ' := by intro h'; subst h'; revert h; decide
  simp [h1, h2, h3, h4, h5]

theorem alias_bs : alias '\\' = '\\' := alias_of_ascii (by decide)

/-- `\\` followed by an escape letter `i` that stands for `d` -/
theorem readStr_escape (cfg : Cfg) (i d : Char) (hi : i.toNat < 128)
    (hd : (if i = 'n' then ['\n'] else if i = 'r' then ['\r'] else if i = 't' then ['\t']
        else if i = '"' then ['"'] else if i = '\\' then ['\\'] else ['\\', i]) = [d])
    (f : Nat) (tail : List Char) (last : Char) (line : Nat) (acc : List Char) :
    readStr cfg (f+1) ⟨'\\' :: i :: tail, false, last, line⟩ acc =
      readStr cfg f ⟨tail, false, i, line⟩ (acc ++ [d]) := by
  rw [readStr, next_fresh, alias_bs]
  have h1 : ('\\' : Char) ≠ '"' := by decide
  have h2 : ¬ (('\\' : Char) = EOFc ∨ ('\\' : Char) = '\n' ∨ ('\\' : Char) = '\r') := by decide
  simp only [h1, h2, if_false, if_true]
  rw [next_fresh, alias_of_ascii hi]
  simp only [hd]

/-- one source character (escaped) is read back as that character -/
theorem readStr_char (cfg : Cfg) (c : Char) (hc : Plain c) (f : Nat) (tail : List Char) (last : Char) (line : Nat)
    (acc : List Char) :
    ∃ last', readStr cfg (f+1) ⟨escChar c ++ tail, false, last, line⟩ acc =
      readStr cfg f ⟨tail, false, last', line⟩ (acc ++ [c]) := by
  obtain ⟨ha, hn⟩ := hc
  by_cases h1 : c = '\\'
  · subst h1
    exact ⟨'\\', by rw [show escChar '\\' = ['\\', '\\'] by decide]; exact readStr_escape cfg '\\' '\\' (by decide) (by decide) f tail last line acc⟩
  by_cases h2 : c = '"'
  · subst h2
    exact ⟨'"', by rw [show escChar '"' = ['\\', '"'] by decide]; exact readStr_escape cfg '"' '"' (by decide) (by decide) f tail last line acc⟩
  by_cases h3 : c = '\n'
  · subst h3
    exact ⟨'n', by rw [show escChar '\n' = ['\\', 'n'] by decide]; exact readStr_escape cfg 'n' '\n' (by decide) (by decide) f tail last line acc⟩
  by_cases h4 : c = '\r'
  · subst h4
    exact ⟨'r', by rw [show escChar '\r' = ['\\', 'r'] by decide]; exact readStr_escape cfg 'r' '\r' (by decide) (by decide) f tail last line acc⟩
  by_cases h5 : c = '\t'
  · subst h5
    exact ⟨'t', by rw [show escChar '\t' = ['\\', 't'] by decide]; exact readStr_escape cfg 't' '\t' (by decide) (by decide) f tail last line acc⟩
  · refine ⟨c, ?_⟩
    have he : escChar c = [c] := by simp [escChar, h1, h2, h3, h4, h5]
    rw [he]
    simp only [List.cons_append, List.nil_append]
    rw [readStr, next_fresh, ha]
    have h6 : ¬ (c = EOFc ∨ c = '\n' ∨ c = '\r') := by simp [hn, h3, h4]
    simp only [h2, h6, h1, if_false]

theorem readStr_all (cfg : Cfg) : ∀ (s : List Char), (∀ c ∈ s, Plain c) → ∀ (f : Nat), s.length < f →
    ∀ (tail : List Char) (last : Char) (line : Nat) (acc : List Char),
    ∃ last', readStr cfg f ⟨s.flatMap escChar ++ '"' :: tail, false, last, line⟩ acc =
      (⟨.string, String.ofList (acc ++ s), line⟩, ⟨tail, false, last', line⟩)
  | [], _, f, hf, tail, last, line, acc => by
    obtain ⟨f', rfl⟩ : ∃ f', f = f' + 1 := ⟨f - 1, by simp at hf; omega⟩
    refine ⟨'"', ?_⟩
    simp only [List.flatMap_nil, List.nil_append, List.append_nil]
    rw [readStr, next_fresh]
    have : alias '"' = '"' := alias_of_ascii (by decide)
    simp [this]
  | c :: cs, hall, f, hf, tail, last, line, acc => by
    obtain ⟨f', rfl⟩ : ∃ f', f = f' + 1 := ⟨f - 1, by simp at hf; omega⟩
    obtain ⟨l1, h1⟩ := readStr_char cfg c (hall c (List.mem_cons_self ..)) f' (cs.flatMap escChar ++ '"' :: tail) last line acc
    obtain ⟨l2, h2⟩ := readStr_all cfg cs (fun c hc => hall c (List.mem_cons_of_mem _ hc)) f' (by simp at hf; omega)
      tail l1 line (acc ++ [c])
    refine ⟨l2, ?_⟩
    simp only [List.flatMap_cons, List.append_assoc]
    rw [h1, h2]
    simp

#print axioms readStr_all
end Lex
