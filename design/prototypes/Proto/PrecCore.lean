/-! C03 prototype, proof-oriented: operator core of parser2's precedence parser
    (parseOp / loop / next / parseUnary / parseNonOp / parseLit), generic in the table,
    with the unary-at-highest-level fix (inner operand parsed by `entry (i+1)`). -/
namespace PC

inductive Tok where
  | op (s : String) | atom (s : String) | lp | rp
deriving Repr, DecidableEq

inductive E where
  | atom (s : String)
  | bin (o : String) (a b : E)
  | un (o : String) (a : E)
deriving Repr, DecidableEq

def posOf : List String → String → Option Nat
  | [], _ => none
  | x :: xs, o => if x = o then some 0 else (posOf xs o).map (· + 1)

structure Table where
  ops : List String
  unary : List String

def Table.n (t : Table) : Nat := t.ops.length
def Table.pos (t : Table) (o : String) : Option Nat := posOf t.ops o

inductive R where
  | ok (e : E) (rest : List Tok) | err | fuel
deriving Repr, DecidableEq

-- entry k: k < n → parseOp k; k = n → parseUnary; k > n → parseNonOp
mutual
def entry (t : Table) : Nat → Nat → List Tok → R
  | 0, _, _ => .fuel
  | f+1, k, ts =>
    if k < t.n then
      match t.ops[k]? with
      | none => .err
      | some o =>
        match entry t f (k+1) ts with
        | .ok a rest => loop t f k o a rest
        | r => r
    else if k = t.n then
      match ts with
      | .op s :: rest =>
        if s ∈ t.unary then
          match t.pos s with
          | some i => match entry t f (i+1) rest with
            | .ok a rest' => .ok (.un s a) rest'
            | r => r
          | none => match entry t f (t.n+1) rest with
            | .ok a rest' => .ok (.un s a) rest'
            | r => r
        else entry t f (t.n+1) ts
      | _ => entry t f (t.n+1) ts
    else
      match ts with
      | .atom s :: rest => .ok (.atom s) rest
      | .lp :: rest =>
        match entry t f 0 rest with
        | .ok e (.rp :: rest') => .ok e rest'
        | .ok _ _ => .err
        | r => r
      | _ => .err
def loop (t : Table) : Nat → Nat → String → E → List Tok → R
  | 0, _, _, _, _ => .fuel
  | f+1, k, o, a, ts =>
    match ts with
    | .op s :: rest =>
      if s = o then
        match entry t f (k+1) rest with
        | .ok b rest' => loop t f k o (.bin o a b) rest'
        | r => r
      else .ok a ts
    | _ => .ok a ts
end

/-! renderer -/
def paren (ts : List Tok) : List Tok := .lp :: (ts ++ [.rp])

def swallows (follow : Option Nat) (i : Nat) : Bool :=
  match follow with | some j => decide (i < j) | none => false

/-- `render t k follow e`: tokens of `e` for a context that is parsed by `entry k` and is followed
    (in the same unparenthesised context) by the binary operator of level `follow`. -/
def render (t : Table) : Nat → Option Nat → E → List Tok
  | _, _, .atom s => [.atom s]
  | k, follow, .bin o a b =>
    match t.pos o with
    | none => []                                   -- not well-formed over t
    | some k0 =>
      let left := match a with
        | .bin o' _ _ => if o' = o then render t k0 (some k0) a else render t (k0+1) (some k0) a
        | _ => render t (k0+1) (some k0) a
      if k0 < k then paren (left ++ .op o :: render t (k0+1) none b)
      else left ++ .op o :: render t (k0+1) follow b
  | k, follow, .un o a =>
    match t.pos o with
    | some i =>
      if t.n < k || swallows follow i then paren (.op o :: render t (i+1) none a)
      else .op o :: render t (i+1) follow a
    | none =>
      if t.n < k then paren (.op o :: render t (t.n+1) none a)
      else .op o :: render t (t.n+1) follow a

def parse (t : Table) (ts : List Tok) : R :=
  match entry t ((ts.length + 1) * (t.n + 3)) 0 ts with
  | .ok e [] => .ok e []
  | .ok _ _ => .err
  | r => r

def tbl : Table := { ops := ["+", "-", "*", "^"], unary := ["-", "!"] }
def tbl2 : Table := { ops := ["|", "&", "=", "<"], unary := ["!", "<"] }
def allE (t : Table) : Nat → List E
  | 0 => [.atom "a", .atom "b"]
  | n+1 =>
    let sub := allE t n
    let small := allE t 0
    sub ++ (t.ops.flatMap fun o => sub.flatMap fun a => small.map fun b => E.bin o a b)
        ++ (t.ops.flatMap fun o => small.flatMap fun a => sub.map fun b => E.bin o a b)
        ++ (t.unary.flatMap fun o => sub.map fun a => E.un o a)
#eval (allE tbl 3).length
#eval ((allE tbl 3).filter fun e => parse tbl (render tbl 0 none e) != .ok e []).length
#eval ((allE tbl2 3).filter fun e => parse tbl2 (render tbl2 0 none e) != .ok e []).length
end PC
