/-! Prototype: precedence parser of parser2 (parseOp / parseUnary / parseNonOperator / parseLiteral),
    generic in the operator table, and a renderer with minimal parentheses. -/
namespace Prec

inductive Tok where
  | op (s : String) | atom (s : String) | lp | rp | lb | rb | dot | comma
deriving Repr, DecidableEq, BEq

inductive E where
  | atom (s : String)
  | bin (o : String) (a b : E)
  | un (o : String) (a : E)
  | call (f : E) (args : List E)
  | index (l : E) (i : E)
  | member (m : E) (k : String)
deriving Repr, BEq

structure Table where
  ops : List String            -- ascending priority
  unary : List String
deriving Repr

def Table.pos (t : Table) (o : String) : Option Nat :=
  let i := t.ops.findIdx (· == o); if i < t.ops.length then some i else none

inductive R (α : Type) where
  | ok (a : α) (rest : List Tok) | err | fuel | panic
deriving Repr

mutual
def parseOp (t : Table) : Nat → Nat → List Tok → R E
  | 0, _, _ => .fuel
  | f+1, k, ts =>
    match t.ops[k]? with
    | none => .panic                       -- p.operators[op] index out of range
    | some o =>
      match next t f k ts with
      | .ok a rest => loop t f k o a rest
      | r => r
def loop (t : Table) : Nat → Nat → String → E → List Tok → R E
  | 0, _, _, _, _ => .fuel
  | f+1, k, o, a, ts =>
    match ts with
    | .op s :: rest => if s == o then
        match next t f k rest with
        | .ok b rest' => loop t f k o (.bin o a b) rest'
        | r => r
      else .ok a ts
    | _ => .ok a ts
def next (t : Table) : Nat → Nat → List Tok → R E
  | 0, _, _ => .fuel
  | f+1, k, ts => if k + 1 < t.ops.length then parseOp t f (k+1) ts else parseUnary t f ts
def parseUnary (t : Table) : Nat → List Tok → R E
  | 0, _ => .fuel
  | f+1, ts =>
    match ts with
    | .op s :: rest =>
      if t.unary.contains s then
        let inner := match t.pos s with
          | some i => parseOp t f (i+1) rest       -- HEAD: no bounds check => may panic
          | none => parseNonOp t f rest
        match inner with
        | .ok a rest' => .ok (.un s a) rest'
        | r => r
      else parseNonOp t f ts
    | _ => parseNonOp t f ts
def parseNonOp (t : Table) : Nat → List Tok → R E
  | 0, _ => .fuel
  | f+1, ts =>
    match parseLit t f ts with
    | .ok e rest => postfixLoop t f e rest
    | r => r
def postfixLoop (t : Table) : Nat → E → List Tok → R E
  | 0, _, _ => .fuel
  | f+1, e, ts =>
    match ts with
    | .dot :: .atom k :: rest => postfixLoop t f (.member e k) rest
    | .dot :: _ => .err
    | .lp :: rest =>
      match parseArgs t f rest with
      | .ok (.call _ args) rest' => postfixLoop t f (.call e args) rest'
      | .ok _ _ => .err
      | r => r
    | .lb :: rest =>
      match parseOp t f 0 rest with
      | .ok i (.rb :: rest') => postfixLoop t f (.index e i) rest'
      | .ok _ _ => .err
      | r => r
    | _ => .ok e ts
/-- returns the args packed in a dummy call node -/
def parseArgs (t : Table) : Nat → List Tok → R E
  | 0, _ => .fuel
  | f+1, ts =>
    match ts with
    | .rp :: rest => .ok (.call (.atom "") []) rest
    | _ =>
      match parseOp t f 0 ts with
      | .ok a (.rp :: rest) => .ok (.call (.atom "") [a]) rest
      | .ok a (.comma :: .rp :: rest) => .ok (.call (.atom "") [a]) rest     -- trailing comma allowed
      | .ok a (.comma :: rest) =>
        match parseArgs t f rest with
        | .ok (.call _ as) rest' => .ok (.call (.atom "") (a :: as)) rest'
        | .ok _ _ => .err
        | r => r
      | .ok _ _ => .err
      | r => r
def parseLit (t : Table) : Nat → List Tok → R E
  | 0, _ => .fuel
  | f+1, ts =>
    match ts with
    | .atom s :: rest => .ok (.atom s) rest
    | .lp :: rest =>
      match parseOp t f 0 rest with
      | .ok e (.rp :: rest') => .ok e rest'
      | .ok _ _ => .err
      | r => r
    | _ => .err
end

def parse (t : Table) (ts : List Tok) : R E :=
  match parseOp t (ts.length * (t.ops.length + 8) + 50) 0 ts with
  | .ok e [] => .ok e []
  | .ok _ _ => .err                      -- trailing tokens: unexpected EOF check
  | r => r

/-! renderer -/
def paren (ts : List Tok) : List Tok := [.lp] ++ ts ++ [.rp]

/-- `k` = minimal level the context accepts (ops.length = unary level, ops.length+1 = primary),
    `follow` = index of the binary operator that directly follows in the same unparenthesised context -/
partial def render (t : Table) (k : Nat) (follow : Option Nat) : E → List Tok
  | .atom s => [.atom s]
  | .bin o a b =>
    let k0 := (t.pos o).getD 0
    if k0 < k then paren (render t k0 (some k0) a ++ [.op o] ++ render t (k0+1) none b)
    else render t k0 (some k0) a ++ [.op o] ++ render t (k0+1) follow b
  | .un o a =>
    let n := t.ops.length
    match t.pos o with
    | some i =>
      let swallow := match follow with | some j => decide (j > i) | none => false
      if k = n+1 || swallow then paren ([.op o] ++ render t (i+1) none a)
      else [.op o] ++ render t (i+1) follow a
    | none =>
      if k = n+1 then paren ([.op o] ++ render t (n+1) none a) else [.op o] ++ render t (n+1) none a
  | .call f args =>
    let rec commas : List E → List Tok
      | [] => []
      | [a] => render t 0 none a
      | a :: as => render t 0 none a ++ [.comma] ++ commas as
    render t (t.ops.length+1) none f ++ [.lp] ++ commas args ++ [.rp]
  | .index l i => render t (t.ops.length+1) none l ++ [.lb] ++ render t 0 none i ++ [.rb]
  | .member m key => render t (t.ops.length+1) none m ++ [.dot, .atom key]

/-- left operand of a binary node must not be needlessly right-nested: the parser builds left-assoc
    chains, so `bin o a (bin o b c)` needs parens on the right (handled by k0+1). -/
def roundTrip (t : Table) (e : E) : Bool :=
  match parse t (render t 0 none e) with
  | .ok e' _ => e' == e
  | _ => false

/-! exhaustive small-scope sanity test of the renderer rule (a test, not a theorem) -/
def allE (t : Table) : Nat → List E
  | 0 => [.atom "a", .atom "b"]
  | n+1 =>
    let sub := allE t n
    let small := allE t 0
    sub ++ (t.ops.flatMap fun o => sub.flatMap fun a => small.map fun b => E.bin o a b)
        ++ (t.ops.flatMap fun o => small.flatMap fun a => sub.map fun b => E.bin o a b)
        ++ (t.unary.flatMap fun o => sub.map fun a => E.un o a)
        ++ (sub.map fun a => E.member a "m")
        ++ (sub.flatMap fun a => small.map fun b => E.call a [b])
        ++ (small.flatMap fun a => sub.map fun b => E.index a b)

/-- trees that a pure prefix operator / nested unary cannot express without parens are fine: parens are added -/
def tbl : Table := { ops := ["+", "-", "*", "^"], unary := ["-", "!"] }
def tbl2 : Table := { ops := ["|", "&", "=", "<"], unary := ["!", "<"] }

#eval (allE tbl 2).length
#eval ((allE tbl 2).filter (fun e => !roundTrip tbl e)).take 5
#eval ((allE tbl2 2).filter (fun e => !roundTrip tbl2 e)).take 5
#eval (allE tbl 3).length
#eval ((allE tbl 3).filter (fun e => !roundTrip tbl e)).length
-- HEAD panic: unary that is also the highest binary operator
#eval parse { ops := ["+", "-"], unary := ["-"] } [.op "-", .atom "a"]
end Prec
