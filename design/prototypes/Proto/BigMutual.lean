/-! feasibility: the full mutual value universe (AST, Code, Value, lazy list stages, map storages, closures) -/
namespace Big

mutual
inductive AST where
  | const (v : Value)
  | ident (name : String)
  | letE (name : String) (val inner : AST)
  | ifE (c t e : AST)
  | tryE (t c : AST)
  | switchE (v : AST) (cases : List (AST × AST)) (dflt : AST)
  | op (o : String) (a b : AST)
  | un (o : String) (a : AST)
  | clos (names : List String) (body : AST) (outer : List String) (recursive : Bool) (this : String)
  | listLit (items : List AST)
  | mapLit (items : List (String × AST))
  | index (l i : AST)
  | member (m : AST) (key : String)
  | call (f : AST) (args : List AST)
  | mcall (recv : AST) (name : String) (args : List AST)
inductive Code where
  | const (v : Value)
  | stk (i : Nat)
  | cs (i : Nat)
  | letE (val inner : Code)
  | ifE (c t e : Code)
  | tryE (t c : Code)
  | switchE (v : Code) (cases : List (Code × Code)) (dflt : Code)
  | op (o : String) (a b : Code)
  | andE (a b : Code)
  | orE (a b : Code)
  | un (o : String) (a : Code)
  | clos (nargs : Nat) (body : Code) (capture : List (Bool × Nat)) (recursive : Bool)
  | plainFn (nargs : Nat) (body : Code)
  | listLit (items : List Code)
  | mapLit (items : List (String × Code))
  | index (l i : Code)
  | member (m : Code) (key : String)
  | callStatic (name : String) (args : List Code)
  | call (f : Code) (args : List Code)
  | mcall (recv : Code) (name : String) (args : List Code)
inductive Value where
  | int (i : Int)
  | flt (bits : UInt64)
  | str (s : String)
  | bool (b : Bool)
  | list (l : LList)
  | map (m : MapSt)
  | closure (c : Clo)
  | format (v : Value) (cell : Bool) (colspan : Int) (style : Value)
  | link (target : String) (v : Value)
inductive Clo where
  | user (nargs : Nat) (body : Code) (ctx : List Value) (recursive : Bool) (pure : Bool)
  | interp (points : List (Int × Int))
inductive LList where
  | items (xs : List Value)
  | numbers (n : Nat)
  | map (f : Value) (src : LList)
  | accept (f : Value) (src : LList)
  | top (n : Int) (src : LList)
  | skip (n : Int) (src : LList)
  | combine (f : Value) (src : LList)
  | combine3 (f : Value) (src : LList)
  | combineN (n : Int) (f : Value) (src : LList)
  | iir (init f : Value) (src : LList)
  | iirCombine (init f : Value) (src : LList)
  | number (f : Value) (src : LList)
  | compact (f : Value) (src : LList)
  | cross (f : Value) (a b : LList)
  | merge (f : Value) (a b : LList)
  | append (a b : LList)
  | fsm (f : Value) (src : LList)
  | ofMap (m : MapSt)
inductive MapSt where
  | lit (es : List (String × Value))
  | append (k : String) (v : Value) (parent : MapSt)
  | merge (a b : MapSt)
  | replace (orig rep : MapSt) (depth : Nat)
  | real (es : List (String × Value))
  | bin (isMin : Bool) (min : Int) (isMax : Bool) (max : Int)
  | empty
end

mutual
def Value.canon : Value → String
  | .int i => s!"i{i}"
  | .flt b => s!"f{b}"
  | .str s => s!"s{s}"
  | .bool b => if b then "b1" else "b0"
  | .list l => "L" ++ l.canon
  | .map m => "M" ++ m.canon
  | .closure c => c.canon
  | .format v _ _ _ => "W" ++ v.canon
  | .link _ v => "W" ++ v.canon
def Clo.canon : Clo → String
  | .user n _ _ _ _ => s!"C{n}"
  | .interp _ => "C1"
def LList.canon : LList → String
  | .items xs => "[" ++ canonList xs ++ "]"
  | .numbers n => s!"numbers({n})"
  | .map f src => "map(" ++ f.canon ++ "," ++ src.canon ++ ")"
  | .accept f src => "accept(" ++ f.canon ++ "," ++ src.canon ++ ")"
  | .append a b => a.canon ++ "+" ++ b.canon
  | .ofMap m => "ofMap(" ++ m.canon ++ ")"
  | _ => "stage"
def MapSt.canon : MapSt → String
  | .lit es => "{" ++ canonEntries es ++ "}"
  | .append k v p => "put(" ++ k ++ "," ++ v.canon ++ "," ++ p.canon ++ ")"
  | .merge a b => a.canon ++ "+" ++ b.canon
  | .replace o r _ => "replace(" ++ o.canon ++ "," ++ r.canon ++ ")"
  | .real es => "{" ++ canonEntries es ++ "}"
  | .bin .. => "bin"
  | .empty => "{}"
def canonList : List Value → String
  | [] => ""
  | v :: vs => v.canon ++ "," ++ canonList vs
def canonEntries : List (String × Value) → String
  | [] => ""
  | (k, v) :: es => k ++ "=" ++ v.canon ++ "," ++ canonEntries es
end

#eval (Value.list (.map (.closure (.user 1 (.stk 0) [] false true)) (.items [.int 1, .map (.append "k" (.str "x") .empty)]))).canon
end Big
