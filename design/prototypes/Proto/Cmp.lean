/-! C14 prototype: equality / ordering of dynamic values with an abstract float carrier; laws as
    statements about outcomes (none = "operation not defined on these types", an error). -/
namespace Cmp

/-- what is assumed about the float carrier (true of IEEE binary64; trusted, see DESIGN §2.8) -/
structure FloatOrder (F : Type) where
  feq : F → F → Bool
  flt : F → F → Bool
  ofInt : Int → F
  feq_symm : ∀ a b, feq a b = feq b a
  flt_irrefl : ∀ a, flt a a = false
  flt_asymm : ∀ a b, flt a b = true → flt b a = false
  flt_trans : ∀ a b c, flt a b = true → flt b c = true → flt a c = true
  ofInt_lt : ∀ i j : Int, flt (ofInt i) (ofInt j) = decide (i < j)      -- exact on the claimed range

variable {F : Type}

inductive Value (F : Type) where
  | int (i : Int)
  | flt (f : F)
  | str (s : String)
  | bool (b : Bool)
  | list (xs : List (Value F))

mutual
/-- operations.go Equal + operationMatrixDeepEqual + List.Equals -/
def equal (O : FloatOrder F) : Value F → Value F → Option Bool
  | .int a, .int b => some (a == b)
  | .flt a, .flt b => some (O.feq a b)
  | .int a, .flt b => some (O.feq (O.ofInt a) b)
  | .flt a, .int b => some (O.feq a (O.ofInt b))
  | .str a, .str b => some (a == b)
  | .bool a, .bool b => some (a == b)
  | .list a, .list b => if a.length ≠ b.length then some false else equalList O a b
  | _, _ => none
def equalList (O : FloatOrder F) : List (Value F) → List (Value F) → Option Bool
  | [], [] => some true
  | x :: xs, y :: ys =>
    match equal O x y with
    | none => none
    | some false => some false
    | some true => equalList O xs ys
  | _, _ => some false
end

def less (O : FloatOrder F) : Value F → Value F → Option Bool
  | .int a, .int b => some (decide (a < b))
  | .flt a, .flt b => some (O.flt a b)
  | .int a, .flt b => some (O.flt (O.ofInt a) b)
  | .flt a, .int b => some (O.flt a (O.ofInt b))
  | .str a, .str b => some (decide (a < b))
  | _, _ => none

def notEqual (O : FloatOrder F) (a b : Value F) : Option Bool := (equal O a b).map (!·)
def greater (O : FloatOrder F) (a b : Value F) : Option Bool := less O b a
def lessEq (O : FloatOrder F) (a b : Value F) : Option Bool :=
  match less O a b with
  | none => none
  | some true => some true
  | some false => equal O a b

mutual
/-- C14: `=` is symmetric as an outcome (value or error) -/
theorem equal_symm (O : FloatOrder F) : ∀ (a b : Value F), equal O a b = equal O b a
  | .int a, .int b => by simp only [equal]; rw [Bool.beq_comm]
  | .flt a, .flt b => by simp [equal, O.feq_symm]
  | .int a, .flt b => by simp [equal, O.feq_symm]
  | .flt a, .int b => by simp [equal, O.feq_symm]
  | .str a, .str b => by simp only [equal]; rw [Bool.beq_comm]
  | .bool a, .bool b => by simp only [equal]; rw [Bool.beq_comm]
  | .list a, .list b => by
    simp only [equal]
    by_cases h : a.length = b.length
    · simp only [h, ne_eq, not_true_eq_false, if_false]
      exact equalList_symm O a b
    · have h' : ¬ b.length = a.length := fun h' => h h'.symm
      simp [h, h']
  | .int _, .str _ => rfl
  | .int _, .bool _ => rfl
  | .int _, .list _ => rfl
  | .flt _, .str _ => rfl
  | .flt _, .bool _ => rfl
  | .flt _, .list _ => rfl
  | .str _, .int _ => rfl
  | .str _, .flt _ => rfl
  | .str _, .bool _ => rfl
  | .str _, .list _ => rfl
  | .bool _, .int _ => rfl
  | .bool _, .flt _ => rfl
  | .bool _, .str _ => rfl
  | .bool _, .list _ => rfl
  | .list _, .int _ => rfl
  | .list _, .flt _ => rfl
  | .list _, .str _ => rfl
  | .list _, .bool _ => rfl
theorem equalList_symm (O : FloatOrder F) : ∀ (a b : List (Value F)), equalList O a b = equalList O b a
  | [], [] => rfl
  | x :: xs, y :: ys => by
    simp only [equalList]
    rw [equal_symm O x y, equalList_symm O xs ys]
  | [], _ :: _ => rfl
  | _ :: _, [] => rfl
end

theorem notEqual_is_not (O : FloatOrder F) (a b : Value F) :
    notEqual O a b = (equal O a b).map (!·) := rfl

theorem greater_is_flip (O : FloatOrder F) (a b : Value F) : greater O a b = less O b a := rfl

/-- `<` on numbers: irreflexive and asymmetric (mixed int/float included) -/
theorem less_irrefl_num (O : FloatOrder F) : ∀ a : Value F, less O a a = some true → False
  | .int a => by simp [less]
  | .flt a => by simp [less, O.flt_irrefl]
  | .str a => by simp [less]
  | .bool _ => by simp [less]
  | .list _ => by simp [less]

theorem less_asymm (O : FloatOrder F) : ∀ a b : Value F, less O a b = some true → less O b a = some false
  | .int a, .int b => by simp [less]; omega
  | .flt a, .flt b => by simp only [less, Option.some.injEq]; exact O.flt_asymm a b
  | .int a, .flt b => by simp only [less, Option.some.injEq]; exact O.flt_asymm _ _
  | .flt a, .int b => by simp only [less, Option.some.injEq]; exact O.flt_asymm _ _
  | .str a, .str b => by
    simp only [less, Option.some.injEq, decide_eq_true_eq, decide_eq_false_iff_not]
    exact fun h => String.lt_asymm h
  | .int _, .str _ => by simp [less]
  | .int _, .bool _ => by simp [less]
  | .int _, .list _ => by simp [less]
  | .flt _, .str _ => by simp [less]
  | .flt _, .bool _ => by simp [less]
  | .flt _, .list _ => by simp [less]
  | .str _, .int _ => by simp [less]
  | .str _, .flt _ => by simp [less]
  | .str _, .bool _ => by simp [less]
  | .str _, .list _ => by simp [less]
  | .bool _, _ => by simp [less]
  | .list _, _ => by simp [less]

/-- incomparable operands: an error, never a boolean -/
theorem less_bool_err (O : FloatOrder F) (b : Bool) (v : Value F) : less O (.bool b) v = none := by
  cases v <;> rfl

#print axioms equal_symm
#print axioms less_asymm
end Cmp
