package main

// C12 — Parse, Generate and evaluation leave no goroutine behind.
// A worker process repeats each case many times, waits a grace period and counts the goroutines
// whose stacks contain frames of the parser2 / iterator packages.

import (
	"bufio"
	"fmt"
	"github.com/hneemann/parser2/example"
	"os"
	"os/exec"
	"path/filepath"
	"runtime"
	"strconv"
	"strings"
	"time"

	"github.com/hneemann/parser2/value"
)

func init() {
	props["C12"] = runC12
	workers["leak"] = workerLeak
}

func libGoroutines() (int, string) {
	buf := make([]byte, 1<<22)
	n := runtime.Stack(buf, true)
	stacks := strings.Split(string(buf[:n]), "\n\n")
	cnt := 0
	sample := ""
	for _, s := range stacks {
		if strings.Contains(s, "main.workerLeak") {
			continue
		}
		if strings.Contains(s, "hneemann/parser2") || strings.Contains(s, "hneemann/iterator") {
			cnt++
			if sample == "" {
				// the innermost library frame names the place where the goroutine is stuck
				for _, l := range strings.Split(s, "\n") {
					if strings.Contains(l, "hneemann/") && !strings.HasPrefix(l, "\t") {
						sample = strings.TrimSpace(l)
						break
					}
				}
			}
		}
	}
	return cnt, sample
}

// workerLeak: lines `id TAB reps TAB kind TAB program`; kind = gen (Generate only) | eval (Generate once, Eval reps times)
func workerLeak(args []string) {
	in := bufio.NewScanner(os.Stdin)
	in.Buffer(make([]byte, 1<<20), 1<<26)
	out := bufio.NewWriter(os.Stdout)
	defer out.Flush()
	for in.Scan() {
		f := strings.SplitN(in.Text(), "\t", 4)
		if len(f) != 4 {
			continue
		}
		reps, _ := strconv.Atoi(f[1])
		time.Sleep(50 * time.Millisecond)
		before, _ := libGoroutines()
		fg := newHostFG(true)
		status := "ok"
		func() {
			defer func() {
				if r := recover(); r != nil {
					status = "panic"
				}
			}()
			if f[2] == "gencomfort" {
				// the comfort-mode float configuration of example/minimal.go (implicit multiplication)
				mp := example.VerifMinimal()
				for i := 0; i < reps; i++ {
					if _, _, err := mp.Generate(f[3], "a", "b"); err != nil {
						status = "generr"
					}
				}
			} else if f[2] == "gen" {
				for i := 0; i < reps; i++ {
					_, _, err := fg.Generate(f[3], "a")
					if err != nil {
						status = "generr"
					}
				}
			} else {
				fn, _, err := fg.Generate(f[3], "a")
				if err != nil {
					status = "generr"
					return
				}
				for i := 0; i < reps; i++ {
					v, err := fn.Eval(value.Int(i % 7))
					if err != nil {
						status = "evalerr"
					} else if f[2] == "evalforce" {
						canonValue(v)
					}
				}
			}
		}()
		// grace period, then sample twice
		time.Sleep(250 * time.Millisecond)
		after, where := libGoroutines()
		if after > before {
			time.Sleep(600 * time.Millisecond)
			after, where = libGoroutines()
		}
		if after > before {
			// a busy machine delays goroutines that are about to end; a stranded one is still there after seconds
			time.Sleep(3 * time.Second)
			after, where = libGoroutines()
		}
		fmt.Fprintf(out, "%s\t%s\t%d\t%d\t%s\n", f[0], status, before, after, where)
		out.Flush()
	}
}

type leakCase struct {
	id, kind, src, class string
	reps                 int
	status               string
	before, after        int
	where                string
	answered             bool
}

func runLeakWorker(cases []*leakCase) {
	bin := filepath.Join(verifRoot, ".work/bin/tie")
	cmd := exec.Command(bin, "worker", "leak")
	cmd.Env = append(os.Environ(), "GOMEMLIMIT=3GiB")
	stdin, _ := cmd.StdinPipe()
	stdout, _ := cmd.StdoutPipe()
	if err := cmd.Start(); err != nil {
		fatal("cannot start leak worker: %v", err)
	}
	go func() {
		w := bufio.NewWriter(stdin)
		for _, c := range cases {
			fmt.Fprintf(w, "%s\t%d\t%s\t%s\n", c.id, c.reps, c.kind, strings.ReplaceAll(c.src, "\n", " "))
		}
		w.Flush()
		stdin.Close()
	}()
	byId := map[string]*leakCase{}
	for _, c := range cases {
		byId[c.id] = c
	}
	done := make(chan struct{})
	go func() {
		sc := bufio.NewScanner(stdout)
		sc.Buffer(make([]byte, 1<<20), 1<<26)
		for sc.Scan() {
			f := strings.SplitN(sc.Text(), "\t", 5)
			if len(f) == 5 {
				if c, ok := byId[f[0]]; ok {
					c.status = f[1]
					c.before, _ = strconv.Atoi(f[2])
					c.after, _ = strconv.Atoi(f[3])
					c.where = f[4]
					c.answered = true
				}
			}
		}
		close(done)
	}()
	select {
	case <-done:
	case <-time.After(time.Duration(90+len(cases)*6) * time.Second):
		cmd.Process.Kill()
	}
	cmd.Wait()
}

func runC12(c *Ctx) {
	c.rule = "each case is repeated in one worker process (reps below), then after a 250 ms grace period (+600 ms if needed) the goroutines with frames of the parser2/iterator packages are counted against the count before the case; parse cases: valid programs, every truncation point class, trailing tokens, unbalanced brackets, lexical errors; evaluation cases: every short-circuit consumer behind a forced-parallel map/accept, errors inside parallel stages, merge and multiUse with early stop, error and completion; non-trivial = distinct case that starts at least one goroutine (every Parse does: the tokenizer)"
	c.assume = append(c.assume, "goroutine reclamation, timers and scheduling are runtime behaviour; the goroutine profile is the observation")
	reps := c.Pick(300, 3000)
	var cases []*leakCase
	add := func(class, kind, src string, r int) {
		cases = append(cases, &leakCase{id: itoa(len(cases)), kind: kind, src: src, class: class, reps: r})
	}
	// --- parsing: every way to stop before the end of input
	valid := []string{"1 + 2 * 3", "let x = a + 1; [x, x * 2].map(e -> e + x).sum()", "if a > 1 then \"x\" else {k: 1}.k",
		"func f(n) if n <= 0 then 0 else n + f(n - 1); f(a)", "switch a case 1 : 2 default 3", "try [1][a] catch 0"}
	for _, v := range valid {
		add("parse-valid", "gen", v, reps)
		toks := strings.Fields(v)
		for cut := 1; cut < len(toks); cut += 1 + len(toks)/4 {
			add("parse-truncated", "gen", strings.Join(toks[:cut], " "), reps)
		}
		add("parse-trailing-tokens", "gen", v+" 3 4 5 6 7 8", reps)
		add("parse-trailing-close", "gen", v+" ) ) )", reps)
		add("parse-unbalanced", "gen", "( ( "+v, reps)
		add("parse-bad-token", "gen", v+" $ "+v, reps)
		add("parse-unknown-ident", "gen", "zz + "+v, reps)
		add("parse-unterminated-string", "gen", v+" + \"abc", reps)
	}
	add("parse-error-long-tail", "gen", "1 + + 2 "+strings.Repeat("+ 3 ", 400), reps/3)
	add("parse-empty", "gen", "", reps)
	// what follows the rejected token: runes that make the scanner emit more than one token per step (superscripts,
	// implicit multiplication in comfort mode), literals, comments, operators - tight against the rejected token and apart
	for _, tail := range []string{"²", "²+4", "³⁴", "2a", "(3+4)", "2(a)", "a(b)", "\"s\"", "'q'", "/*c*/ 1", "a.b", "<=", "->", "a²b³", "2a²", "²²²²", " ² ² ²", "1e3a", "a b", "(a)(b)"} {
		for _, head := range []string{")", "1+)", "1+2*)", "a ) ", "]", "1 2"} {
			add("parse-error-then:"+tail, "gen", head+tail, reps/2+1)
			add("comfort-parse-error-then:"+tail, "gencomfort", head+tail, reps/2+1)
		}
	}
	// --- evaluation: consumers that stop early, errors, completion
	er := c.Pick(6, 40)
	par := "numbers(100000).map(e -> slow(e))"
	parAcc := "numbers(100000).accept(e -> slow(e) >= 0)"
	for _, src := range []string{par, parAcc} {
		add("parallel-early-stop:first", "eval", src+".accept(e -> e > 20).first()", er)
		add("parallel-early-stop:top", "eval", src+".top(20).size()", er)
		add("parallel-early-stop:present", "eval", src+".present(e -> e > 25)", er)
		add("parallel-early-stop:indexWhere", "eval", src+".indexWhere(e -> e > 25)", er)
		add("parallel-early-stop:contains", "eval", "30 ~ "+src, er)
		add("parallel-error-downstream", "eval", src+".map(e -> if e > 30 then throw(\"x\") else e).sum()", er)
	}
	// the consumer behind a stage that has gone parallel panics (host function, stack guard), also inside try
	for _, src := range []string{par, parAcc} {
		add("parallel-consumer-panics", "eval", src+".mapReduce(0, (s, e) -> if e > 30 then boom(e) else s + e)", er)
		add("parallel-consumer-panics-in-try", "eval", "try "+src+".mapReduce(0, (s, e) -> if e > 30 then boom(e) else s + e) catch 0", er)
		add("parallel-consumer-stack-guard", "eval", "func deep(n) 1 + deep(n + 1); "+src+".mapReduce(0, (s, e) -> if e > 30 then deep(0) else s + e)", er)
		add("parallel-consumer-fails", "eval", src+".mapReduce(0, (s, e) -> if e > 30 then fail(e) else s + e)", er)
		add("parallel-worker-panics", "eval", "numbers(100000).map(e -> if e = 40 then boom(e) else slow(e)).sum()", er)
	}
	// misuse error paths of the operations that start goroutines
	add("multiUse-rejected-entry-last", "eval", "numbers(100).multiUse({a: l -> l.size(), b: 3})", er*5)
	add("multiUse-rejected-entry-first", "eval", "numbers(100).multiUse({b: 3, a: l -> l.size()})", er*5)
	add("multiUse-rejected-arity", "eval", "numbers(100).multiUse({a: l -> l.size(), c: l -> l.sum(), b: (p, q) -> p})", er*5)
	add("multiUse-consumer-ignores-list(5s-timeout-path)", "eval", "numbers(100000).multiUse({a: l -> 1, b: l -> l.first()}).a", 2)
	add("multiUse-consumer-panics", "eval", "numbers(1000).multiUse({a: l -> l.map(e -> boom(e)).sum(), b: l -> l.size()}).a", er*5)
	add("multiUse-lazy-result", "eval", "numbers(50).multiUse({a: l -> l.map(e -> e + 1), b: l -> l.combine((p, q) -> p + q)}).b.size()", er*5)
	add("merge-not-a-list", "eval", "numbers(100).merge(3, (p, q) -> p < q).size()", er*5)
	add("merge-less-fails", "eval", "numbers(100000).merge(numbers(100000), (p, q) -> throw(\"x\")).size()", er*5)
	add("merge-less-panics", "eval", "numbers(100000).merge(numbers(100000), (p, q) -> boom(p)).size()", er*5)
	// sources far too long to run dry within the grace period: a producer that is not told to stop is still at work then
	add("merge-endless-less-panics", "eval", "numbers(100000000000).merge(numbers(100000000000), (p, q) -> boom(p)).size()", 3)
	add("merge-endless-less-stack-guard", "eval", "func deep(n) 1 + deep(n + 1); numbers(100000000000).merge(numbers(100000000000), (p, q) -> deep(p) < q).first()", 3)
	add("merge-endless-consumer-panics", "eval", "numbers(100000000000).merge(numbers(100000000000), (p, q) -> p < q).reduce((p, q) -> if q > 20 then boom(q) else p + q)", 3)
	add("merge-endless-consumer-stack-guard", "eval", "func deep(n) 1 + deep(n + 1); try numbers(100000000000).merge(numbers(100000000000), (p, q) -> p < q).reduce((p, q) -> if q > 20 then deep(q) else p + q) catch 0", 3)
	add("merge-endless-less-fails", "eval", "numbers(100000000000).merge(numbers(100000000000), (p, q) -> throw(\"x\")).size()", 3)
	add("merge-endless-early-stop", "eval", "numbers(100000000000).merge(numbers(100000000000), (p, q) -> p < q).top(5).size()", 3)
	add("merge-endless-operand-error", "eval", "numbers(100000000000).map(e -> if e = 5 then throw(\"x\") else e).merge(numbers(100000000000), (p, q) -> p < q).size()", 3)
	add("merge-of-parallel-operands-early-stop", "eval", par+".merge("+par+", (p, q) -> p < q).top(20).size()", er)
	add("cross-inner-parallel-early-stop", "eval", "[1, 2, 3].cross("+par+".top(30), (p, q) -> p + q).size()", er)
	// the consumer stops (or an item fails) when the SOURCE is already exhausted: the last items are in the workers, nothing is
	// left to cut off, and the in-flight results still have to be received (round-5 seed C12-14: the stage did not stop a
	// source that was done, the collector left and every in-flight worker stayed in its send). Source sizes around the point
	// where a stage goes parallel (12) plus up to two rounds of workers.
	for _, n := range []int{13, 14, 16, 12 + runtime.NumCPU()/2, 11 + runtime.NumCPU(), 12 + runtime.NumCPU(), 14 + runtime.NumCPU(), 12 + 2*runtime.NumCPU()} {
		src := fmt.Sprintf("numbers(%d).map(e -> slow(e))", n)
		add(fmt.Sprintf("parallel-exhausted-source-early-stop:present-12:n=%d", n), "eval", src+".present(v -> v >= 12)", er)
		add(fmt.Sprintf("parallel-exhausted-source-early-stop:present-late:n=%d", n), "eval", src+fmt.Sprintf(".present(v -> v >= %d)", n-2), er)
		add(fmt.Sprintf("parallel-exhausted-source-early-stop:top:n=%d", n), "eval", src+fmt.Sprintf(".top(%d).size()", n-1), er)
		add(fmt.Sprintf("parallel-exhausted-source-early-stop:accept-first:n=%d", n), "eval", fmt.Sprintf("numbers(%d).accept(e -> slow(e) >= 12).first()", n), er)
		add(fmt.Sprintf("parallel-exhausted-source-error-at-13:n=%d", n), "eval", fmt.Sprintf("numbers(%d).map(e -> if e = 12 then throw(\"x\") else slow(e)).sum()", n), er)
		add(fmt.Sprintf("parallel-exhausted-source-consumer-panics:n=%d", n), "eval", fmt.Sprintf("try numbers(%d).map(e -> slow(e)).reduce((p, q) -> if q >= 12 then boom(q) else p + q) catch 0", n), er)
	}
	add("parallel-error-in-worker", "eval", "numbers(100000).map(e -> if e = 40 then throw(\"x\") else slow(e)).sum()", er)
	add("parallel-complete", "eval", "numbers(60).map(e -> slow(e)).sum()", er)
	add("parallel-unconsumed", "eval", "let l = numbers(1000).map(e -> slow(e)); 1", er)
	add("parallel-result-dropped", "eval", "numbers(1000).map(e -> slow(e))", er)
	add("merge-complete", "eval", "numbers(50).merge(numbers(50), (p, q) -> p < q).size()", er*5)
	add("merge-early-stop", "eval", "numbers(100000).merge(numbers(100000), (p, q) -> p < q).first()", er*5)
	add("merge-early-stop-top", "eval", "numbers(100000).merge(numbers(100000), (p, q) -> p < q).top(5).size()", er*5)
	add("merge-error", "eval", "numbers(100000).map(e -> if e = 5 then throw(\"x\") else e).merge(numbers(100000), (p, q) -> p < q).size()", er*5)
	add("multiUse-complete", "eval", "numbers(50).multiUse({s: l -> l.sum(), n: l -> l.size()}).s", er*5)
	add("multiUse-early-stop", "eval", "numbers(100000).multiUse({f: l -> l.first(), t: l -> l.top(3).size()}).f", er*5)
	add("multiUse-consumer-error", "eval", "numbers(100000).multiUse({f: l -> l.map(e -> throw(\"x\")).sum(), t: l -> l.size()}).f", er*5)
	add("parallel-source-panics", "eval", "numbers(100).number((i, x) -> if x > 30 then boom(x) else x).map(x -> slow(x)).size()", er)
	add("parallel-source-panics-in-try", "eval", "try numbers(100).iir(x -> x, (x, l) -> if x > 30 then boom(x) else x).accept(x -> slow(x) >= 0).size() catch 0", er)
	add("parallel-source-stack-guard", "eval", "func deep(n) 1 + deep(n + 1); numbers(100).combine((p, q) -> if p > 30 then deep(0) else p).map(x -> slow(x)).sum()", er)
	add("parallel-source-fails", "eval", "numbers(100).number((i, x) -> if x > 30 then fail(x) else x).map(x -> slow(x)).size()", er)
	add("multiUse-source-panics", "eval", "numbers(100).combine((p, q) -> if p = 5 then boom(p) else p).multiUse({f: l -> l.sum(), t: l -> l.size()}).f", er*5)
	add("multiUse-source-panics-in-try", "eval", "try numbers(100).iir(e -> e, (e, l) -> if e = 5 then boom(e) else e + l).multiUse({f: l -> l.sum(), t: l -> l.size()}).f catch 0", er*5)
	add("multiUse-source-stack-guard", "eval", "func deep(n) 1 + deep(n + 1); numbers(100).number((n, e) -> if e = 5 then deep(0) else e).multiUse({f: l -> l.sum(), t: l -> l.size()}).f", er*5)
	add("merge-operand-panics", "eval", "numbers(100).combine((p, q) -> if p = 5 then boom(p) else p).merge(numbers(100), (p, q) -> p < q).size()", er*5)
	add("multiUse-source-error", "eval", "numbers(100).map(e -> if e = 5 then throw(\"x\") else e).multiUse({f: l -> l.sum(), t: l -> l.size()}).f", er*5)
	add("sequential-early-stop", "eval", "numbers(100000).map(e -> e + 1).accept(e -> e > 20).first()", er*20)

	// run in a few workers in parallel (each worker sequentially: counts are per process)
	nw := 8
	done := make(chan struct{}, nw)
	for w := 0; w < nw; w++ {
		var part []*leakCase
		for i := w; i < len(cases); i += nw {
			part = append(part, cases[i])
		}
		go func(p []*leakCase) { runLeakWorker(p); done <- struct{}{} }(part)
	}
	for w := 0; w < nw; w++ {
		<-done
	}
	for _, lc := range cases {
		c.Case(lc.class+"|"+lc.src, true)
		c.Count("class=" + strings.SplitN(lc.class, ":", 2)[0])
		replay := map[string]any{"class": lc.class, "kind": lc.kind, "program": lc.src, "repetitions": lc.reps,
			"goroutines_before": lc.before, "goroutines_after": lc.after, "stuck_at": lc.where, "status": lc.status}
		if len(c.samples) < 6 && (strings.HasPrefix(lc.class, "parse-trunc") || strings.HasPrefix(lc.class, "merge") || strings.HasPrefix(lc.class, "parallel-early")) {
			c.Sample(replay)
		}
		if !lc.answered {
			c.Violation("leak-worker-died:"+lc.class, "the worker did not answer for this case", replay)
			continue
		}
		if lc.status == "panic" {
			c.Violation("panic:"+lc.class, "a panic escaped Generate/Eval", replay)
		}
		if lc.after > lc.before {
			c.Violation(leakSignature(lc), fmt.Sprintf("%d goroutines of the library are still alive after the grace period", lc.after-lc.before), replay)
		}
	}
}

func leakSignature(lc *leakCase) string {
	w := lc.where
	switch {
	case strings.Contains(w, "iterator.initParallel") || strings.Contains(w, "iterator.MapParallel") || strings.Contains(w, "iterator.FilterParallel"):
		return "parallel-stage-stopped-early:iterator.initParallel"
	case strings.Contains(w, "iterator.ToChan"):
		return "toChan-break-in-select"
	case strings.Contains(w, "Tokenizer"):
		return "tokenizer-stranded:" + strings.SplitN(lc.class, ":", 2)[0]
	}
	return "goroutine-left-behind:" + lc.class
}
