package main

// Shared infrastructure of the tie tools: run context, PRNG, model driver pipe, verdicts,
// known findings, evidence and replay files.

import (
	"bufio"
	"bytes"
	"crypto/sha256"
	"encoding/hex"
	"encoding/json"
	"fmt"
	"math/rand"
	"os"
	"os/exec"
	"path/filepath"
	"sort"
	"strconv"
	"strings"
	"time"
)

var verifRoot = envOr("VERIF_ROOT", "/verif")
var repoRoot = envOr("VERIF_REPO", "/repo")

func envOr(k, d string) string {
	if v := os.Getenv(k); v != "" {
		return v
	}
	return d
}

type Finding struct {
	Property  string `json:"property"`
	Id        string `json:"id"`
	Status    string `json:"status"` // "open" | "fixed"
	Signature string `json:"signature"`
	Witness   string `json:"witness"`
	What      string `json:"what"`
	Commit    string `json:"commit,omitempty"`
}

type violation struct {
	signature string
	what      string
	replay    map[string]any
	noInput   bool
}

type Ctx struct {
	Prop     string
	Tier     string
	Seed     int64
	Thorough bool
	rng      *rand.Rand
	start    time.Time

	evaluations int
	distinct    map[[16]byte]struct{}
	nontrivial  int
	rule        string
	samples     []any
	hist        map[string]int
	assume      []string
	extra       map[string]any

	violations []violation
	known      map[string]int // finding id -> matches
	findings   []Finding
	lean       map[string]any // report of the Lean step written by ./check
	modelReqs  int
	disagree   int // model/impl disagreements examined
	crumb      *os.File
}

// the context of this process (for crumb, which is called from helpers that have no context at hand)
var currentCtx *Ctx

func crumb(s string) {
	if currentCtx != nil {
		currentCtx.Crumb(s)
	}
}

// Crumb records what the harness is about to run in-process (one pwrite into .work/<prop>_current.txt). If the code
// under test kills the process with a fatal runtime error, `check` puts this line into the replay it writes.
func (c *Ctx) Crumb(s string) {
	if c.crumb == nil {
		f, err := os.OpenFile(filepath.Join(verifRoot, ".work", c.Prop+"_current.txt"), os.O_CREATE|os.O_WRONLY|os.O_TRUNC, 0o644)
		if err != nil {
			return
		}
		c.crumb = f
	}
	c.crumb.WriteAt([]byte(strings.ReplaceAll(s, "\n", " ")+"\n"), 0)
}

func NewCtx(prop, tier string) *Ctx {
	seed := int64(1)
	if s := os.Getenv("VERIF_SEED"); s != "" {
		if v, err := strconv.ParseInt(s, 10, 64); err == nil {
			seed = v
		}
	}
	c := &Ctx{Prop: prop, Tier: tier, Seed: seed, Thorough: tier == "thorough",
		rng: rand.New(rand.NewSource(seed)), start: time.Now(),
		distinct: map[[16]byte]struct{}{}, hist: map[string]int{}, known: map[string]int{}, extra: map[string]any{}}
	data, err := os.ReadFile(filepath.Join(verifRoot, "known_findings.json"))
	if err == nil {
		_ = json.Unmarshal(data, &c.findings)
	}
	if p := os.Getenv("VERIF_LEAN_REPORT"); p != "" {
		if data, err := os.ReadFile(p); err == nil {
			_ = json.Unmarshal(data, &c.lean)
		}
	}
	currentCtx = c
	return c
}

// Pick returns tier-dependent size parameter.
func (c *Ctx) Pick(quick, thorough int) int {
	if c.Thorough {
		return thorough
	}
	return quick
}

func (c *Ctx) Count(key string) { c.hist[key]++ }

// Case registers one explored case; canon is its canonical text, nontrivial by the property's rule.
func (c *Ctx) Case(canon string, nontrivial bool) {
	c.evaluations++
	if !nontrivial {
		return
	}
	h := sha256.Sum256([]byte(canon))
	var k [16]byte
	copy(k[:], h[:16])
	if _, ok := c.distinct[k]; !ok {
		c.distinct[k] = struct{}{}
		c.nontrivial++
	}
}

func (c *Ctx) Sample(s any) {
	if len(c.samples) < 8 {
		c.samples = append(c.samples, s)
	}
}

// Violation records a property violation found on the implementation (or a broken tie).
// signature is the classifier output matched against known_findings.json.
func (c *Ctx) Violation(signature, what string, replay map[string]any) {
	for _, v := range c.violations {
		if v.signature == signature && len(c.violations) > 200 {
			return
		}
	}
	c.violations = append(c.violations, violation{signature: signature, what: what, replay: replay})
}

// Broken records a broken theorem/obligation/correspondence for which no failing input was found.
func (c *Ctx) Broken(name, what string, replay map[string]any) {
	if replay == nil {
		replay = map[string]any{}
	}
	replay["broken"] = name
	c.violations = append(c.violations, violation{signature: "broken:" + name, what: what, replay: replay, noInput: true})
}

func (c *Ctx) matchFinding(sig string) *Finding {
	for i := range c.findings {
		f := &c.findings[i]
		if f.Property == c.Prop && f.Status == "open" && f.Signature == sig {
			return f
		}
	}
	return nil
}

// Model runs the compiled Lean driver on the request lines and returns the response lines.
func (c *Ctx) Model(reqs []string) []string {
	if len(reqs) == 0 {
		return nil
	}
	c.modelReqs += len(reqs)
	bin := filepath.Join(verifRoot, "lean/.lake/build/bin/p2model")
	cmd := exec.Command(bin)
	var in bytes.Buffer
	for _, r := range reqs {
		if strings.ContainsAny(r, "\n\r") {
			panic("request contains a line break: " + r)
		}
		in.WriteString(r)
		in.WriteByte('\n')
	}
	cmd.Stdin = &in
	var out, errb bytes.Buffer
	cmd.Stdout = &out
	cmd.Stderr = &errb
	if err := cmd.Run(); err != nil {
		fatal("model driver failed: %v\n%s", err, errb.String())
	}
	var res []string
	sc := bufio.NewScanner(&out)
	sc.Buffer(make([]byte, 1<<20), 1<<28)
	for sc.Scan() {
		res = append(res, sc.Text())
	}
	if len(res) != len(reqs) {
		fatal("model driver answered %d lines for %d requests (stderr: %s)", len(res), len(reqs), errb.String())
	}
	return res
}

func fatal(f string, a ...any) {
	fmt.Fprintf(os.Stderr, "tie: "+f+"\n", a...)
	os.Exit(3)
}

type leanOblig struct {
	Name   string   `json:"name"`
	Kind   string   `json:"kind"`
	Ok     bool     `json:"ok"`
	Axioms []string `json:"axioms"`
	Detail string   `json:"detail"`
}

// LeanObligs returns the Lean obligations reported by ./check for this property.
func (c *Ctx) LeanObligs() []leanOblig {
	var res []leanOblig
	if c.lean == nil {
		return nil
	}
	raw, _ := json.Marshal(c.lean["obligations"])
	_ = json.Unmarshal(raw, &res)
	return res
}

// BrokenObligs lists the failing ones.
func (c *Ctx) BrokenObligs() []leanOblig {
	var res []leanOblig
	for _, o := range c.LeanObligs() {
		if !o.Ok {
			res = append(res, o)
		}
	}
	return res
}

// Finish writes evidence and replays, prints verdict lines, and exits.
func (c *Ctx) Finish() {
	// any broken Lean obligation that the property-specific code did not turn into a concrete violation
	handled := map[string]bool{}
	for _, v := range c.violations {
		if b, ok := v.replay["broken"].(string); ok {
			handled[b] = true
		}
	}
	// a concrete failing input found by this run (and not a listed finding) explains the broken
	// obligations: name them in its replay instead of reporting them as no-failing-input-found
	concrete := -1
	for i, v := range c.violations {
		if !v.noInput && c.matchFinding(v.signature) == nil {
			concrete = i
			break
		}
	}
	for _, o := range c.BrokenObligs() {
		if handled[o.Name] {
			continue
		}
		if concrete >= 0 {
			prev, _ := c.violations[concrete].replay["broken_obligations"].([]string)
			c.violations[concrete].replay["broken_obligations"] = append(prev, o.Name)
			continue
		}
		c.Broken(o.Name, "Lean obligation no longer checks: "+o.Detail, map[string]any{"kind": o.Kind})
	}
	os.MkdirAll(filepath.Join(verifRoot, "replays"), 0o755)
	os.MkdirAll(filepath.Join(verifRoot, "evidence"), 0o755)
	if old, _ := filepath.Glob(filepath.Join(verifRoot, "replays", fmt.Sprintf("%s-%d-*.json", c.Prop, c.Seed))); old != nil {
		for _, f := range old {
			os.Remove(f)
		}
	}
	exit := 0
	nViol := 0
	seenSig := map[string]bool{}
	var lines []string
	for i, v := range c.violations {
		if !v.noInput {
			if f := c.matchFinding(v.signature); f != nil {
				c.known[f.Id]++
				continue
			}
		}
		if v.noInput && concrete >= 0 {
			// explained by the concrete failing input reported in this run: named in its replay
			if b, ok := v.replay["broken"].(string); ok {
				prev, _ := c.violations[concrete].replay["broken_ties"].([]string)
				dup := false
				for _, x := range prev {
					dup = dup || x == b
				}
				if !dup {
					c.violations[concrete].replay["broken_ties"] = append(prev, b)
				}
			}
			nViol++
			continue
		}
		nViol++
		if seenSig[v.signature] {
			continue
		}
		seenSig[v.signature] = true
		path := filepath.Join(verifRoot, "replays", fmt.Sprintf("%s-%d-%d.json", c.Prop, c.Seed, i))
		rep := map[string]any{"property": c.Prop, "tier": c.Tier, "seed": c.Seed, "signature": v.signature, "what": v.what}
		if v.noInput {
			rep["kind"] = "no-failing-input-found"
		} else {
			rep["kind"] = "violation"
		}
		for k, val := range v.replay {
			rep[k] = val
		}
		data, _ := json.MarshalIndent(rep, "", " ")
		os.WriteFile(path, data, 0o644)
		line := fmt.Sprintf("VIOLATION property=%s replay=%s", c.Prop, path)
		if v.noInput {
			line += " no-failing-input-found"
		}
		lines = append(lines, line)
		exit = 1
	}
	var ids []string
	for id := range c.known {
		ids = append(ids, id)
	}
	sort.Strings(ids)
	for _, id := range ids {
		for _, f := range c.findings {
			if f.Id == id && f.Property == c.Prop {
				fmt.Printf("KNOWN-FINDING: property=%s %s: %s (matched %d cases)\n", c.Prop, f.Id, f.What, c.known[id])
			}
		}
	}
	for _, l := range lines {
		fmt.Println(l)
	}

	obl := c.LeanObligs()
	okCount := 0
	var oblNames []map[string]any
	axioms := map[string]bool{}
	for _, o := range obl {
		if o.Ok {
			okCount++
		}
		oblNames = append(oblNames, map[string]any{"name": o.Name, "kind": o.Kind, "ok": o.Ok, "axioms": o.Axioms})
		for _, a := range o.Axioms {
			axioms[a] = true
		}
	}
	var axl []string
	for a := range axioms {
		axl = append(axl, a)
	}
	sort.Strings(axl)
	cov := map[string]any{
		"evaluations":           c.evaluations,
		"distinct_nontrivial":   c.nontrivial,
		"rule":                  c.rule,
		"samples":               c.samples,
		"obligations":           len(obl),
		"discharged":            okCount,
		"checker_cmd":           "cd /verif/lean && lake build && lake env lean <audit file with #print axioms> (run by /verif/check); thorough tier adds lake env leanchecker",
		"trusted_base":          trustedBase(axl),
		"disagreements_checked": c.disagree,
		"feature_histogram":     c.hist,
		"obligations_list":      oblNames,
		"model_requests":        c.modelReqs,
		"known_findings_matched": c.known,
	}
	for k, v := range c.extra {
		cov[k] = v
	}
	if c.lean != nil {
		if v, ok := c.lean["tool_versions"]; ok {
			cov["tool_versions"] = v
		}
		if v, ok := c.lean["repo_tree_hash"]; ok {
			cov["repo_tree_hash"] = v
		}
		if v, ok := c.lean["leanchecker"]; ok {
			cov["leanchecker"] = v
		}
	}
	ev := map[string]any{
		"property_id": c.Prop, "tier": c.Tier, "seed": c.Seed, "level": "proof",
		"coverage": cov, "assumptions": c.assume,
		"wall_s":     time.Since(c.start).Seconds() + leanWall(c.lean),
		"violations": nViol,
	}
	data, _ := json.MarshalIndent(ev, "", " ")
	os.WriteFile(filepath.Join(verifRoot, "evidence", c.Prop+".json"), data, 0o644)
	fmt.Printf("%s %s seed=%d: %d cases (%d distinct non-trivial), lean obligations %d/%d, %d violations, %d known-finding matches\n",
		c.Prop, c.Tier, c.Seed, c.evaluations, c.nontrivial, okCount, len(obl), nViol, len(c.known))
	os.Exit(exit)
}

func leanWall(l map[string]any) float64 {
	if l == nil {
		return 0
	}
	if v, ok := l["wall_s"].(float64); ok {
		return v
	}
	return 0
}

func trustedBase(axioms []string) []string {
	tb := []string{
		"Lean 4.33.0 kernel (lake build; leanchecker in the thorough tier)",
		"axioms used by the property theorems: " + strings.Join(axioms, ", "),
		"no sorry/admit/native_decide/bv_decide/own axioms (grep + #print axioms audit on every run)",
		"hand-written Lean model tied to /repo by regenerated tables (tie extract) and by this differential run (tie corr) against the compiled model driver p2model",
		"Go harness: generators, canonicalisation, diff; Lean compiler (compiled p2model vs kernel semantics)",
	}
	return tb
}

// ---- small helpers -------------------------------------------------------------------------

func cps(s string) string {
	if s == "" {
		return "-"
	}
	var b strings.Builder
	first := true
	for _, r := range s {
		if !first {
			b.WriteByte('.')
		}
		first = false
		b.WriteString(strconv.Itoa(int(r)))
	}
	return b.String()
}

func cpsBytesAsRunes(bs []byte) string { return cps(string(bs)) }

func fromCps(s string) string {
	if s == "-" || s == "" {
		return ""
	}
	var b strings.Builder
	for _, p := range strings.Split(s, ".") {
		n, err := strconv.Atoi(p)
		if err != nil {
			return "\x00BAD"
		}
		b.WriteRune(rune(n))
	}
	return b.String()
}

func hexs(s string) string { return hex.EncodeToString([]byte(s)) }

func writeIfChanged(path string, content []byte) {
	old, err := os.ReadFile(path)
	if err == nil && bytes.Equal(old, content) {
		return
	}
	os.MkdirAll(filepath.Dir(path), 0o755)
	if err := os.WriteFile(path, content, 0o644); err != nil {
		fatal("write %s: %v", path, err)
	}
}
