package main

// C18: value trees with Format/Link/File wrappers, style maps and style closures; construction of the
// real values, the token form sent to the Lean model, and the generator.

import (
	"encoding/base64"
	"errors"
	"math"
	"math/rand"
	"strconv"
	"strings"

	"github.com/hneemann/iterator"
	"github.com/hneemann/parser2/funcGen"
	"github.com/hneemann/parser2/value"
	"github.com/hneemann/parser2/value/export"
)

// XSty: the Format field of a Format wrapper.
type XSty struct {
	Kind byte // 'N' nil | 'T' string | 'K' map | 'O' closure with two arguments (not a style)
	// closures with one argument: 'W' wrap the argument into Format{style S} | 'H' wrap into Link{S} |
	// 'R' constant result Res | 'E' returns an error | 'P' panics
	S     string
	Keys  []string
	Vals  []value.Value // String, Int, Float, Bool (Bool is ignored by toStyleStr)
	Res   *XT
	Table *XSty // 'K' only: entry "table" -> map of formats (outside the Lean model; predicate only)
	TKeys []string
	TVals []*XSty
}

type XT struct {
	Kind  byte // 'i' 'f' 's' 'b' 'L' 'M' | 'X' Format | 'A' Link | 'B' File
	I     int64
	F     float64
	S     string
	B     bool
	Items []*XT // L, M: elements; X, A: the one wrapped value
	Keys  []string
	Rep   int
	Sty   *XSty
	Cell  bool
	Span  int
	Href  string
	Name  string
	Mime  string
	Data  []byte
	Fail  int // L: index of a lazy element that fails (+1), 0 = none (predicate only)
}

var errElem = errors.New("element fails")

func (s *XSty) Build(arg *XT) value.Value {
	if s == nil {
		return nil
	}
	switch s.Kind {
	case 'N':
		return nil
	case 'T':
		return value.String(s.S)
	case 'K':
		rm := value.RealMap{}
		for i, k := range s.Keys {
			rm[k] = s.Vals[i]
		}
		if s.TKeys != nil {
			tm := value.RealMap{}
			for i, k := range s.TKeys {
				tm[k] = s.TVals[i].Build(nil)
			}
			rm["table"] = value.NewMap(tm)
		}
		return value.NewMap(rm)
	case 'O':
		return value.Closure{Func: func(st funcGen.Stack[value.Value], cs []value.Value) (value.Value, error) {
			return value.String("two"), nil
		}, Args: 2}
	case 'W':
		str := s.S
		return value.Closure{Func: func(st funcGen.Stack[value.Value], cs []value.Value) (value.Value, error) {
			return export.Format{Value: st.Get(0), Format: value.String(str)}, nil
		}, Args: 1}
	case 'H':
		str := s.S
		return value.Closure{Func: func(st funcGen.Stack[value.Value], cs []value.Value) (value.Value, error) {
			return export.Link{Value: st.Get(0), Link: str}, nil
		}, Args: 1}
	case 'R':
		res := s.Res.Build()
		return value.Closure{Func: func(st funcGen.Stack[value.Value], cs []value.Value) (value.Value, error) {
			return res, nil
		}, Args: 1}
	case 'E':
		return value.Closure{Func: func(st funcGen.Stack[value.Value], cs []value.Value) (value.Value, error) {
			return nil, errors.New("style closure fails")
		}, Args: 1}
	case 'P':
		return value.Closure{Func: func(st funcGen.Stack[value.Value], cs []value.Value) (value.Value, error) {
			var m map[string]int
			m["x"] = 1 // run-time panic
			return nil, nil
		}, Args: 1}
	}
	panic("bad style kind")
}

// isClosure1: a closure of one argument (applied by toHtml instead of being used as a style)
func (s *XSty) isClosure1() bool {
	return s != nil && strings.IndexByte("WHREP", s.Kind) >= 0
}

// closureResult: the tree the closure returns for arg; nil = it fails
func (s *XSty) closureResult(arg *XT) *XT {
	switch s.Kind {
	case 'W':
		return &XT{Kind: 'X', Sty: &XSty{Kind: 'T', S: s.S}, Items: []*XT{arg}}
	case 'H':
		return &XT{Kind: 'A', Href: s.S, Items: []*XT{arg}}
	case 'R':
		return s.Res
	}
	return nil
}

func lazyListFail(items []value.Value, sized bool, failAt int) *value.List {
	prod := func(st funcGen.Stack[value.Value]) iterator.Producer[value.Value] {
		return func(yield iterator.Consumer[value.Value]) {
			for i, it := range items {
				if i == failAt {
					yield(nil, errElem)
					return
				}
				if !yield(it, nil) {
					return
				}
			}
		}
	}
	if sized {
		return value.NewListFromSizedIterable(prod, len(items))
	}
	return value.NewListFromIterable(prod)
}

func (t *XT) Build() value.Value {
	switch t.Kind {
	case 'i':
		return value.Int(t.I)
	case 'f':
		return value.Float(t.F)
	case 'b':
		return value.Bool(t.B)
	case 's':
		return value.String(t.S)
	case 'X':
		return export.Format{Value: t.Items[0].Build(), Format: t.Sty.Build(t.Items[0]), Cell: t.Cell, ColSpan: t.Span}
	case 'A':
		return export.Link{Link: t.Href, Value: t.Items[0].Build()}
	case 'B':
		return export.File{Name: t.Name, MimeType: t.Mime, Data: t.Data}
	case 'L':
		items := make([]value.Value, len(t.Items))
		for i, it := range t.Items {
			items[i] = it.Build()
		}
		if t.Fail > 0 {
			return lazyListFail(items, t.Rep == 2, t.Fail-1)
		}
		switch t.Rep {
		case 1:
			return lazyList(items, false)
		case 2:
			return lazyList(items, true)
		case 3:
			if len(items) > 0 {
				st := funcGen.NewEmptyStack[value.Value]()
				st.Push(value.NewList(items[:len(items)-1]...))
				st.Push(items[len(items)-1])
				l, err := value.NewList(items[:len(items)-1]...).Append(st.CreateFrame(2))
				if err == nil {
					return l
				}
			}
		}
		return value.NewList(items...)
	default:
		vals := make([]value.Value, len(t.Items))
		for i, it := range t.Items {
			vals[i] = it.Build()
		}
		return buildMap(t.Keys, vals, t.Rep)
	}
}

func (t *XT) isScalar() bool { return strings.IndexByte("ifsb", t.Kind) >= 0 }

// str: ToString of a scalar (oracle: strconv)
func (t *XT) str() string {
	s, err := t.Build().ToString(funcGen.NewEmptyStack[value.Value]())
	if err != nil {
		panic(err)
	}
	return s
}

// modelable: the tree is inside the fragment the Lean model covers
func (t *XT) modelable() bool {
	if t.Kind == 'L' && t.Fail > 0 {
		return false
	}
	if t.Kind == 'X' {
		if t.Sty != nil && t.Sty.Kind == 'K' && t.Sty.TKeys != nil {
			return false
		}
		if t.Sty != nil && t.Sty.Kind == 'R' && !t.Sty.Res.modelable() {
			return false
		}
	}
	for _, it := range t.Items {
		if !it.modelable() {
			return false
		}
	}
	return true
}

func styValStr(v value.Value) (string, bool) {
	switch s := v.(type) {
	case value.String:
		return string(s), true
	case value.Int:
		return strconv.Itoa(int(s)), true
	case value.Float:
		return strconv.FormatFloat(float64(s), 'f', -1, 64), true
	}
	return "", false
}

func (s *XSty) tokens(b *strings.Builder) {
	if s == nil {
		b.WriteString("N")
		return
	}
	switch s.Kind {
	case 'N':
		b.WriteString("N")
	case 'T':
		b.WriteString("T " + cps(s.S))
	case 'O':
		b.WriteString("O")
	case 'K':
		b.WriteString("K " + itoa(len(s.Keys)))
		for i, k := range s.Keys {
			b.WriteString(" " + cps(k))
			if str, ok := styValStr(s.Vals[i]); ok {
				b.WriteString(" s " + cps(str))
			} else {
				b.WriteString(" o")
			}
		}
	default:
		panic("closure styles are written by XT.Tokens")
	}
}

func bit01(b bool) string {
	if b {
		return "1"
	}
	return "0"
}

func spanNat(n int) int {
	if n < 0 {
		return 0
	}
	return n
}

// Tokens: prefix form of the XML / HTML model requests (see lean/P2/Driver/Xml.lean)
func (t *XT) Tokens(b *strings.Builder) {
	switch t.Kind {
	case 'L':
		b.WriteString("L " + itoa(len(t.Items)))
		for _, it := range t.Items {
			b.WriteByte(' ')
			it.Tokens(b)
		}
	case 'M':
		b.WriteString("M " + itoa(len(t.Items)))
		for i, it := range t.Items {
			b.WriteString(" " + cps(t.Keys[i]) + " ")
			it.Tokens(b)
		}
	case 'f':
		b.WriteString("F " + cps(t.str()) + " " + cps(export.NewFormattedFloat(t.F, 6).Unicode()))
	case 'X':
		if t.Sty.isClosure1() {
			b.WriteString("C ")
			if r := t.Sty.closureResult(t.Items[0]); r != nil {
				b.WriteString("R ")
				r.Tokens(b)
			} else {
				b.WriteString("E")
			}
		} else {
			b.WriteString("X ")
			t.Sty.tokens(b)
		}
		b.WriteString(" " + bit01(t.Cell) + " " + itoa(spanNat(t.Span)) + " ")
		t.Items[0].Tokens(b)
	case 'A':
		b.WriteString("A " + cps(t.Href) + " ")
		t.Items[0].Tokens(b)
	case 'B':
		b.WriteString("B " + cps(t.Name) + " " + cps(t.Mime) + " " + cps(base64.StdEncoding.EncodeToString(t.Data)) + " " + itoa(len(t.Data)) + " " + cps(byteSizeStr(len(t.Data))))
	default:
		b.WriteString("S " + cps(t.str()))
	}
}

func xtTokens(t *XT) string {
	var b strings.Builder
	t.Tokens(&b)
	return b.String()
}

// byteSizeStr: byteSize.String of html.go (unexported there; an oracle for the model, re-derived here
// and cross-checked against the real output by the correspondence run)
func byteSizeStr(n int) string {
	units := []string{"Bytes", "kBytes", "MBytes", "GBytes", "TBytes"}
	us, unit := n, 0
	for us > 10000 && unit < len(units)-1 {
		unit++
		us = us / 1024
	}
	return strconv.Itoa(us) + " " + units[unit]
}

func (t *XT) depth() int {
	d := 0
	for _, it := range t.Items {
		if x := it.depth(); x > d {
			d = x
		}
	}
	if t.Kind == 'L' || t.Kind == 'M' {
		return d + 1
	}
	return d
}

func (t *XT) walk(f func(*XT)) {
	f(t)
	for _, it := range t.Items {
		it.walk(f)
	}
	if t.Kind == 'X' && t.Sty != nil && t.Sty.Res != nil {
		t.Sty.Res.walk(f)
	}
}

// ---- generator ---------------------------------------------------------------------------------

func legalXMLRune(r rune) bool {
	return r == 9 || r == 10 || r == 13 || (r >= 0x20 && r <= 0xD7FF) || (r >= 0xE000 && r <= 0xFFFD) || (r >= 0x10000 && r <= 0x10FFFF)
}

var xmlSpecialRunes = []rune{'<', '>', '&', '\'', '"', ']', '=', ' ', '\t', '\n', '\r', '/', '!', '-', '?', ';', '#', ':', '_', '.', 0x20, 0x7f, 0x85, 0xa0, 0x2028, 0xd7ff, 0xe000, 0xfffd, 0x10000, 0x10ffff, 'a', 'é', 'x'}

var xmlFragments = []string{"]]>", "<!--", "-->", "<![CDATA[", "&amp;", "&lt;", "&#60;", "&#x3c;", "&quot;", "&bogus;", "<?pi?>", "</entry>", "</td>", "<a>", " a=\"b", "\"/><x y=\"", "' b='", "\r\n", "<script>", "&", "<", ">", "\"", "'", " ", "  "}

func genXMLString(r *rand.Rand) string {
	var b strings.Builder
	switch r.Intn(12) {
	case 0:
		return ""
	case 1:
		b.WriteString([]string{"http://", "https://", "host:", "http:/", "Http://", " http://"}[r.Intn(6)])
	case 2:
		b.WriteString(" ") // leading blank
	}
	n := 1 + r.Intn(6)
	for i := 0; i < n; i++ {
		switch r.Intn(6) {
		case 0:
			b.WriteString(xmlFragments[r.Intn(len(xmlFragments))])
		case 1:
			b.WriteRune(xmlSpecialRunes[r.Intn(len(xmlSpecialRunes))])
		case 2, 3:
			b.WriteRune(rune('a' + r.Intn(26)))
		case 4:
			c := rune(r.Intn(0x250))
			if !legalXMLRune(c) {
				c = ' '
			}
			b.WriteRune(c)
		default:
			c := rune(r.Intn(0x110000))
			if !legalXMLRune(c) {
				c = 0xFFFD
			}
			b.WriteRune(c)
		}
	}
	if r.Intn(10) == 0 {
		b.WriteString(" ") // trailing blank
	}
	return b.String()
}

var nameLikeKeys = []string{"a", "b", "key", "x1", "x-y", "_z", "a.b", "A", "xmlns", "xml:lang", "XmlFoo", "a:b", "é", "1a", "-a", "a b", "a=\"1\" b", "a='1'", "", "k>", "plainList", "table", "all", "r1", "c1", "r1c1", "background_color"}

func genXMLKey(r *rand.Rand) string {
	if r.Intn(3) > 0 {
		return nameLikeKeys[r.Intn(len(nameLikeKeys))]
	}
	return genXMLString(r)
}

var styleStrings = []string{"zzz", "color:red", "", "a\"b", "x<y", "q'&", "plainList", "w:1px;\th:2px", "a\nb", "c\rd"}

func genStyVal(r *rand.Rand) value.Value {
	switch r.Intn(6) {
	case 0:
		return value.Int([]int64{0, 4, -7, 1 << 40}[r.Intn(4)])
	case 1:
		return value.Float([]float64{1.5, 0, -2.25, 1e21, 1e-7}[r.Intn(5)])
	case 2:
		return value.Bool(true)
	}
	if r.Intn(2) == 0 {
		return value.String(styleStrings[r.Intn(len(styleStrings))])
	}
	return value.String(genXMLString(r))
}

// genSty: a style; closures only where wantClosure allows (they need the wrapped value's tree)
func genSty(r *rand.Rand, depth int, table bool) *XSty {
	switch k := r.Intn(14); {
	case k < 1:
		return &XSty{Kind: 'N'}
	case k < 5:
		if r.Intn(3) == 0 {
			return &XSty{Kind: 'T', S: genXMLString(r)}
		}
		return &XSty{Kind: 'T', S: styleStrings[r.Intn(len(styleStrings))]}
	case k < 9:
		s := &XSty{Kind: 'K'}
		n := r.Intn(4)
		seen := map[string]bool{}
		for i := 0; i < n; i++ {
			key := genXMLKey(r)
			ck := strings.ReplaceAll(key, "_", "-")
			if seen[ck] || key == "table" {
				continue
			}
			seen[ck] = true
			s.Keys = append(s.Keys, key)
			s.Vals = append(s.Vals, genStyVal(r))
		}
		if table && r.Intn(2) == 0 {
			s.TKeys = []string{}
			for _, k := range []string{"all", "r1", "c1", "c2", "r2c2", "r1c1"} {
				if r.Intn(3) == 0 {
					s.TKeys = append(s.TKeys, k)
					var f *XSty
					switch r.Intn(5) {
					case 0:
						f = &XSty{Kind: 'W', S: "wrapped"}
					case 1:
						f = &XSty{Kind: 'E'}
					default:
						f = &XSty{Kind: 'T', S: styleStrings[r.Intn(len(styleStrings))]}
					}
					s.TVals = append(s.TVals, f)
				}
			}
		}
		return s
	case k < 10:
		return &XSty{Kind: 'O'}
	case k < 11:
		return &XSty{Kind: 'W', S: styleStrings[r.Intn(len(styleStrings))]}
	case k < 12:
		return &XSty{Kind: 'H', S: genXMLString(r)}
	case k < 13:
		return &XSty{Kind: 'R', Res: genXT(r, depth-1, false)}
	default:
		if r.Intn(2) == 0 {
			return &XSty{Kind: 'E'}
		}
		return &XSty{Kind: 'P'}
	}
}

var xmlFloatPool = []float64{0, 1, -1, 0.5, -2.25, 1e300, -1e300, math.Inf(1), math.Inf(-1), 3e6, 5e-7, 1e21, 123456789.125, math.Pi * 1e7}

// genXT: trees as in C17 plus wrappers; failing=true allows failing elements/closures
func genXT(r *rand.Rand, depth int, failing bool) *XT {
	k := r.Intn(16)
	if depth <= 0 && k >= 6 {
		k = r.Intn(6)
	}
	switch {
	case k < 1:
		return &XT{Kind: 'i', I: []int64{0, 1, -1, 42, math.MaxInt64, math.MinInt64}[r.Intn(6)]}
	case k < 2:
		return &XT{Kind: 'f', F: xmlFloatPool[r.Intn(len(xmlFloatPool))]}
	case k < 3:
		return &XT{Kind: 'b', B: r.Intn(2) == 0}
	case k < 6:
		return &XT{Kind: 's', S: genXMLString(r)}
	case k < 9:
		n := r.Intn(6)
		t := &XT{Kind: 'L', Rep: r.Intn(4)}
		table := r.Intn(3) == 0
		for i := 0; i < n; i++ {
			if table && r.Intn(5) > 0 {
				row := &XT{Kind: 'L', Rep: r.Intn(4)}
				m := r.Intn(5)
				for j := 0; j < m; j++ {
					row.Items = append(row.Items, genXT(r, depth-2, failing))
				}
				t.Items = append(t.Items, row)
			} else {
				t.Items = append(t.Items, genXT(r, depth-1, failing))
			}
		}
		if failing && n > 0 && r.Intn(8) == 0 {
			t.Rep = 1 + r.Intn(2)
			t.Fail = 1 + r.Intn(n)
		}
		return t
	case k < 12:
		n := r.Intn(5)
		t := &XT{Kind: 'M', Rep: r.Intn(6)}
		seen := map[string]bool{}
		scalarOnly := r.Intn(2) == 0 // favour "simple" maps
		for i := 0; i < n; i++ {
			key := genXMLKey(r)
			if seen[key] {
				continue
			}
			seen[key] = true
			t.Keys = append(t.Keys, key)
			d := depth - 1
			if scalarOnly {
				d = 0
			}
			t.Items = append(t.Items, genXT(r, d, failing))
		}
		return t
	case k < 14:
		sty := genSty(r, depth, true)
		if !failing && (sty.Kind == 'E' || sty.Kind == 'P') {
			sty = &XSty{Kind: 'T', S: "zzz"}
		}
		if !failing && sty.TKeys != nil {
			for _, f := range sty.TVals {
				if f.Kind == 'E' {
					f.Kind, f.S = 'T', "zzz"
				}
			}
		}
		return &XT{Kind: 'X', Sty: sty, Cell: r.Intn(4) == 0, Span: []int{0, 0, 0, 1, 2, 3, -1}[r.Intn(7)], Items: []*XT{genXT(r, depth-1, failing)}}
	case k < 15:
		return &XT{Kind: 'A', Href: genXMLString(r), Items: []*XT{genXT(r, depth-1, failing)}}
	default:
		data := make([]byte, []int{0, 1, 5, 300}[r.Intn(4)])
		r.Read(data)
		return &XT{Kind: 'B', Name: genXMLString(r), Mime: []string{"", "text/plain", "a\"b<c", "x y"}[r.Intn(4)], Data: data}
	}
}
