package main

// C06 — lazy list pipelines give the sequential result under every parallel schedule.
// Pipelines of lazy stages and terminals are evaluated in a -race worker under cost profiles that
// force, delay or forbid the timing-based switch of map/accept to parallel execution, and compared
// with the same pipeline under the all-fast profile (strictly sequential).

import (
	"fmt"
	"math/rand"
	"os"
	"strings"
	"time"
)

func init() { props["C06"] = runC06 }

var c06ExtraCorpus []string

// cost profile of one closure: @0 is replaced by a call form
// fast: quick(e) — never switches; slow: slow(e) — switches at element 12;
// slowFirst: slow for the first 12 elements only; fastFirst: fast for the first 12, slow afterwards
func costCall(profile string, v string) string {
	switch profile {
	case "slow":
		return "slow(" + v + ")"
	case "slowFirst":
		return "(if " + v + " < 12 then slow(" + v + ") else quick(" + v + "))"
	case "fastFirst":
		return "(if " + v + " < 12 then quick(" + v + ") else slow(" + v + "))"
	}
	return "quick(" + v + ")"
}

type pipeGen struct {
	r        *rand.Rand
	features map[string]int
	parStages int
	sides    int // closure-calling stages other than the parallel-capable ones
}

// stage returns a method-call suffix; `cost` = profile for parallel-capable closures
func (g *pipeGen) stage(cost string) string {
	k := g.r.Intn(17)
	switch k {
	case 0, 1, 2:
		g.features["map"]++
		g.parStages++
		return fmt.Sprintf(".map(e -> let t = %s; t + %d)", costCall(cost, "e"), g.r.Intn(3))
	case 3:
		g.features["accept"]++
		g.parStages++
		return fmt.Sprintf(".accept(e -> let t = %s; t %% 5 != %d)", costCall(cost, "e"), g.r.Intn(5))
	case 4:
		g.features["combine"]++
		g.sides++
		return ".combine((p, q) -> let d = q - p; d + p)"
	case 5:
		g.features["combine3"]++
		g.sides++
		return ".combine3((p, q, r) -> let m = p + q; m + r - q)"
	case 6:
		g.features["combineN"]++
		g.sides++
		return ".combineN(3, w -> let z = w.sum(); z - w[0])"
	case 7:
		g.features["iir"]++
		g.sides++
		return ".iir(e -> e, (e, l) -> let h = l % 1000; h + e)"
	case 8:
		g.features["iirCombine"]++
		g.sides++
		return ".iirCombine(e -> e, (le, e, l) -> let h = l % 1000; h + e - le)"
	case 9:
		g.features["number"]++
		g.sides++
		return ".number((n, e) -> let u = n % 7; u + e)"
	case 10:
		g.features["compact"]++
		g.sides++
		return ".compact((p, q) -> let x = p % 4; x = q % 4)"
	case 11:
		g.features["merge"]++
		g.sides++
		return fmt.Sprintf(".merge(numbers(%d).map(e -> e * 3), (p, q) -> let c = p < q; c)", 5+g.r.Intn(60))
	case 12:
		g.features["top"]++
		return fmt.Sprintf(".top(%d)", []int{0, 5, 13, 40, 500, 5000}[g.r.Intn(6)])
	case 13:
		g.features["skip"]++
		return fmt.Sprintf(".skip(%d)", []int{0, 3, 12, 13, 100}[g.r.Intn(5)])
	case 14:
		g.features["fsm"]++
		g.sides++
		return ".fsm((s, e) -> let n = (s.state + e) % 3; goto(n)).map(m -> m.state)"
	case 15:
		// the second list of cross is iterated once per element of the first one
		g.features["cross-inner"]++
		g.parStages++
		g.sides++
		return fmt.Sprintf(".top(%d).map(e -> let t = %s; t + 1).top(%d).size() + [1, 2, 3].cross(numbers(%d).map(v -> %s).top(%d), (p, q) -> let c2 = p * 1000; c2 + q).mapReduce(0, (s, e) -> (s * 31 + e) %% 1000003)",
			40+g.r.Intn(100), costCall(cost, "e"), 13+g.r.Intn(30), 40+g.r.Intn(100), costCall(cost, "v"), 13+g.r.Intn(40))
	default:
		g.features["concat"]++
		return fmt.Sprintf(" + numbers(%d).map(e -> e + 1)", g.r.Intn(20))
	}
}

func (g *pipeGen) terminal() string {
	switch g.r.Intn(14) {
	case 0:
		g.sides++
		return ".reduce((p, q) -> let s = p + q; s % 1000003)"
	case 1, 2:
		g.sides++
		return ".mapReduce(0, (s, e) -> let t = e % 977; (s + t) % 1000003)"
	case 3:
		return ".sum()"
	case 4:
		return ".size()"
	case 5:
		return ".string().len()"
	case 6:
		return ".top(1).size()"
	case 7:
		return ".last()"
	case 8:
		g.sides++
		return ".minMax(e -> let v = e % 101; v).max"
	case 9:
		g.sides++
		return ".visit(0, (v, e) -> let w = v + e; w % 1000003)"
	case 10:
		g.sides++
		return ".order(e -> let o = 0 - e; o).top(3)"
	case 11:
		g.sides++
		return ".groupByInt(e -> let gk = e % 5; gk).map(gr -> gr.values.size()).sum()"
	case 12:
		g.sides++
		return ".multiUse({s: l -> l.mapReduce(0, (s, e) -> (s + e) % 1000003), n: l -> l.size(), f: l -> l.top(3)}).string().len()"
	default:
		return ""
	}
}

type pipeCase struct {
	tmplStages []string // with profile placeholders resolved per variant below
	fast, prof *workerCase
	profile    string
	gmp        int
	par        bool
	sides      int
}

func runC06(c *Ctx) {
	c.rule = "pipelines numbers(N) -> 1..6 lazy stages (map, accept, combine, combine3, combineN, iir, iirCombine, number, compact, merge, top, skip, fsm, + concatenation; closures with local lets) -> terminal (reduce, mapReduce, sum, size, string, first/top, last, minMax, visit, order, groupByInt, multiUse), N in 0..2000, evaluated in a -race worker under a cost profile (slow = 300µs host function in every map/accept closure: switch at element 12; slowFirst / fastFirst: the switch is decided against the later cost) x GOMAXPROCS in {1,2,4,16} and compared with the same pipeline under the all-fast profile; a race report, a crash, a hang or a different outcome is a violation; non-trivial = distinct pipeline in which a parallel stage actually switched (>1 goroutine executed the slow host function) and that has a closure-calling stage besides it"
	c.assume = append(c.assume, "data-race freedom and real scheduling are runtime behaviour: decided by the Go race detector on the explored schedules, not proved; the iterator library is modelled (collector, stack ownership), not verified")
	n := c.Pick(500, 4000)
	profiles := []string{"slow", "slow", "slowFirst", "fastFirst"}
	gmps := []int{16, 4, 2, 1}
	var pcs []*pipeCase
	var fastCases, profCases []*workerCase
	// corpus first: the B6 witness and relatives
	corpus := []string{
		"numbers(3000).combine((a1, b1) -> [a1, b1]).map(e -> @C(e)).mapReduce(0, (s, e) -> if e[1] = e[0] + 1 then s else s + 1)",
		"numbers(400).map(e -> let t = @C(e); t + 1).combine((p, q) -> let d = q - p; d).mapReduce(0, (s, e) -> let u = s + e; u)",
		"numbers(400).number((n, e) -> let u = n + e; u).accept(e -> @C(e) % 3 != 1).reduce((p, q) -> let s = p + q; s % 1000003)",
		"numbers(300).map(e -> @C(e)).merge(numbers(300).map(e -> @C(e) * 2), (p, q) -> let c = p < q; c).mapReduce(0, (s, e) -> (s * 31 + e) % 1000003)",
		"numbers(500).iir(e -> e, (e, l) -> let h = l % 1000; h + e).map(e -> @C(e)).multiUse({s: l -> l.mapReduce(0, (s, e) -> (s + e) % 1000003), n: l -> l.size()}).string().len()",
	}
	mk := func(id int, body string, profile string, gmp int, par bool, sides int) {
		fastSrc := strings.ReplaceAll(body, "@C", "quick")
		var profSrc string
		if strings.Contains(body, "@C") {
			profSrc = strings.ReplaceAll(body, "@C", "slow")
		} else {
			profSrc = body
		}
		pc := &pipeCase{profile: profile, gmp: gmp, par: par, sides: sides}
		pc.fast = &workerCase{id: fmt.Sprintf("f%d", id), a: 0, flags: "opt", src: fastSrc}
		pc.prof = &workerCase{id: fmt.Sprintf("p%d", id), a: 0, flags: "opt", src: profSrc}
		pcs = append(pcs, pc)
		fastCases = append(fastCases, pc.fast)
		profCases = append(profCases, pc.prof)
	}
	corpus = append(corpus,
		"[1, 2, 3].cross(numbers(100).map(v -> @C(v)).top(30), (p, q) -> p * 1000 + q).size()",
		"[1, 2, 3, 4].cross(numbers(60).accept(v -> @C(v) % 2 = 0).top(20), (p, q) -> p * 1000 + q).mapReduce(0, (s, e) -> (s + e) % 1000003)",
		"numbers(4).map(r -> numbers(50).map(v -> @C(v) + r).top(15).sum()).sum()")
	corpus = append(corpus, c06ExtraCorpus...)
	for i, s := range corpus {
		mk(i, s, "slow", gmps[i%len(gmps)], true, 2)
	}
	for i := 0; i < n; i++ {
		g := &pipeGen{r: c.rng, features: map[string]int{}}
		profile := profiles[c.rng.Intn(len(profiles))]
		size := []int{0, 1, 11, 12, 13, 14, 30, 100, 400, 2000}[c.rng.Intn(10)]
		if c.rng.Intn(3) == 0 {
			size = c.rng.Intn(300)
		}
		ns := 1 + c.rng.Intn(6)
		var fastB, profB strings.Builder
		src := fmt.Sprintf("numbers(%d)", size)
		fastB.WriteString(src)
		profB.WriteString(src)
		for s := 0; s < ns; s++ {
			// generate the stage twice with the same random choices: once fast, once with the profile
			st := g.r.Int63()
			g1 := &pipeGen{r: rand.New(rand.NewSource(st)), features: g.features}
			fastB.WriteString(g1.stage("fast"))
			g2 := &pipeGen{r: rand.New(rand.NewSource(st)), features: map[string]int{}}
			profB.WriteString(g2.stage(profile))
			g.parStages += g2.parStages
			g.sides += g2.sides
		}
		tseed := g.r.Int63()
		gt := &pipeGen{r: rand.New(rand.NewSource(tseed))}
		term := gt.terminal()
		g.sides += gt.sides
		fastB.WriteString(term)
		profB.WriteString(term)
		for k := range g.features {
			c.Count("stage:" + k)
		}
		c.Count("profile:" + profile)
		id := len(corpus) + i
		pc := &pipeCase{profile: profile, gmp: gmps[c.rng.Intn(len(gmps))], par: g.parStages > 0, sides: g.sides}
		pc.fast = &workerCase{id: fmt.Sprintf("f%d", id), a: 0, flags: "opt", src: fastB.String()}
		pc.prof = &workerCase{id: fmt.Sprintf("p%d", id), a: 0, flags: "opt", src: profB.String()}
		pcs = append(pcs, pc)
		fastCases = append(fastCases, pc.fast)
		profCases = append(profCases, pc.prof)
	}
	if dump := os.Getenv("VERIF_DEBUG_DUMP"); dump != "" {
		var b strings.Builder
		for _, pc := range pcs {
			fmt.Fprintf(&b, "%s\t0\topt\t%s\n", pc.prof.id, pc.prof.src)
		}
		os.WriteFile(dump, []byte(b.String()), 0o644)
	}
	// reference: all-fast profile, plain build
	parallelBatches(fastCases, 12, false, 4, 30*time.Second)
	// profiles under the race detector, grouped by GOMAXPROCS
	for _, gmp := range gmps {
		var part []*workerCase
		for _, pc := range pcs {
			if pc.gmp == gmp {
				part = append(part, pc.prof)
			}
		}
		parallelBatches(part, 10, true, gmp, 60*time.Second)
	}
	switched := 0
	for _, pc := range pcs {
		nontriv := pc.prof.goroutines > 1 && pc.sides > 0
		if pc.prof.goroutines > 1 {
			switched++
		}
		c.Case(pc.prof.src, nontriv)
		c.Count("outcome=" + strings.SplitN(pc.prof.outcome, " ", 2)[0])
		if nontriv && len(c.samples) < 5 {
			c.Sample(map[string]any{"pipeline": pc.prof.src, "profile": pc.profile, "GOMAXPROCS": pc.gmp, "outcome": trunc(pc.prof.outcome, 80), "goroutines_running_the_stage": pc.prof.goroutines})
		}
		replay := map[string]any{"program": pc.prof.src, "sequential_program": pc.fast.src, "profile": pc.profile, "GOMAXPROCS": pc.gmp,
			"outcome": trunc(pc.prof.outcome, 300), "sequential_outcome": trunc(pc.fast.outcome, 300), "goroutines": pc.prof.goroutines}
		if pc.prof.stderr != "" {
			replay["stderr_head"] = firstLines(pc.prof.stderr, 25)
		}
		switch {
		case pc.prof.outcome == "RACE":
			c.Violation("data-race", "the race detector reported a data race", replay)
		case pc.prof.outcome == "CRASH" || pc.fast.outcome == "CRASH":
			c.Violation("crash", "the worker process died", replay)
		case pc.prof.outcome == "TIMEOUT" || pc.fast.outcome == "TIMEOUT":
			c.Violation("hang", "evaluation did not return", replay)
		case strings.HasPrefix(pc.prof.outcome, "PANIC"):
			c.Violation("panic-escaped", "a Go panic escaped Eval", replay)
		case pc.prof.outcome != pc.fast.outcome:
			c.disagree++
			c.Violation("parallel-differs-from-sequential", "the outcome depends on the execution profile", replay)
		}
	}
	c.extra["pipelines_with_observed_parallel_switch"] = switched
}

func trunc(s string, n int) string {
	if len(s) > n {
		return s[:n] + "…"
	}
	return s
}

func init() {
	// corpus additions (found by the C08 builder): an upstream error item passing a parallel stage
	c06ExtraCorpus = append(c06ExtraCorpus,
		"numbers(1000).map(e -> if @C(e) = 20 then throw(\"x\") else e).combineN(3, l -> l[0] * 2 + l[2] + 3).map(e -> @C(e) * 2).top(30)",
		"numbers(1000).map(e -> if @C(e) = 20 then throw(\"x\") else e).combine((p, q) -> p * 2 + q).map(e -> @C(e) * 2).sum()",
		"numbers(1000).map(e -> if @C(e) = 20 then throw(\"x\") else e).combine3((p, q, r) -> p * 2 + q + r).accept(e -> @C(e) > 0).size()",
		"numbers(1000).map(e -> if @C(e) = 20 then throw(\"x\") else e).iir(e -> e, (e, l) -> l + e).map(e -> @C(e) * 2).last()",
		"numbers(1000).map(e -> if @C(e) = 20 then throw(\"x\") else e).skip(3).map(e -> @C(e) * 2).size()")
}
