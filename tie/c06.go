package main

// C06 — lazy list pipelines give the sequential result under every parallel schedule.
// Pipelines of lazy stages and terminals are evaluated in a -race worker under cost profiles that
// force, delay or forbid the timing-based switch of map/accept to parallel execution, and compared
// with the same pipeline under the all-fast profile (strictly sequential).

import (
	"fmt"
	"github.com/hneemann/parser2/value"
	"math/rand"
	"os"
	"strings"
	"time"
)

func init() { props["C06"] = runC06 }

var c06ExtraCorpus []string

// cost profile of one closure: @0 is replaced by a call form
// fast: quick(e) — never switches; slow: slow(e) — switches at element 12;
// slowFirst: slow for the first 12 elements only; fastFirst: fast for the first 12, slow afterwards
func costCall(profile string, v string) string {
	switch profile {
	case "slow":
		return "slow(" + v + ")"
	case "slowFirst":
		return "(if " + v + " < 12 then slow(" + v + ") else quick(" + v + "))"
	case "fastFirst":
		return "(if " + v + " < 12 then quick(" + v + ") else slow(" + v + "))"
	}
	return "quick(" + v + ")"
}

type pipeGen struct {
	r         *rand.Rand
	features  map[string]int
	parStages int
	sides     int // closure-calling stages other than the parallel-capable ones
}

// stage returns a method-call suffix; `cost` = profile for parallel-capable closures
func (g *pipeGen) stage(cost string) string {
	k := g.r.Intn(17)
	switch k {
	case 0, 1, 2:
		g.features["map"]++
		g.parStages++
		return fmt.Sprintf(".map(e -> let t = %s; t + %d)", costCall(cost, "e"), g.r.Intn(3))
	case 3:
		g.features["accept"]++
		g.parStages++
		return fmt.Sprintf(".accept(e -> let t = %s; t %% 5 != %d)", costCall(cost, "e"), g.r.Intn(5))
	case 4:
		g.features["combine"]++
		g.sides++
		return ".combine((p, q) -> let d = q - p; d + p)"
	case 5:
		g.features["combine3"]++
		g.sides++
		return ".combine3((p, q, r) -> let m = p + q; m + r - q)"
	case 6:
		g.features["combineN"]++
		g.sides++
		return ".combineN(3, w -> let z = w.sum(); z - w[0])"
	case 7:
		g.features["iir"]++
		g.sides++
		return ".iir(e -> e, (e, l) -> let h = l % 1000; h + e)"
	case 8:
		g.features["iirCombine"]++
		g.sides++
		return ".iirCombine(e -> e, (le, e, l) -> let h = l % 1000; h + e - le)"
	case 9:
		g.features["number"]++
		g.sides++
		return ".number((n, e) -> let u = n % 7; u + e)"
	case 10:
		g.features["compact"]++
		g.sides++
		return ".compact((p, q) -> let x = p % 4; x = q % 4)"
	case 11:
		g.features["merge"]++
		g.sides++
		return fmt.Sprintf(".merge(numbers(%d).map(e -> e * 3), (p, q) -> let c = p < q; c)", 5+g.r.Intn(60))
	case 12:
		g.features["top"]++
		return fmt.Sprintf(".top(%d)", []int{0, 5, 13, 40, 500, 5000}[g.r.Intn(6)])
	case 13:
		g.features["skip"]++
		return fmt.Sprintf(".skip(%d)", []int{0, 3, 12, 13, 100}[g.r.Intn(5)])
	case 14:
		g.features["fsm"]++
		g.sides++
		return ".fsm((s, e) -> let n = (s.state + e) % 3; goto(n)).map(m -> m.state)"
	case 15:
		// the second list of cross is iterated once per element of the first one
		g.features["cross-inner"]++
		g.parStages++
		g.sides++
		return fmt.Sprintf(".top(%d).map(e -> let t = %s; t + 1).top(%d).size() + [1, 2, 3].cross(numbers(%d).map(v -> %s).top(%d), (p, q) -> let c2 = p * 1000; c2 + q).mapReduce(0, (s, e) -> (s * 31 + e) %% 1000003)",
			40+g.r.Intn(100), costCall(cost, "e"), 13+g.r.Intn(30), 40+g.r.Intn(100), costCall(cost, "v"), 13+g.r.Intn(40))
	default:
		g.features["concat"]++
		// the later stages apply to the concatenation (replaceList), whose operands hold closure-calling stages
		switch g.r.Intn(4) {
		case 0:
			g.sides++
			return fmt.Sprintf(".replaceList(q -> q + numbers(%d).number((n, e) -> let u = n %% 7; u + e))", 5+g.r.Intn(60))
		case 1:
			g.sides++
			return fmt.Sprintf(".replaceList(q -> numbers(%d).iir(e -> e, (e, l) -> let h = l %% 1000; h + e) + q)", 5+g.r.Intn(60))
		case 2:
			g.sides++
			return ".replaceList(q -> q.combine((p, r) -> let d = r - p; d) + q.number((n, e) -> let u = n + e; u))"
		}
		return fmt.Sprintf(" + numbers(%d).map(e -> e + 1)", g.r.Intn(20))
	}
}

func (g *pipeGen) terminal() string {
	switch g.r.Intn(14) {
	case 0:
		g.sides++
		return ".reduce((p, q) -> let s = p + q; s % 1000003)"
	case 1, 2:
		g.sides++
		return ".mapReduce(0, (s, e) -> let t = e % 977; (s + t) % 1000003)"
	case 3:
		return ".sum()"
	case 4:
		return ".size()"
	case 5:
		return ".string().len()"
	case 6:
		return ".top(1).size()"
	case 7:
		return ".last()"
	case 8:
		g.sides++
		return ".minMax(e -> let v = e % 101; v).max"
	case 9:
		g.sides++
		return ".visit(0, (v, e) -> let w = v + e; w % 1000003)"
	case 10:
		g.sides++
		return ".order(e -> let o = 0 - e; o).top(3)"
	case 11:
		g.sides++
		return ".groupByInt(e -> let gk = e % 5; gk).map(gr -> gr.values.size()).sum()"
	case 12:
		g.sides++
		return ".multiUse({s: l -> l.mapReduce(0, (s, e) -> (s + e) % 1000003), n: l -> l.size(), f: l -> l.top(3)}).string().len()"
	default:
		return ""
	}
}

type pipeCase struct {
	tmplStages  []string // with profile placeholders resolved per variant below
	fast, prof  *workerCase
	profile     string
	gmp         int
	par         bool
	sides       int
	multi       bool // multiUse against the direct application of its consumers (always concurrent)
	multiMisuse bool // a consumer uses its list more than once: multiUse must answer with an error
}

func runC06(c *Ctx) {
	c.rule = "pipelines numbers(N) -> 1..6 lazy stages (map, accept, combine, combine3, combineN, iir, iirCombine, number, compact, merge, top, skip, fsm, + concatenation; closures with local lets) -> terminal (reduce, mapReduce, sum, size, string, first/top, last, minMax, visit, order, groupByInt, multiUse), N in 0..2000, evaluated in a -race worker under a cost profile (slow = 300µs host function in every map/accept closure: switch at element 12; slowFirst / fastFirst: the switch is decided against the later cost) x GOMAXPROCS in {1,2,4,16} and compared with the same pipeline under the all-fast profile; plus forced arrival orders (host function gate: the results of the 2..15 items behind the switch arrive in a prescribed permutation, with a failing or rejected item and a consumer stopping anywhere); plus multiUse with consumers returning results of 20 shapes (lazy lists inside maps and lists at any position, failing elements) against the direct application of the consumers; a race report, a crash, a hang or a different outcome is a violation; the sequential run itself is compared with the reference semantics over the eager library specification of C07; non-trivial = distinct pipeline in which a parallel stage actually switched (>1 goroutine executed the slow host function) and that has a closure-calling stage besides it"
	c.assume = append(c.assume, "data-race freedom and real scheduling are runtime behaviour: decided by the Go race detector on the explored schedules, not proved; the iterator library is modelled (collector, stack ownership), not verified")
	n := c.Pick(500, 4000)
	profiles := []string{"slow", "slow", "slowFirst", "fastFirst"}
	gmps := []int{16, 4, 2, 1}
	var pcs []*pipeCase
	var fastCases, profCases []*workerCase
	// corpus first: the B6 witness and relatives
	corpus := []string{
		"numbers(3000).combine((a1, b1) -> [a1, b1]).map(e -> @C(e)).mapReduce(0, (s, e) -> if e[1] = e[0] + 1 then s else s + 1)",
		"numbers(400).map(e -> let t = @C(e); t + 1).combine((p, q) -> let d = q - p; d).mapReduce(0, (s, e) -> let u = s + e; u)",
		"numbers(400).number((n, e) -> let u = n + e; u).accept(e -> @C(e) % 3 != 1).reduce((p, q) -> let s = p + q; s % 1000003)",
		"numbers(300).map(e -> @C(e)).merge(numbers(300).map(e -> @C(e) * 2), (p, q) -> let c = p < q; c).mapReduce(0, (s, e) -> (s * 31 + e) % 1000003)",
		"numbers(500).iir(e -> e, (e, l) -> let h = l % 1000; h + e).map(e -> @C(e)).multiUse({s: l -> l.mapReduce(0, (s, e) -> (s + e) % 1000003), n: l -> l.size()}).string().len()",
	}
	mk := func(id int, body string, profile string, gmp int, par bool, sides int) {
		fastSrc := strings.ReplaceAll(strings.ReplaceAll(body, "@C", "quick"), "@B", "quick")
		var profSrc string
		if strings.Contains(body, "@C") {
			profSrc = strings.ReplaceAll(strings.ReplaceAll(body, "@C", "slow"), "@B", "barrier")
		} else {
			profSrc = body
		}
		pc := &pipeCase{profile: profile, gmp: gmp, par: par, sides: sides}
		pc.fast = &workerCase{id: fmt.Sprintf("f%d", id), a: 0, flags: "opt", src: fastSrc}
		pc.prof = &workerCase{id: fmt.Sprintf("p%d", id), a: 0, flags: "opt", src: profSrc}
		pcs = append(pcs, pc)
		fastCases = append(fastCases, pc.fast)
		profCases = append(profCases, pc.prof)
	}
	corpus = append(corpus,
		"[1, 2, 3].cross(numbers(100).map(v -> @C(v)).top(30), (p, q) -> p * 1000 + q).size()",
		"[1, 2, 3, 4].cross(numbers(60).accept(v -> @C(v) % 2 = 0).top(20), (p, q) -> p * 1000 + q).mapReduce(0, (s, e) -> (s + e) % 1000003)",
		"numbers(4).map(r -> numbers(50).map(v -> @C(v) + r).top(15).sum()).sum()")
	corpus = append(corpus, c06ExtraCorpus...)
	for i, s := range corpus {
		mk(i, s, "slow", gmps[i%len(gmps)], true, 2)
	}
	for i := 0; i < n; i++ {
		g := &pipeGen{r: c.rng, features: map[string]int{}}
		profile := profiles[c.rng.Intn(len(profiles))]
		size := []int{0, 1, 11, 12, 13, 14, 30, 100, 400, 2000}[c.rng.Intn(10)]
		if c.rng.Intn(3) == 0 {
			size = c.rng.Intn(300)
		}
		ns := 1 + c.rng.Intn(6)
		var fastB, profB strings.Builder
		src := fmt.Sprintf("numbers(%d)", size)
		fastB.WriteString(src)
		profB.WriteString(src)
		for s := 0; s < ns; s++ {
			// generate the stage twice with the same random choices: once fast, once with the profile
			st := g.r.Int63()
			g1 := &pipeGen{r: rand.New(rand.NewSource(st)), features: g.features}
			fastB.WriteString(g1.stage("fast"))
			g2 := &pipeGen{r: rand.New(rand.NewSource(st)), features: map[string]int{}}
			profB.WriteString(g2.stage(profile))
			g.parStages += g2.parStages
			g.sides += g2.sides
		}
		tseed := g.r.Int63()
		gt := &pipeGen{r: rand.New(rand.NewSource(tseed))}
		term := gt.terminal()
		g.sides += gt.sides
		fastB.WriteString(term)
		profB.WriteString(term)
		for k := range g.features {
			c.Count("stage:" + k)
		}
		c.Count("profile:" + profile)
		id := len(corpus) + i
		pc := &pipeCase{profile: profile, gmp: gmps[c.rng.Intn(len(gmps))], par: g.parStages > 0, sides: g.sides}
		fastSrc, profSrc := fastB.String(), profB.String()
		switch c.rng.Intn(4) {
		case 0:
			// the pipeline runs above live locals of the evaluation, which are read afterwards
			c.Count("wrapper:live-locals")
			w := func(p string) string { return "let k1 = a + 7; let k2 = k1 * 3; let r = " + p + "; [r, k1, k2].string()" }
			fastSrc, profSrc = w(fastSrc), w(profSrc)
		case 1:
			// the result is looked at twice (a failed materialisation must fail again, a good one stays)
			c.Count("wrapper:looked-at-twice")
			w := func(p string) string {
				return "let r = " + p + "; [try string(r).len() catch 0 - 1, try string(r).len() catch 0 - 2, try string(r) catch \"E\"].string()"
			}
			fastSrc, profSrc = w(fastSrc), w(profSrc)
		}
		pc.fast = &workerCase{id: fmt.Sprintf("f%d", id), a: 0, flags: "opt", src: fastSrc}
		pc.prof = &workerCase{id: fmt.Sprintf("p%d", id), a: 0, flags: "opt", src: profSrc}
		pcs = append(pcs, pc)
		fastCases = append(fastCases, pc.fast)
		profCases = append(profCases, pc.prof)
	}
	// forced arrival orders: the closure of ONE parallel stage returns in a prescribed permutation of the items
	// behind the switch (host function gate), with a failing / rejected item somewhere and a consumer that stops
	// somewhere: the schedules of `P2.ParStage` (dispatch everything, results arrive in any order) on the real code
	nForced := c.Pick(150, 1500)
	for i := 0; i < nForced; i++ {
		w := 2 + c.rng.Intn(14)
		total := 12 + w
		perm := c.rng.Perm(w)
		order := make([]string, w)
		for j, x := range perm {
			order[j] = itoa(12 + x)
		}
		if c.rng.Intn(4) == 0 { // the classic: everything arrives in reverse
			for j := range order {
				order[j] = itoa(12 + w - 1 - j)
			}
		}
		bad := 12 + c.rng.Intn(w)
		var stage string
		switch c.rng.Intn(6) {
		case 0:
			stage = fmt.Sprintf(".map(e -> if e = %d then throw(\"x\") else @G(e))", bad)
		case 1:
			stage = fmt.Sprintf(".map(e -> if e = %d then [1][e] else @G(e) * 2)", bad)
		case 2:
			stage = fmt.Sprintf(".accept(e -> if e = %d then throw(\"x\") else @G(e) %% 3 != 1)", bad)
		case 3:
			stage = fmt.Sprintf(".accept(e -> @G(e) != %d)", bad)
		case 4:
			stage = fmt.Sprintf(".map(e -> if e >= %d then throw(\"x\" + e) else @G(e))", bad)
		default:
			stage = ".map(e -> @G(e) + 1)"
		}
		k := c.rng.Intn(total + 1)
		term := []string{fmt.Sprintf(".top(%d).size()", k), fmt.Sprintf(".top(%d).sum()", k), ".first()", fmt.Sprintf(".indexWhere(e -> e = %d)", k), ".string()",
			fmt.Sprintf(".skip(%d).first()", k), ".sum()", fmt.Sprintf(".top(%d).string()", k), fmt.Sprintf(".present(e -> e = %d)", k),
			fmt.Sprintf(".map(e -> e + 1).top(%d).string()", k), fmt.Sprintf(".combine((p, q) -> p + q).top(%d).sum()", k)}[c.rng.Intn(11)]
		body := fmt.Sprintf("numbers(%d)", total) + stage + term
		id := len(corpus) + n + i
		pc := &pipeCase{profile: "forced-order", gmp: []int{16, 4}[c.rng.Intn(2)], par: true, sides: 1}
		pc.fast = &workerCase{id: fmt.Sprintf("f%d", id), a: 0, flags: "opt", src: strings.ReplaceAll(body, "@G", "quick")}
		pc.prof = &workerCase{id: fmt.Sprintf("p%d", id), a: 0, flags: "opt;sched=12:" + strings.Join(order, ","), src: strings.ReplaceAll(body, "@G", "gate")}
		pcs = append(pcs, pc)
		fastCases = append(fastCases, pc.fast)
		profCases = append(profCases, pc.prof)
		c.Count("profile:forced-order")
	}
	// multiUse = the consumers applied to the list one after the other: results of every shape (scalars, lazy lists,
	// maps and lists holding lazy lists in any position, nested, failing elements in any entry)
	shapes := []string{"l.sum()", "l.size()", "l.map(e -> e + 1)", "l.accept(e -> e % 2 = 0)", "l.combine((p, q) -> p + q)", "l.top(3)", "{n: 0, m: l.map(e -> e + 1)}",
		"{a: l.top(2), b: l.skip(1).map(e -> e * 2)}", "{x: {y: [l.map(e -> e + 1)]}}", "[1, l.map(e -> e + 1), l.accept(e -> e > 2)]", "{n: 0, m: l.map(e -> if e = 3 then throw(\"x\") else e)}",
		"{m: l.map(e -> if e = 3 then throw(\"x\") else e), n: 0}", "{m: l.map(e -> if e = 3 then throw(\"x\") else e), k: l.map(e -> e + 1)}", "[l.top(1), [l.iir(e -> e, (e, p) -> e + p)], {z: l.number((n, e) -> n * e)}]",
		"l.first()", "{p: 1, q: 2, r: l.reverse(), s: l.map(e -> 0 - e)}", "l.map(e -> [e, l.size()])", "{e: [], f: l.size()}", "[[], l.top(2)]", "l.map(e -> @C(e))"}
	// the copy a consumer gets can be traversed ONCE; a consumer may hand it to the closure of a stage that has gone parallel,
	// where several workers ask for it at the same moment: the first one materialises it (under the list's lock), the others wait
	// and read the items (round-5 seed C06-13: Eval ran the producer without the lock, the second worker got the used-up
	// iterator). The list is not touched before the stage has switched (element 14), and its source is slow, so that the first
	// materialisation is still under way when the other workers arrive.
	type multiSpecial struct{ src, f1, f2, f3 string }
	specials := []multiSpecial{
		{"numbers(30).map(e -> @C(e))", "numbers(40).map(i -> @C(i) + (if i < 14 then 0 else l.size())).sum()", "l.sum()", "l.size()"},
		{"numbers(30).map(e -> @C(e))", "l.size()", "numbers(40).map(i -> @C(i) + (if i < 14 then 0 else l[i % 30])).sum()", "l.sum()"},
		{"numbers(20).accept(e -> @C(e) >= 0)", "l.sum()", "l.size()", "numbers(40).accept(i -> @C(i) >= 0 & (i < 14 | l.size() = 20)).size()"},
		{"numbers(30).map(e -> @C(e))", "numbers(40).map(i -> @C(i) + (if i < 14 then 0 else l.order(e -> 0 - e).first())).sum()", "l.top(3)", "l.size()"},
		{"numbers(25).iir(e -> @C(e), (e, p) -> @C(e) + p)", "numbers(48).map(i -> @C(i) + (if i < 14 then 0 else l[24])).sum()", "l.sum()", "l.map(e -> e + 1)"},
	}
	nMulti := c.Pick(60, 600)
	for i := -2 * len(specials); i < nMulti; i++ {
		pick := func() string { return shapes[c.rng.Intn(len(shapes))] }
		f1, f2, f3 := pick(), pick(), pick()
		if i >= 0 && i < len(shapes) {
			f1 = shapes[i]
		}
		srcList := []string{"numbers(6)", "numbers(40).map(e -> e + 1)", "[5, 3, 1]", "numbers(30).accept(e -> e % 3 != 0)", "numbers(5).map(e -> e * 2).eval()"}[c.rng.Intn(5)]
		if i < 0 {
			sp := specials[(-i-1)%len(specials)]
			srcList, f1, f2, f3 = sp.src, sp.f1, sp.f2, sp.f3
		}
		multi := fmt.Sprintf("let r = %s.multiUse({a: l -> %s, b: l -> %s, c: l -> %s}); [r.a.string(), r.b.string(), r.c.string()].string()", srcList, f1, f2, f3)
		direct := fmt.Sprintf("let l = %s; [(%s).string(), (%s).string(), (%s).string()].string()", srcList, f1, f2, f3)
		id := len(corpus) + n + nForced + i + 2*len(specials)
		pc := &pipeCase{profile: "multiUse-vs-direct", gmp: []int{16, 4, 2}[c.rng.Intn(3)], par: true, sides: 1}
		pc.fast = &workerCase{id: fmt.Sprintf("f%d", id), a: 0, flags: "opt", src: strings.ReplaceAll(direct, "@C", "quick")}
		pc.prof = &workerCase{id: fmt.Sprintf("p%d", id), a: 0, flags: "opt", src: strings.ReplaceAll(multi, "@C", "slow")}
		pc.multi = true
		// a consumer may use its list once: a second use is an error (never a silently empty list)
		for _, f := range []string{f1, f2, f3} {
			if strings.Count(f, "l.")+strings.Count(f, "l)") > 1 {
				pc.multiMisuse = true
			}
		}
		pcs = append(pcs, pc)
		fastCases = append(fastCases, pc.fast)
		profCases = append(profCases, pc.prof)
		c.Count("profile:multiUse-vs-direct")
	}
	if dump := os.Getenv("VERIF_DEBUG_DUMP"); dump != "" {
		var b strings.Builder
		for _, pc := range pcs {
			fmt.Fprintf(&b, "%s\t0\topt\t%s\n", pc.prof.id, pc.prof.src)
		}
		os.WriteFile(dump, []byte(b.String()), 0o644)
	}
	// reference: all-fast profile, plain build
	parallelBatches(fastCases, 12, false, 4, 30*time.Second)
	// profiles under the race detector, grouped by GOMAXPROCS
	for _, gmp := range gmps {
		var part []*workerCase
		for _, pc := range pcs {
			if pc.gmp == gmp {
				part = append(part, pc.prof)
			}
		}
		parallelBatches(part, 10, true, gmp, 60*time.Second)
	}
	switched := 0
	for _, pc := range pcs {
		nontriv := (pc.prof.goroutines > 1 || pc.multi) && pc.sides > 0
		if pc.prof.goroutines > 1 {
			switched++
		}
		c.Case(pc.prof.src, nontriv)
		c.Count("outcome=" + strings.SplitN(pc.prof.outcome, " ", 2)[0])
		if nontriv && len(c.samples) < 5 {
			c.Sample(map[string]any{"pipeline": pc.prof.src, "profile": pc.profile, "GOMAXPROCS": pc.gmp, "outcome": trunc(pc.prof.outcome, 80), "goroutines_running_the_stage": pc.prof.goroutines})
		}
		replay := map[string]any{"program": pc.prof.src, "sequential_program": pc.fast.src, "profile": pc.profile, "GOMAXPROCS": pc.gmp,
			"flags": pc.prof.flags, "outcome": trunc(pc.prof.outcome, 300), "sequential_outcome": trunc(pc.fast.outcome, 300), "goroutines": pc.prof.goroutines}
		if pc.prof.stderr != "" {
			replay["stderr_head"] = firstLines(pc.prof.stderr, 25)
		}
		switch {
		case pc.prof.outcome == "RACE":
			c.Violation("data-race", "the race detector reported a data race", replay)
		case pc.prof.outcome == "CRASH" || pc.fast.outcome == "CRASH":
			c.Violation("crash", "the worker process died", replay)
		case pc.prof.outcome == "TIMEOUT" || pc.fast.outcome == "TIMEOUT":
			c.Violation("hang", "evaluation did not return", replay)
		case strings.HasPrefix(pc.prof.outcome, "PANIC"):
			c.Violation("panic-escaped", "a Go panic escaped Eval", replay)
		case pc.multiMisuse:
			// (a first use that materialises the list makes a second use legal)
			if pc.prof.outcome != "ERR" && pc.prof.outcome != pc.fast.outcome {
				c.Violation("multiUse-second-use-not-reported", "a multiUse consumer used its list twice and multiUse answered neither with an error nor with the result of the direct application", replay)
			}
		case pc.prof.outcome != pc.fast.outcome:
			c.disagree++
			if strings.HasPrefix(pc.prof.outcome, "OK s") && strings.HasPrefix(pc.fast.outcome, "OK s") {
				a, b := fromCps(pc.prof.outcome[4:]), fromCps(pc.fast.outcome[4:])
				k := 0
				for k < len(a) && k < len(b) && a[k] == b[k] {
					k++
				}
				lo := max(0, k-40)
				replay["first_difference_at"] = k
				replay["outcome_around_difference"] = a[lo:min(len(a), k+60)]
				replay["sequential_around_difference"] = b[lo:min(len(b), k+60)]
			}
			c.Violation("parallel-differs-from-sequential", "the outcome depends on the execution profile", replay)
		}
	}
	c.extra["pipelines_with_observed_parallel_switch"] = switched
	// the sequential result is also what the eager library specification (C07) gives: the all-fast run of every
	// pipeline is compared with the reference semantics over that specification (host functions written as identity)
	{
		fgOff := newValueFG(false)
		var reqs []string
		var which []*pipeCase
		for _, pc := range pcs {
			if pc.multi || strings.HasPrefix(pc.fast.outcome, "PANIC") || pc.fast.outcome == "CRASH" || pc.fast.outcome == "TIMEOUT" {
				continue
			}
			pure := strings.NewReplacer("quick(", "(", "slow(", "(", "gate(", "(", "barrier(", "(").Replace(pc.fast.src)
			ast, err := parseUnoptimized(fgOff, pure, []string{"a"})
			if err != nil {
				continue
			}
			var d astDump
			d.dump(ast, 0)
			if d.unmodelled != "" {
				c.Count("spec-reference:unmodelled-ast")
				continue
			}
			var ab strings.Builder
			argTokens(value.Int(0), &ab)
			reqs = append(reqs, fmt.Sprintf("SPEC\t%d\t%s\t%s\t%s", 200000, cps("a"), ab.String(), d.b.String()))
			which = append(which, pc)
		}
		for i, mo := range c.Model(reqs) {
			pc := which[i]
			c.Count("spec-reference:" + strings.SplitN(mo, " ", 2)[0])
			if mo == "BADREQ" || mo == "UNMODELLED" || mo == "FUEL" {
				continue
			}
			if mo != pc.fast.outcome {
				c.disagree++
				c.Violation("sequential-differs-from-library-spec", "the sequential run of the pipeline differs from the reference semantics over the eager library specification",
					map[string]any{"program": pc.fast.src, "sequential_outcome": trunc(pc.fast.outcome, 300), "library_spec": trunc(mo, 300), "request": reqs[i]})
			}
		}
	}
}

func trunc(s string, n int) string {
	if len(s) > n {
		return s[:n] + "…"
	}
	return s
}

func init() {
	// corpus additions (found by the C08 builder): an upstream error item passing a parallel stage
	c06ExtraCorpus = append(c06ExtraCorpus,
		"numbers(1000).map(e -> if @C(e) = 20 then throw(\"x\") else e).combineN(3, l -> l[0] * 2 + l[2] + 3).map(e -> @C(e) * 2).top(30)",
		"numbers(1000).map(e -> if @C(e) = 20 then throw(\"x\") else e).combine((p, q) -> p * 2 + q).map(e -> @C(e) * 2).sum()",
		"numbers(1000).map(e -> if @C(e) = 20 then throw(\"x\") else e).combine3((p, q, r) -> p * 2 + q + r).accept(e -> @C(e) > 0).size()",
		"numbers(1000).map(e -> if @C(e) = 20 then throw(\"x\") else e).iir(e -> e, (e, l) -> l + e).map(e -> @C(e) * 2).last()",
		"numbers(1000).map(e -> if @C(e) = 20 then throw(\"x\") else e).skip(3).map(e -> @C(e) * 2).size()",
		// a concatenation whose operands call closures, upstream of a parallel stage and as a merge operand
		"(numbers(200).number((n, e) -> let u = n % 7; u + e) + numbers(200).iir(e -> e, (e, l) -> let h = l % 1000; h + e)).map(e -> let t = @C(e); t + 1).mapReduce(0, (s, e) -> let w = s + e; w % 1000003)",
		"(numbers(150).combine((p, q) -> let d = q - p; d) + numbers(150).number((n, e) -> let u = n + e; u)).accept(e -> @C(e) % 3 != 1).reduce((p, q) -> let s = p + q; s % 1000003)",
		"numbers(300).map(e -> @C(e)).merge(numbers(100).number((n, e) -> let u = n * 2; u + e) + numbers(100).number((n, e) -> let u = n * 3; u + e), (p, q) -> let c = p < q; c).mapReduce(0, (s, e) -> (s * 31 + e) % 1000003)",
		// the closures of a parallel stage share values of the enclosing scope: a list with spare capacity they append
		// to, a lazy list they materialise (first use from several workers at once), a map they derive from
		"let base = [1, 2].append(3); numbers(200).map(e -> base.append(@C(e)).sum()).sum()",
		"let base = numbers(5).eval(); numbers(200).map(e -> base.append(@C(e)).append(e).size() + base.size()).sum()",
		"let base = [1, 2, 3].map(x -> x * 2).eval(); numbers(200).map(e -> base.append(@C(e)).last() + base.last()).mapReduce(0, (s, e) -> (s * 31 + e) % 1000003)",
		"let sh = numbers(50).map(x -> x * 2); numbers(200).map(e -> sh[@C(e) % 50]).sum()",
		"let sh = numbers(50).iir(x -> x, (x, l) -> l + x); numbers(200).map(e -> @C(e) + sh.size() + sh[e % 50]).sum()",
		"let mm = {a: 1, b: 2}; numbers(200).map(e -> mm.put(\"k\", @C(e)).k + mm.a).sum()",
		"let sh = numbers(30).map(x -> x + 1); numbers(200).accept(e -> sh ~ (@C(e) % 40)).size()",
		"let sh = numbers(40).combine((p, q) -> p + q); numbers(200).map(e -> sh.top(@C(e) % 5 + 1).sum()).sum()",
		// … first used when the stage already runs in parallel (the first twelve items are mapped sequentially)
		"let base = [1, 2].append(3); numbers(200).map(e -> let t = @C(e); if e < 30 then t else base.append(@B(t)).sum()).sum()",
		"let base = numbers(5).eval(); numbers(200).map(e -> let t = @C(e); if e < 30 then t else base.append(@B(t)).append(e).size() + base.size()).sum()",
		"let base = [1, 2, 3].map(x -> x * 2).eval(); numbers(200).accept(e -> let t = @C(e); if e < 30 then true else base.append(@B(t)).last() >= 0).size()",
		"let sh = numbers(50).map(x -> x * 2); numbers(200).map(e -> let t = @C(e); if e < 30 then t else sh[@B(t) % 50]).sum()",
		"let sh = numbers(50).iir(x -> x, (x, l) -> l + x); numbers(200).map(e -> let t = @C(e); if e < 30 then t else @B(t) + sh.size() + sh[e % 50]).sum()",
		"let sh = numbers(30).map(x -> x + 1); numbers(200).accept(e -> let t = @C(e); if e < 30 then true else sh ~ (@B(t) % 40)).size()",
		// forty fresh lists with spare capacity, each appended to for the first time by workers leaving a barrier together
		"numbers(40).map(r -> let base = [r, r].append(r); numbers(40).map(e -> let t = @C(e); if e < 20 then t else base.append(@B(t)).sum()).sum()).sum()",
		"numbers(30).map(r -> let sh = numbers(20).map(x -> x + r); numbers(40).map(e -> let t = @C(e); if e < 20 then t else sh[@B(t) % 20]).sum()).sum()",
		// a list that failed while it was materialised fails again when it is looked at again (no truncated list is kept)
		"let q = numbers(40).map(e -> if e = 25 then throw(\"x\") else @C(e)); [try q.size() catch 0 - 1, try q.size() catch 0 - 2, try q.sum() catch 0 - 3, try q.top(3).sum() catch 0 - 4].string()",
		"let q = numbers(30).number((n, e) -> [1, 2, 3][e - 20]); [try q.eval().size() catch 0 - 1, try q[3] catch 0 - 2, try q.reverse().first() catch 0 - 3, try q.size() catch 0 - 4].string()",
		"[4, 2, 0, 5].map(x -> 20 % x).size()",
		// two concatenations from one materialised head with spare capacity
		"let q = numbers(5).map(e -> @C(e) + 1); let n0 = q.size(); let x1 = q + [100]; let x2 = q + [200]; [x1.string(), x2.string(), n0].string()",
		"let q = [1, 2].append(3); let x1 = q + [100]; let x2 = q + [200]; (x1.map(e -> @C(e))).merge(x2.map(e -> @C(e)), (p, r) -> p < r).string()",
		// an error behind the point where the consumer stops, inside the read-ahead of the workers
		"numbers(100).map(e -> if e = 50 then throw(\"x\") else @C(e)).top(45).size()",
		"numbers(100).map(e -> if e = 40 then throw(\"x\") else @C(e)).top(38).sum()",
		"numbers(200).accept(e -> if e = 60 then throw(\"x\") else @C(e) >= 0).top(55).size()",
		"numbers(100).map(e -> if e = 50 then throw(\"x\") else @C(e)).indexWhere(e -> e = 44)",
		"numbers(100).map(e -> if e >= 30 & e % 7 = 0 then throw(\"x\") else @C(e)).top(34).size()")
}
