package main

// C19 — the generic generator is correct for any value type (bounded-exhaustive).
//
// Property predicate on the implementation: every expression tree up to the node bound is rendered
// (minimal parentheses under the declared priorities, fully parenthesised, and — comfort mode — with
// implicit multiplication), sent through the real Generate of the example generators, evaluated for
// every assignment, and compared with direct evaluation of the tree by the operators' own
// definitions; with the optimizer on and off. The example generators are package variables and the
// optimizer cannot be switched off once the parser exists, so each mode runs in its own child
// processes (`tie worker c19 bool|float|perm on|off|both <job file>`).
//
// Correspondence: a sample of the cases is sent to the Lean model (request GEN): the model's front
// end result (optimised AST) and outcomes, optimizer on and off, must equal the implementation's.

import (
	"bytes"
	"context"
	"crypto/sha256"
	"encoding/hex"
	"encoding/json"
	"fmt"
	"math"
	"math/big"
	"math/rand"
	"os"
	"os/exec"
	"path/filepath"
	"runtime"
	"sort"
	"strings"
	"sync"
	"time"

	"github.com/hneemann/parser2"
	"github.com/hneemann/parser2/example"
	"github.com/hneemann/parser2/funcGen"
)

func init() {
	props["C19"] = runC19
	workers["c19"] = c19Worker
}

// ---- job / result files ---------------------------------------------------------------------

type c19Family struct {
	Name       string      `json:"name"` // bool-plain | bool-ext | float-enum
	MaxNodes   int         `json:"max_nodes"`
	MinNodes   int         `json:"min_nodes,omitempty"`
	Renderings []string    `json:"renderings"` // min | full | imp
	TopOnly    []string    `json:"top_only"`   // renderings used at the largest size (others: all)
	Leaves     []string    `json:"leaves,omitempty"`
	Unary      []string    `json:"unary,omitempty"`
	Funcs      []string    `json:"funcs,omitempty"`
	Binary     []string    `json:"binary,omitempty"`
	Vars       []string    `json:"vars,omitempty"`
	Grid       [][]float64 `json:"grid,omitempty"`
	BigEvery   int         `json:"big_every,omitempty"` // math/big re-check of every n-th in-domain case (1 = all)
}

type c19Job struct {
	Kind      string           `json:"kind"` // bool | float | perm
	Opt       string           `json:"opt"`  // on | off | both (perm)
	Shard     int              `json:"shard"`
	NShards   int              `json:"nshards"`
	Families  []c19Family      `json:"families,omitempty"`
	Explicit  []string         `json:"explicit,omitempty"`
	Vars      []string         `json:"vars,omitempty"` // explicit cases: argument names
	Grid      [][]float64      `json:"grid,omitempty"` // explicit float cases: assignments
	Malformed []string         `json:"malformed,omitempty"`
	Variants  [][]c19BoolOpDef `json:"variants,omitempty"` // perm: operator tables to build fresh generators from
	MaxNodes  int              `json:"max_nodes,omitempty"`
	BudgetS   int              `json:"budget_s"`
}

type c19Fail struct {
	Family     string `json:"family"`
	Mode       string `json:"mode"`
	What       string `json:"what"` // generate-error | eval-error | value-differs | accepted-malformed | panic
	Tree       string `json:"tree"`
	Text       string `json:"text"`
	Rendering  string `json:"rendering"`
	Assignment string `json:"assignment"`
	Got        string `json:"got"`
	Want       string `json:"want"`
	Variant    string `json:"variant,omitempty"`
}

type c19Explicit struct {
	Tree  string   `json:"tree"`
	Texts []string `json:"texts"`
	Ast   string   `json:"ast"`
	Out   []string `json:"out"`    // outcome per assignment for the minimal rendering
	Agree bool     `json:"agree"`  // all renderings gave the same outcomes
	InDom []bool   `json:"in_dom"` // float: assignment inside the exact domain
	Want  []string `json:"want"`   // direct evaluation
}

type c19VariantResult struct {
	Variant   string `json:"variant"`
	Cases     int64  `json:"cases"`
	OnOffDiff int64  `json:"on_off_diff"` // expressions × assignments where on and off differ
	WrongOn   int64  `json:"wrong_on"`
	WrongOff  int64  `json:"wrong_off"`
	Witness   string `json:"witness,omitempty"`
}

type c19Result struct {
	Trees        int64              `json:"trees"`
	Generates    int64              `json:"generates"`
	Evals        int64              `json:"evals"`
	NonTrivial   int64              `json:"nontrivial"`
	Hist         map[string]int64   `json:"hist"`
	Fails        []c19Fail          `json:"fails"`
	FailCount    int64              `json:"fail_count"`
	Digest       string             `json:"digest"`
	Explicit     []c19Explicit      `json:"explicit,omitempty"`
	OutDomain    int64              `json:"out_domain"`    // (expression, assignment) pairs outside the exact domain
	RoundingDiff int64              `json:"rounding_diff"` // of those: optimizer-on value differs from direct evaluation
	RoundingEx   []string           `json:"rounding_ex"`   // a few of them
	BigChecked   int64              `json:"big_checked"`   // in-domain pairs re-checked with math/big
	BigMismatch  []string           `json:"big_mismatch"`  // harness self-check failures
	Variants     []c19VariantResult `json:"variants,omitempty"`
	Truncated    bool               `json:"truncated"`
	Samples      []string           `json:"samples,omitempty"`
}

func (r *c19Result) fail(f c19Fail) {
	r.FailCount++
	if len(r.Fails) < 40 {
		r.Fails = append(r.Fails, f)
	}
}

// ---- worker -----------------------------------------------------------------------------------

func c19Worker(args []string) {
	if len(args) != 3 {
		fmt.Fprintln(os.Stderr, "usage: tie worker c19 bool|float|perm on|off|both <job file>")
		os.Exit(2)
	}
	data, err := os.ReadFile(args[2])
	if err != nil {
		fmt.Fprintln(os.Stderr, err)
		os.Exit(2)
	}
	var job c19Job
	if err := json.Unmarshal(data, &job); err != nil {
		fmt.Fprintln(os.Stderr, err)
		os.Exit(2)
	}
	if job.Kind != args[0] || job.Opt != args[1] {
		fmt.Fprintln(os.Stderr, "job file does not match the command line")
		os.Exit(2)
	}
	res := &c19Result{Hist: map[string]int64{}}
	deadline := time.Now().Add(time.Duration(job.BudgetS) * time.Second)
	switch job.Kind {
	case "bool":
		g := example.VerifBoolParser()
		g.SetKeyWords("let", "if", "then", "else")
		if job.Opt == "off" {
			g.SetOptimizer(nil)
		}
		c19RunBool(&job, res, g, c19ExampleBoolSem(), c19TableOf(g.VerifOperators(), g.VerifUnary()), deadline)
	case "float":
		g := example.VerifMinimal()
		g.SetKeyWords("let", "if", "then", "else")
		if job.Opt == "off" {
			g.SetOptimizer(nil)
		}
		c19RunFloat(&job, res, g, c19TableOf(g.VerifOperators(), g.VerifUnary()), deadline)
	case "perm":
		c19RunPerm(&job, res, deadline)
	default:
		fmt.Fprintln(os.Stderr, "unknown kind")
		os.Exit(2)
	}
	out, _ := json.Marshal(res)
	os.Stdout.Write(out)
}

func c19TableOf(ops []funcGen.VerifOperator, unary []string) *gtable {
	var names []string
	for _, o := range ops {
		names = append(names, o.Operator)
	}
	return newGTable(names, unary)
}

func c19ExampleBoolSem() *gboolSem {
	bs := &gboolSem{bin: map[string]func(a, b bool) bool{}}
	for sym, fn := range c19ExampleBoolOps {
		bs.bin[sym] = c19BoolFn(fn)
	}
	return bs
}

func c19WantsRendering(fam *c19Family, r string, top bool) bool {
	list := fam.Renderings
	if top && len(fam.TopOnly) > 0 {
		list = fam.TopOnly
	}
	for _, x := range list {
		if x == r {
			return true
		}
	}
	return false
}

func c19TTString(tt uint8) string {
	var b [8]byte
	for i := 0; i < 8; i++ {
		b[i] = '0' + tt>>i&1
	}
	return string(b[:])
}

// c19BoolOutcome: run the generated function on all 8 assignments; 'E' marks an error.
func c19BoolOutcome(f funcGen.Func[bool], st funcGen.Stack[bool]) (tt uint8, errs uint8, firstErr string) {
	for i := 0; i < 8; i++ {
		v, err := f(st.Init(i&1 == 1, i>>1&1 == 1, i>>2&1 == 1))
		if err != nil {
			errs |= 1 << i
			if firstErr == "" {
				firstErr = err.Error()
			}
		} else if v {
			tt |= 1 << i
		}
	}
	return
}

func c19AsgBool(i int) string {
	return fmt.Sprintf("a=%v b=%v c=%v", i&1 == 1, i>>1&1 == 1, i>>2&1 == 1)
}

type c19BoolChecker struct {
	g      *funcGen.FunctionGenerator[bool]
	t      *gtable
	mode   string
	res    *c19Result
	st     funcGen.Stack[bool]
	digest interface{ Write([]byte) (int, error) }
}

// check runs one text of one tree; returns the outcome string ("G" when Generate fails).
func (bc *c19BoolChecker) check(fam string, e *gnode, want uint8, text, rendering, variant string) string {
	bc.res.Generates++
	f, _, err := bc.g.Generate(text, "a", "b", "c")
	if err != nil {
		bc.res.fail(c19Fail{Family: fam, Mode: bc.mode, What: "generate-error", Tree: c19TokensOf(e, false), Text: text, Rendering: rendering, Got: err.Error(), Variant: variant})
		return "G"
	}
	tt, errs, firstErr := c19BoolOutcome(f, bc.st)
	bc.res.Evals += 8
	if errs != 0 {
		i := 0
		for errs>>i&1 == 0 {
			i++
		}
		bc.res.fail(c19Fail{Family: fam, Mode: bc.mode, What: "eval-error", Tree: c19TokensOf(e, false), Text: text, Rendering: rendering, Assignment: c19AsgBool(i), Got: firstErr, Want: fmt.Sprint(want>>i&1 == 1), Variant: variant})
	} else if tt != want {
		d := tt ^ want
		i := 0
		for d>>i&1 == 0 {
			i++
		}
		bc.res.fail(c19Fail{Family: fam, Mode: bc.mode, What: "value-differs", Tree: c19TokensOf(e, false), Text: text, Rendering: rendering, Assignment: c19AsgBool(i), Got: fmt.Sprint(tt>>i&1 == 1), Want: fmt.Sprint(want>>i&1 == 1), Variant: variant})
	}
	out := []byte(c19TTString(tt))
	for i := 0; i < 8; i++ {
		if errs>>i&1 == 1 {
			out[i] = 'E'
		}
	}
	if bc.digest != nil {
		bc.digest.Write([]byte(text))
		bc.digest.Write(out)
	}
	return string(out)
}

func c19BoolNonTrivial(e *gnode) bool {
	return e.n >= 2 && (e.has('v', "a") || e.has('v', "b") || e.has('v', "c"))
}

func c19RunBool(job *c19Job, res *c19Result, g *funcGen.FunctionGenerator[bool], bs *gboolSem, t *gtable, deadline time.Time) {
	h := sha256.New()
	bc := &c19BoolChecker{g: g, t: t, mode: job.Opt, res: res, st: funcGen.NewEmptyStack[bool](), digest: h}
	// corpus, sampled and model-comparison cases first
	for _, toks := range job.Explicit {
		e, rest, err := c19ParseTokens(strings.Fields(toks), false)
		if err != nil || len(rest) != 0 {
			res.BigMismatch = append(res.BigMismatch, "bad explicit case "+toks)
			continue
		}
		want := bs.evalTT(e, map[string]uint8{})
		ex := c19Explicit{Tree: toks, Agree: true}
		texts := []string{t.minimalText(e), t.fullText(e)}
		ex.Texts = texts
		var outs []string
		for i, text := range texts {
			outs = append(outs, bc.check("explicit", e, want, text, []string{"min", "full"}[i], ""))
		}
		for _, o := range outs {
			if o != outs[0] {
				ex.Agree = false
			}
		}
		ex.Out = c19SplitOutcome(outs[0])
		ex.Want = c19SplitOutcome(c19TTString(want))
		ex.Ast = c19DumpBool(g, texts[0])
		res.Explicit = append(res.Explicit, ex)
		res.Trees++
	}
	for _, m := range job.Malformed {
		res.Generates++
		f, _, err := g.Generate(m, "a", "b", "c")
		if err == nil && f != nil {
			res.fail(c19Fail{Family: "malformed", Mode: job.Opt, What: "accepted-malformed", Text: m})
		}
		res.Hist["malformed"]++
	}
	for fi := range job.Families {
		fam := &job.Families[fi]
		switch fam.Name {
		case "bool-plain":
			al := galphabet{leaves: c19BoolLeaves(), unary: []string{"!"}, binary: t.ops, hook: bs.hook}
			stored := fam.MaxNodes - 1
			if stored > 3 {
				stored = 3
			}
			if stored < 0 {
				stored = 0
			}
			te := newGTreeEnum(al, stored)
			for n := 0; n <= fam.MaxNodes && !res.Truncated; n++ {
				top := n == fam.MaxNodes
				cnt := 0
				hkey := fmt.Sprintf("bool-plain nodes=%d", n)
				te.eachSharded(n, job.Shard, job.NShards, func(e *gnode) {
					if res.Truncated {
						return
					}
					cnt++
					if cnt&0xfff == 0 && time.Now().After(deadline) {
						res.Truncated = true
						return
					}
					res.Trees++
					res.Hist[hkey]++
					if c19BoolNonTrivial(e) {
						res.NonTrivial++
					}
					if c19WantsRendering(fam, "min", top) {
						bc.check(fam.Name, e, e.tt, t.minimalText(e), "min", "")
					}
					if c19WantsRendering(fam, "full", top) {
						bc.check(fam.Name, e, e.tt, t.fullText(e), "full", "")
					}
					if len(res.Samples) < 3 && n == fam.MaxNodes && cnt%1000 == 7 {
						res.Samples = append(res.Samples, t.minimalText(e)+" => "+c19TTString(e.tt))
					}
				})
			}
		case "bool-ext":
			ee := &c19ExtEnum{binary: t.ops, unary: []string{"!"}, memo: map[c19ExtKey][]*gnode{}}
			idx := 0
			for n := 1; n <= fam.MaxNodes && !res.Truncated; n++ {
				hkeyExt := fmt.Sprintf("bool-ext nodes=%d", n)
				for _, e := range ee.list(n, true, 0) {
					if !(e.has('l', "") || e.has('i', "")) {
						continue // covered by bool-plain
					}
					idx++
					if idx%job.NShards != job.Shard {
						continue
					}
					if idx&0xfff == 0 && time.Now().After(deadline) {
						res.Truncated = true
						break
					}
					want := bs.evalTT(e, map[string]uint8{})
					res.Trees++
					res.Hist[hkeyExt]++
					if e.has('l', "") {
						res.Hist["bool-ext with let"]++
					}
					if e.has('i', "") {
						res.Hist["bool-ext with if"]++
					}
					if c19BoolNonTrivial(e) {
						res.NonTrivial++
					}
					if c19WantsRendering(fam, "min", n == fam.MaxNodes) {
						bc.check(fam.Name, e, want, t.minimalText(e), "min", "")
					}
					if c19WantsRendering(fam, "full", n == fam.MaxNodes) {
						bc.check(fam.Name, e, want, t.fullText(e), "full", "")
					}
					if len(res.Samples) < 6 && idx%997 == 5 {
						res.Samples = append(res.Samples, t.minimalText(e)+" => "+c19TTString(want))
					}
				}
			}
		}
	}
	res.Digest = hex.EncodeToString(h.Sum(nil))
}

func c19SplitOutcome(s string) []string {
	var r []string
	if s == "G" {
		return []string{"G", "G", "G", "G", "G", "G", "G", "G"}
	}
	for _, c := range s {
		switch c {
		case '0', '1':
			r = append(r, "v:"+string(c))
		default:
			r = append(r, string(c))
		}
	}
	return r
}

// ---- AST dump (prefix tokens, the format of the Lean driver) ---------------------------------------

func c19DumpAST[V any](a parser2.AST, val func(V) string, b *strings.Builder) {
	switch n := a.(type) {
	case *parser2.Const[V]:
		b.WriteString("C " + val(n.Value))
	case *parser2.Ident:
		b.WriteString("V " + n.Name)
	case *parser2.Unary:
		b.WriteString("U " + n.Operator + " ")
		c19DumpAST(n.Value, val, b)
	case *parser2.Operate:
		b.WriteString("B " + n.Operator + " ")
		c19DumpAST(n.A, val, b)
		b.WriteByte(' ')
		c19DumpAST(n.B, val, b)
	case *parser2.FunctionCall:
		if id, ok := n.Func.(*parser2.Ident); ok && len(n.Args) == 1 {
			b.WriteString("F " + id.Name + " ")
			c19DumpAST(n.Args[0], val, b)
		} else {
			b.WriteString("?call")
		}
	case *parser2.Let:
		b.WriteString("L " + n.Name + " ")
		c19DumpAST(n.Value, val, b)
		b.WriteByte(' ')
		c19DumpAST(n.Inner, val, b)
	case *parser2.If:
		b.WriteString("I ")
		c19DumpAST(n.Cond, val, b)
		b.WriteByte(' ')
		c19DumpAST(n.Then, val, b)
		b.WriteByte(' ')
		c19DumpAST(n.Else, val, b)
	default:
		fmt.Fprintf(b, "?%T", a)
	}
}

func c19DumpBool(g *funcGen.FunctionGenerator[bool], text string) string {
	ast, err := g.CreateAst(text, g.Identifier().AddArgs([]string{"a", "b", "c"}, nil))
	if err != nil {
		return "G"
	}
	var b strings.Builder
	c19DumpAST(ast, func(v bool) string {
		if v {
			return "1"
		}
		return "0"
	}, &b)
	return b.String()
}

func c19DumpFloat(g *funcGen.FunctionGenerator[float64], text string, vars []string) string {
	ast, err := g.CreateAst(text, g.Identifier().AddArgs(vars, nil))
	if err != nil {
		return "G"
	}
	var b strings.Builder
	c19DumpAST(ast, c19RatText, &b)
	return b.String()
}

// ---- float worker -------------------------------------------------------------------------------

type c19FloatChecker struct {
	g      *funcGen.FunctionGenerator[float64]
	t      *gtable
	mode   string
	res    *c19Result
	st     funcGen.Stack[float64]
	digest interface{ Write([]byte) (int, error) }
}

func c19AsgFloat(vars []string, vals []float64) string {
	var p []string
	for i, v := range vars {
		p = append(p, fmt.Sprintf("%s=%v", v, vals[i]))
	}
	return strings.Join(p, " ")
}

// check: one text; want[j], inDom[j] per assignment. Returns outcomes.
func (fc *c19FloatChecker) check(fam string, e *gnode, vars []string, grid [][]float64, want []float64, inDom []bool, text, rendering string) []string {
	fc.res.Generates++
	f, _, err := fc.g.Generate(text, vars...)
	if err != nil {
		fc.res.fail(c19Fail{Family: fam, Mode: fc.mode, What: "generate-error", Tree: c19TokensOf(e, true), Text: text, Rendering: rendering, Got: err.Error()})
		return nil
	}
	outs := make([]string, len(grid))
	reported := false
	for j, vals := range grid {
		got, err := f(fc.st.Init(vals...))
		fc.res.Evals++
		if err != nil {
			outs[j] = "E"
			if !reported {
				reported = true
				fc.res.fail(c19Fail{Family: fam, Mode: fc.mode, What: "eval-error", Tree: c19TokensOf(e, true), Text: text, Rendering: rendering, Assignment: c19AsgFloat(vars, vals), Got: err.Error(), Want: fmt.Sprint(want[j])})
			}
			continue
		}
		outs[j] = "v:" + c19RatText(got)
		same := c19SameFloat(got, want[j])
		if inDom[j] {
			if fc.digest != nil {
				var bits [8]byte
				u := math.Float64bits(got)
				for k := 0; k < 8; k++ {
					bits[k] = byte(u >> (8 * k))
				}
				fc.digest.Write(bits[:])
			}
			if !same && !reported {
				reported = true
				fc.res.fail(c19Fail{Family: fam, Mode: fc.mode, What: "value-differs", Tree: c19TokensOf(e, true), Text: text, Rendering: rendering, Assignment: c19AsgFloat(vars, vals), Got: fmt.Sprint(got), Want: fmt.Sprint(want[j])})
			}
		} else {
			fc.res.OutDomain++
			if !same {
				if fc.mode == "off" {
					// no optimizer, no regrouping: the same float operations in the same order
					if !reported {
						reported = true
						fc.res.fail(c19Fail{Family: fam, Mode: fc.mode, What: "value-differs", Tree: c19TokensOf(e, true), Text: text, Rendering: rendering, Assignment: c19AsgFloat(vars, vals), Got: fmt.Sprint(got), Want: fmt.Sprint(want[j])})
					}
				} else {
					fc.res.RoundingDiff++
					if len(fc.res.RoundingEx) < 2 {
						fc.res.RoundingEx = append(fc.res.RoundingEx, fmt.Sprintf("%q at %s: optimizer on %v, direct %v", text, c19AsgFloat(vars, vals), got, want[j]))
					}
				}
			}
		}
	}
	if fc.digest != nil {
		fc.digest.Write([]byte(text))
	}
	return outs
}

// c19BigCheck: harness self-check — inside the exact domain the float result of direct evaluation is
// the exact rational value.
func c19BigCheck(res *c19Result, e *gnode, vars []string, vals []float64, want float64) {
	env := map[string]*big.Rat{}
	for i, v := range vars {
		env[v] = new(big.Rat).SetFloat64(vals[i])
	}
	res.BigChecked++
	x, ok := c19ExactEval(e, env)
	if !ok || math.IsNaN(want) || math.IsInf(want, 0) || new(big.Rat).SetFloat64(want).Cmp(x) != 0 {
		if len(res.BigMismatch) < 10 {
			res.BigMismatch = append(res.BigMismatch, fmt.Sprintf("%s at %s: float %v, exact %v (defined=%v)", c19TokensOf(e, true), c19AsgFloat(vars, vals), want, x, ok))
		}
	}
}

func c19FloatLeaf(fs *gfloatSem, s string) *gnode {
	var e *gnode
	if f, ok := c19ParseRatText(s); ok && (s[0] >= '0' && s[0] <= '9') {
		e = &gnode{k: 'c', s: c19NumText(f), fv: f}
	} else {
		e = gleaf('v', s)
	}
	e.vec = fs.leafVec(e)
	return e
}

func c19RunFloat(job *c19Job, res *c19Result, g *funcGen.FunctionGenerator[float64], t *gtable, deadline time.Time) {
	h := sha256.New()
	fc := &c19FloatChecker{g: g, t: t, mode: job.Opt, res: res, st: funcGen.NewEmptyStack[float64](), digest: h}
	// explicit cases
	if len(job.Explicit) > 0 {
		fs := &gfloatSem{vars: job.Vars, grid: job.Grid}
		for _, toks := range job.Explicit {
			e, rest, err := c19ParseTokens(strings.Fields(toks), true)
			if err != nil || len(rest) != 0 {
				res.BigMismatch = append(res.BigMismatch, "bad explicit case "+toks)
				continue
			}
			want := make([]float64, len(job.Grid))
			inDom := make([]bool, len(job.Grid))
			ex := c19Explicit{Tree: toks, Agree: true}
			for j, vals := range job.Grid {
				env := map[string]gfval{}
				for i, v := range job.Vars {
					x := vals[i]
					u := math.Max(math.Abs(x), 1)
					gb := c19FracBits(x)
					env[v] = gfval{x, c19OkBound(u, gb), u, gb}
				}
				r := fs.evalFloat(e, env)
				want[j], inDom[j] = r.v, r.ok
				ex.Want = append(ex.Want, "v:"+c19RatText(r.v))
				if r.ok {
					c19BigCheck(res, e, job.Vars, vals, r.v)
				}
			}
			ex.InDom = inDom
			texts := []string{t.minimalText(e), t.fullText(e)}
			names := []string{"min", "full"}
			if e.has('b', "*") {
				if it := t.implicitText(e); it != texts[0] {
					texts = append(texts, it)
					names = append(names, "imp")
				}
			}
			ex.Texts = texts
			var first []string
			for i, text := range texts {
				outs := fc.check("explicit", e, job.Vars, job.Grid, want, inDom, text, names[i])
				if i == 0 {
					first = outs
				} else if strings.Join(outs, ";") != strings.Join(first, ";") {
					ex.Agree = false
				}
			}
			if first == nil {
				first = make([]string, len(job.Grid))
				for j := range first {
					first[j] = "G"
				}
			}
			ex.Out = first
			ex.Ast = c19DumpFloat(g, texts[0], job.Vars)
			res.Explicit = append(res.Explicit, ex)
			res.Trees++
		}
	}
	for _, m := range job.Malformed {
		res.Generates++
		f, _, err := g.Generate(m, "a", "b")
		if err == nil && f != nil {
			res.fail(c19Fail{Family: "malformed", Mode: job.Opt, What: "accepted-malformed", Text: m})
		}
		res.Hist["malformed"]++
	}
	for fi := range job.Families {
		fam := &job.Families[fi]
		if fam.Name != "float-enum" {
			continue
		}
		fs := &gfloatSem{vars: fam.Vars, grid: fam.Grid}
		var leaves []*gnode
		for _, l := range fam.Leaves {
			leaves = append(leaves, c19FloatLeaf(fs, l))
		}
		al := galphabet{leaves: leaves, unary: fam.Unary, funcs: fam.Funcs, binary: fam.Binary, hook: fs.hook}
		stored := fam.MaxNodes - 1
		if stored > 3 {
			stored = 3
		}
		if stored < 0 {
			stored = 0
		}
		te := newGTreeEnum(al, stored)
		tag := strings.Join(fam.Leaves, ",") + "|" + strings.Join(fam.Binary, "") + "|" + strings.Join(append(append([]string{}, fam.Unary...), fam.Funcs...), ",")
		bigEvery := fam.BigEvery
		if bigEvery <= 0 {
			bigEvery = 1
		}
		cnt := 0
		for n := fam.MinNodes; n <= fam.MaxNodes && !res.Truncated; n++ {
			top := n == fam.MaxNodes
			hkey := fmt.Sprintf("float-enum[%s] nodes=%d", tag, n)
			te.eachSharded(n, job.Shard, job.NShards, func(e *gnode) {
				if res.Truncated {
					return
				}
				cnt++
				if cnt&0x3ff == 0 && time.Now().After(deadline) {
					res.Truncated = true
					return
				}
				res.Trees++
				res.Hist[hkey]++
				anyDom := false
				for _, ok := range e.vec.ok {
					if ok {
						anyDom = true
						break
					}
				}
				if anyDom {
					res.Hist["float-enum trees with an in-domain assignment"]++
					if e.n >= 2 && e.has('v', "") {
						res.NonTrivial++
					}
				}
				if cnt%bigEvery == 0 {
					for j, ok := range e.vec.ok {
						if ok {
							c19BigCheck(res, e, fam.Vars, fam.Grid[j], e.vec.v[j])
						}
					}
				}
				min := t.minimalText(e)
				if c19WantsRendering(fam, "min", top) {
					fc.check(fam.Name, e, fam.Vars, fam.Grid, e.vec.v, e.vec.ok, min, "min")
				}
				if c19WantsRendering(fam, "full", top) {
					fc.check(fam.Name, e, fam.Vars, fam.Grid, e.vec.v, e.vec.ok, t.fullText(e), "full")
				}
				if c19WantsRendering(fam, "imp", top) && e.has('b', "*") {
					if it := t.implicitText(e); it != min {
						res.Hist["implicit-multiplication renderings"]++
						fc.check(fam.Name, e, fam.Vars, fam.Grid, e.vec.v, e.vec.ok, it, "imp")
						// the same with other white space where the juxtaposition needs a blank
						if strings.Contains(it, " ") {
							for _, ws := range []string{"\n", "\t", "\r\n", "\n\n"} {
								c19Blank = ws
								iw := t.implicitText(e)
								c19Blank = " "
								res.Hist["implicit-multiplication renderings (line feed / tab / CR LF)"]++
								fc.check(fam.Name, e, fam.Vars, fam.Grid, e.vec.v, e.vec.ok, iw, "impws")
							}
						}
					}
				}
				if len(res.Samples) < 3 && top && cnt%5000 == 11 {
					res.Samples = append(res.Samples, min)
				}
			})
		}
	}
	res.Digest = hex.EncodeToString(h.Sum(nil))
}

// ---- permuted flags on fresh generators -----------------------------------------------------------

func c19VariantName(v []c19BoolOpDef) string {
	var p []string
	for _, o := range v {
		c := "-"
		if o.Comm {
			c = "C"
		}
		p = append(p, o.Sym+":"+o.Fn+":"+c)
	}
	return strings.Join(p, " ")
}

// c19FreshBool registers the operators of v so that the final priority order is the order of v. route selects
// the registration sequence: 0 = in order (AddSimpleOp appends), 1 = the first one, then the others from last to
// second, each inserted behind the first (AddOpBehind with 1..k-1 operators registered), 2 = even positions in
// order, then each odd one behind its predecessor, 3 = all but the second, which is inserted last.
func c19FreshBool(v []c19BoolOpDef, opt bool, route int) *funcGen.FunctionGenerator[bool] {
	g := funcGen.New[bool]().
		AddConstant("false", false).
		AddConstant("true", true)
	impl := func(o c19BoolOpDef) funcGen.OperatorImpl[bool] {
		f := c19BoolFn(o.Fn)
		return funcGen.OperatorFunc[bool](func(st funcGen.Stack[bool], a, b bool) (bool, error) { return f(a, b), nil })
	}
	behind := func(b string, o c19BoolOpDef) { g.AddOpBehind(b, o.Sym, o.Comm, impl(o), true) }
	switch {
	case route == 1 && len(v) > 1:
		behind("", v[0])
		for i := len(v) - 1; i >= 1; i-- {
			behind(v[0].Sym, v[i])
		}
	case route == 2 && len(v) > 1:
		for i := 0; i < len(v); i += 2 {
			behind("", v[i])
		}
		for i := 1; i < len(v); i += 2 {
			behind(v[i-1].Sym, v[i])
		}
	case route == 3 && len(v) > 1:
		for i := range v {
			if i != 1 {
				behind("", v[i])
			}
		}
		behind(v[0].Sym, v[1])
	default:
		for _, o := range v {
			f := c19BoolFn(o.Fn)
			g.AddSimpleOp(o.Sym, o.Comm, func(a, b bool) (bool, error) { return f(a, b), nil })
		}
	}
	g.AddUnaryFunc("!", func(a bool) (bool, error) { return !a, nil }).
		SetToBool(func(c bool) (bool, bool) { return c, true }).
		SetKeyWords("let", "if", "then", "else")
	if !opt {
		g.SetOptimizer(nil)
	}
	return g
}

// c19RegisteredAs reports whether the generator's operator table is the variant (symbols and flags in order).
func c19RegisteredAs(g *funcGen.FunctionGenerator[bool], v []c19BoolOpDef) bool {
	ops := g.VerifOperators()
	if len(ops) != len(v) {
		return false
	}
	for i, o := range ops {
		if o.Operator != v[i].Sym || o.IsCommutative != v[i].Comm {
			return false
		}
	}
	return true
}

func c19RunPerm(job *c19Job, res *c19Result, deadline time.Time) {
	for vi, v := range job.Variants {
		name := c19VariantName(v)
		bs := &gboolSem{bin: map[string]func(a, b bool) bool{}}
		var syms []string
		for _, o := range v {
			bs.bin[o.Sym] = c19BoolFn(o.Fn)
			syms = append(syms, o.Sym)
		}
		t := newGTable(syms, []string{"!"})
		gOn, gOff := c19FreshBool(v, true, vi%4), c19FreshBool(v, false, (vi+1)%4)
		for route := 0; route < 4; route++ {
			if g := c19FreshBool(v, true, route); !c19RegisteredAs(g, v) {
				res.fail(c19Fail{Family: "perm", Mode: "both", What: "registration-order", Variant: name, Got: fmt.Sprint(g.VerifOperators()), Text: fmt.Sprintf("registration route %d", route)})
			}
		}
		st := funcGen.NewEmptyStack[bool]()
		vr := c19VariantResult{Variant: name}
		al := galphabet{leaves: c19BoolLeaves(), unary: []string{"!"}, binary: syms, hook: bs.hook}
		te := newGTreeEnum(al, job.MaxNodes)
		for n := 0; n <= job.MaxNodes; n++ {
			te.each(n, func(e *gnode) {
				if time.Now().After(deadline) {
					res.Truncated = true
					return
				}
				text := t.minimalText(e)
				vr.Cases++
				res.Trees++
				res.Generates += 2
				fOn, _, err1 := gOn.Generate(text, "a", "b", "c")
				fOff, _, err2 := gOff.Generate(text, "a", "b", "c")
				if err1 != nil || err2 != nil {
					res.fail(c19Fail{Family: "perm", Mode: "both", What: "generate-error", Tree: c19TokensOf(e, false), Text: text, Variant: name, Got: fmt.Sprint(err1, err2)})
					return
				}
				ttOn, eOn, _ := c19BoolOutcome(fOn, st)
				ttOff, eOff, _ := c19BoolOutcome(fOff, st)
				res.Evals += 16
				if eOn != 0 || eOff != 0 {
					res.fail(c19Fail{Family: "perm", Mode: "both", What: "eval-error", Tree: c19TokensOf(e, false), Text: text, Variant: name})
					return
				}
				if ttOff != e.tt {
					vr.WrongOff++
					if vr.Witness == "" {
						vr.Witness = "off: " + text + " got " + c19TTString(ttOff) + " want " + c19TTString(e.tt)
					}
				}
				if ttOn != e.tt {
					vr.WrongOn++
				}
				if ttOn != ttOff {
					vr.OnOffDiff++
					if vr.Witness == "" || strings.HasPrefix(vr.Witness, "off:") {
						d := ttOn ^ ttOff
						i := 0
						for d>>i&1 == 0 {
							i++
						}
						vr.Witness = fmt.Sprintf("%s with %s: optimizer on %v, off %v, direct %v", text, c19AsgBool(i), ttOn>>i&1 == 1, ttOff>>i&1 == 1, e.tt>>i&1 == 1)
					}
				}
			})
		}
		res.Variants = append(res.Variants, vr)
	}
}

// ---- parent ----------------------------------------------------------------------------------------

type c19Run struct {
	job  c19Job
	res  c19Result
	err  string
	wall float64
}

func c19Spawn(dir string, id int, r *c19Run, timeout time.Duration) {
	path := filepath.Join(dir, fmt.Sprintf("job%03d.json", id))
	data, _ := json.Marshal(r.job)
	if err := os.WriteFile(path, data, 0o644); err != nil {
		r.err = err.Error()
		return
	}
	self, err := os.Executable()
	if err != nil {
		r.err = err.Error()
		return
	}
	ctx, cancel := context.WithTimeout(context.Background(), timeout)
	defer cancel()
	cmd := exec.CommandContext(ctx, self, "worker", "c19", r.job.Kind, r.job.Opt, path)
	var out, errb bytes.Buffer
	cmd.Stdout = &out
	cmd.Stderr = &errb
	t0 := time.Now()
	err = cmd.Run()
	r.wall = time.Since(t0).Seconds()
	if err != nil {
		r.err = fmt.Sprintf("worker failed: %v: %s", err, c19Tail(errb.String(), 400))
		return
	}
	if err := json.Unmarshal(out.Bytes(), &r.res); err != nil {
		r.err = "worker output unreadable: " + err.Error() + ": " + c19Tail(out.String(), 200)
	}
}

func c19Tail(s string, n int) string {
	if len(s) > n {
		return s[len(s)-n:]
	}
	return s
}

func c19Cartesian(vals []float64, k int) [][]float64 {
	res := [][]float64{{}}
	for i := 0; i < k; i++ {
		var next [][]float64
		for _, p := range res {
			for _, v := range vals {
				q := append(append([]float64{}, p...), v)
				next = append(next, q)
			}
		}
		res = next
	}
	return res
}

// random larger trees (sampled beyond the exhaustive bound)
func c19RandBoolTree(r *rand.Rand, n int, ops []string, letPos bool, depth int) *gnode {
	if n == 0 {
		ls := []string{"a", "b", "c", "true", "false"}
		for d := 0; d < depth; d++ {
			ls = append(ls, c19LetNames[d], c19LetNames[d])
		}
		s := ls[r.Intn(len(ls))]
		if s == "true" || s == "false" {
			return gleaf('c', s)
		}
		return gleaf('v', s)
	}
	k := r.Intn(10)
	switch {
	case k == 0:
		return gmk('u', "!", c19RandBoolTree(r, n-1, ops, false, depth))
	case k == 1 && n >= 1:
		i := r.Intn(n)
		j := r.Intn(n - i)
		return gmk('i', "", c19RandBoolTree(r, i, ops, false, depth), c19RandBoolTree(r, j, ops, true, depth), c19RandBoolTree(r, n-1-i-j, ops, true, depth))
	case k == 2 && letPos && depth < len(c19LetNames):
		i := r.Intn(n)
		return gmk('l', c19LetNames[depth], c19RandBoolTree(r, i, ops, false, depth), c19RandBoolTree(r, n-1-i, ops, true, depth+1))
	}
	i := r.Intn(n)
	return gmk('b', ops[r.Intn(len(ops))], c19RandBoolTree(r, i, ops, false, depth), c19RandBoolTree(r, n-1-i, ops, false, depth))
}

var c19FloatConstPool = []float64{0, 1, 2, 3, 4, 0.5, 0.25, 8}

func c19RandFloatTree(r *rand.Rand, n int, ops []string, letPos bool, depth int) *gnode {
	if n == 0 {
		k := r.Intn(6)
		if k < 2 {
			return gleaf('v', "a")
		}
		if k == 2 {
			return gleaf('v', "b")
		}
		if k == 3 && depth > 0 {
			return gleaf('v', c19LetNames[r.Intn(depth)])
		}
		f := c19FloatConstPool[r.Intn(len(c19FloatConstPool))]
		return &gnode{k: 'c', s: c19NumText(f), fv: f}
	}
	k := r.Intn(14)
	switch {
	case k == 0:
		return gmk('u', "-", c19RandFloatTree(r, n-1, ops, false, depth))
	case k == 1:
		return gmk('f', []string{"sqr", "sqrt", "sqr"}[r.Intn(3)], c19RandFloatTree(r, n-1, ops, false, depth))
	case k == 2:
		i := r.Intn(n)
		j := r.Intn(n - i)
		return gmk('i', "", c19RandFloatTree(r, i, ops, false, depth), c19RandFloatTree(r, j, ops, true, depth), c19RandFloatTree(r, n-1-i-j, ops, true, depth))
	case k == 3 && letPos && depth < len(c19LetNames):
		i := r.Intn(n)
		return gmk('l', c19LetNames[depth], c19RandFloatTree(r, i, ops, false, depth), c19RandFloatTree(r, n-1-i, ops, true, depth+1))
	}
	i := r.Intn(n)
	// bias towards the arithmetic operators that stay inside the exact domain
	pool := []string{"+", "+", "-", "*", "*", "/", "=", "<", ">", "^"}
	op := pool[r.Intn(len(pool))]
	return gmk('b', op, c19RandFloatTree(r, i, ops, false, depth), c19RandFloatTree(r, n-1-i, ops, false, depth))
}

// thorough: the 3-node let/if forms (5 million) are rendered with minimal parentheses only
func c19ExtTop(c *Ctx) []string {
	if c.Thorough {
		return []string{"min"}
	}
	return nil
}

func c19TopOnly(c *Ctx) []string {
	if c.Thorough {
		return nil
	}
	return []string{"min"}
}

func c19pf(s string) *gnode {
	e, rest, err := c19ParseTokens(strings.Fields(s), true)
	if err != nil || len(rest) != 0 {
		panic("bad corpus entry " + s)
	}
	return e
}

func c19pb(s string) *gnode {
	e, rest, err := c19ParseTokens(strings.Fields(s), false)
	if err != nil || len(rest) != 0 {
		panic("bad corpus entry " + s)
	}
	return e
}

// regrouping chains: (c1 op x) op c2 and (x op c1) op c2 for every operator and a pool of constants —
// the targeted search for a flag outside the lawful set.
func c19FloatChains(ops []string) []*gnode {
	var res []*gnode
	cs := []float64{0, 1, 2, 0.5, 3}
	k := func(f float64) *gnode { return &gnode{k: 'c', s: c19NumText(f), fv: f} }
	for _, op := range ops {
		for _, c1 := range cs {
			for _, c2 := range cs {
				for _, x := range []string{"a", "b"} {
					res = append(res, gmk('b', op, gmk('b', op, k(c1), gleaf('v', x)), k(c2)))
					res = append(res, gmk('b', op, gmk('b', op, gleaf('v', x), k(c1)), k(c2)))
				}
			}
		}
	}
	return res
}

// c19RegroupOp names the operator of a node the regrouping rules of optimizer.go apply to:
// an operator flagged commutative whose right operand is constant-valued and whose left operand is
// the same operator with a constant-valued operand.
func c19RegroupOp(e *gnode, comm map[string]bool) string {
	for _, c := range e.kids {
		if s := c19RegroupOp(c, comm); s != "" {
			return s
		}
	}
	constant := func(x *gnode) bool { return !x.has('v', "") }
	if e.k == 'b' && comm[e.s] && constant(e.kids[1]) && e.kids[0].k == 'b' && e.kids[0].s == e.s &&
		(constant(e.kids[0].kids[0]) || constant(e.kids[0].kids[1])) && !constant(e.kids[0]) {
		return e.s
	}
	return ""
}

func runC19(c *Ctx) {
	c.rule = "bounded-exhaustive on the implementation: every boolean expression with <= 3 (quick) / <= 4 (thorough) operator nodes (prefix !, binary ^ = | &) over {a,b,c,true,false}, minimal-parenthesis and fully parenthesised renderings, plus every let/if form with <= 2 / <= 3 nodes (let names fresh, by nesting depth; the 3-node forms with minimal parentheses only), x all 8 assignments x optimizer on/off (separate child processes), against direct evaluation of the tree; float expressions: every tree with <= 2 (quick) / <= 3 (thorough) nodes over {a,b,2,0.5} with all 8 binary operators, unary minus, sqr, sqrt (three renderings incl. implicit multiplication) on a 6x6 grid; every tree with <= 4 nodes over {a,2} with all 8 binary operators and unary minus on a 9-point grid (both tiers); thorough: every tree with exactly 5 nodes over {a,2} with = < + - * / and unary minus (the galphabet is reduced at 5 nodes to stay inside the time budget: > mirrors <, ^ leaves the exact domain); plus regrouping chains (c1 op x) op c2 / (x op c1) op c2 for every operator and 5 constants, let/if forms and sampled larger trees; exact domain = every node satisfies log2(bound)+fractional bits <= 50 (then all float64 operations and all regroupings are exact; re-checked with math/big), outside it optimizer-off must still be bit-identical to direct evaluation and optimizer-on differences are counted as rounding; permuted IsCommutative flags on fresh funcGen.New[bool]() generators, each table registered along four routes (appending, and three insertion orders through AddOpBehind) that must yield the same priority list; non-trivial = >= 2 operator nodes and at least one variable (floats: and at least one in-domain assignment); enumerated trees are distinct by construction; plus (c19x.go) 31 programs over host functions of 3 and 4 parameters and variadic Go functions (AddGoFunction) with binding constructs in every argument position and nested calls, against the plain arithmetic they denote on a 4x4x4 grid, optimizer on/off, on a fresh stack and on one stack reused by all evaluations"
	c.assume = append(c.assume,
		"float theorems are about exact arithmetic (Rat); float64 coincides with it on the exact domain defined in the rule (checked with math/big on every explicit case and on every n-th enumerated case)",
		"the parser stage (text -> AST) is C03's theorem; here it is exercised exhaustively up to the node bound, not composed in Lean",
		"let-bound names are fresh (not an argument, not an enclosing let): rebinding an argument is rejected by GenerateFunc only when the value does not fold to a constant",
		"operator implementations do not panic and depend on their operands only")
	c.extra["exhaustive"] = true

	dir, err := os.MkdirTemp("", "c19-")
	if err != nil {
		fatal("tmp dir: %v", err)
	}
	defer os.RemoveAll(dir)

	// live tables (flags are needed to classify failures and to drive the targeted search)
	bops := example.VerifBoolParser().VerifOperators()
	mops := example.VerifMinimal().VerifOperators()
	var boolOps, floatOps []string
	commFloat := map[string]bool{}
	commBool := map[string]bool{}
	for _, o := range bops {
		boolOps = append(boolOps, o.Operator)
		commBool[o.Operator] = o.IsCommutative
	}
	for _, o := range mops {
		floatOps = append(floatOps, o.Operator)
		commFloat[o.Operator] = o.IsCommutative
	}
	for _, o := range boolOps {
		if _, ok := c19ExampleBoolOps[o]; !ok {
			c.Broken("table:bool-operator-unknown", "example/bool.go registers an operator the harness has no definition for: "+o, nil)
			return
		}
	}
	for _, o := range floatOps {
		if !strings.Contains("= < > + - * / ^", o) {
			c.Broken("table:minimal-operator-unknown", "example/minimal.go registers an operator the harness has no definition for: "+o, nil)
			return
		}
	}
	boolT := newGTable(boolOps, example.VerifBoolParser().VerifUnary())
	floatT := newGTable(floatOps, example.VerifMinimal().VerifUnary())
	c.extra["tables"] = map[string]any{"bool": bops, "minimal": mops}

	budget := c.Pick(50, 480)
	ncpu := runtime.NumCPU()
	if ncpu > 16 {
		ncpu = 16
	}
	if ncpu < 2 {
		ncpu = 2
	}

	// ---- explicit cases: corpus (past failures first), targeted chains, sampled larger trees
	var boolExplicit, floatExplicit []*gnode
	for _, s := range []string{
		"B = B = V true V a V false", "B & B & V true V a V false", "B ^ B ^ V a V true V true",
		"L x B ^ V a V true I V x U ! V b B & B & V true V x B | V true V c",
		"L x B & V true V false U ! V x", "I V true V a V b", "I B & V true V false L x V a V x L y V b U ! V y",
		"U ! U ! V a", "B & U ! V a U ! B | V b V c", "L x V true L y B ^ V x V a B = V y V x",
	} {
		boolExplicit = append(boolExplicit, c19pb(s))
	}
	for i := 0; i < c.Pick(1500, 20000); i++ {
		boolExplicit = append(boolExplicit, c19RandBoolTree(c.rng, 2+c.rng.Intn(c.Pick(9, 14)), boolOps, true, 0))
	}
	for _, s := range []string{
		"B = B = C 2 V a C 1", "B = B = V a C 2 C 1", "B + B + C 2 V a C 3", "B * B * V a C 2 C 0.5",
		"B - B - V a C 2 C 2", "B / B / V a C 2 C 2", "U - B ^ C 2 C 2", "B ^ C 2 U - B * V a V b",
		"B / V a U - B * C 2 V b", "B * C 2 V a", "B * C 2 B + V a C 1", "B * B + V a C 1 B - V a C 1",
		"F sqr B + V a C 1", "F sqrt F sqr V a", "B * V a F sqr V b", "B * B * C 2 V a F sqr V a",
		"L x B + B + C 2 V a C 3 I B < V x C 0 U - V x F sqr V x", "I B = V a C 2 B + V a C 1 B * V a C 2",
		"L x C 2 B * V x V a", "L x B * C 2 C 4 L y B + V x V a B - V y V x",
	} {
		floatExplicit = append(floatExplicit, c19pf(s))
	}
	floatExplicit = append(floatExplicit, c19FloatChains(floatOps)...)
	for i := 0; i < c.Pick(1500, 20000); i++ {
		floatExplicit = append(floatExplicit, c19RandFloatTree(c.rng, 2+c.rng.Intn(c.Pick(7, 10)), floatOps, true, 0))
	}
	// replay of a recorded violation: its tree runs first
	if rp := os.Getenv("VERIF_REPLAY"); rp != "" {
		if data, err := os.ReadFile(rp); err == nil {
			var rep struct {
				Signature string `json:"signature"`
				Tree      string `json:"tree"`
			}
			if json.Unmarshal(data, &rep) == nil && rep.Tree != "" {
				if strings.HasPrefix(rep.Signature, "float:") {
					if e, rest, err := c19ParseTokens(strings.Fields(rep.Tree), true); err == nil && len(rest) == 0 {
						floatExplicit = append([]*gnode{e}, floatExplicit...)
					}
				} else if e, rest, err := c19ParseTokens(strings.Fields(rep.Tree), false); err == nil && len(rest) == 0 {
					boolExplicit = append([]*gnode{e}, boolExplicit...)
				}
			}
		}
	}
	toks := func(l []*gnode, float bool) []string {
		var r []string
		for _, e := range l {
			r = append(r, c19TokensOf(e, float))
		}
		return r
	}
	boolMalformed := []string{"a &", "(a", "a b", "!!a", "a & & b", "a)", "", "let x = a x", "if a then b", "a == b", "d", "let x a; x", "a | (b", "!", "true false"}
	floatMalformed := []string{"a +", "(a", "2 +* a", "a)", "", "sqr(a", "sqr(a, b)", "let x = 2 x", "if a then 2", "c", "a + (b", "*a", "2..3", "a ^"}

	// ---- jobs
	var runs []*c19Run
	boolShards := c.Pick(4, 8)
	floatShards := c.Pick(4, 16)
	expGrid := c19Cartesian([]float64{-1, 0, 0.5, 1, 2, 4}, 2)
	fullGrid := c19Cartesian([]float64{-1, 0, 0.5, 1, 2, 4}, 2)
	deepGrid := c19Cartesian([]float64{-2, -1, -0.5, 0, 0.5, 1, 2, 3, 4}, 1)
	for _, opt := range []string{"on", "off"} {
		for s := 0; s < boolShards; s++ {
			j := c19Job{Kind: "bool", Opt: opt, Shard: s, NShards: boolShards, BudgetS: budget,
				Families: []c19Family{
					{Name: "bool-plain", MaxNodes: c.Pick(3, 4), Renderings: []string{"min", "full"}},
					{Name: "bool-ext", MaxNodes: c.Pick(2, 3), Renderings: []string{"min", "full"}, TopOnly: c19ExtTop(c)},
				}}
			if s == 0 {
				j.Explicit = toks(boolExplicit, false)
				j.Malformed = boolMalformed
			}
			runs = append(runs, &c19Run{job: j})
		}
		for s := 0; s < floatShards; s++ {
			j := c19Job{Kind: "float", Opt: opt, Shard: s, NShards: floatShards, BudgetS: budget,
				Families: []c19Family{
					{Name: "float-enum", MaxNodes: c.Pick(2, 3), Renderings: []string{"min", "full", "imp"},
						Leaves: []string{"a", "b", "2", "0.5"}, Unary: []string{"-"}, Funcs: []string{"sqr", "sqrt"}, Binary: floatOps,
						Vars: []string{"a", "b"}, Grid: fullGrid, BigEvery: 1},
					{Name: "float-enum", MaxNodes: 4, Renderings: []string{"min", "full"}, TopOnly: c19TopOnly(c),
						Leaves: []string{"a", "2"}, Unary: []string{"-"}, Binary: floatOps,
						Vars: []string{"a"}, Grid: deepGrid, BigEvery: c.Pick(16, 16)},
				}}
			if c.Thorough {
				// 5 operator nodes: the table without `>` (mirror image of `<`) and `^` (leaves the exact domain at once)
				var ops5 []string
				for _, o := range floatOps {
					if o != ">" && o != "^" {
						ops5 = append(ops5, o)
					}
				}
				j.Families = append(j.Families, c19Family{Name: "float-enum", MinNodes: 5, MaxNodes: 5, Renderings: []string{"min"},
					Leaves: []string{"a", "2"}, Unary: []string{"-"}, Binary: ops5,
					Vars: []string{"a"}, Grid: deepGrid, BigEvery: 64})
			}
			if s == 0 {
				j.Explicit = toks(floatExplicit, true)
				j.Vars = []string{"a", "b"}
				j.Grid = expGrid
				j.Malformed = floatMalformed
			}
			runs = append(runs, &c19Run{job: j})
		}
	}
	// permuted flags: every subset of the four operators (all lawful on Bool), plus tables with a
	// non-associative operator (NAND, implication) flagged commutative, which must be caught
	base := []c19BoolOpDef{{"^", false, "xor"}, {"=", false, "eq"}, {"|", false, "or"}, {"&", false, "and"}}
	for i, o := range boolOps {
		if i < len(base) {
			base[i] = c19BoolOpDef{Sym: o, Fn: c19ExampleBoolOps[o]}
		}
	}
	var lawful, unlawful [][]c19BoolOpDef
	for m := 0; m < 16; m++ {
		v := append([]c19BoolOpDef{}, base...)
		for i := range v {
			v[i].Comm = m>>i&1 == 1
		}
		lawful = append(lawful, v)
	}
	lawful = append(lawful,
		[]c19BoolOpDef{{"^", true, "xor"}, {"=", true, "eq"}, {"|", true, "or"}, {"~", false, "nand"}, {">", false, "imp"}, {"&", true, "and"}})
	unlawful = append(unlawful,
		[]c19BoolOpDef{{"^", true, "xor"}, {"=", true, "eq"}, {"|", true, "or"}, {"~", true, "nand"}, {"&", true, "and"}},
		[]c19BoolOpDef{{"^", false, "xor"}, {">", true, "imp"}, {"&", false, "and"}})
	permNodes := c.Pick(2, 3)
	all := append(append([][]c19BoolOpDef{}, lawful...), unlawful...)
	per := (len(all) + 7) / 8
	for i := 0; i < len(all); i += per {
		end := i + per
		if end > len(all) {
			end = len(all)
		}
		runs = append(runs, &c19Run{job: c19Job{Kind: "perm", Opt: "both", Variants: all[i:end], MaxNodes: permNodes, BudgetS: budget}})
	}

	// ---- run them, largest first
	order := make([]int, len(runs))
	for i := range order {
		order[i] = i
	}
	sort.SliceStable(order, func(x, y int) bool {
		w := func(r *c19Run) int {
			switch r.job.Kind {
			case "float":
				return 0
			case "bool":
				return 1
			}
			return 2
		}
		return w(runs[order[x]]) < w(runs[order[y]])
	})
	var wg sync.WaitGroup
	sem := make(chan struct{}, ncpu)
	for _, i := range order {
		wg.Add(1)
		sem <- struct{}{}
		go func(i int) {
			defer wg.Done()
			defer func() { <-sem }()
			c19Spawn(dir, i, runs[i], time.Duration(budget+30)*time.Second)
		}(i)
	}
	wg.Wait()

	// ---- merge
	lawfulNames := map[string]bool{}
	for _, v := range lawful {
		lawfulNames[c19VariantName(v)] = true
	}
	digests := map[string]map[string]string{} // kind/shard -> opt -> digest
	var trees, gens, evals, nontriv, outDom, rounding, bigChecked int64
	explicitBy := map[string]map[string][]c19Explicit{}
	workerWall := map[string]float64{}
	for _, r := range runs {
		if r.err != "" {
			c.Broken("worker:"+r.job.Kind+":"+r.job.Opt, r.err, map[string]any{"shard": r.job.Shard})
			continue
		}
		if r.res.Truncated {
			c.Broken("budget:"+r.job.Kind+":"+r.job.Opt, "worker ran out of its time budget before finishing the exhaustive enumeration", map[string]any{"shard": r.job.Shard})
		}
		workerWall[r.job.Kind+":"+r.job.Opt] += r.wall
		key := fmt.Sprintf("%s/%d", r.job.Kind, r.job.Shard)
		if r.job.Kind != "perm" {
			if digests[key] == nil {
				digests[key] = map[string]string{}
			}
			digests[key][r.job.Opt] = r.res.Digest
		}
		// trees are counted once (optimizer-on side and the perm runs); generates/evals on both sides
		if r.job.Opt != "off" {
			trees += r.res.Trees
			nontriv += r.res.NonTrivial
			for k, v := range r.res.Hist {
				c.hist[k] += int(v)
			}
			for _, s := range r.res.Samples {
				c.Sample(s)
			}
		}
		gens += r.res.Generates
		evals += r.res.Evals
		outDom += r.res.OutDomain
		rounding += r.res.RoundingDiff
		bigChecked += r.res.BigChecked
		if ex, _ := c.extra["float_rounding_examples_outside_domain"].([]string); len(ex) < 6 {
			c.extra["float_rounding_examples_outside_domain"] = append(ex, r.res.RoundingEx...)
		}
		for _, m := range r.res.BigMismatch {
			c.Broken("selftest:exact-domain", "harness self-check failed (the exact domain is not exact, or a corpus entry is unreadable): "+m, nil)
		}
		for _, f := range r.res.Fails {
			sig := r.job.Kind + ":" + f.What
			if f.What == "value-differs" || f.What == "eval-error" {
				sig += ":opt-" + f.Mode
				if f.Tree != "" && f.Mode == "on" {
					var e *gnode
					if r.job.Kind == "float" {
						e = c19pf(f.Tree)
						if op := c19RegroupOp(e, commFloat); op != "" {
							sig += ":regroup" + op
						}
					} else if r.job.Kind == "bool" {
						e = c19pb(f.Tree)
						if op := c19RegroupOp(e, commBool); op != "" {
							sig += ":regroup" + op
						}
					}
				}
			}
			if f.What == "generate-error" {
				sig += ":" + f.Rendering
			}
			c.Violation(sig, fmt.Sprintf("%s: %q (%s rendering, optimizer %s) %s: got %s, want %s", f.What, f.Text, f.Rendering, f.Mode, f.Assignment, f.Got, f.Want),
				map[string]any{"family": f.Family, "tree": f.Tree, "text": f.Text, "rendering": f.Rendering, "optimizer": f.Mode, "assignment": f.Assignment, "got": f.Got, "want": f.Want, "variant": f.Variant, "total_failures_in_shard": r.res.FailCount})
		}
		if len(r.res.Explicit) > 0 {
			if explicitBy[r.job.Kind] == nil {
				explicitBy[r.job.Kind] = map[string][]c19Explicit{}
			}
			explicitBy[r.job.Kind][r.job.Opt] = r.res.Explicit
		}
		for _, vr := range r.res.Variants {
			c.Count("perm variants")
			if lawfulNames[vr.Variant] {
				if vr.OnOffDiff != 0 || vr.WrongOn != 0 || vr.WrongOff != 0 {
					c.Violation("perm:lawful-flags:differs", "a lawful flag assignment changes the value: "+vr.Witness, map[string]any{"variant": vr.Variant, "witness": vr.Witness, "on_off_diff": vr.OnOffDiff, "wrong_on": vr.WrongOn, "wrong_off": vr.WrongOff})
				}
				c.Count("perm lawful variants agreeing")
			} else {
				if vr.WrongOff != 0 {
					c.Violation("perm:unlawful-table:off-differs", "optimizer off differs from direct evaluation: "+vr.Witness, map[string]any{"variant": vr.Variant, "witness": vr.Witness})
				}
				if vr.OnOffDiff == 0 {
					c.Broken("selftest:unlawful-flags-not-detected", "a non-associative operator flagged commutative did not produce an on/off difference: the harness cannot see regrouping defects", map[string]any{"variant": vr.Variant})
				} else {
					c.Count("perm unlawful variants detected")
					if ws, _ := c.extra["unlawful_witnesses"].([]string); len(ws) < 4 {
						c.extra["unlawful_witnesses"] = append(ws, vr.Variant+" :: "+vr.Witness)
					}
				}
			}
		}
	}
	for key, d := range digests {
		if d["on"] != d["off"] && len(c.violations) == 0 {
			c.Broken("digest:"+key, "optimizer-on and optimizer-off workers produced different outcome digests although no case failed", map[string]any{"on": d["on"], "off": d["off"]})
		}
	}
	c.evaluations += int(trees)
	c.nontrivial += int(nontriv)
	c.extra["generate_calls"] = gens
	c.extra["function_evaluations"] = evals
	c.extra["float_pairs_outside_exact_domain"] = outDom
	c.extra["float_rounding_differences_outside_domain_optimizer_on"] = rounding
	c.extra["mathbig_rechecked_pairs"] = bigChecked
	c.extra["worker_cpu_wall_s"] = workerWall
	bt := c19CountTrees(5, 1, len(boolOps), c.Pick(3, 4))
	c.extra["bool_expression_counts_by_nodes"] = bt

	// ---- correspondence with the Lean model on the explicit cases
	// host functions of three and four parameters, variadic Go functions (c19x.go)
	c19HostFunctions(c)
	c19Model(c, "bool", explicitBy["bool"], "a b c", nil)
	c19Model(c, "minimal", explicitBy["float"], "a b", expGrid)

	// ---- broken obligations: the flags are the input; name the operator
	for _, o := range c.BrokenObligs() {
		if strings.Contains(o.Name, "minimal_flags_lawful") || strings.Contains(o.Name, "minimal_table_laws") || strings.Contains(o.Name, "float_chain_correct_current") {
			var bad []string
			for _, op := range mops {
				if op.IsCommutative && op.Operator != "+" && op.Operator != "*" {
					bad = append(bad, op.Operator)
				}
			}
			c.extra["minimal_flags_outside_lawful_set"] = bad
		}
	}
	_ = boolT
	_ = floatT
}

// c19Model sends the explicit cases to the Lean driver and compares AST and outcomes per mode.
func c19Model(c *Ctx, table string, by map[string][]c19Explicit, args string, grid [][]float64) {
	on, off := by["on"], by["off"]
	if len(on) == 0 || len(on) != len(off) {
		if len(on) != len(off) {
			c.Broken("corr:GEN", "explicit case lists of the on and off workers differ in length", nil)
		}
		return
	}
	var reqs []string
	var idx []int
	var asgIdx [][]int
	for i, ex := range on {
		var asg []string
		var which []int
		if grid == nil {
			for a := 0; a < 8; a++ {
				asg = append(asg, fmt.Sprintf("%d %d %d", a&1, a>>1&1, a>>2&1))
				which = append(which, a)
			}
		} else {
			for j, vals := range grid {
				if ex.InDom[j] {
					var p []string
					for _, v := range vals {
						p = append(p, c19RatText(v))
					}
					asg = append(asg, strings.Join(p, " "))
					which = append(which, j)
				}
			}
			if len(asg) == 0 {
				c.Count("model: float case without in-domain assignment (skipped)")
				continue
			}
		}
		reqs = append(reqs, "GEN\t"+table+"\t"+ex.Tree+"\t"+args+"\t"+strings.Join(asg, ";"))
		idx = append(idx, i)
		asgIdx = append(asgIdx, which)
	}
	resp := c.Model(reqs)
	for k, r := range resp {
		i := idx[k]
		f := strings.Split(r, "\t")
		if len(f) != 4 {
			c.Broken("corr:GEN", "model driver rejected the request", map[string]any{"request": reqs[k], "response": r})
			continue
		}
		for m, side := range []struct {
			name string
			ex   c19Explicit
		}{{"on", on[i]}, {"off", off[i]}} {
			ast, outs := f[2*m], strings.Split(f[2*m+1], ";")
			var impl []string
			for _, j := range asgIdx[k] {
				impl = append(impl, side.ex.Out[j])
			}
			okOut := strings.Join(impl, ";") == strings.Join(outs, ";")
			okAst := ast == side.ex.Ast
			if okOut && okAst {
				c.Count("model agrees (" + table + ", optimizer " + side.name + ")")
				continue
			}
			c.disagree++
			// is the property predicate violated on this case? then the failing input is already reported
			var want []string
			for _, j := range asgIdx[k] {
				want = append(want, side.ex.Want[j])
			}
			if strings.Join(impl, ";") != strings.Join(want, ";") {
				c.Count("model differs where the implementation violates the property")
				continue
			}
			what := "outcomes"
			if okOut {
				what = "optimised AST"
			}
			c.Broken("corr:GEN", "model and implementation differ ("+what+", optimizer "+side.name+")", map[string]any{"request": reqs[k], "impl_ast": side.ex.Ast, "model_ast": ast, "impl_out": impl, "model_out": outs, "texts": side.ex.Texts})
		}
		if on[i].Ast != off[i].Ast {
			c.Count("model sample: optimizer changes the AST (" + table + ")")
		}
	}
}
