package main

// Tie 1 (C10, C11): a whole-repository inventory of WRITES to state that can outlive one evaluation.
//
// C10 says an evaluation is a pure function of its arguments whatever happened before on the function or its generator,
// C11 says concurrent evaluations share no racy state. The Lean model has exactly one piece of cross-evaluation state, the
// memo cell of a lazy list (P2.Memo). That the Go code has no OTHER one is what this table is for: every non-test,
// non-_verif file of /repo's working tree is parsed and type-checked (go/parser + go/types, own importer: repository packages
// from the tree, required modules from the module cache, the standard library from source), and for every function
// body (declared functions, every function literal on its own, package-level initialisers) the table lists
//
//   * writes to package-level variables (assignment, op=, ++/--, element stores, address taken),
//   * writes through anything that is not an object created in the same function: fields (`x.f = …`, `x.f[i] = …`,
//     `x.f++`), element stores into slices/maps, `*p = …`, `append` onto a slice that is not fresh (it may write into spare
//     capacity), sort/copy/delete/clear on it, and assignments to variables captured from an enclosing function,
//   * the guard the write is under (a mutex locked earlier in the same body, a sync.Once body, sync/atomic, or the
//     unsynchronised lazy initialisation `if x == nil { … x = … }`),
//   * whether the body is reachable from the run-time entry points (Func.Eval, Function.Eval/EvalSt, Closure.Eval/EvalSt,
//     every exported method of *value.List), from Generate (Generate, GenerateWithMap, GenerateFromString, GenerateFunc,
//     CreateAst) and from Parser.Parse. The call graph is over-approximate: static calls by go/types; a call through a
//     function value reaches every function literal and every function whose value is taken with a compatible type
//     (identical up to type parameters); a call through an interface reaches every method of that name with a compatible
//     signature; a function value or an object handed to a function outside the repository is assumed to be called back.
//
// What "fresh" means (the only writes that are NOT listed): the root of the written access path is a local variable of this
// body (not a parameter, not a receiver, not captured) whose every assignment is a composite literal, `&T{…}`, `new`, `make`,
// nil, an `append` onto itself, a conversion/slice of something fresh, or a call of a repository function all of whose
// returns are fresh; and the path from the root to the written location goes through struct VALUES only (one pointer, slice
// or map hop from the root variable itself is the fresh object; a second hop is not tracked and listed as `freshpath`).
// A direct field assignment to a struct-valued local, parameter or value receiver is a write to a copy and not listed.

import (
	"fmt"
	"go/ast"
	"go/build"
	"go/importer"
	"go/parser"
	"go/token"
	"go/types"
	"os"
	"os/exec"
	"path/filepath"
	"sort"
	"strings"
)

func init() { extractors = append(extractors, extractSharedWrites) }

type swPkg struct {
	path  string
	rel   string // directory relative to the repository root ("" = root)
	files []*ast.File
	names []string
	pkg   *types.Package
	info  *types.Info
}

type swLoader struct {
	fset     *token.FileSet
	modPath  string
	modDirs  map[string]string // required module path -> directory in the module cache
	pkgs     map[string]*swPkg // repository packages by import path
	external map[string]*types.Package
	std      types.Importer
	loading  map[string]bool
}

func swGoEnv(name string) string {
	if v := os.Getenv(name); v != "" {
		return v
	}
	out, err := exec.Command("go", "env", name).Output()
	if err != nil {
		return ""
	}
	return strings.TrimSpace(string(out))
}

func swEscapeModPath(p string) string {
	var b strings.Builder
	for _, r := range p {
		if r >= 'A' && r <= 'Z' {
			b.WriteByte('!')
			b.WriteRune(r + 'a' - 'A')
		} else {
			b.WriteRune(r)
		}
	}
	return b.String()
}

func (l *swLoader) parseDir(dir string, all bool) ([]*ast.File, []string) {
	entries, err := os.ReadDir(dir)
	if err != nil {
		fatal("extract shared writes: %v", err)
	}
	var files []*ast.File
	var names []string
	for _, e := range entries {
		n := e.Name()
		if e.IsDir() || !strings.HasSuffix(n, ".go") || strings.HasSuffix(n, "_test.go") || strings.HasSuffix(n, "_verif.go") {
			continue
		}
		f, err := parser.ParseFile(l.fset, filepath.Join(dir, n), nil, parser.SkipObjectResolution)
		if err != nil {
			fatal("extract shared writes: %v", err)
		}
		files = append(files, f)
		names = append(names, n)
	}
	return files, names
}

func (l *swLoader) newInfo() *types.Info {
	return &types.Info{
		Types:      map[ast.Expr]types.TypeAndValue{},
		Defs:       map[*ast.Ident]types.Object{},
		Uses:       map[*ast.Ident]types.Object{},
		Selections: map[*ast.SelectorExpr]*types.Selection{},
		Instances:  map[*ast.Ident]types.Instance{},
	}
}

func (l *swLoader) Import(path string) (*types.Package, error) {
	if path == "unsafe" {
		return types.Unsafe, nil
	}
	if path == l.modPath || strings.HasPrefix(path, l.modPath+"/") {
		p := l.loadRepo(path)
		return p.pkg, nil
	}
	if p, ok := l.external[path]; ok {
		return p, nil
	}
	for mod, dir := range l.modDirs {
		if path == mod || strings.HasPrefix(path, mod+"/") {
			d := filepath.Join(dir, strings.TrimPrefix(path, mod))
			files, _ := l.parseDir(d, false)
			var firstErr error
			conf := types.Config{Importer: l, Error: func(err error) {
				if firstErr == nil {
					firstErr = err
				}
			}}
			pkg, _ := conf.Check(path, l.fset, files, nil)
			if firstErr != nil {
				fatal("extract shared writes: type-checking %s: %v", path, firstErr)
			}
			l.external[path] = pkg
			return pkg, nil
		}
	}
	pkg, err := l.std.Import(path)
	if err != nil {
		return nil, err
	}
	l.external[path] = pkg
	return pkg, nil
}

func (l *swLoader) loadRepo(path string) *swPkg {
	if p, ok := l.pkgs[path]; ok {
		return p
	}
	if l.loading[path] {
		fatal("extract shared writes: import cycle at %s", path)
	}
	l.loading[path] = true
	rel := strings.TrimPrefix(strings.TrimPrefix(path, l.modPath), "/")
	files, names := l.parseDir(filepath.Join(repoRoot, rel), true)
	p := &swPkg{path: path, rel: rel, files: files, names: names, info: l.newInfo()}
	var firstErr error
	conf := types.Config{Importer: l, Error: func(err error) {
		if firstErr == nil {
			firstErr = err
		}
	}}
	p.pkg, _ = conf.Check(path, l.fset, files, p.info)
	if firstErr != nil {
		fatal("extract shared writes: type-checking %s: %v", path, firstErr)
	}
	l.pkgs[path] = p
	delete(l.loading, path)
	return p
}

// ---------------------------------------------------------------------------------------------------------------

// a body: a declared function, a function literal, or a package-level initialiser
type swNode struct {
	id       int
	pkg      *swPkg
	file     string // path relative to the repository root
	decl     string // name of the enclosing declaration: "value.List.Eval", "funcGen.New", "export.var linkFunc"
	lit      bool   // a function literal inside decl
	body     ast.Node
	fnType   *ast.FuncType
	recv     *ast.FieldList
	sig      types.Type            // literals: the type of the literal
	obj      *types.Func           // declared functions
	parent   *swNode               // literals: the body they are written in
	owned    map[*types.Var]bool   // variables declared in this body (parameters, receiver, locals)
	params   map[*types.Var]string // "param" | "recv"
	edges    map[int]bool
	onceBody bool
	reach    [3]bool
}

type swRef struct {
	target *swNode
	typ    types.Type
}

type swDyn struct {
	from *swNode
	sig  types.Type
}

// a call of a function-typed PARAMETER: resolved through the call sites of the function that declares it
type swParamDyn struct {
	from  *swNode
	owner *swNode
	idx   int
	typ   types.Type
}

type swCallSite struct {
	caller *swNode
	args   []ast.Expr
	spread bool
}

type swIface struct {
	from *swNode
	name string
	sig  *types.Signature
	site swCallSite
}

type swRow struct {
	fn, kind, target, guard, base, owner string
	reach                                [3]bool
	count                                int
}

type swAnalysis struct {
	l            *swLoader
	nodes        []*swNode
	byObj        map[*types.Func]*swNode
	byLit        map[*ast.FuncLit]*swNode
	refs         []swRef
	dyns         []swDyn
	ifaces       []swIface
	pdyns        []swParamDyn
	extCallbacks map[*swNode]bool // function values handed to code outside the repository
	sites        map[*swNode][]swCallSite
	taken        map[*swNode]bool
	methods      map[string][]*swNode // method name -> declared methods
	byType       map[*types.TypeName][]*swNode
	varDefs      map[*types.Var][]ast.Expr // every right side assigned to a local variable (nil entry = unknown)
	varUnknown   map[*types.Var]bool
	fresh        map[*types.Var]int // 0 unknown, 1 in progress, 2 fresh, 3 not fresh
	retFresh     map[*types.Func]int
	rows         map[string]*swRow
	paramVars    map[*types.Var]bool
	firstOfTuple map[*ast.CallExpr]bool
}

var swCallbackNames = map[string]bool{"String": true, "Error": true, "Len": true, "Less": true, "Swap": true, "Write": true, "WriteString": true,
	"WriteByte": true, "WriteRune": true, "Read": true, "Format": true, "GoString": true, "Unwrap": true, "Is": true, "As": true, "MarshalJSON": true, "MarshalText": true, "Close": true}

func (a *swAnalysis) relPkg(p *types.Package) string {
	if p == nil {
		return ""
	}
	path := p.Path()
	if path == a.l.modPath {
		return p.Name()
	}
	return strings.TrimPrefix(path, a.l.modPath+"/")
}

func (a *swAnalysis) isRepo(p *types.Package) bool {
	return p != nil && (p.Path() == a.l.modPath || strings.HasPrefix(p.Path(), a.l.modPath+"/"))
}

func swNamed(t types.Type) *types.Named {
	for {
		switch x := t.(type) {
		case *types.Pointer:
			t = x.Elem()
		case *types.Alias:
			t = types.Unalias(x)
		case *types.Named:
			return x
		default:
			return nil
		}
	}
}

func (a *swAnalysis) typeName(t types.Type) string {
	if n := swNamed(t); n != nil {
		return a.relPkg(n.Obj().Pkg()) + "." + n.Obj().Name()
	}
	if t == nil {
		return "?"
	}
	switch u := t.Underlying().(type) {
	case *types.Struct:
		return "struct"
	case *types.Slice:
		return "[]" + a.typeName(u.Elem())
	case *types.Map:
		return "map"
	case *types.Array:
		return "[n]" + a.typeName(u.Elem())
	}
	if tp, ok := t.(*types.TypeParam); ok {
		return tp.Obj().Name()
	}
	return oneLine(t.String())
}

func (a *swAnalysis) declName(pkg *swPkg, fd *ast.FuncDecl) string {
	name := pkg.pkg.Name()
	if pkg.rel != "" {
		name = pkg.rel
	}
	if fd.Recv != nil && len(fd.Recv.List) == 1 {
		t := fd.Recv.List[0].Type
		for {
			switch x := t.(type) {
			case *ast.StarExpr:
				t = x.X
				continue
			case *ast.IndexExpr:
				t = x.X
				continue
			case *ast.IndexListExpr:
				t = x.X
				continue
			case *ast.ParenExpr:
				t = x.X
				continue
			}
			break
		}
		if id, ok := t.(*ast.Ident); ok {
			return name + "." + id.Name + "." + fd.Name.Name
		}
	}
	return name + "." + fd.Name.Name
}

func (a *swAnalysis) newNode(pkg *swPkg, file, decl string, lit bool, body ast.Node) *swNode {
	n := &swNode{id: len(a.nodes), pkg: pkg, file: file, decl: decl, lit: lit, body: body, owned: map[*types.Var]bool{}, params: map[*types.Var]string{}, edges: map[int]bool{}}
	a.nodes = append(a.nodes, n)
	return n
}

// collect creates the nodes: declared functions, package-level initialisers, and (recursively) literals
func (a *swAnalysis) collect(pkg *swPkg) {
	for fi, f := range pkg.files {
		file := filepath.ToSlash(filepath.Join(pkg.rel, pkg.names[fi]))
		for _, d := range f.Decls {
			switch d := d.(type) {
			case *ast.FuncDecl:
				if d.Body == nil {
					continue
				}
				n := a.newNode(pkg, file, a.declName(pkg, d), false, d.Body)
				n.fnType, n.recv = d.Type, d.Recv
				if obj, ok := pkg.info.Defs[d.Name].(*types.Func); ok {
					n.obj = obj
					a.byObj[obj] = n
					if d.Recv != nil {
						a.methods[d.Name.Name] = append(a.methods[d.Name.Name], n)
						if sig, ok := obj.Type().(*types.Signature); ok && sig.Recv() != nil {
							if nm := swNamed(sig.Recv().Type()); nm != nil {
								a.byType[nm.Obj()] = append(a.byType[nm.Obj()], n)
							}
						}
					}
				}
				a.declareParams(n)
				a.collectLits(n)
			case *ast.GenDecl:
				if d.Tok != token.VAR {
					continue
				}
				for _, s := range d.Specs {
					vs := s.(*ast.ValueSpec)
					if len(vs.Values) == 0 {
						continue
					}
					pn := pkg.pkg.Name()
					if pkg.rel != "" {
						pn = pkg.rel
					}
					n := a.newNode(pkg, file, pn+".var "+vs.Names[0].Name, false, vs)
					a.collectLits(n)
				}
			}
		}
	}
}

func (a *swAnalysis) declareParams(n *swNode) {
	add := func(fl *ast.FieldList, kind string) {
		if fl == nil {
			return
		}
		for _, f := range fl.List {
			for _, nm := range f.Names {
				if v, ok := n.pkg.info.Defs[nm].(*types.Var); ok {
					n.owned[v] = true
					n.params[v] = kind
				}
			}
		}
	}
	add(n.recv, "recv")
	if n.fnType != nil {
		add(n.fnType.Params, "param")
		add(n.fnType.Results, "result")
	}
}

// collectLits: the literals directly inside n's body become nodes of their own; local variable definitions of n are recorded
func (a *swAnalysis) collectLits(n *swNode) {
	ast.Inspect(n.body, func(x ast.Node) bool {
		if fl, ok := x.(*ast.FuncLit); ok {
			c := a.newNode(n.pkg, n.file, n.decl, true, fl.Body)
			c.fnType = fl.Type
			c.parent = n
			c.sig = n.pkg.info.TypeOf(fl)
			a.byLit[fl] = c
			a.declareParams(c)
			a.collectLits(c)
			return false
		}
		if id, ok := x.(*ast.Ident); ok {
			if v, ok := n.pkg.info.Defs[id].(*types.Var); ok && !v.IsField() && v.Parent() != n.pkg.pkg.Scope() {
				n.owned[v] = true
			}
		}
		return true
	})
}

// ---------------------------------------------------------------------------------------------------------------
// freshness

func (a *swAnalysis) recordDefs(n *swNode) {
	info := n.pkg.info
	def := func(lhs ast.Expr, rhs ast.Expr) {
		id, ok := lhs.(*ast.Ident)
		if !ok {
			return
		}
		var v *types.Var
		if o, ok := info.Defs[id].(*types.Var); ok {
			v = o
		} else if o, ok := info.Uses[id].(*types.Var); ok {
			v = o
		}
		if v == nil || v.IsField() {
			return
		}
		if rhs == nil {
			a.varUnknown[v] = true
		} else {
			a.varDefs[v] = append(a.varDefs[v], rhs)
		}
	}
	a.walkOwn(n, func(x ast.Node) {
		switch s := x.(type) {
		case *ast.AssignStmt:
			if len(s.Lhs) == len(s.Rhs) {
				for i := range s.Lhs {
					if s.Tok == token.ASSIGN || s.Tok == token.DEFINE {
						def(s.Lhs[i], s.Rhs[i])
					} else {
						def(s.Lhs[i], nil)
					}
				}
			} else {
				for i := range s.Lhs {
					if call, ok := swUnparen(s.Rhs[0]).(*ast.CallExpr); ok && i == 0 && len(s.Rhs) == 1 && (s.Tok == token.ASSIGN || s.Tok == token.DEFINE) {
						def(s.Lhs[0], call) // x, err := f(): x is the first result of f
						a.firstOfTuple[call] = true
						continue
					}
					def(s.Lhs[i], nil)
				}
			}
		case *ast.ValueSpec:
			if len(s.Values) == len(s.Names) {
				for i := range s.Names {
					def(s.Names[i], s.Values[i])
				}
			} else if len(s.Values) != 0 {
				for i := range s.Names {
					def(s.Names[i], nil)
				}
			}
			// `var x T` without a value: the zero value, fresh
		case *ast.RangeStmt:
			if s.Key != nil {
				def(s.Key, nil)
			}
			if s.Value != nil {
				def(s.Value, nil)
			}
		case *ast.UnaryExpr:
			// &x of a local: the variable can be written through the pointer; its own freshness is unaffected
		case *ast.TypeSwitchStmt:
			// the implicit variables of the clauses are unknown
		}
	})
}

// walkOwn visits the nodes of n's body without descending into nested function literals
func (a *swAnalysis) walkOwn(n *swNode, f func(ast.Node)) {
	ast.Inspect(n.body, func(x ast.Node) bool {
		if x == nil {
			return false
		}
		if _, ok := x.(*ast.FuncLit); ok {
			return false
		}
		f(x)
		return true
	})
}

func (a *swAnalysis) infoOf(o types.Object) *types.Info {
	if o == nil || o.Pkg() == nil {
		return nil
	}
	if p, ok := a.l.pkgs[o.Pkg().Path()]; ok {
		return p.info
	}
	return nil
}

func (a *swAnalysis) isGlobal(v *types.Var) bool {
	return v.Pkg() != nil && v.Parent() == v.Pkg().Scope()
}

func (a *swAnalysis) varFresh(v *types.Var) bool {
	switch a.fresh[v] {
	case 2:
		return true
	case 3:
		return false
	case 1:
		return true // a cycle (x = append(x, …)): decided by the other definitions
	}
	info := a.infoOf(v)
	if info == nil || a.isGlobal(v) || a.paramVars[v] || v.IsField() {
		a.fresh[v] = 3
		return false
	}
	a.fresh[v] = 1
	ok := !a.varUnknown[v]
	if ok {
		for _, e := range a.varDefs[v] {
			if !a.exprFresh(info, e) {
				ok = false
				break
			}
		}
	}
	if ok {
		a.fresh[v] = 2
	} else {
		a.fresh[v] = 3
	}
	return ok
}

func swUnparen(e ast.Expr) ast.Expr {
	for {
		p, ok := e.(*ast.ParenExpr)
		if !ok {
			return e
		}
		e = p.X
	}
}

// calleeOf: the object a call's function expression denotes (function, method, builtin, type name), nil for a function value
func swCallee(info *types.Info, fun ast.Expr) types.Object {
	fun = swUnparen(fun)
	switch x := fun.(type) {
	case *ast.IndexExpr:
		if tv, ok := info.Types[x.X]; ok && !tv.IsValue() || swIsFuncObj(info, x.X) {
			return swCallee(info, x.X)
		}
		return nil
	case *ast.IndexListExpr:
		return swCallee(info, x.X)
	case *ast.Ident:
		switch o := info.Uses[x].(type) {
		case *types.Func, *types.Builtin, *types.TypeName:
			return o
		}
		return nil
	case *ast.SelectorExpr:
		switch o := info.Uses[x.Sel].(type) {
		case *types.Func, *types.TypeName:
			return o
		}
		return nil
	}
	return nil
}

func swIsFuncObj(info *types.Info, e ast.Expr) bool {
	switch x := swUnparen(e).(type) {
	case *ast.Ident:
		_, ok := info.Uses[x].(*types.Func)
		return ok
	case *ast.SelectorExpr:
		_, ok := info.Uses[x.Sel].(*types.Func)
		return ok
	}
	return false
}

func (a *swAnalysis) exprFresh(info *types.Info, e ast.Expr) bool {
	e = swUnparen(e)
	switch x := e.(type) {
	case *ast.CompositeLit, *ast.BasicLit, *ast.FuncLit, *ast.BinaryExpr:
		return true
	case *ast.UnaryExpr:
		if x.Op == token.AND {
			in := swUnparen(x.X)
			if _, ok := in.(*ast.CompositeLit); ok {
				return true
			}
			if id, ok := in.(*ast.Ident); ok {
				if v, ok := info.Uses[id].(*types.Var); ok && !a.isGlobal(v) && !v.IsField() {
					return true // the address of a local variable: its own storage
				}
			}
			return false
		}
		return x.Op != token.ARROW
	case *ast.Ident:
		switch o := info.Uses[x].(type) {
		case *types.Nil, *types.Const:
			return true
		case *types.Var:
			return a.varFresh(o)
		}
		if o, ok := info.Defs[x].(*types.Var); ok {
			return a.varFresh(o)
		}
		return false
	case *ast.SliceExpr:
		return a.exprFresh(info, x.X)
	case *ast.CallExpr:
		if tv, ok := info.Types[x.Fun]; ok && tv.IsType() {
			return len(x.Args) == 1 && a.exprFresh(info, x.Args[0])
		}
		switch o := swCallee(info, x.Fun).(type) {
		case *types.Builtin:
			switch o.Name() {
			case "new", "make", "len", "cap", "min", "max", "complex", "real", "imag":
				return true
			case "append":
				return len(x.Args) > 0 && a.exprFresh(info, x.Args[0])
			}
			return false
		case *types.Func:
			return a.returnsFresh(o)
		}
		return false
	}
	return false
}

func (a *swAnalysis) returnsFresh(f *types.Func) bool {
	f = f.Origin()
	switch a.retFresh[f] {
	case 2:
		return true
	case 3, 1:
		return false
	}
	n := a.byObj[f]
	sig, _ := f.Type().(*types.Signature)
	if n == nil || sig == nil || sig.Results().Len() < 1 {
		a.retFresh[f] = 3
		return false
	}
	a.retFresh[f] = 1
	ok, seen := true, false
	a.walkOwn(n, func(x ast.Node) {
		if r, isRet := x.(*ast.ReturnStmt); isRet {
			seen = true
			// the FIRST result decides (x, err := f() is the only tuple form whose x is tracked)
			if len(r.Results) != sig.Results().Len() || !a.exprFresh(n.pkg.info, r.Results[0]) {
				ok = false
			}
		}
	})
	if ok && seen {
		a.retFresh[f] = 2
		return true
	}
	a.retFresh[f] = 3
	return false
}

// ---------------------------------------------------------------------------------------------------------------
// targets

// owner: the body that declares v (nil for globals and unknown variables)
func (a *swAnalysis) varClass(n *swNode, v *types.Var) string {
	if a.isGlobal(v) {
		return "global"
	}
	if k, ok := n.params[v]; ok {
		return k
	}
	if n.owned[v] {
		return "local"
	}
	return "captured"
}

func (a *swAnalysis) nameOf(n *swNode, e ast.Expr) string {
	info := n.pkg.info
	e = swUnparen(e)
	switch x := e.(type) {
	case *ast.Ident:
		if v, ok := info.Uses[x].(*types.Var); ok && a.isGlobal(v) {
			return a.relPkg(v.Pkg()) + "." + v.Name()
		}
		return x.Name
	case *ast.SelectorExpr:
		if sel, ok := info.Selections[x]; ok && sel.Kind() == types.FieldVal {
			return a.typeName(sel.Recv()) + "." + x.Sel.Name
		}
		if v, ok := info.Uses[x.Sel].(*types.Var); ok && a.isGlobal(v) {
			return a.relPkg(v.Pkg()) + "." + v.Name()
		}
		return oneLine(exprText(a.l.fset, e))
	case *ast.IndexExpr:
		return a.nameOf(n, x.X) + "[]"
	case *ast.SliceExpr:
		return a.nameOf(n, x.X)
	case *ast.StarExpr:
		return "*" + a.nameOf(n, x.X)
	case *ast.CallExpr:
		return oneLine(exprText(a.l.fset, x.Fun)) + "()"
	case *ast.TypeAssertExpr:
		return a.nameOf(n, x.X)
	}
	return a.typeName(info.TypeOf(e))
}

// rootOf walks an access path down to its root; hops counts the pointer / slice / map indirections on the way
func (a *swAnalysis) rootOf(n *swNode, e ast.Expr, hops int) (base string, list bool) {
	info := n.pkg.info
	for {
		e = swUnparen(e)
		switch x := e.(type) {
		case *ast.StarExpr:
			hops++
			e = x.X
			continue
		case *ast.TypeAssertExpr:
			e = x.X
			continue
		case *ast.IndexExpr:
			if t := info.TypeOf(x.X); t != nil {
				if _, isArr := t.Underlying().(*types.Array); !isArr {
					hops++
				}
			}
			e = x.X
			continue
		case *ast.SliceExpr:
			e = x.X // a slice of x shares the storage of x: no further indirection
			continue
		case *ast.SelectorExpr:
			if sel, ok := info.Selections[x]; ok && sel.Kind() == types.FieldVal {
				if sel.Indirect() {
					hops++
				}
				e = x.X
				continue
			}
			if v, ok := info.Uses[x.Sel].(*types.Var); ok && a.isGlobal(v) {
				return "global", true
			}
			return "other", true
		case *ast.CallExpr:
			if tv, ok := info.Types[x.Fun]; ok && tv.IsType() && len(x.Args) == 1 {
				e = x.Args[0]
				continue
			}
			if hops == 0 {
				return "", false
			}
			if a.exprFresh(info, x) {
				if hops == 1 {
					return "", false
				}
				return "freshpath", true
			}
			return "call", true
		case *ast.CompositeLit:
			return "", false
		case *ast.UnaryExpr:
			if x.Op == token.AND {
				hops--
				e = x.X
				continue
			}
			return "other", true
		case *ast.Ident:
			var v *types.Var
			if o, ok := info.Uses[x].(*types.Var); ok {
				v = o
			} else if o, ok := info.Defs[x].(*types.Var); ok {
				v = o
			}
			if v == nil {
				return "other", hops > 0
			}
			cls := a.varClass(n, v)
			switch cls {
			case "global":
				return "global", true
			case "param", "recv":
				if hops <= 0 {
					return "", false // a copy
				}
				return cls, true
			case "local", "result":
				if hops <= 0 {
					return "", false
				}
				if a.varFresh(v) {
					if hops == 1 {
						return "", false
					}
					return "freshpath", true
				}
				return "local", true
			default: // captured
				if hops <= 0 {
					return "captured", true
				}
				if a.varFresh(v) {
					if hops == 1 {
						return "capturedfresh", true
					}
					return "capturedfreshpath", true
				}
				return "captured", true
			}
		default:
			return "other", true
		}
	}
}

// declaringBody: the body (n or one it is nested in) that declares v
func (a *swAnalysis) declaringBody(n *swNode, v *types.Var) *swNode {
	for m := n; m != nil; m = m.parent {
		if m.owned[v] {
			return m
		}
	}
	return nil
}

// declaredIn: "@decl" when the captured variable belongs to the declared function itself, "@lit" when to a literal
func (a *swAnalysis) declaredIn(n *swNode, v *types.Var) string {
	if d := a.declaringBody(n, v); d != nil && d.lit {
		return "@lit"
	}
	return "@decl"
}

// capturedBase: a captured variable whose declaring body never runs during an evaluation (it runs when the generator is
// configured, or inside Generate / Parse only) outlives every evaluation
func (a *swAnalysis) capturedBase(n *swNode, v *types.Var, base string) string {
	if d := a.declaringBody(n, v); d != nil && !d.reach[0] {
		if !d.reach[1] && !d.reach[2] {
			// the declaring body runs neither during evaluations nor inside Generate / Parse: a variable of the configuration
			// phase (or of a package initialiser), shared by everything that runs later
			return base + "-config"
		}
		return base + "-outlives"
	}
	return base
}

// rootVar: the variable an access path starts from
func (a *swAnalysis) rootVar(n *swNode, e ast.Expr) *types.Var {
	for {
		e = swUnparen(e)
		switch x := e.(type) {
		case *ast.StarExpr:
			e = x.X
		case *ast.TypeAssertExpr:
			e = x.X
		case *ast.IndexExpr:
			e = x.X
		case *ast.SliceExpr:
			e = x.X
		case *ast.SelectorExpr:
			e = x.X
		case *ast.UnaryExpr:
			e = x.X
		case *ast.Ident:
			if v, ok := n.pkg.info.Uses[x].(*types.Var); ok {
				return v
			}
			return nil
		default:
			return nil
		}
	}
}

type swGuardInfo struct {
	locks   []swLockCall
	unlocks []swLockCall
}

type swLockCall struct {
	pos      token.Pos
	text     string
	read     bool
	deferred bool
}

func swIsSyncType(t types.Type, names ...string) bool {
	n := swNamed(t)
	if n == nil || n.Obj().Pkg() == nil {
		return false
	}
	if p := n.Obj().Pkg().Path(); p != "sync" && p != "sync/atomic" {
		return false
	}
	for _, nm := range names {
		if n.Obj().Name() == nm {
			return true
		}
	}
	return len(names) == 0
}

func (a *swAnalysis) guards(n *swNode) swGuardInfo {
	var g swGuardInfo
	info := n.pkg.info
	deferred := map[*ast.CallExpr]bool{}
	a.walkOwn(n, func(x ast.Node) {
		if d, ok := x.(*ast.DeferStmt); ok {
			deferred[d.Call] = true
		}
		call, ok := x.(*ast.CallExpr)
		if !ok {
			return
		}
		sel, ok := swUnparen(call.Fun).(*ast.SelectorExpr)
		if !ok {
			return
		}
		if !swIsSyncType(info.TypeOf(sel.X), "Mutex", "RWMutex") {
			return
		}
		lc := swLockCall{pos: call.Pos(), text: oneLine(exprText(a.l.fset, sel.X)), deferred: deferred[call]}
		switch sel.Sel.Name {
		case "Lock":
			g.locks = append(g.locks, lc)
		case "RLock":
			lc.read = true
			g.locks = append(g.locks, lc)
		case "Unlock", "RUnlock":
			g.unlocks = append(g.unlocks, lc)
		}
	})
	return g
}

func (g swGuardInfo) at(pos token.Pos) string {
	best := ""
	for _, l := range g.locks {
		if l.pos >= pos {
			continue
		}
		released := false
		for _, u := range g.unlocks {
			if u.text == l.text && !u.deferred && u.pos > l.pos && u.pos < pos {
				released = true
			}
		}
		if !released {
			if l.read {
				best = "rlock:" + l.text
			} else {
				return "mutex:" + l.text
			}
		}
	}
	return best
}

// lazyGuard: the write at `pos` sits in `if X == nil { … X = … }` (also `!X`, `len(X) == 0`): an unsynchronised lazy initialisation
func (a *swAnalysis) lazyGuard(stack []ast.Node) string {
	for i := len(stack) - 1; i >= 0; i-- {
		ifs, ok := stack[i].(*ast.IfStmt)
		if !ok {
			continue
		}
		// only when we are inside the body, not the condition / else
		if i+1 < len(stack) && stack[i+1] != ast.Node(ifs.Body) {
			continue
		}
		var x ast.Expr
		switch c := swUnparen(ifs.Cond).(type) {
		case *ast.BinaryExpr:
			if c.Op == token.EQL {
				if id, ok := swUnparen(c.Y).(*ast.Ident); ok && id.Name == "nil" {
					x = c.X
				} else if lit, ok := swUnparen(c.Y).(*ast.BasicLit); ok && lit.Value == "0" {
					if call, ok := swUnparen(c.X).(*ast.CallExpr); ok && len(call.Args) == 1 && exprText(a.l.fset, call.Fun) == "len" {
						x = call.Args[0]
					}
				}
			}
		case *ast.UnaryExpr:
			if c.Op == token.NOT {
				x = c.X
			}
		}
		if x == nil {
			continue
		}
		xt := oneLine(exprText(a.l.fset, x))
		assigned := false
		ast.Inspect(ifs.Body, func(m ast.Node) bool {
			if as, ok := m.(*ast.AssignStmt); ok {
				for _, l := range as.Lhs {
					if oneLine(exprText(a.l.fset, l)) == xt {
						assigned = true
					}
				}
			}
			return true
		})
		if assigned {
			return "unsync-lazy-init:" + xt
		}
	}
	return ""
}

// ownerOf: the named repository type the written location belongs to — the struct whose field is written (also for elements and
// appends below a field), or the named type of the variable an element store goes through (value.MethodMap); "" otherwise
func (a *swAnalysis) ownerOf(n *swNode, e ast.Expr) string {
	info := n.pkg.info
	for {
		e = swUnparen(e)
		switch x := e.(type) {
		case *ast.StarExpr:
			e = x.X
		case *ast.TypeAssertExpr:
			e = x.X
		case *ast.IndexExpr:
			e = x.X
		case *ast.SliceExpr:
			e = x.X
		case *ast.UnaryExpr:
			e = x.X
		case *ast.SelectorExpr:
			if sel, ok := info.Selections[x]; ok && sel.Kind() == types.FieldVal {
				if nm := swNamed(sel.Recv()); nm != nil {
					return a.relPkg(nm.Obj().Pkg()) + "." + nm.Obj().Name()
				}
				return ""
			}
			return ""
		case *ast.Ident:
			if t := info.TypeOf(x); t != nil {
				if nm := swNamed(t); nm != nil && a.isRepo(nm.Obj().Pkg()) {
					return a.relPkg(nm.Obj().Pkg()) + "." + nm.Obj().Name()
				}
			}
			return ""
		default:
			return ""
		}
	}
}

func (a *swAnalysis) addRow(n *swNode, kind, target, guard, base string) {
	a.addRowO(n, kind, target, guard, base, "")
}

func (a *swAnalysis) addRowO(n *swNode, kind, target, guard, base, owner string) {
	fn := n.file + "|" + n.decl
	if n.lit {
		fn += "$lit"
	}
	key := strings.Join([]string{fn, kind, target, guard, base}, "\x00")
	r := a.rows[key]
	if r == nil {
		r = &swRow{fn: fn, kind: kind, target: target, guard: guard, base: base, owner: owner}
		a.rows[key] = r
	}
	r.count++
	for i := range r.reach {
		r.reach[i] = r.reach[i] || n.reach[i]
	}
}

var swSortFuncs = map[string]bool{"sort.Slice": true, "sort.SliceStable": true, "sort.Sort": true, "sort.Stable": true, "sort.Strings": true, "sort.Ints": true,
	"sort.Float64s": true, "slices.Sort": true, "slices.SortFunc": true, "slices.SortStableFunc": true, "slices.Reverse": true, "math/rand.Shuffle": true}

// writes lists the writes of one body
func (a *swAnalysis) writes(n *swNode) {
	info := n.pkg.info
	g := a.guards(n)
	var stack []ast.Node
	guardAt := func(pos token.Pos) string {
		if n.onceBody {
			return "once"
		}
		if m := g.at(pos); m != "" {
			return m
		}
		if lz := a.lazyGuard(stack); lz != "" {
			return lz
		}
		return "none"
	}
	store := func(lhs ast.Expr, pos token.Pos) {
		lhs = swUnparen(lhs)
		if id, ok := lhs.(*ast.Ident); ok {
			if id.Name == "_" {
				return
			}
			v, _ := info.Uses[id].(*types.Var)
			if v == nil {
				return
			}
			switch a.varClass(n, v) {
			case "global":
				a.addRow(n, "pkgvar", a.nameOf(n, id), guardAt(pos), "global")
			case "captured":
				a.addRow(n, "captured", id.Name+a.declaredIn(n, v), guardAt(pos), a.capturedBase(n, v, "captured"))
			}
			return
		}
		base, list := a.rootOf(n, lhs, 0)
		if !list {
			return
		}
		if strings.HasPrefix(base, "captured") {
			if v := a.rootVar(n, lhs); v != nil {
				base = a.capturedBase(n, v, base)
			}
		}
		kind := "other"
		switch x := lhs.(type) {
		case *ast.SelectorExpr:
			kind = "field"
			if _, ok := info.Selections[x]; !ok {
				kind = "pkgvar"
			}
		case *ast.IndexExpr:
			kind = "elem"
		case *ast.StarExpr:
			kind = "deref"
		}
		a.addRowO(n, kind, a.nameOf(n, lhs), guardAt(pos), base, a.ownerOf(n, lhs))
	}
	elems := func(kind string, arg ast.Expr, pos token.Pos, guard string) {
		base, list := a.rootOf(n, arg, 1)
		if !list {
			return
		}
		if strings.HasPrefix(base, "captured") {
			if v := a.rootVar(n, arg); v != nil {
				base = a.capturedBase(n, v, base)
			}
		}
		if guard == "" {
			guard = guardAt(pos)
		}
		a.addRowO(n, kind, a.nameOf(n, arg), guard, base, a.ownerOf(n, arg))
	}
	selfAppend := map[*ast.CallExpr]bool{}
	ast.Inspect(n.body, func(x ast.Node) bool {
		if x == nil {
			stack = stack[:len(stack)-1]
			return false
		}
		if _, ok := x.(*ast.FuncLit); ok {
			return false
		}
		stack = append(stack, x)
		switch s := x.(type) {
		case *ast.AssignStmt:
			if s.Tok != token.DEFINE {
				for i, l := range s.Lhs {
					store(l, s.Pos())
					if len(s.Lhs) == len(s.Rhs) {
						if call, ok := swUnparen(s.Rhs[i]).(*ast.CallExpr); ok && len(call.Args) > 0 {
							if b, ok := swCallee(info, call.Fun).(*types.Builtin); ok && b.Name() == "append" &&
								oneLine(exprText(a.l.fset, call.Args[0])) == oneLine(exprText(a.l.fset, l)) {
								if _, isIdent := swUnparen(l).(*ast.Ident); !isIdent {
									selfAppend[call] = true // listed as the store to the field
								}
							}
						}
					}
				}
			}
		case *ast.IncDecStmt:
			store(s.X, s.Pos())
		case *ast.RangeStmt:
			if s.Tok == token.ASSIGN {
				if s.Key != nil {
					store(s.Key, s.Pos())
				}
				if s.Value != nil {
					store(s.Value, s.Pos())
				}
			}
		case *ast.UnaryExpr:
			if s.Op == token.AND {
				if base, _ := a.rootOf(n, s.X, 0); base == "global" {
					a.addRow(n, "addr", a.nameOf(n, s.X), guardAt(s.Pos()), "global")
				}
			}
		case *ast.CallExpr:
			switch o := swCallee(info, s.Fun).(type) {
			case *types.Builtin:
				if len(s.Args) == 0 {
					break
				}
				switch o.Name() {
				case "append":
					if !selfAppend[s] {
						elems("append", s.Args[0], s.Pos(), "")
					}
				case "copy", "delete", "clear":
					elems(o.Name(), s.Args[0], s.Pos(), "")
				}
			case *types.Func:
				if o.Pkg() == nil {
					break
				}
				full := o.Pkg().Path() + "." + o.Name()
				sig, _ := o.Type().(*types.Signature)
				if sig != nil && sig.Recv() == nil && swSortFuncs[full] && len(s.Args) > 0 {
					elems("sort", s.Args[0], s.Pos(), "")
				}
				if o.Pkg().Path() == "sync/atomic" {
					if sig != nil && sig.Recv() == nil && len(s.Args) > 0 && !strings.HasPrefix(o.Name(), "Load") {
						if u, ok := swUnparen(s.Args[0]).(*ast.UnaryExpr); ok && u.Op == token.AND {
							if base, list := a.rootOf(n, u.X, 0); list {
								a.addRow(n, "atomic", a.nameOf(n, u.X), "atomic", base)
							}
						}
					} else if sig != nil && sig.Recv() != nil && o.Name() != "Load" {
						if sel, ok := swUnparen(s.Fun).(*ast.SelectorExpr); ok {
							if base, list := a.rootOf(n, sel.X, 0); list {
								a.addRow(n, "atomic", a.nameOf(n, sel.X), "atomic", base)
							}
						}
					}
				}
				// a pointer-receiver method called on an addressable package-level value: its address is passed on
				if sig != nil && sig.Recv() != nil {
					if sel, ok := swUnparen(s.Fun).(*ast.SelectorExpr); ok {
						if se, ok := info.Selections[sel]; ok && !se.Indirect() {
							if _, ptr := sig.Recv().Type().(*types.Pointer); ptr {
								if _, isPtr := info.TypeOf(sel.X).(*types.Pointer); !isPtr {
									if base, _ := a.rootOf(n, sel.X, 0); base == "global" && !swIsSyncType(info.TypeOf(sel.X)) {
										a.addRow(n, "addr", a.nameOf(n, sel.X), guardAt(s.Pos()), "global")
									}
								}
							}
						}
					}
				}
			}
		}
		return true
	})
}

// ---------------------------------------------------------------------------------------------------------------
// call graph

func swSigCompat(x, y *types.Signature) bool {
	if x.Params().Len() != y.Params().Len() || x.Results().Len() != y.Results().Len() || x.Variadic() != y.Variadic() {
		return false
	}
	for i := 0; i < x.Params().Len(); i++ {
		if !swCompat(x.Params().At(i).Type(), y.Params().At(i).Type()) {
			return false
		}
	}
	for i := 0; i < x.Results().Len(); i++ {
		if !swCompat(x.Results().At(i).Type(), y.Results().At(i).Type()) {
			return false
		}
	}
	return true
}

// swCompat: identical up to type parameters (a type parameter matches anything)
func swCompat(x, y types.Type) bool {
	x, y = types.Unalias(x), types.Unalias(y)
	if _, ok := x.(*types.TypeParam); ok {
		return true
	}
	if _, ok := y.(*types.TypeParam); ok {
		return true
	}
	switch p := x.(type) {
	case *types.Named:
		q, ok := y.(*types.Named)
		if !ok || p.Origin().Obj() != q.Origin().Obj() {
			return false
		}
		ta, tb := p.TypeArgs(), q.TypeArgs()
		if ta.Len() != tb.Len() {
			return true
		}
		for i := 0; i < ta.Len(); i++ {
			if !swCompat(ta.At(i), tb.At(i)) {
				return false
			}
		}
		return true
	case *types.Pointer:
		q, ok := y.(*types.Pointer)
		return ok && swCompat(p.Elem(), q.Elem())
	case *types.Slice:
		q, ok := y.(*types.Slice)
		return ok && swCompat(p.Elem(), q.Elem())
	case *types.Array:
		q, ok := y.(*types.Array)
		return ok && p.Len() == q.Len() && swCompat(p.Elem(), q.Elem())
	case *types.Map:
		q, ok := y.(*types.Map)
		return ok && swCompat(p.Key(), q.Key()) && swCompat(p.Elem(), q.Elem())
	case *types.Chan:
		q, ok := y.(*types.Chan)
		return ok && swCompat(p.Elem(), q.Elem())
	case *types.Signature:
		q, ok := y.(*types.Signature)
		return ok && swSigCompat(p, q)
	case *types.Basic:
		q, ok := y.(*types.Basic)
		return ok && p.Kind() == q.Kind()
	}
	return types.Identical(x, y)
}

func swSigOf(t types.Type) *types.Signature {
	if t == nil {
		return nil
	}
	s, _ := t.Underlying().(*types.Signature)
	return s
}

// paramOwner: if v is a parameter of n or of a body n is nested in, that body and the parameter's position
func (a *swAnalysis) paramOwner(n *swNode, v *types.Var) (*swNode, int) {
	for m := n; m != nil; m = m.parent {
		if m.params[v] == "param" && m.fnType != nil && m.fnType.Params != nil {
			i := 0
			for _, f := range m.fnType.Params.List {
				if len(f.Names) == 0 {
					i++
					continue
				}
				for _, nm := range f.Names {
					if m.pkg.info.Defs[nm] == types.Object(v) {
						return m, i
					}
					i++
				}
			}
		}
	}
	return nil, 0
}

func (a *swAnalysis) identVar(info *types.Info, e ast.Expr) *types.Var {
	if id, ok := swUnparen(e).(*ast.Ident); ok {
		if v, ok := info.Uses[id].(*types.Var); ok {
			return v
		}
	}
	return nil
}

func (a *swAnalysis) edges(n *swNode) {
	info := n.pkg.info
	inCallPos := map[ast.Expr]bool{}
	addRef := func(e ast.Expr, direct bool) {
		// e denotes a function value: a literal or a reference to a declared function / method
		e = swUnparen(e)
		var targets []*swNode
		if fl, ok := e.(*ast.FuncLit); ok {
			targets = append(targets, a.byLit[fl])
		} else if swIsFuncObj(info, e) || func() bool { _, ok := e.(*ast.IndexExpr); return ok }() {
			if f, ok := swCallee(info, e).(*types.Func); ok {
				if t := a.byObj[f.Origin()]; t != nil {
					targets = append(targets, t)
				} else if sig, ok := f.Type().(*types.Signature); ok && sig.Recv() != nil && a.isRepo(f.Pkg()) {
					targets = append(targets, a.methods[f.Name()]...) // a method value of an interface
				}
			}
		}
		for _, t := range targets {
			if t == nil {
				continue
			}
			if direct {
				n.edges[t.id] = true
			}
			a.taken[t] = true
			a.refs = append(a.refs, swRef{target: t, typ: info.TypeOf(e)})
		}
	}
	a.walkOwn(n, func(x ast.Node) {
		call, ok := x.(*ast.CallExpr)
		if !ok {
			return
		}
		fun := swUnparen(call.Fun)
		inCallPos[fun] = true
		if ix, ok := fun.(*ast.IndexExpr); ok {
			inCallPos[swUnparen(ix.X)] = true
		}
		if ix, ok := fun.(*ast.IndexListExpr); ok {
			inCallPos[swUnparen(ix.X)] = true
		}
		if tv, ok := info.Types[call.Fun]; ok && tv.IsType() {
			return // conversion
		}
		if fl, ok := fun.(*ast.FuncLit); ok {
			n.edges[a.byLit[fl].id] = true
			return
		}
		switch o := swCallee(info, call.Fun).(type) {
		case *types.Builtin, *types.TypeName:
			return
		case *types.Func:
			sig, _ := o.Type().(*types.Signature)
			if sig != nil && sig.Recv() != nil {
				rt := sig.Recv().Type()
				if _, isIface := rt.Underlying().(*types.Interface); isIface {
					if a.isRepo(o.Pkg()) || true {
						a.ifaces = append(a.ifaces, swIface{from: n, name: o.Name(), sig: sig, site: swCallSite{caller: n, args: call.Args, spread: call.Ellipsis.IsValid()}})
						for _, arg := range call.Args {
							arg = swUnparen(arg)
							if _, ok := arg.(*ast.FuncLit); ok || swIsFuncObj(info, arg) {
								addRef(arg, true)
								inCallPos[arg] = true
							}
						}
					}
					return
				}
			}
			if t := a.byObj[o.Origin()]; t != nil {
				n.edges[t.id] = true
				a.sites[t] = append(a.sites[t], swCallSite{caller: n, args: call.Args, spread: call.Ellipsis.IsValid()})
				for _, arg := range call.Args {
					arg = swUnparen(arg)
					if _, ok := arg.(*ast.FuncLit); ok || swIsFuncObj(info, arg) {
						addRef(arg, true) // the callee (or whoever it hands the value to) calls it while this body is running, or keeps it
						inCallPos[arg] = true
					}
				}
				return
			}
			// a function outside the repository: whatever it is handed may be called back
			if o.Pkg() != nil && o.Pkg().Path() == "sync" && (o.Name() == "Do" || strings.HasPrefix(o.Name(), "Once")) {
				for _, arg := range call.Args {
					if fl, ok := swUnparen(arg).(*ast.FuncLit); ok {
						a.byLit[fl].onceBody = true
					}
				}
			}
			args := append([]ast.Expr{}, call.Args...)
			if sel, ok := fun.(*ast.SelectorExpr); ok {
				if _, isSel := info.Selections[sel]; isSel {
					args = append(args, sel.X)
				}
			}
			for _, arg := range args {
				arg = swUnparen(arg)
				if _, ok := arg.(*ast.FuncLit); ok || swIsFuncObj(info, arg) {
					before := len(a.refs)
					addRef(arg, true)
					for _, r := range a.refs[before:] {
						a.extCallbacks[r.target] = true
					}
					inCallPos[arg] = true // handled
					continue
				}
				t := info.TypeOf(arg)
				if t == nil {
					continue
				}
				if s := swSigOf(t); s != nil {
					a.dyns = append(a.dyns, swDyn{from: n, sig: s})
					continue
				}
				if nm := swNamed(t); nm != nil && a.isRepo(nm.Obj().Pkg()) {
					for _, m := range a.byType[nm.Origin().Obj()] {
						n.edges[m.id] = true
					}
				}
				if _, isIface := t.Underlying().(*types.Interface); isIface {
					for name := range swCallbackNames {
						for _, m := range a.methods[name] {
							n.edges[m.id] = true
						}
					}
				}
			}
			return
		}
		// a call through a function value
		if s := swSigOf(info.TypeOf(call.Fun)); s != nil {
			if v := a.identVar(info, call.Fun); v != nil {
				if owner, idx := a.paramOwner(n, v); owner != nil {
					a.pdyns = append(a.pdyns, swParamDyn{from: n, owner: owner, idx: idx, typ: info.TypeOf(call.Fun)})
					return
				}
			}
			a.dyns = append(a.dyns, swDyn{from: n, sig: s})
		}
	})
	// range over a function: `range m.Iter` calls the method (the loop body is the callback and belongs to this body);
	// `range l.iterable(st)` calls the function value the call returns
	a.walkOwn(n, func(x ast.Node) {
		r, ok := x.(*ast.RangeStmt)
		if !ok {
			return
		}
		s := swSigOf(info.TypeOf(r.X))
		if s == nil {
			return
		}
		fx := swUnparen(r.X)
		if swIsFuncObj(info, fx) {
			if f, ok := swCallee(info, fx).(*types.Func); ok {
				mark := func() {
					inCallPos[fx] = true
					if sel, ok := fx.(*ast.SelectorExpr); ok {
						inCallPos[sel.Sel] = true
					}
				}
				if t := a.byObj[f.Origin()]; t != nil {
					n.edges[t.id] = true
					a.sites[t] = append(a.sites[t], swCallSite{caller: n, args: nil, spread: false})
					mark()
					return
				}
				if fs, ok := f.Type().(*types.Signature); ok && fs.Recv() != nil {
					if _, isIface := fs.Recv().Type().Underlying().(*types.Interface); isIface {
						a.ifaces = append(a.ifaces, swIface{from: n, name: f.Name(), sig: fs, site: swCallSite{caller: n}})
						mark()
						return
					}
				}
			}
		}
		if v := a.identVar(info, fx); v != nil {
			if owner, idx := a.paramOwner(n, v); owner != nil {
				a.pdyns = append(a.pdyns, swParamDyn{from: n, owner: owner, idx: idx, typ: info.TypeOf(fx)})
				return
			}
		}
		a.dyns = append(a.dyns, swDyn{from: n, sig: s})
	})
	// function values that are not called on the spot
	a.walkOwn(n, func(x ast.Node) {
		e, ok := x.(ast.Expr)
		if !ok {
			return
		}
		if _, isSel := e.(*ast.SelectorExpr); !isSel && inCallPos[e] {
			return
		}
		switch v := e.(type) {
		case *ast.Ident:
			if _, ok := info.Uses[v].(*types.Func); ok {
				addRef(v, false)
			}
		case *ast.SelectorExpr:
			inCallPos[v.Sel] = true
			if _, ok := info.Uses[v.Sel].(*types.Func); ok && !inCallPos[e] {
				addRef(v, false)
			}
		}
	})
	ast.Inspect(n.body, func(x ast.Node) bool {
		if fl, ok := x.(*ast.FuncLit); ok {
			// whoever creates a function literal may have it called (it is returned to, or stored for, code outside the
			// repository, or called later by the creator's callers): the creator reaches it
			n.edges[a.byLit[fl].id] = true
			if !inCallPos[ast.Expr(fl)] {
				a.refs = append(a.refs, swRef{target: a.byLit[fl], typ: info.TypeOf(fl)})
			}
			return false
		}
		return true
	})
}

// paramValues: what a function-typed parameter can hold. `types`: static types under which its values have to be looked up
// in the pool of all function values (the declaring function is itself used as a value, or a call site passes something
// that is not a literal / declared function). `targets`: the literals and declared functions passed at the call sites —
// needed only when the parameter is CAPTURED by a literal that calls it later (MethodAtType: the method is called when the
// returned function runs, not while the caller of MethodAtType is running); for a call on the spot the caller of the
// declaring function already has the edge to the literal it passes.
func (a *swAnalysis) paramValues(owner *swNode, idx int, declared types.Type, captured bool, seen map[[2]int]bool) (targets []*swNode, typs []types.Type) {
	key := [2]int{owner.id, idx}
	if seen[key] {
		return nil, nil
	}
	seen[key] = true
	if owner.lit || a.taken[owner] || owner.obj == nil {
		return nil, []types.Type{declared}
	}
	for _, cs := range a.sites[owner] {
		if cs.args == nil {
			continue // range-over-func: the callback is the loop body of the caller
		}
		if cs.spread || idx >= len(cs.args) {
			typs = append(typs, declared)
			continue
		}
		info := cs.caller.pkg.info
		arg := swUnparen(cs.args[idx])
		if fl, ok := arg.(*ast.FuncLit); ok {
			if captured {
				targets = append(targets, a.byLit[fl])
			}
			continue
		}
		if swIsFuncObj(info, arg) {
			if captured {
				if f, ok := swCallee(info, arg).(*types.Func); ok {
					if t := a.byObj[f.Origin()]; t != nil {
						targets = append(targets, t)
					} else {
						typs = append(typs, info.TypeOf(arg))
					}
				}
			}
			continue
		}
		if v := a.identVar(info, arg); v != nil {
			if o2, i2 := a.paramOwner(cs.caller, v); o2 != nil {
				t2, y2 := a.paramValues(o2, i2, info.TypeOf(arg), captured, seen)
				targets = append(targets, t2...)
				typs = append(typs, y2...)
				continue
			}
		}
		typs = append(typs, info.TypeOf(arg))
	}
	return targets, typs
}

func (a *swAnalysis) resolve() {
	for _, ic := range a.ifaces {
		for _, m := range a.methods[ic.name] {
			ms, _ := m.obj.Type().(*types.Signature)
			if ms != nil && swSigCompat(ic.sig, ms) {
				ic.from.edges[m.id] = true
				a.sites[m] = append(a.sites[m], ic.site)
			}
		}
	}
	for _, pd := range a.pdyns {
		targets, typs := a.paramValues(pd.owner, pd.idx, pd.typ, pd.from != pd.owner, map[[2]int]bool{})
		for _, t := range targets {
			pd.from.edges[t.id] = true
		}
		for _, t := range typs {
			a.dyns = append(a.dyns, swDyn{from: pd.from, sig: t})
		}
	}
	for _, d := range a.dyns {
		ds := swSigOf(d.sig)
		if ds == nil {
			continue
		}
		// a value of a function type that is declared outside the repository (iterator.Producer, …) may have been built
		// there from any callback the repository ever handed out
		if nm := swNamed(d.sig); nm != nil && !a.isRepo(nm.Obj().Pkg()) {
			for t := range a.extCallbacks {
				d.from.edges[t.id] = true
			}
		}
		for _, r := range a.refs {
			if rs := swSigOf(r.typ); rs != nil && swSigCompat(ds, rs) {
				d.from.edges[r.target.id] = true
			}
		}
	}
}

func (a *swAnalysis) nodeName(n *swNode) string {
	s := n.decl
	if n.lit {
		s += "$lit@" + fmt.Sprint(a.l.fset.Position(n.body.Pos()).Line)
	}
	return s
}

func (a *swAnalysis) reachFrom(roots []*swNode, slot int) int {
	var queue []*swNode
	parent := map[int]*swNode{}
	defer func() {
		if want := os.Getenv("VERIF_SW_PATH"); want != "" {
			for _, n := range a.nodes {
				if a.nodeName(n) == want && n.reach[slot] {
					fmt.Fprintf(os.Stderr, "slot %d:", slot)
					for m := n; m != nil; m = parent[m.id] {
						fmt.Fprintf(os.Stderr, " <- %s", a.nodeName(m))
					}
					fmt.Fprintln(os.Stderr)
				}
			}
		}
	}()
	for _, r := range roots {
		if !r.reach[slot] {
			r.reach[slot] = true
			queue = append(queue, r)
		}
	}
	count := 0
	for len(queue) > 0 {
		n := queue[0]
		queue = queue[1:]
		count++
		for id := range n.edges {
			m := a.nodes[id]
			if !m.reach[slot] {
				m.reach[slot] = true
				parent[m.id] = n
				queue = append(queue, m)
			}
		}
	}
	return count
}

func extractSharedWrites() {
	l := &swLoader{fset: token.NewFileSet(), modDirs: map[string]string{}, pkgs: map[string]*swPkg{}, external: map[string]*types.Package{}, loading: map[string]bool{}}
	if build.Default.GOROOT == "" {
		build.Default.GOROOT = swGoEnv("GOROOT")
	}
	if _, err := os.Stat(filepath.Join(build.Default.GOROOT, "src", "fmt")); err != nil {
		build.Default.GOROOT = swGoEnv("GOROOT")
	}
	l.std = importer.ForCompiler(l.fset, "source", nil)
	modCache := swGoEnv("GOMODCACHE")
	gomod, err := os.ReadFile(filepath.Join(repoRoot, "go.mod"))
	if err != nil {
		fatal("extract shared writes: %v", err)
	}
	for _, line := range strings.Split(string(gomod), "\n") {
		f := strings.Fields(line)
		if len(f) >= 2 && f[0] == "module" {
			l.modPath = f[1]
		}
		if len(f) >= 3 && f[0] == "require" {
			f = f[1:]
		}
		if len(f) >= 2 && strings.Contains(f[0], "/") && strings.HasPrefix(f[1], "v") {
			l.modDirs[f[0]] = filepath.Join(modCache, swEscapeModPath(f[0])+"@"+f[1])
		}
	}
	if l.modPath == "" {
		fatal("extract shared writes: no module line in go.mod")
	}
	// every directory of the tree with non-test Go files
	var dirs []string
	filepath.WalkDir(repoRoot, func(path string, d os.DirEntry, err error) error {
		if err != nil {
			return nil
		}
		if d.IsDir() {
			if n := d.Name(); path != repoRoot && (strings.HasPrefix(n, ".") || n == "testdata" || n == "vendor") {
				return filepath.SkipDir
			}
			return nil
		}
		n := d.Name()
		if strings.HasSuffix(n, ".go") && !strings.HasSuffix(n, "_test.go") && !strings.HasSuffix(n, "_verif.go") {
			dir := filepath.Dir(path)
			if len(dirs) == 0 || dirs[len(dirs)-1] != dir {
				dirs = append(dirs, dir)
			}
		}
		return nil
	})
	sort.Strings(dirs)
	a := &swAnalysis{l: l, byObj: map[*types.Func]*swNode{}, byLit: map[*ast.FuncLit]*swNode{}, methods: map[string][]*swNode{}, byType: map[*types.TypeName][]*swNode{},
		varDefs: map[*types.Var][]ast.Expr{}, varUnknown: map[*types.Var]bool{}, fresh: map[*types.Var]int{}, retFresh: map[*types.Func]int{}, rows: map[string]*swRow{},
		paramVars: map[*types.Var]bool{}, firstOfTuple: map[*ast.CallExpr]bool{}, extCallbacks: map[*swNode]bool{}, sites: map[*swNode][]swCallSite{}, taken: map[*swNode]bool{}}
	seenDir := map[string]bool{}
	for _, d := range dirs {
		if seenDir[d] {
			continue
		}
		seenDir[d] = true
		rel, _ := filepath.Rel(repoRoot, d)
		path := l.modPath
		if rel != "." {
			path += "/" + filepath.ToSlash(rel)
		}
		l.loadRepo(path)
	}
	var paths []string
	for p := range l.pkgs {
		paths = append(paths, p)
	}
	sort.Strings(paths)
	for _, p := range paths {
		a.collect(l.pkgs[p])
	}
	for _, n := range a.nodes {
		for v, k := range n.params {
			if k != "result" {
				a.paramVars[v] = true
			}
		}
	}
	for _, n := range a.nodes {
		a.recordDefs(n)
	}
	for _, n := range a.nodes {
		a.edges(n)
	}
	a.resolve()

	// entry points
	find := func(decl string) *swNode {
		for _, n := range a.nodes {
			if !n.lit && n.decl == decl {
				return n
			}
		}
		fatal("extract shared writes: entry point %s not found", decl)
		return nil
	}
	evalRootNames := []string{"funcGen.Func.Eval", "funcGen.Function.Eval", "funcGen.Function.EvalSt", "value.Closure.Eval", "value.Closure.EvalSt"}
	var evalRoots, genRoots, parseRoots []*swNode
	for _, nm := range evalRootNames {
		evalRoots = append(evalRoots, find(nm))
	}
	listMethods := 0
	for _, n := range a.nodes {
		if !n.lit && strings.HasPrefix(n.decl, "value.List.") && n.obj != nil && n.obj.Exported() {
			evalRoots = append(evalRoots, n)
			evalRootNames = append(evalRootNames, n.decl)
			listMethods++
		}
	}
	// host-side consumers of results: the exported functions and methods of value/export (not the Add…Helpers builders)
	exportFuncs := 0
	for _, n := range a.nodes {
		if !n.lit && n.pkg.rel == "value/export" && n.obj != nil && n.obj.Exported() && !strings.HasPrefix(n.obj.Name(), "Add") {
			evalRoots = append(evalRoots, n)
			evalRootNames = append(evalRootNames, n.decl)
			exportFuncs++
		}
	}
	if exportFuncs < 3 {
		fatal("extract shared writes: only %d exported functions of value/export found", exportFuncs)
	}
	if listMethods < 20 {
		fatal("extract shared writes: only %d exported methods of *value.List found", listMethods)
	}
	genRootNames := []string{"funcGen.FunctionGenerator.Generate", "funcGen.FunctionGenerator.GenerateWithMap", "funcGen.FunctionGenerator.GenerateFromString",
		"funcGen.FunctionGenerator.GenerateFunc", "funcGen.FunctionGenerator.CreateAst"}
	for _, nm := range genRootNames {
		genRoots = append(genRoots, find(nm))
	}
	parseRoots = append(parseRoots, find("parser2.Parser.Parse"))
	nEval := a.reachFrom(evalRoots, 0)
	nGen := a.reachFrom(genRoots, 1)
	nParse := a.reachFrom(parseRoots, 2)

	for _, n := range a.nodes {
		a.writes(n)
	}
	var rows []*swRow
	for _, r := range a.rows {
		rows = append(rows, r)
	}
	sort.Slice(rows, func(i, j int) bool {
		x, y := rows[i], rows[j]
		if x.fn != y.fn {
			return x.fn < y.fn
		}
		if x.target != y.target {
			return x.target < y.target
		}
		if x.kind != y.kind {
			return x.kind < y.kind
		}
		if x.guard != y.guard {
			return x.guard < y.guard
		}
		return x.base < y.base
	})
	lits, edges := 0, 0
	for _, n := range a.nodes {
		if n.lit {
			lits++
		}
		edges += len(n.edges)
	}
	var b strings.Builder
	b.WriteString("/-! GENERATED by `tie extract` (go/parser + go/types on every non-test, non-_verif file of the repository): every write to\nstate that is not an object created in the writing function itself — package-level variables, fields and elements reached\nthrough receivers, parameters, captured variables, globals —, the guard it is under, and whether the writing body is\nreachable from the run-time entry points, from Generate and from Parser.Parse (over-approximate call graph). Do not edit. -/\nnamespace P2.Generated\n\n")
	b.WriteString("/-- one class of writes of one function body. `fn` = file|declaration (`$lit`: inside a function literal of it);\n`kind` = pkgvar | field | elem | deref | captured | append | copy | delete | clear | sort | atomic | addr;\n`guard` = none | mutex:<expr> | rlock:<expr> | once | atomic | unsync-lazy-init:<expr>;\n`base` = what the written access path starts from: global | recv | param | local (a local that is not fresh) | captured |\ncapturedfresh | freshpath | capturedfreshpath | call | other;\n`owner` = the named type the written location belongs to (the struct of the written field, the named type of the variable an\nelement store goes through), \"\" otherwise; a captured base ends in `-outlives` when the body that declares\nthe variable is not reachable from the run-time entry points but from Generate / Parse (the variable outlives every evaluation),\nin `-config` when it is reachable from none of them (a variable of the configuration phase, shared by all later operations); the target of a `captured` write is `name@decl` (a variable of the declared function)\nor `name@lit` (of an enclosing literal) -/\nstructure SharedWrite where\n  fn : String\n  kind : String\n  target : String\n  guard : String\n  base : String\n  owner : String\n  eval : Bool\n  gen : Bool\n  parse : Bool\n\n")
	b.WriteString("def sharedWrites : List SharedWrite := [")
	for i, r := range rows {
		if i > 0 {
			b.WriteString(",")
		}
		fmt.Fprintf(&b, "\n  ⟨%s, %s, %s, %s, %s, %s, %v, %v, %v⟩", leanStr(r.fn), leanStr(r.kind), leanStr(r.target), leanStr(r.guard), leanStr(r.base), leanStr(r.owner), r.reach[0], r.reach[1], r.reach[2])
	}
	b.WriteString("]\n\n")
	fmt.Fprintf(&b, "/-- the entry points the reachability was computed from -/\ndef sharedWriteEvalRoots : List String := %s\n\ndef sharedWriteGenRoots : List String := %s\n\ndef sharedWriteParseRoots : List String := [\"parser2.Parser.Parse\"]\n\n", leanStrList(evalRootNames), leanStrList(genRootNames))
	fmt.Fprintf(&b, "/-- size of the analysed program: function bodies (declared + literals + initialisers), literals among them, call edges,\nbodies reachable from the run-time entry points / Generate / Parse -/\ndef sharedWriteStats : List (String × Nat) := [(\"bodies\", %d), (\"literals\", %d), (\"edges\", %d), (\"evalReach\", %d), (\"genReach\", %d), (\"parseReach\", %d), (\"packages\", %d)]\n\nend P2.Generated\n",
		len(a.nodes), lits, edges, nEval, nGen, nParse, len(l.pkgs))
	writeIfChanged(genPath("SharedWrites.lean"), []byte(b.String()))
}
