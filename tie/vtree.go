package main

// Generated value trees shared by the exporter / map / comparison harnesses.

import (
	"fmt"
	"math"
	"math/rand"
	"strings"

	"github.com/hneemann/iterator"
	"github.com/hneemann/parser2/funcGen"
	"github.com/hneemann/parser2/listMap"
	"github.com/hneemann/parser2/value"
)

type VT struct {
	Kind  byte // 'i' 'f' 's' 'b' 'L' 'M'
	I     int64
	F     float64
	S     string
	B     bool
	Items []*VT
	Keys  []string
	Rep   int
}

var specialRunes = []rune{'\\', '"', '\'', '/', '<', '>', '&', ']', '=', ' ', '\t', '\n', '\r', 0, 1, 7, 8, 11, 12, 0x1b, 0x1f, 0x20, 0x7f, 0x80, 0x9f, 0xa0,
	0xff, 0x2028, 0x2029, 0xd7ff, 0xe000, 0xfeff, 0xfffd, 0xfffe, 0xffff, 0x10000, 0x1f600, 0x10ffff, 'a', 'b', 'é', '√', '×', '•', '{', '}', '[', ',', ':', ';'}

func genString(r *rand.Rand, allowNUL bool) string {
	n := 0
	switch r.Intn(6) {
	case 0:
		n = 0
	case 1:
		n = 1
	default:
		n = 1 + r.Intn(8)
	}
	var b strings.Builder
	for i := 0; i < n; i++ {
		var c rune
		switch r.Intn(4) {
		case 0:
			c = specialRunes[r.Intn(len(specialRunes))]
		case 1:
			c = rune('a' + r.Intn(26))
		case 2:
			c = rune(r.Intn(0x250))
		default:
			c = rune(r.Intn(0x110000))
		}
		if c >= 0xD800 && c <= 0xDFFF {
			c = 0xFFFD
		}
		if c == 0 && !allowNUL {
			c = 1
		}
		b.WriteRune(c)
	}
	return b.String()
}

var floatPool = []float64{0, math.Copysign(0, -1), 1, -1, 0.5, -2.25, 1e300, -1e300, math.Inf(1), math.Inf(-1), 3, 1e21, 123456789.125, 9007199254740993}

func genVT(r *rand.Rand, depth int, strGen func() string) *VT {
	k := r.Intn(10)
	if depth <= 0 && k >= 6 {
		k = r.Intn(6)
	}
	switch {
	case k < 1:
		return &VT{Kind: 'i', I: []int64{0, 1, -1, 42, math.MaxInt64, math.MinInt64, 1 << 53}[r.Intn(7)]}
	case k < 2:
		return &VT{Kind: 'f', F: floatPool[r.Intn(len(floatPool))]}
	case k < 3:
		return &VT{Kind: 'b', B: r.Intn(2) == 0}
	case k < 6:
		return &VT{Kind: 's', S: strGen()}
	case k < 8:
		n := r.Intn(5)
		t := &VT{Kind: 'L', Rep: r.Intn(4)}
		for i := 0; i < n; i++ {
			t.Items = append(t.Items, genVT(r, depth-1, strGen))
		}
		return t
	default:
		n := r.Intn(5)
		t := &VT{Kind: 'M', Rep: r.Intn(8)}
		seen := map[string]bool{}
		for i := 0; i < n; i++ {
			key := strGen()
			if seen[key] {
				continue
			}
			seen[key] = true
			t.Keys = append(t.Keys, key)
			t.Items = append(t.Items, genVT(r, depth-1, strGen))
		}
		return t
	}
}

// vtOneShot: lazy lists built while it is set can be traversed once (a stream behind them); a second traversal
// yields an error item. An exporter has to evaluate a list once.
var vtOneShot bool

func lazyList(items []value.Value, sized bool) *value.List {
	oneShot := vtOneShot
	used := false
	prod := func(st funcGen.Stack[value.Value]) iterator.Producer[value.Value] {
		return func(yield iterator.Consumer[value.Value]) {
			if oneShot {
				if used {
					yield(nil, fmt.Errorf("the list is backed by a stream and was traversed a second time"))
					return
				}
				used = true
			}
			for _, it := range items {
				if !yield(it, nil) {
					return
				}
			}
		}
	}
	if sized {
		return value.NewListFromSizedIterable(prod, len(items))
	}
	return value.NewListFromIterable(prod)
}

// Build constructs the real value in the representation chosen by Rep.
func (t *VT) Build() value.Value {
	switch t.Kind {
	case 'i':
		return value.Int(t.I)
	case 'f':
		return value.Float(t.F)
	case 'b':
		return value.Bool(t.B)
	case 's':
		return value.String(t.S)
	case 'L':
		items := make([]value.Value, len(t.Items))
		for i, it := range t.Items {
			items[i] = it.Build()
		}
		switch t.Rep {
		case 1:
			return lazyList(items, false)
		case 2:
			return lazyList(items, true)
		case 3:
			if len(items) > 0 {
				st := funcGen.NewEmptyStack[value.Value]()
				st.Push(value.NewList(items[:len(items)-1]...))
				st.Push(items[len(items)-1])
				l, err := value.NewList(items[:len(items)-1]...).Append(st.CreateFrame(2))
				if err == nil {
					return l
				}
			}
		}
		return value.NewList(items...)
	default:
		vals := make([]value.Value, len(t.Items))
		for i, it := range t.Items {
			vals[i] = it.Build()
		}
		return buildMap(t.Keys, vals, t.Rep)
	}
}

func putM(m value.Map, k string, v value.Value) value.Map {
	st := funcGen.NewEmptyStack[value.Value]()
	st.Push(m)
	st.Push(value.String(k))
	st.Push(v)
	r, err := m.PutM(st.CreateFrame(3))
	if err != nil {
		panic(err)
	}
	return r
}

func buildMap(keys []string, vals []value.Value, rep int) value.Map {
	lm := func(from, to int) value.Map {
		m := listMap.New[value.Value](to - from)
		for i := from; i < to; i++ {
			m = m.Append(keys[i], vals[i])
		}
		return value.NewMap(m)
	}
	n := len(keys)
	switch rep {
	case 1: // put chain over the empty map
		m := value.EmptyMap
		for i := 0; i < n; i++ {
			m = putM(m, keys[i], vals[i])
		}
		return m
	case 2: // merge of two literal halves
		a, b := lm(0, n/2), lm(n/2, n)
		m, err := a.Merge(b)
		if err != nil {
			panic(err)
		}
		return m
	case 3: // real hash map
		rm := value.RealMap{}
		for i := 0; i < n; i++ {
			rm[keys[i]] = vals[i]
		}
		return value.NewMap(rm)
	case 4: // literal, then evaluated
		v, _ := lm(0, n).Eval()
		return v.(value.Map)
	case 6: // function-backed map with a declared key that is unavailable for this value
		type holder struct{ m map[string]value.Value }
		decl := append([]string{}, keys...)
		ghost := "ghost-key"
		for _, k := range keys {
			if k == ghost {
				ghost = ""
			}
		}
		if ghost != "" {
			decl = append(decl[:len(decl)/2:len(decl)/2], append([]string{ghost}, decl[len(decl)/2:]...)...)
		}
		h := map[string]value.Value{}
		for i := 0; i < n; i++ {
			h[keys[i]] = vals[i]
		}
		fac := value.NewFuncMapFactory[value.Map](func(_ value.Map, key string) (value.Value, bool) { v, ok := h[key]; return v, ok }, decl...)
		return fac.Create(value.EmptyMap)
	case 7: // struct wrapper (toMapWrapper)
		tm := value.NewToMap[int]()
		for i := 0; i < n; i++ {
			v := vals[i]
			tm.Attr(keys[i], func(int) value.Value { return v })
		}
		m, _ := tm.Create(0)
		return m
	case 5: // put on top of a merge
		if n >= 1 {
			a, b := lm(0, (n-1)/2), lm((n-1)/2, n-1)
			m, err := a.Merge(b)
			if err != nil {
				panic(err)
			}
			return putM(m, keys[n-1], vals[n-1])
		}
	}
	return lm(0, n)
}

// Tokens renders the tree in the prefix token form of the JSON/XML model requests, with scalars in
// their Go string form (ToString is an oracle of the harness).
func (t *VT) Tokens(b *strings.Builder) {
	switch t.Kind {
	case 'L':
		b.WriteString("L ")
		b.WriteString(itoa(len(t.Items)))
		for _, it := range t.Items {
			b.WriteByte(' ')
			it.Tokens(b)
		}
	case 'M':
		b.WriteString("M ")
		b.WriteString(itoa(len(t.Items)))
		for i, it := range t.Items {
			b.WriteByte(' ')
			b.WriteString(cps(t.Keys[i]))
			b.WriteByte(' ')
			it.Tokens(b)
		}
	default:
		b.WriteString("S ")
		b.WriteString(cps(t.Scalar()))
	}
}

func (t *VT) Scalar() string {
	s, err := t.Build().ToString(funcGen.NewEmptyStack[value.Value]())
	if err != nil {
		panic(err)
	}
	return s
}

func (t *VT) Depth() int {
	d := 0
	for _, it := range t.Items {
		if x := it.Depth(); x > d {
			d = x
		}
	}
	if t.Kind == 'L' || t.Kind == 'M' {
		return d + 1
	}
	return 0
}
