package main

// C13 — all map representations behave as one abstract key-value map.
//
// Tie 1 (extractMapFacts): the MapStorage implementations and map methods present in the source
// tree (go/ast) and the two tuning constants of Replace/createFlat (measured on the live code).
// Tie 2 (runC13): histories of <= 15 map operations evaluated on the real code step by step through
// the Go API and once more as a generated program; the property's predicate (all observers agree
// with each other and with a finite-map reference; uniqueness errors exactly on key collisions) is
// evaluated on the implementation; every history is then compared with the Lean model (MAPHIST).

import (
	"encoding/json"
	"errors"
	"fmt"
	"go/ast"
	"go/parser"
	"go/token"
	"io"
	"log"
	"math"
	"math/rand"
	"os"
	"path/filepath"
	"reflect"
	"sort"
	"strconv"
	"strings"

	"github.com/hneemann/parser2/funcGen"
	"github.com/hneemann/parser2/listMap"
	"github.com/hneemann/parser2/value"
)

func init() {
	props["C13"] = runC13
	extractors = append(extractors, extractMapFacts)
}

type (
	vv  = value.Value
	stk = funcGen.Stack[value.Value]
)

func newStack(vs ...vv) stk { return funcGen.NewEmptyStack[vv]().Init(vs...) }

// ---------------------------------------------------------------------------------------------
// Tie 1
// ---------------------------------------------------------------------------------------------

func leanStrList(l []string) string {
	var parts []string
	for _, s := range l {
		parts = append(parts, strconv.Quote(s))
	}
	return "[" + strings.Join(parts, ", ") + "]"
}

func recvName(e ast.Expr) string {
	switch x := e.(type) {
	case *ast.StarExpr:
		return recvName(x.X)
	case *ast.IndexExpr:
		return recvName(x.X)
	case *ast.IndexListExpr:
		return recvName(x.X)
	case *ast.Ident:
		return x.Name
	}
	return ""
}

func isIdent(e ast.Expr, name string) bool {
	id, ok := e.(*ast.Ident)
	return ok && id.Name == name
}

func nFields(fl *ast.FieldList) int {
	if fl == nil {
		return 0
	}
	n := 0
	for _, f := range fl.List {
		if len(f.Names) == 0 {
			n++
		} else {
			n += len(f.Names)
		}
	}
	return n
}

// storageMethodShape classifies a method declaration as one of the three MapStorage methods.
func storageMethodShape(fd *ast.FuncDecl) string {
	t := fd.Type
	switch fd.Name.Name {
	case "Get":
		if nFields(t.Params) == 1 && isIdent(t.Params.List[0].Type, "string") && nFields(t.Results) == 2 {
			last := t.Results.List[len(t.Results.List)-1]
			if isIdent(last.Type, "bool") {
				return "Get"
			}
		}
	case "Iter":
		if nFields(t.Params) == 1 && nFields(t.Results) == 0 {
			if _, ok := t.Params.List[0].Type.(*ast.FuncType); ok {
				return "Iter"
			}
		}
	case "Size":
		if nFields(t.Params) == 0 && nFields(t.Results) == 1 && isIdent(t.Results.List[0].Type, "int") {
			return "Size"
		}
	}
	return ""
}

func measureCfg() (flatDepth, realFrom int) {
	const never = 1000000000
	lit := func(n int) value.Map {
		m := listMap.New[vv](n)
		for i := 0; i < n; i++ {
			m = m.Append("k"+itoa(i), value.Int(i))
		}
		return value.NewMap(m)
	}
	rep := func(m value.Map) value.Map {
		cl := value.Closure(funcGen.Function[vv]{Args: 1, Func: func(st stk, cs []vv) (vv, error) { return value.NewMap(listMap.New[vv](0)), nil }})
		r, err := m.Replace(newStack(m, cl))
		if err != nil {
			fatal("measureCfg: replace failed: %v", err)
		}
		return r
	}
	chainUntilFlat := func(n int) (int, value.Map) {
		m := lit(n)
		for i := 1; i <= 200; i++ {
			m = rep(m)
			if _, ok := m.Storage().(value.ReplaceMap); !ok {
				return i - 1, m
			}
		}
		return never, m
	}
	flatDepth, _ = chainUntilFlat(2)
	realFrom = never
	if flatDepth != never {
		for n := 0; n <= 300; n++ {
			_, m := chainUntilFlat(n)
			if _, ok := m.Storage().(value.RealMap); ok {
				realFrom = n
				break
			}
		}
	}
	return
}

func extractMapFacts() {
	fset := token.NewFileSet()
	methods := map[string]map[string]bool{}
	var mapMethods []string
	filepath.Walk(repoRoot, func(p string, info os.FileInfo, err error) error {
		if err != nil {
			return nil
		}
		if info.IsDir() {
			if info.Name() == ".git" {
				return filepath.SkipDir
			}
			return nil
		}
		if !strings.HasSuffix(p, ".go") || strings.HasSuffix(p, "_test.go") {
			return nil
		}
		f, err := parser.ParseFile(fset, p, nil, 0)
		if err != nil {
			return nil
		}
		pkg := f.Name.Name
		for _, d := range f.Decls {
			fd, ok := d.(*ast.FuncDecl)
			if !ok {
				continue
			}
			if fd.Recv != nil && len(fd.Recv.List) == 1 {
				if sh := storageMethodShape(fd); sh != "" {
					key := pkg + "." + recvName(fd.Recv.List[0].Type)
					if methods[key] == nil {
						methods[key] = map[string]bool{}
					}
					methods[key][sh] = true
				}
			}
			if fd.Recv == nil && pkg == "value" && fd.Name.Name == "createMapMethods" && fd.Body != nil {
				ast.Inspect(fd.Body, func(n ast.Node) bool {
					cl, ok := n.(*ast.CompositeLit)
					if !ok || !isIdent(cl.Type, "MethodMap") {
						return true
					}
					for _, el := range cl.Elts {
						if kv, ok := el.(*ast.KeyValueExpr); ok {
							if bl, ok := kv.Key.(*ast.BasicLit); ok && bl.Kind == token.STRING {
								if s, err := strconv.Unquote(bl.Value); err == nil {
									mapMethods = append(mapMethods, s)
								}
							}
						}
					}
					return false
				})
			}
		}
		return nil
	})
	var types []string
	for k, m := range methods {
		if m["Get"] && m["Iter"] && m["Size"] {
			types = append(types, k)
		}
	}
	sort.Strings(types)
	sort.Strings(mapMethods)
	var b strings.Builder
	b.WriteString("/-! GENERATED by `tie extract` (go/ast over the source tree): the types that have the three methods of\n`value.MapStorage`, and the keys of the method table `createMapMethods`. Do not edit. -/\nnamespace P2.Generated\n")
	fmt.Fprintf(&b, "def mapStorageTypes : List String := %s\n", leanStrList(types))
	fmt.Fprintf(&b, "def mapMethods : List String := %s\n", leanStrList(mapMethods))
	b.WriteString("end P2.Generated\n")
	writeIfChanged(genPath("MapStorages.lean"), []byte(b.String()))

	fd, rf := measureCfg()
	var c strings.Builder
	c.WriteString("import P2.Model.MapSt\n/-! GENERATED by `tie extract` (measured on the live code: the length of a pure replace chain at which\n`Map.Replace` flattens, and the smallest size for which the flattened storage is a `RealMap`). Do not edit. -/\nnamespace P2.Generated\n")
	fmt.Fprintf(&c, "def mapCfg : P2.MapSt.Cfg := { flatDepth := %d, realFrom := %d }\nend P2.Generated\n", fd, rf)
	writeIfChanged(genPath("MapCfg.lean"), []byte(c.String()))
}

// ---------------------------------------------------------------------------------------------
// histories
// ---------------------------------------------------------------------------------------------

// hnode is one node of a history tree. Ops: L literal, E EmptyMap, X argument of an enclosing replace
// function, P put, M merge, R replace, V eval, F map, A accept, C combine, U function wrapper,
// W struct wrapper (NewToMap), T struct wrapper (NewToMapReflection; a W for the model), H hash map, B bin.
type hnode struct {
	Op     byte
	Keys   []string // L W H: entry keys; U: answered keys
	Vals   []int64
	Listed []string // U: listed keys
	K      string   // P: key; F A: key parameter of the callback
	V      int64    // P: value; F A C: constant of the callback
	Code   int
	Idx    int
	Kids   []*hnode
	IsMin  bool
	IsMax  bool
	TIdx   int       // T: which struct type
	leaf   value.Map // E U W T H B: the Go-constructed map
	argIx  int       // index of the program argument carrying the leaf
}

var c13Pool = []string{"a", "b", "c", "d", "", "a b", "1x", "x-y", "a.b", "{k}", "k:v", "é√", "size", "key", "value", "str", "min", "max", "A", "B", "a\\b", "q\"q"}

func isPlainIdent(s string) bool {
	if s == "" {
		return false
	}
	for i, r := range s {
		if !(r >= 'a' && r <= 'z' || r >= 'A' && r <= 'Z' || r == '_' || i > 0 && r >= '0' && r <= '9') {
			return false
		}
	}
	switch s {
	case "let", "func", "if", "then", "else", "try", "catch", "switch", "case", "default", "const", "true", "false", "pi", "in", "and", "or", "not":
		return false
	}
	return true
}

// struct types for the reflection wrapper; c13TFields lists what NewToMapReflection is expected to expose
type c13T0 struct{}
type c13T1 struct{ A int }
type c13T2 struct {
	A    int8
	B    int16
	C    int32
	D    int
	skip uint
	Oth  []int
	e    int
}
type c13T3 struct {
	S  string
	F  float64
	Bo bool
	N  int
	u  uint8
}

type gen13 struct {
	r      *rand.Rand
	pool   []string
	nextV  int64
	fresh  int
	ops    int
	nonInt bool // some leaf holds non-int values: only value-agnostic callbacks
	noFunc bool // contract-violating function wrapper somewhere: predicate not applicable
	bins   []binLeaf
}

type binLeaf struct {
	m            value.Map
	isMin, isMax bool
}

func (g *gen13) key() string {
	if g.r.Intn(12) == 0 {
		g.fresh++
		return "k" + itoa(g.fresh)
	}
	return g.pool[g.r.Intn(len(g.pool))]
}

// putKey: mostly a key that is not in use yet, so that long put chains survive
func (g *gen13) putKey() string {
	if g.r.Intn(10) < 6 {
		g.fresh++
		return "k" + itoa(g.fresh)
	}
	return g.pool[g.r.Intn(len(g.pool))]
}

// otherPool runs f with a different sub-pool of keys most of the time (operands of + rarely overlap by accident)
func (g *gen13) otherPool(f func() *hnode) *hnode {
	if g.r.Intn(10) < 3 {
		return f()
	}
	old := g.pool
	g.pool = nil
	for _, k := range c13Pool {
		in := false
		for _, o := range old {
			in = in || o == k
		}
		if !in && g.r.Intn(3) == 0 {
			g.pool = append(g.pool, k)
		}
	}
	if len(g.pool) == 0 {
		g.pool = []string{"other"}
	}
	n := f()
	g.pool = old
	return n
}

func (g *gen13) val() int64 { g.nextV++; return g.nextV }

func (g *gen13) entries(n int, dupChance int) ([]string, []int64) {
	var ks []string
	var vs []int64
	seen := map[string]bool{}
	for i := 0; i < n; i++ {
		k := g.key()
		if seen[k] && g.r.Intn(100) >= dupChance {
			continue
		}
		seen[k] = true
		ks = append(ks, k)
		vs = append(vs, g.val())
	}
	return ks, vs
}

func (g *gen13) leafNode(envDepth int) *hnode {
	g.ops++
	k := g.r.Intn(20)
	switch {
	case envDepth > 0 && k < 5:
		return &hnode{Op: 'X', Idx: g.r.Intn(envDepth)}
	case k < 11:
		ks, vs := g.entries(g.r.Intn(5), 4)
		return &hnode{Op: 'L', Keys: ks, Vals: vs}
	case k < 12:
		return &hnode{Op: 'E'}
	case k < 14:
		ks, vs := g.entries(g.r.Intn(4), 0)
		n := &hnode{Op: 'U', Keys: ks, Vals: vs, Listed: append([]string{}, ks...)}
		if g.r.Intn(8) == 0 { // contract violation: listed and answered keys differ
			g.noFunc = true
			switch g.r.Intn(3) {
			case 0:
				n.Listed = append(n.Listed, g.key())
			case 1:
				if len(n.Listed) > 0 {
					n.Listed = append(n.Listed, n.Listed[0])
				} else {
					n.Listed = []string{"q", "q"}
				}
			default:
				if len(n.Listed) > 0 {
					n.Listed = n.Listed[1:]
				} else {
					n.Keys, n.Vals = []string{"q"}, []int64{g.val()}
				}
			}
		}
		return n
	case k < 16:
		ks, vs := g.entries(g.r.Intn(5), 50) // Attr with the same name twice overwrites
		return &hnode{Op: 'W', Keys: ks, Vals: vs}
	case k < 17:
		return &hnode{Op: 'T', TIdx: g.r.Intn(4), V: g.val()}
	case k < 19:
		ks, vs := g.entries(g.r.Intn(5), 0)
		return &hnode{Op: 'H', Keys: ks, Vals: vs}
	default:
		g.nonInt = true
		b := g.r.Intn(len(g.bins))
		return &hnode{Op: 'B', Idx: b, IsMin: g.bins[b].isMin, IsMax: g.bins[b].isMax}
	}
}

// tree builds a random history with at most budget operations
func (g *gen13) tree(budget, envDepth int) *hnode {
	if budget <= 1 {
		return g.leafNode(envDepth)
	}
	g.ops++
	switch k := g.r.Intn(20); {
	case k < 5:
		return &hnode{Op: 'P', K: g.putKey(), V: g.val(), Kids: []*hnode{g.tree(budget-1, envDepth)}}
	case k < 8:
		l := 1 + g.r.Intn(budget-1)
		a := g.tree(l, envDepth)
		return &hnode{Op: 'M', Kids: []*hnode{a, g.otherPool(func() *hnode { return g.tree(budget-1-l, envDepth) })}}
	case k < 13:
		l := 1 + g.r.Intn(budget-1)
		if g.r.Intn(2) == 0 {
			l = budget - 2
			if l < 1 {
				l = 1
			}
		}
		return &hnode{Op: 'R', Kids: []*hnode{g.tree(l, envDepth), g.tree(budget-1-l, envDepth+1)}}
	case k < 14:
		return &hnode{Op: 'V', Kids: []*hnode{g.tree(budget-1, envDepth)}}
	case k < 16:
		return &hnode{Op: 'F', Code: g.r.Intn(4), V: int64(g.r.Intn(50)), K: g.key(), Kids: []*hnode{g.tree(budget-1, envDepth)}}
	case k < 18:
		return &hnode{Op: 'A', Code: g.r.Intn(5), V: g.nextV - int64(g.r.Intn(4)), K: g.key(), Kids: []*hnode{g.tree(budget-1, envDepth)}}
	default:
		l := 1 + g.r.Intn(budget-1)
		a := g.tree(l, envDepth)
		var b *hnode
		if g.r.Intn(2) == 0 { // same keys on both sides most of the time
			b = &hnode{Op: 'F', Code: 1, V: int64(g.r.Intn(9)), Kids: []*hnode{cloneH(a)}}
			g.ops += countOps(a) + 1
		} else {
			b = g.tree(budget-1-l, envDepth)
		}
		return &hnode{Op: 'C', Code: g.r.Intn(4), V: int64(g.r.Intn(9)), Kids: []*hnode{a, b}}
	}
}

func cloneH(n *hnode) *hnode {
	c := *n
	c.Kids = nil
	for _, k := range n.Kids {
		c.Kids = append(c.Kids, cloneH(k))
	}
	return &c
}

func countOps(n *hnode) int {
	t := 1
	for _, k := range n.Kids {
		t += countOps(k)
	}
	return t
}

// chain wraps base into n replace operations; the replacements mix keys inside and outside the
// original key set, references to the argument, and nested replaces
func (g *gen13) chain(base *hnode, n, envDepth int) *hnode {
	h := base
	for i := 0; i < n; i++ {
		g.ops += 2
		var r *hnode
		switch g.r.Intn(6) {
		case 0:
			r = &hnode{Op: 'P', K: g.putKey(), V: g.val(), Kids: []*hnode{{Op: 'X', Idx: 0}}}
			g.ops++
		case 1:
			r = &hnode{Op: 'X', Idx: 0}
		default:
			ks, vs := g.entries(1+g.r.Intn(3), 0)
			r = &hnode{Op: 'L', Keys: ks, Vals: vs}
		}
		h = &hnode{Op: 'R', Kids: []*hnode{h, r}}
		if g.r.Intn(9) == 0 && g.ops < 14 {
			g.ops++
			h = &hnode{Op: 'P', K: g.putKey(), V: g.val(), Kids: []*hnode{h}}
		}
	}
	return h
}

func (g *gen13) bigLit(n int) *hnode {
	g.ops++
	var ks []string
	var vs []int64
	for i := 0; i < n; i++ {
		ks = append(ks, "k"+itoa(i))
		vs = append(vs, g.val())
	}
	// a few pool keys on top so that replacements hit
	for _, k := range g.pool {
		if k != "" && len(ks) < n+3 {
			ks = append(ks, k)
			vs = append(vs, g.val())
		}
	}
	return &hnode{Op: 'L', Keys: ks, Vals: vs}
}

func (g *gen13) history() *hnode {
	n := 3 + g.r.Intn(5)
	g.pool = nil
	perm := g.r.Perm(len(c13Pool))
	for i := 0; i < n; i++ {
		g.pool = append(g.pool, c13Pool[perm[i]])
	}
	if g.r.Intn(3) == 0 {
		g.pool = append(g.pool, "")
	}
	g.nextV, g.fresh, g.ops, g.nonInt, g.noFunc = 0, 0, 0, false, false
	switch m := g.r.Intn(12); {
	case m < 6:
		return g.tree(1+g.r.Intn(15), 0)
	case m < 8: // deep replace chain over a small base
		base := g.tree(1+g.r.Intn(2), 0)
		return g.chain(base, 9+g.r.Intn(5), 0)
	case m < 9: // more than 20 keys, flattened into a hash map
		h := g.chain(g.bigLit(18+g.r.Intn(8)), 10+g.r.Intn(3), 0)
		if g.r.Intn(2) == 0 {
			h = &hnode{Op: 'P', K: g.putKey(), V: g.val(), Kids: []*hnode{h}}
		}
		return h
	case m < 10: // the replacement itself is a deep chain
		rep := g.chain(&hnode{Op: 'X', Idx: 0}, 5+g.r.Intn(7), 1)
		return &hnode{Op: 'R', Kids: []*hnode{g.tree(1+g.r.Intn(2), 0), rep}}
	case m < 11: // wrappers under a few operations
		h := g.leafNode(0)
		for h.Op == 'L' || h.Op == 'X' {
			h = g.leafNode(0)
		}
		for i := g.r.Intn(4); i > 0; i-- {
			switch g.r.Intn(4) {
			case 0:
				h = &hnode{Op: 'P', K: g.putKey(), V: g.val(), Kids: []*hnode{h}}
			case 1:
				h = &hnode{Op: 'M', Kids: []*hnode{h, g.otherPool(func() *hnode { return g.leafNode(0) })}}
			case 2:
				h = g.chain(h, 1, 0)
			default:
				h = &hnode{Op: 'V', Kids: []*hnode{h}}
			}
		}
		return h
	default: // merge of two chains, put on top
		a := g.chain(g.leafNode(0), 1+g.r.Intn(5), 0)
		b := g.otherPool(func() *hnode { return g.chain(g.leafNode(0), 1+g.r.Intn(5), 0) })
		return &hnode{Op: 'P', K: g.putKey(), V: g.val(), Kids: []*hnode{{Op: 'M', Kids: []*hnode{a, b}}}}
	}
}

// opCount: operations of a history = inner nodes (put, +, replace, eval, map, accept, combine) plus
// the root leaf it started from; literal arguments of replace/merge are not counted separately
func opCount(n *hnode) int {
	if len(n.Kids) == 0 {
		return 0
	}
	t := 1
	for _, k := range n.Kids {
		t += opCount(k)
	}
	return t
}

func (n *hnode) walk(f func(*hnode)) {
	f(n)
	for _, k := range n.Kids {
		k.walk(f)
	}
}

// ---- value coding -----------------------------------------------------------------------------

// interner maps non-int values to integer codes for the model (values are opaque to map storages)
type interner struct {
	codes map[string]int64
}

func vkey(v vv) string {
	switch x := v.(type) {
	case nil:
		return "nil"
	case value.Int:
		return "i" + strconv.FormatInt(int64(x), 10)
	case value.Float:
		return "f" + strconv.FormatUint(math.Float64bits(float64(x)), 16)
	case value.String:
		return "s" + string(x)
	case value.Bool:
		return "b" + strconv.FormatBool(bool(x))
	case value.Map:
		es := entriesOf(x)
		parts := make([]string, len(es))
		for i, e := range es {
			parts[i] = strconv.Quote(e.k) + "=" + vkey(e.v)
		}
		sort.Strings(parts)
		return "m{" + strings.Join(parts, ",") + "}"
	case *value.List:
		sl, err := x.ToSlice(newStack())
		if err != nil {
			return "l!err"
		}
		parts := make([]string, len(sl))
		for i, e := range sl {
			parts[i] = vkey(e)
		}
		return "l[" + strings.Join(parts, ",") + "]"
	}
	return fmt.Sprintf("?%T", v)
}

func (in *interner) code(v vv) int64 {
	if i, ok := v.(value.Int); ok {
		return int64(i)
	}
	k := vkey(v)
	if c, ok := in.codes[k]; ok {
		return c
	}
	c := int64(1000000000 + len(in.codes))
	in.codes[k] = c
	return c
}

type ent struct {
	k string
	v vv
}

func entriesOf(m value.Map) []ent {
	var es []ent
	m.Iter(func(k string, v vv) bool {
		es = append(es, ent{k, v})
		return true
	})
	return es
}

func lookupEnt(es []ent, k string) (vv, bool) {
	for _, e := range es {
		if e.k == k {
			return e.v, true
		}
	}
	return nil, false
}

func hasDup(es []ent) bool {
	seen := map[string]bool{}
	for _, e := range es {
		if seen[e.k] {
			return true
		}
		seen[e.k] = true
	}
	return false
}

// canonEnts: sorted "key=value" list — the finite map denoted by an entry list
func canonEnts(es []ent) string {
	parts := make([]string, len(es))
	for i, e := range es {
		parts[i] = strconv.Quote(e.k) + "=" + vkey(e.v)
	}
	sort.Strings(parts)
	return strings.Join(parts, ",")
}

// ---- tokens for the model and program text for the parser ---------------------------------------

func kvTokens(b *strings.Builder, ks []string, vs []int64) {
	b.WriteString(itoa(len(ks)))
	for i, k := range ks {
		b.WriteByte(' ')
		b.WriteString(cps(k))
		b.WriteByte(' ')
		b.WriteString(strconv.FormatInt(vs[i], 10))
	}
}

func b01(b bool) string {
	if b {
		return "1"
	}
	return "0"
}

func (n *hnode) tokens(b *strings.Builder, in *interner) {
	switch n.Op {
	case 'E':
		b.WriteString("E")
	case 'X':
		b.WriteString("X " + itoa(n.Idx))
	case 'L', 'W', 'H':
		b.WriteByte(n.Op)
		b.WriteByte(' ')
		kvTokens(b, n.Keys, n.Vals)
	case 'T':
		// the fields NewToMapReflection is expected to expose, with the values the harness put in
		b.WriteString("W ")
		ks, vals := c13TFields(n.TIdx, n.V)
		vs := make([]int64, len(vals))
		for i, v := range vals {
			vs[i] = in.code(v)
		}
		kvTokens(b, ks, vs)
	case 'U':
		b.WriteString("U " + itoa(len(n.Listed)))
		for _, k := range n.Listed {
			b.WriteString(" " + cps(k))
		}
		b.WriteByte(' ')
		kvTokens(b, n.Keys, n.Vals)
	case 'B':
		code := func(k string) int64 {
			if v, ok := n.leaf.Get(k); ok && v != nil {
				return in.code(v)
			}
			return 0
		}
		fmt.Fprintf(b, "B %s %s %d %d %d", b01(n.IsMin), b01(n.IsMax), code("str"), code("min"), code("max"))
	case 'P':
		b.WriteString("P ")
		n.Kids[0].tokens(b, in)
		fmt.Fprintf(b, " %s %d", cps(n.K), n.V)
	case 'M', 'R':
		b.WriteByte(n.Op)
		b.WriteByte(' ')
		n.Kids[0].tokens(b, in)
		b.WriteByte(' ')
		n.Kids[1].tokens(b, in)
	case 'V':
		b.WriteString("V ")
		n.Kids[0].tokens(b, in)
	case 'F', 'A':
		fmt.Fprintf(b, "%c %d %d %s ", n.Op, n.Code, n.V, cps(n.K))
		n.Kids[0].tokens(b, in)
	case 'C':
		fmt.Fprintf(b, "C %d %d ", n.Code, n.V)
		n.Kids[0].tokens(b, in)
		b.WriteByte(' ')
		n.Kids[1].tokens(b, in)
	}
}

func c13TFields(idx int, v int64) ([]string, []vv) {
	switch idx {
	case 0:
		return nil, nil
	case 1:
		return []string{"A"}, []vv{value.Int(v)}
	case 2:
		return []string{"A", "B", "C", "D", "e"}, []vv{value.Int(v % 100), value.Int(v + 1), value.Int(v + 2), value.Int(v + 3), value.Int(v + 4)}
	default:
		return []string{"S", "F", "Bo", "N"}, []vv{value.String("s" + itoa(int(v))), value.Float(float64(v) + 0.5), value.Bool(v%2 == 0), value.Int(v)}
	}
}

func quoteKeyIdent(k string, r *rand.Rand) string {
	if isPlainIdent(k) && (r == nil || r.Intn(3) > 0) {
		return k
	}
	return "'" + k + "'"
}

func strLit(s string) string {
	return "\"" + strings.NewReplacer("\\", "\\\\", "\"", "\\\"").Replace(s) + "\""
}

func mapFnSrc(code int, c int64, key string) string {
	switch code {
	case 0:
		return "(k,v)->v"
	case 1:
		return fmt.Sprintf("(k,v)->%d", c)
	case 2:
		return fmt.Sprintf("(k,v)->v+%d", c)
	default:
		return fmt.Sprintf("(k,v)->if k=%s then throw(\"cb\") else v", strLit(key))
	}
}

func acceptFnSrc(code int, c int64, key string) string {
	switch code {
	case 0:
		return "(k,v)->true"
	case 1:
		return fmt.Sprintf("(k,v)->k!=%s", strLit(key))
	case 2:
		return "(k,v)->v%2=0"
	case 3:
		return fmt.Sprintf("(k,v)->v<%d", c)
	default:
		return fmt.Sprintf("(k,v)->if k=%s then 1 else true", strLit(key))
	}
}

func combineFnSrc(code int, c int64) string {
	switch code {
	case 0:
		return "(x,y)->x"
	case 1:
		return "(x,y)->y"
	case 2:
		return "(x,y)->(x*7+y)%1000"
	default:
		return fmt.Sprintf("(x,y)->if y=%d then throw(\"cb\") else x+y", c)
	}
}

// prog renders the history as one expression; leaves that only Go can build become arguments x<i>
func (n *hnode) prog(b *strings.Builder, depth int, args *[]vv, r *rand.Rand) {
	switch n.Op {
	case 'L':
		b.WriteByte('{')
		for i, k := range n.Keys {
			if i > 0 {
				b.WriteByte(',')
			}
			fmt.Fprintf(b, "%s:%d", quoteKeyIdent(k, r), n.Vals[i])
		}
		b.WriteByte('}')
	case 'X':
		b.WriteString("m" + itoa(depth-1-n.Idx))
	case 'E', 'U', 'W', 'T', 'H', 'B':
		b.WriteString("x" + itoa(len(*args)))
		*args = append(*args, n.leaf)
	case 'P':
		n.Kids[0].prog(b, depth, args, r)
		fmt.Fprintf(b, ".put(%s,%d)", strLit(n.K), n.V)
	case 'M':
		b.WriteByte('(')
		n.Kids[0].prog(b, depth, args, r)
		b.WriteByte('+')
		n.Kids[1].prog(b, depth, args, r)
		b.WriteByte(')')
	case 'R':
		n.Kids[0].prog(b, depth, args, r)
		fmt.Fprintf(b, ".replace(m%d->", depth)
		n.Kids[1].prog(b, depth+1, args, r)
		b.WriteByte(')')
	case 'V':
		n.Kids[0].prog(b, depth, args, r)
		b.WriteString(".eval()")
	case 'F':
		n.Kids[0].prog(b, depth, args, r)
		b.WriteString(".map(" + mapFnSrc(n.Code, n.V, n.K) + ")")
	case 'A':
		n.Kids[0].prog(b, depth, args, r)
		b.WriteString(".accept(" + acceptFnSrc(n.Code, n.V, n.K) + ")")
	case 'C':
		n.Kids[0].prog(b, depth, args, r)
		b.WriteString(".combine(")
		n.Kids[1].prog(b, depth, args, r)
		b.WriteString("," + combineFnSrc(n.Code, n.V) + ")")
	}
}

// ---------------------------------------------------------------------------------------------
// the implementation side
// ---------------------------------------------------------------------------------------------

type h13 struct {
	c        *Ctx
	fg       *value.FunctionGenerator
	compiled map[string]funcGen.Func[vv]
	bins     []binLeaf
	// per case
	viol     []violation
	firstErr string
	pinned   [3]bool // which of the three B13 behaviours this source tree shows (probed once)
	tainted  bool    // a sub-result already broke the predicate (or the wrapper contract is violated)
}

func (h *h13) gen(src string, args ...string) (funcGen.Func[vv], error) {
	key := src + "\x00" + strings.Join(args, ",")
	if f, ok := h.compiled[key]; ok {
		return f, nil
	}
	f, _, err := h.fg.Generate(src, args...)
	if err != nil {
		return nil, err
	}
	if len(h.compiled) < 20000 {
		h.compiled[key] = f
	}
	return f, nil
}

func (h *h13) mustGen(src string, args ...string) funcGen.Func[vv] {
	f, err := h.gen(src, args...)
	if err != nil {
		fatal("C13: observer program %q does not compile: %v", src, err)
	}
	return f
}

func (h *h13) report(sig, what string) {
	h.viol = append(h.viol, violation{signature: sig, what: what})
}

func makeBins() []binLeaf {
	idf := value.Closure(funcGen.Function[vv]{Args: 1, Func: func(st stk, cs []vv) (vv, error) { return st.Get(0), nil }})
	var res []binLeaf
	for _, cfg := range [][3]float64{{0, 1, 2}, {0.5, 0.25, 1}, {-3, 10, 0}} {
		l := value.NewList(value.Int(1), value.Int(2))
		r, err := value.Binning(l, newStack(l, value.Float(cfg[0]), value.Float(cfg[1]), value.Int(int(cfg[2])), idf, idf))
		if err != nil {
			fatal("C13: binning failed: %v", err)
		}
		d, ok := r.(value.Map).Get("descr")
		if !ok {
			fatal("C13: binning result has no descr")
		}
		sl, err := d.(*value.List).ToSlice(newStack())
		if err != nil {
			fatal("C13: %v", err)
		}
		for i, x := range sl {
			// by construction (axis.getDescr): the first bin has only an upper, the last only a lower bound
			res = append(res, binLeaf{m: x.(value.Map), isMin: i > 0, isMax: i < len(sl)-1 || len(sl) == 1})
		}
	}
	return res
}

func (h *h13) buildLeaf(n *hnode) {
	switch n.Op {
	case 'E':
		n.leaf = value.EmptyMap
	case 'U':
		ans := map[string]int64{}
		for i, k := range n.Keys {
			ans[k] = n.Vals[i]
		}
		mf := value.NewFuncMapFactory(func(x value.Int, key string) (vv, bool) {
			v, ok := ans[key]
			return value.Int(v) + x, ok
		}, n.Listed...)
		n.leaf = mf.Create(value.Int(0))
	case 'W':
		tm := value.NewToMap[int64]()
		for i, k := range n.Keys {
			v := n.Vals[i]
			tm.Attr(k, func(c int64) vv { return value.Int(v + c) })
		}
		n.leaf, _ = tm.Create(0)
	case 'T':
		v := n.V
		switch n.TIdx {
		case 0:
			n.leaf, _ = value.NewToMapReflection[c13T0]().Create(c13T0{})
		case 1:
			n.leaf, _ = value.NewToMapReflection[c13T1]().Create(c13T1{A: int(v)})
		case 2:
			n.leaf, _ = value.NewToMapReflection[c13T2]().Create(c13T2{A: int8(v % 100), B: int16(v + 1), C: int32(v + 2), D: int(v + 3), skip: 9, Oth: []int{1}, e: int(v + 4)})
		default:
			n.leaf, _ = value.NewToMapReflection[c13T3]().Create(c13T3{S: "s" + itoa(int(v)), F: float64(v) + 0.5, Bo: v%2 == 0, N: int(v), u: 3})
		}
	case 'H':
		rm := value.RealMap{}
		for i, k := range n.Keys {
			rm[k] = value.Int(n.Vals[i])
		}
		n.leaf = value.NewMap(rm)
	case 'B':
		if n.Idx < 0 { // from a replay: any bin with the same bounds
			for i, b := range h.bins {
				if b.isMin == n.IsMin && b.isMax == n.IsMax {
					n.Idx = i
					break
				}
			}
			if n.Idx < 0 {
				n.Idx = 0
			}
		}
		b := h.bins[n.Idx%len(h.bins)]
		n.leaf, n.IsMin, n.IsMax = b.m, b.isMin, b.isMax
	}
}

var errCb = errors.New("cb")

func mapClosure(code int, c int64, key string) value.Closure {
	return value.Closure(funcGen.Function[vv]{Args: 2, Func: func(st stk, cs []vv) (vv, error) {
		k, v := string(st.Get(0).(value.String)), st.Get(1)
		switch code {
		case 0:
			return v, nil
		case 1:
			return value.Int(c), nil
		case 2:
			return v.(value.Int) + value.Int(c), nil
		default:
			if k == key {
				return nil, errCb
			}
			return v, nil
		}
	}})
}

func acceptClosure(code int, c int64, key string) value.Closure {
	return value.Closure(funcGen.Function[vv]{Args: 2, Func: func(st stk, cs []vv) (vv, error) {
		k, v := string(st.Get(0).(value.String)), st.Get(1)
		switch code {
		case 0:
			return value.Bool(true), nil
		case 1:
			return value.Bool(k != key), nil
		case 2:
			return value.Bool(v.(value.Int)%2 == 0), nil
		case 3:
			return value.Bool(v.(value.Int) < value.Int(c)), nil
		default:
			if k == key {
				return value.Int(1), nil
			}
			return value.Bool(true), nil
		}
	}})
}

func combineClosure(code int, c int64) value.Closure {
	return value.Closure(funcGen.Function[vv]{Args: 2, Func: func(st stk, cs []vv) (vv, error) {
		x, y := st.Get(0), st.Get(1)
		switch code {
		case 0:
			return x, nil
		case 1:
			return y, nil
		case 2:
			return (x.(value.Int)*7 + y.(value.Int)) % 1000, nil
		default:
			if yi, ok := y.(value.Int); ok && int64(yi) == c {
				return nil, errCb
			}
			return x.(value.Int) + y.(value.Int), nil
		}
	}})
}

// reference semantics of the callbacks on the harness side (nil result = error)
func refMap(code int, c int64, key, k string, v vv) (vv, bool) {
	switch code {
	case 0:
		return v, true
	case 1:
		return value.Int(c), true
	case 2:
		return v.(value.Int) + value.Int(c), true
	default:
		return v, k != key
	}
}

func refAccept(code int, c int64, key, k string, v vv) (keep, ok bool) {
	switch code {
	case 0:
		return true, true
	case 1:
		return k != key, true
	case 2:
		return v.(value.Int)%2 == 0, true
	case 3:
		return v.(value.Int) < value.Int(c), true
	default:
		return true, k != key
	}
}

func refCombine(code int, c int64, x, y vv) (vv, bool) {
	switch code {
	case 0:
		return x, true
	case 1:
		return y, true
	case 2:
		return (x.(value.Int)*7 + y.(value.Int)) % 1000, true
	default:
		if yi, ok := y.(value.Int); ok && int64(yi) == c {
			return nil, false
		}
		return x.(value.Int) + y.(value.Int), true
	}
}

func safely(f func() (value.Map, error)) (m value.Map, err error, panicked bool) {
	defer func() {
		if r := recover(); r != nil {
			m, err, panicked = value.EmptyMap, fmt.Errorf("panic: %v", r), true
		}
	}()
	m, err = f()
	return
}

// step evaluates the history through the Go API, one call per operation, and checks after each
// operation that the result is what the finite-map reference computes from the operands' entries.
func (h *h13) step(n *hnode, env []value.Map) (value.Map, error) {
	var kids []value.Map
	if n.Op != 'R' {
		for _, k := range n.Kids {
			m, err := h.step(k, env)
			if err != nil {
				return value.EmptyMap, err
			}
			kids = append(kids, m)
		}
	}
	var expErr bool
	var exp []ent
	var res value.Map
	var err error
	var pan bool
	name := string(n.Op)
	switch n.Op {
	case 'E', 'U', 'W', 'T', 'H', 'B':
		return n.leaf, nil
	case 'X':
		return env[len(env)-1-n.Idx], nil
	case 'L':
		name = "literal"
		var b strings.Builder
		n.prog(&b, 0, nil, nil)
		seen := map[string]bool{}
		for i, k := range n.Keys {
			if seen[k] {
				expErr = true
			}
			seen[k] = true
			exp = append(exp, ent{k, value.Int(n.Vals[i])})
		}
		f, _, gerr := h.fg.Generate(b.String()) // not cached: one program per literal
		if gerr != nil {
			err = gerr
		} else {
			res, err, pan = safely(func() (value.Map, error) {
				v, e := f.Eval()
				if e != nil {
					return value.EmptyMap, e
				}
				return v.(value.Map), nil
			})
		}
	case 'P':
		name = "put"
		e0 := entriesOf(kids[0])
		_, expErr = lookupEnt(e0, n.K)
		exp = append([]ent{{n.K, value.Int(n.V)}}, e0...)
		res, err, pan = safely(func() (value.Map, error) {
			return kids[0].PutM(newStack(kids[0], value.String(n.K), value.Int(n.V)))
		})
	case 'M':
		name = "merge"
		e0, e1 := entriesOf(kids[0]), entriesOf(kids[1])
		for _, e := range e1 {
			if _, ok := lookupEnt(e0, e.k); ok {
				expErr = true
			}
		}
		exp = append(append([]ent{}, e0...), e1...)
		res, err, pan = safely(func() (value.Map, error) { return kids[0].Merge(kids[1]) })
	case 'R':
		name = "replace"
		o, oerr := h.step(n.Kids[0], env)
		if oerr != nil {
			return value.EmptyMap, oerr
		}
		var repSeen value.Map
		var repErr error
		cl := value.Closure(funcGen.Function[vv]{Args: 1, Func: func(st stk, cs []vv) (vv, error) {
			arg, ok := st.Get(0).(value.Map)
			if !ok {
				return nil, errors.New("replace passed a non-map to its function")
			}
			r, e := h.step(n.Kids[1], append(append([]value.Map{}, env...), arg))
			repSeen, repErr = r, e
			return r, e
		}})
		res, err, pan = safely(func() (value.Map, error) { return o.Replace(newStack(o, cl)) })
		if repErr != nil {
			if err == nil {
				h.report("replace-swallows-error", "replace returned a map although its function failed")
			}
			return value.EmptyMap, repErr
		}
		eo, er := entriesOf(o), entriesOf(repSeen)
		for _, e := range eo {
			if w, ok := lookupEnt(er, e.k); ok {
				exp = append(exp, ent{e.k, w})
			} else {
				exp = append(exp, e)
			}
		}
	case 'V':
		name = "eval"
		exp = entriesOf(kids[0])
		res, err, pan = safely(func() (value.Map, error) {
			v, e := kids[0].Eval()
			if e != nil {
				return value.EmptyMap, e
			}
			return v.(value.Map), nil
		})
	case 'F':
		name = "map"
		for _, e := range entriesOf(kids[0]) {
			w, ok := refMap(n.Code, n.V, n.K, e.k, e.v)
			if !ok {
				expErr = true
				break
			}
			exp = append(exp, ent{e.k, w})
		}
		res, err, pan = safely(func() (value.Map, error) { return kids[0].Map(newStack(kids[0], mapClosure(n.Code, n.V, n.K))) })
	case 'A':
		name = "accept"
		for _, e := range entriesOf(kids[0]) {
			keep, ok := refAccept(n.Code, n.V, n.K, e.k, e.v)
			if !ok {
				expErr = true
				break
			}
			if keep {
				exp = append(exp, e)
			}
		}
		res, err, pan = safely(func() (value.Map, error) {
			return kids[0].Accept(newStack(kids[0], acceptClosure(n.Code, n.V, n.K)))
		})
	case 'C':
		name = "combine"
		e1 := entriesOf(kids[1])
		for _, e := range entriesOf(kids[0]) {
			o, ok := lookupEnt(e1, e.k)
			if !ok {
				expErr = true
				break
			}
			w, ok := refCombine(n.Code, n.V, e.v, o)
			if !ok {
				expErr = true
				break
			}
			exp = append(exp, ent{e.k, w})
		}
		res, err, pan = safely(func() (value.Map, error) {
			return kids[0].Combine(newStack(kids[0], kids[1], combineClosure(n.Code, n.V)))
		})
	}
	if err != nil && h.firstErr == "" {
		h.firstErr = name
	}
	if pan {
		h.report("panic-in-"+name, fmt.Sprintf("%s panicked: %v", name, err))
		h.tainted = true
		return value.EmptyMap, err
	}
	if h.tainted {
		return res, err
	}
	switch {
	case expErr && err == nil:
		h.report(name+"-accepts-collision", fmt.Sprintf("%s succeeded although the finite-map operation is undefined (key collision / failing callback); result %s", name, canonEnts(entriesOf(res))))
		h.tainted = true
	case !expErr && err != nil:
		h.report(name+"-rejects-valid", fmt.Sprintf("%s failed (%v) although the finite-map operation is defined: expected %s", name, err, canonEnts(exp)))
		h.tainted = true
	case err == nil:
		got := entriesOf(res)
		if canonEnts(got) != canonEnts(exp) {
			h.report(name+"-wrong-result", fmt.Sprintf("%s: entries %s, the finite-map operation gives %s", name, canonEnts(got), canonEnts(exp)))
			h.tainted = true
		}
	}
	return res, err
}

func kindOfStorage(m value.Map) string {
	switch m.Storage().(type) {
	case listMap.ListMap[vv]:
		return "list"
	case value.RealMap:
		return "real"
	case value.AppendMap:
		return "append"
	case value.MergeMap:
		return "merge"
	case value.ReplaceMap:
		return "replace"
	}
	t := reflect.TypeOf(m.Storage()).String()
	switch {
	case strings.Contains(t, "emptyMapStorage"):
		return "empty"
	case strings.Contains(t, "funcMapType"):
		return "func"
	case strings.Contains(t, "toMapWrapper"):
		return "wrap"
	case strings.HasSuffix(t, ".bin"):
		return "bin"
	}
	return t
}

func valStr(v vv) string {
	s, err := v.ToString(newStack())
	if err != nil {
		return "!err"
	}
	return s
}

type obs13 struct {
	size int
	ents []ent
	gets []string // per probe key: vkey or "_"
	str  string
	eq   string
	kind string
}

// derived maps for the equality observers, built from the iterated entries in other representations
func derivedMaps(es []ent, intsOnly bool) []value.Map {
	rm := value.RealMap{}
	for i := len(es) - 1; i >= 0; i-- {
		rm[es[i].k] = es[i].v
	}
	t2 := listMap.New[vv](len(es))
	t3 := listMap.New[vv](len(es) + 1)
	t4 := value.EmptyMap
	for j, e := range es {
		if i, ok := e.v.(value.Int); ok && intsOnly {
			t2 = t2.Append(e.k, i+1)
		} else if j == 0 {
			// values of other types: differ in a key instead, so that no comparison of unlike types arises
			t2 = t2.Append(e.k+"#", e.v)
		} else {
			t2 = t2.Append(e.k, e.v)
		}
		t3 = t3.Append(e.k, e.v)
	}
	t3 = t3.Append("\x01new", value.Int(0))
	for i := len(es) - 1; i >= 0; i-- {
		t4 = putM(t4, es[i].k+"'", es[i].v)
	}
	return []value.Map{value.NewMap(rm), value.NewMap(t2), value.NewMap(t3), t4}
}

// observe applies every observer to m and checks that they all describe the entry list Iter yields.
func (h *h13) observe(m value.Map, probes []string, intsOnly bool) obs13 {
	es := entriesOf(m)
	o := obs13{ents: es, kind: kindOfStorage(m)}
	bad := func(observer, what string) {
		h.report("observer-"+observer+":"+o.kind, fmt.Sprintf("%s (storage %s, iterated entries %s)", what, o.kind, canonEnts(es)))
	}
	if hasDup(es) {
		bad("iter-duplicate-key", "Iter yields a key twice")
	}
	// a second traversal sees the same finite map
	if canonEnts(entriesOf(m)) != canonEnts(es) {
		bad("iter-unstable", "two traversals differ")
	}
	// early stop: yield returning false ends the traversal
	for _, stop := range []int{1, (len(es) + 1) / 2} {
		if stop < 1 || stop > len(es) {
			continue
		}
		calls := 0
		func() {
			defer func() {
				if r := recover(); r != nil {
					bad("iter-early-stop", fmt.Sprintf("Iter panicked after yield returned false: %v", r))
				}
			}()
			m.Iter(func(string, vv) bool { calls++; return calls < stop })
		}()
		if calls != stop {
			bad("iter-early-stop", fmt.Sprintf("yield returned false at call %d but was called %d times", stop, calls))
		}
	}
	o.size = m.Size()
	if o.size != len(es) {
		bad("size", fmt.Sprintf("Size()=%d but Iter yields %d entries", o.size, len(es)))
	}
	if v, err := h.mustGen("m.size()", "m").Eval(m); err != nil || v != value.Int(len(es)) {
		bad("size-method", fmt.Sprintf("m.size()=%v err=%v, %d entries iterated", v, err, len(es)))
	}
	// key based observers
	all := append([]string{}, probes...)
	for _, e := range es {
		all = append(all, e.k)
	}
	seen := map[string]bool{}
	for pi, k := range all {
		if seen[k] && pi >= len(probes) {
			continue
		}
		seen[k] = true
		want, present := lookupEnt(es, k)
		wk := "_"
		if present {
			wk = vkey(want)
		}
		enc := func(v vv, ok bool) string {
			if !ok {
				return "_"
			}
			return vkey(v)
		}
		gv, gok := m.Get(k)
		if pi < len(probes) {
			o.gets = append(o.gets, enc(gv, gok))
		}
		if enc(gv, gok) != wk {
			bad("get", fmt.Sprintf("Get(%q)=%s but the iterated entries give %s", k, enc(gv, gok), wk))
		}
		kv := value.String(k)
		v, err := h.mustGen("m.get(k)", "m", "k").Eval(m, kv)
		if enc(v, err == nil) != wk {
			bad("get-method", fmt.Sprintf("m.get(%q)=%s, entries give %s", k, enc(v, err == nil), wk))
		}
		if !strings.ContainsAny(k, "'\x00") {
			v, err = h.mustGen("m.'"+k+"'", "m").Eval(m)
			if enc(v, err == nil) != wk {
				bad("member-access", fmt.Sprintf("m.'%s'=%s, entries give %s", k, enc(v, err == nil), wk))
			}
		}
		v, err = h.mustGen("m.isAvail(k)", "m", "k").Eval(m, kv)
		if err != nil || v != value.Bool(present) {
			bad("isAvail", fmt.Sprintf("m.isAvail(%q)=%v err=%v, key present in entries: %v", k, v, err, present))
		}
		v, err = h.mustGen("k ~ m", "m", "k").Eval(m, kv)
		if err != nil || v != value.Bool(present) {
			bad("contains", fmt.Sprintf("%q ~ m = %v err=%v, key present in entries: %v", k, v, err, present))
		}
		if len(es) > 0 {
			// isAvail with several keys: all of them have to be available, wherever the missing one stands
			j := value.String(es[len(es)-1].k)
			for _, q := range []struct {
				src  string
				args []value.Value
			}{
				{"m.isAvail(j,k)", []value.Value{m, value.String(es[0].k), kv}},
				{"m.isAvail(k,j)", []value.Value{m, j, kv}},
				{"m.isAvail(j,k,j)", []value.Value{m, j, kv}},
				{"m.isAvail(k,k,j)", []value.Value{m, j, kv}},
			} {
				names := []string{"m", "j", "k"}
				v, err = h.mustGen(q.src, names...).Eval(q.args...)
				if err != nil || v != value.Bool(present) {
					bad("isAvail", fmt.Sprintf("%s with j=%q (present), k=%q gives %v err=%v, key k present in entries: %v", q.src, q.args[1], k, v, err, present))
				}
			}
		}
	}
	// string(): the pieces key:value, in some order
	var parts []string
	for _, e := range es {
		parts = append(parts, e.k+":"+valStr(e.v))
	}
	sv, err := h.mustGen("m.string()", "m").Eval(m)
	if s, ok := sv.(value.String); err != nil || !ok {
		bad("string", fmt.Sprintf("m.string() failed: %v", err))
	} else {
		o.str = string(s)
		inner := strings.TrimSuffix(strings.TrimPrefix(o.str, "{"), "}")
		var got []string
		if inner != "" || len(es) > 0 {
			got = strings.Split(inner, ", ")
		}
		sort.Strings(got)
		want := append([]string{}, parts...)
		sort.Strings(want)
		if !strings.HasPrefix(o.str, "{") || !strings.HasSuffix(o.str, "}") || strings.Join(got, "\x00") != strings.Join(want, "\x00") {
			bad("string", fmt.Sprintf("m.string()=%q, entries give the pieces %q", o.str, want))
		}
	}
	// list(): one {key, value} map per entry
	lv, err := h.mustGen("m.list()", "m").Eval(m)
	if l, ok := lv.(*value.List); err != nil || !ok {
		bad("list", fmt.Sprintf("m.list() failed: %v", err))
	} else if sl, err := l.ToSlice(newStack()); err != nil {
		bad("list", fmt.Sprintf("m.list() failed: %v", err))
	} else {
		var got []ent
		okShape := true
		for _, x := range sl {
			xm, ok := x.(value.Map)
			if !ok || xm.Size() != 2 {
				okShape = false
				break
			}
			k, ok1 := xm.Get("key")
			v, ok2 := xm.Get("value")
			ks, ok3 := k.(value.String)
			if !ok1 || !ok2 || !ok3 {
				okShape = false
				break
			}
			got = append(got, ent{string(ks), v})
		}
		if !okShape || canonEntsMulti(got) != canonEntsMulti(es) {
			bad("list", fmt.Sprintf("m.list() gives %s", canonEntsMulti(got)))
		}
	}
	// iteration based methods
	for _, src := range []string{"m.map((k,v)->v)", "m.accept((k,v)->true)", "m.eval()", "m.combine(m,(x,y)->x)", "m.replace(a->a)", "m.replace(a->{})"} {
		v, err := h.mustGen(src, "m").Eval(m)
		if mm, ok := v.(value.Map); err != nil || !ok {
			bad("iteration", fmt.Sprintf("%s failed: %v", src, err))
		} else if canonEntsMulti(entriesOf(mm)) != canonEntsMulti(es) {
			bad("iteration", fmt.Sprintf("%s gives %s", src, canonEntsMulti(entriesOf(mm))))
		}
	}
	// equality against other representations of the same / of different finite maps
	if !hasDup(es) {
		eqf, nef := h.mustGen("a = b", "a", "b"), h.mustGen("a != b", "a", "b")
		var eqs strings.Builder
		for i, t := range derivedMaps(es, intsOnly) {
			want := canonEnts(entriesOf(t)) == canonEnts(es)
			for dir := 0; dir < 2; dir++ {
				a, b := vv(m), vv(t)
				if dir == 1 {
					a, b = b, a
				}
				v, err := eqf.Eval(a, b)
				switch {
				case err != nil:
					eqs.WriteByte('e')
				case v == value.Bool(true):
					eqs.WriteByte('1')
				default:
					eqs.WriteByte('0')
				}
				if err != nil || v != value.Bool(want) {
					bad("equality", fmt.Sprintf("'=' against derived map %d (direction %d) gives %v err=%v, same finite map: %v", i+1, dir, v, err, want))
				}
				if v, err := nef.Eval(a, b); err != nil || v != value.Bool(!want) {
					bad("equality", fmt.Sprintf("'!=' against derived map %d gives %v err=%v", i+1, v, err))
				}
			}
		}
		o.eq = eqs.String()
	}
	// JSON export: keys by Iter, values by Get
	out, err := exportJSON(m)
	var dec map[string]any
	if err != nil {
		bad("export", "JSON export failed: "+err.Error())
	} else if err := json.Unmarshal(out, &dec); err != nil {
		bad("export", "exported JSON does not parse: "+err.Error())
	} else {
		// the decoded map hides a key that is written twice: the token stream does not
		okExp := len(dec) == len(es) && len(jsonTopLevelKeys(out)) == len(es)
		for _, e := range es {
			d, ok := dec[e.k]
			switch e.v.(type) {
			case value.Map, *value.List:
			default:
				if s, isStr := d.(string); !ok || !isStr || s != valStr(e.v) {
					okExp = false
				}
			}
		}
		if !okExp && !hasDup(es) {
			bad("export", fmt.Sprintf("JSON export %s does not show the iterated entries", out))
		}
	}
	return o
}

// jsonTopLevelKeys: the keys of the outermost object in the order they are written, duplicates included
func jsonTopLevelKeys(data []byte) []string {
	d := json.NewDecoder(strings.NewReader(string(data)))
	depth := 0
	expectKey := false
	var keys []string
	for {
		t, err := d.Token()
		if err != nil {
			return keys
		}
		switch x := t.(type) {
		case json.Delim:
			if x == '{' || x == '[' {
				depth++
				expectKey = x == '{' && depth == 1
			} else {
				depth--
				expectKey = depth == 1
			}
		case string:
			if depth == 1 && expectKey {
				keys = append(keys, x)
				expectKey = false
			} else if depth == 1 {
				expectKey = true
			}
		default:
			if depth == 1 {
				expectKey = true
			}
		}
	}
}

// canonEntsMulti keeps duplicates visible (sorted multiset)
func canonEntsMulti(es []ent) string { return canonEnts(es) }

// ---------------------------------------------------------------------------------------------
// the run
// ---------------------------------------------------------------------------------------------

type case13 struct {
	h        *hnode
	tokens   string
	probes   []string
	intsOnly bool
	noPred   bool
	// implementation outcome
	ok       bool
	obs      obs13
	in       *interner
	skipCorr bool
}

func c13Corpus() []*hnode {
	lit := func(kv ...any) *hnode {
		n := &hnode{Op: 'L'}
		for i := 0; i < len(kv); i += 2 {
			n.Keys = append(n.Keys, kv[i].(string))
			n.Vals = append(n.Vals, int64(kv[i+1].(int)))
		}
		return n
	}
	put := func(h *hnode, k string, v int) *hnode { return &hnode{Op: 'P', K: k, V: int64(v), Kids: []*hnode{h}} }
	rep := func(o, r *hnode) *hnode { return &hnode{Op: 'R', Kids: []*hnode{o, r}} }
	var res []*hnode
	// B13 (i): replacement key outside the original key set; then put of that key; then flattened
	res = append(res, rep(lit("a", 1), lit("z", 2)))
	res = append(res, put(rep(lit("a", 1), lit("z", 2)), "z", 3))
	deep := rep(lit("a", 1), lit("z", 2))
	for i := 0; i < 11; i++ {
		deep = rep(deep, lit("a", 10+i))
	}
	res = append(res, deep)
	// B13 (iii): both operands contain the empty key
	res = append(res, &hnode{Op: 'M', Kids: []*hnode{put(lit("a", 1), "", 1), put(lit("b", 2), "", 2)}})
	res = append(res, &hnode{Op: 'M', Kids: []*hnode{lit("", 1), lit("", 2)}})
	// B13 (ii): bins
	for i := 0; i < 4; i++ {
		res = append(res, &hnode{Op: 'B', Idx: i})
	}
	res = append(res, lit("a", 1, "a", 2), lit(), &hnode{Op: 'E'}, put(&hnode{Op: 'E'}, "", 1))
	return res
}

func parseHTokens(ws []string) (*hnode, []string, error) {
	bad := errors.New("bad history tokens")
	if len(ws) == 0 {
		return nil, nil, bad
	}
	op, ws := ws[0], ws[1:]
	kvs := func(n *hnode) error {
		if len(ws) == 0 {
			return bad
		}
		cnt, err := strconv.Atoi(ws[0])
		if err != nil || len(ws) < 1+2*cnt {
			return bad
		}
		for i := 0; i < cnt; i++ {
			v, err := strconv.ParseInt(ws[2+2*i], 10, 64)
			if err != nil {
				return bad
			}
			n.Keys = append(n.Keys, fromCps(ws[1+2*i]))
			n.Vals = append(n.Vals, v)
		}
		ws = ws[1+2*cnt:]
		return nil
	}
	n := &hnode{Op: op[0]}
	kid := func() error {
		k, rest, err := parseHTokens(ws)
		if err != nil {
			return err
		}
		n.Kids = append(n.Kids, k)
		ws = rest
		return nil
	}
	switch op {
	case "E":
	case "X":
		if len(ws) < 1 {
			return nil, nil, bad
		}
		n.Idx, _ = strconv.Atoi(ws[0])
		ws = ws[1:]
	case "L", "W", "H":
		if err := kvs(n); err != nil {
			return nil, nil, err
		}
	case "U":
		if len(ws) < 1 {
			return nil, nil, bad
		}
		cnt, err := strconv.Atoi(ws[0])
		if err != nil || len(ws) < 1+cnt {
			return nil, nil, bad
		}
		for i := 0; i < cnt; i++ {
			n.Listed = append(n.Listed, fromCps(ws[1+i]))
		}
		ws = ws[1+cnt:]
		if err := kvs(n); err != nil {
			return nil, nil, err
		}
	case "B":
		if len(ws) < 5 {
			return nil, nil, bad
		}
		n.IsMin, n.IsMax = ws[0] == "1", ws[1] == "1"
		n.Idx = -1
		ws = ws[5:]
	case "P":
		if err := kid(); err != nil || len(ws) < 2 {
			return nil, nil, bad
		}
		n.K = fromCps(ws[0])
		n.V, _ = strconv.ParseInt(ws[1], 10, 64)
		ws = ws[2:]
	case "M", "R":
		if kid() != nil || kid() != nil {
			return nil, nil, bad
		}
	case "V":
		if kid() != nil {
			return nil, nil, bad
		}
	case "F", "A":
		if len(ws) < 3 {
			return nil, nil, bad
		}
		n.Code, _ = strconv.Atoi(ws[0])
		n.V, _ = strconv.ParseInt(ws[1], 10, 64)
		n.K = fromCps(ws[2])
		ws = ws[3:]
		if kid() != nil {
			return nil, nil, bad
		}
	case "C":
		if len(ws) < 2 {
			return nil, nil, bad
		}
		n.Code, _ = strconv.Atoi(ws[0])
		n.V, _ = strconv.ParseInt(ws[1], 10, 64)
		ws = ws[2:]
		if kid() != nil || kid() != nil {
			return nil, nil, bad
		}
	default:
		return nil, nil, bad
	}
	return n, ws, nil
}

// replaceChain: the largest number of replace operations on a path of the history
func replaceChain(n *hnode) int {
	best := 0
	for _, k := range n.Kids {
		if d := replaceChain(k); d > best {
			best = d
		}
	}
	if n.Op == 'R' {
		best++
	}
	return best
}

func shapeFeatures(shape string) (maxDepth int, kinds map[byte]bool) {
	kinds = map[byte]bool{}
	for i := 0; i < len(shape); i++ {
		ch := shape[i]
		if ch >= 'A' && ch <= 'Z' {
			kinds[ch] = true
		}
		if ch == 'R' {
			j := i + 1
			for j < len(shape) && shape[j] >= '0' && shape[j] <= '9' {
				j++
			}
			if d, err := strconv.Atoi(shape[i+1 : j]); err == nil && d > maxDepth {
				maxDepth = d
			}
		}
	}
	return
}

// classify13: the input-shape classifier of a violating history (the three shapes of finding B13)
func (h *h13) classify13(root *hnode, first string) string {
	sig := first
	root.walk(func(n *hnode) {
		if n.Op == 'B' && strings.Contains(first, "size") && h.pinned[1] {
			sig = "bin-size-constant"
		}
	})
	if sig != first {
		return sig
	}
	if strings.HasPrefix(first, "merge-accepts-collision") && h.pinned[2] {
		emptyTwice := 0
		root.walk(func(n *hnode) {
			if n.Op == 'P' && n.K == "" {
				emptyTwice++
			}
			for _, k := range n.Keys {
				if k == "" {
					emptyTwice++
				}
			}
		})
		if emptyTwice >= 1 {
			return "merge-overlapping-empty-key"
		}
	}
	hasReplace := false
	root.walk(func(n *hnode) {
		if n.Op == 'R' {
			hasReplace = true
		}
	})
	if hasReplace && h.pinned[0] && (strings.Contains(first, "get") || strings.Contains(first, "member-access") || strings.Contains(first, "isAvail") ||
		strings.Contains(first, "contains") || strings.Contains(first, "put-rejects-valid") || strings.Contains(first, "equality") ||
		strings.Contains(first, "program-vs-api") || strings.Contains(first, "merge-rejects-valid") || strings.Contains(first, "combine-accepts") || strings.Contains(first, "-wrong-result")) {
		return "replace-get-outside-original-keys"
	}
	return sig
}

// probePinned: does this source tree show the three behaviours of finding B13? Only then are their
// symptoms (which surface through many observers) filed under the finding's signature.
func (h *h13) probePinned() {
	ev := func(src string) (vv, error) {
		f, _, err := h.fg.Generate(src)
		if err != nil {
			return nil, err
		}
		return f.Eval()
	}
	if v, err := ev(`{a:1}.replace(m->{z:2}).isAvail("z")`); err == nil && v == value.Bool(true) {
		h.pinned[0] = true
	}
	for _, b := range h.bins {
		if b.m.Size() != len(entriesOf(b.m)) {
			h.pinned[1] = true
		}
	}
	if _, err := ev(`{a:1}.put("",1)+{b:2}.put("",2)`); err == nil {
		h.pinned[2] = true
	}
}

func runC13(c *Ctx) {
	c.rule = "histories of <= 15 map operations (literal, put, +, replace with replacement keys inside and outside the original key set and references to the argument, eval, map, accept, combine with succeeding and failing callbacks; leaves: literals incl. duplicate keys, EmptyMap, hash maps, NewToMap / NewToMapReflection struct wrappers, NewFuncMapFactory wrappers, bins of binning) over pools of 3-8 keys (incl. the empty key and keys only a quoted identifier can spell) evaluated through the Go API step by step and as one parsed program; predicate: per operation the finite-map reference outcome, on the result all observers (Iter twice and with early stop, Size, Get, .k, get, isAvail, ~, size(), string(), list(), map/accept/eval/combine/replace identities, = and != against four derived maps in both directions, JSON export) agree; then size/iter/get/string/equality/top-level storage kind compared with the Lean model. Non-trivial = distinct history with >= 2 different operation kinds and >= 1 key mentioned twice"
	c.assume = append(c.assume,
		"NewFuncMapFactory callers list exactly the keys their function answers, without repetition (FuncOK); contract-violating wrappers are only compared with the model",
		"the values inside bins (str/min/max) are read through Get and treated as opaque; binning itself is C20",
		"iteration order of Go maps (RealMap, toMapWrapper) is unspecified: such results are compared as sorted entry lists")
	log.SetOutput(io.Discard)
	h := &h13{c: c, fg: value.New(), compiled: map[string]funcGen.Func[vv]{}, bins: makeBins()}
	g := &gen13{r: c.rng, bins: h.bins}
	h.probePinned()

	var roots []*hnode
	var forced []bool // noPred
	if rp := os.Getenv("VERIF_REPLAY"); rp != "" {
		data, err := os.ReadFile(rp)
		if err != nil {
			fatal("replay: %v", err)
		}
		var rep struct {
			Tokens string `json:"tokens"`
		}
		if json.Unmarshal(data, &rep) != nil || rep.Tokens == "" {
			fatal("replay file has no tokens")
		}
		n, rest, err := parseHTokens(strings.Fields(rep.Tokens))
		if err != nil || len(rest) != 0 {
			fatal("replay tokens do not parse")
		}
		roots, forced = append(roots, n), append(forced, false)
	} else {
		for _, n := range c13Corpus() {
			roots, forced = append(roots, n), append(forced, false)
		}
		n := c.Pick(15000, 300000)
		if len(c.BrokenObligs()) > 0 {
			n *= 2 // a Lean obligation no longer checks: search harder for a concrete failing history
		}
		for i := 0; i < n; i++ {
			var t *hnode
			for {
				t = g.history()
				if opCount(t) <= 14 {
					break
				}
			}
			roots, forced = append(roots, t), append(forced, g.noFunc)
		}
	}

	var cases []*case13
	var reqs []string
	for ci, root := range roots {
		cs := &case13{h: root, in: &interner{codes: map[string]int64{}}, noPred: forced[ci], intsOnly: true}
		keysSeen := map[string]int{}
		opKinds := map[byte]bool{}
		root.walk(func(n *hnode) {
			h.buildLeaf(n)
			switch n.Op {
			case 'B':
				cs.intsOnly = false
			case 'T':
				if n.TIdx == 3 {
					cs.intsOnly = false
				}
			}
			if len(n.Kids) > 0 {
				opKinds[n.Op] = true
			}
			for _, k := range n.Keys {
				keysSeen[k]++
			}
			if n.Op == 'P' {
				keysSeen[n.K]++
			}
		})
		// histories with non-int values use value-agnostic callbacks only
		if !cs.intsOnly {
			root.walk(func(n *hnode) {
				switch n.Op {
				case 'F':
					if n.Code == 2 {
						n.Code = 0
					}
				case 'A':
					if n.Code == 2 || n.Code == 3 {
						n.Code = 1
					}
				case 'C':
					if n.Code >= 2 {
						n.Code = n.Code - 2
					}
				}
			})
		}
		var tb strings.Builder
		root.tokens(&tb, cs.in)
		cs.tokens = tb.String()
		collide := false
		for k, cnt := range keysSeen {
			cs.probes = append(cs.probes, k)
			if cnt > 1 {
				collide = true
			}
		}
		cs.probes = append(cs.probes, "never-a-key", "")
		sort.Strings(cs.probes)
		if len(cs.probes) > 12 {
			cs.probes = cs.probes[:12]
		}
		c.Case(cs.tokens, len(opKinds) >= 2 && collide)
		c.Count(fmt.Sprintf("ops=%02d", opCount(root)+1))

		// (b) the real code, step by step through the API, with the per-operation predicate
		h.viol, h.tainted, h.firstErr = nil, cs.noPred, ""
		m, err := h.step(root, nil)
		cs.ok = err == nil
		if cs.ok {
			c.Count("outcome=ok")
		} else {
			c.Count("outcome=error")
			c.Count("error-in=" + h.firstErr)
		}
		// the same history as one program through parser, optimizer and code generator
		var pb strings.Builder
		var args []vv
		root.prog(&pb, 0, &args, c.rng)
		src := pb.String()
		var names []string
		for i := range args {
			names = append(names, "x"+itoa(i))
		}
		var pm value.Map
		var perr error
		if f, _, gerr := h.fg.Generate(src, names...); gerr != nil {
			perr = gerr
		} else if v, e := f.Eval(args...); e != nil {
			perr = e
		} else if mm, ok := v.(value.Map); ok {
			pm = mm
		} else {
			perr = errors.New("program did not return a map")
		}
		if !h.tainted {
			if (perr == nil) != cs.ok {
				h.report("program-vs-api-outcome", fmt.Sprintf("program %q: error=%v, API calls: error=%v", src, perr, err))
			} else if cs.ok && canonEnts(entriesOf(pm)) != canonEnts(entriesOf(m)) {
				h.report("program-vs-api-entries", fmt.Sprintf("program %q gives %s, API calls give %s", src, canonEnts(entriesOf(pm)), canonEnts(entriesOf(m))))
			}
		}
		// (c) all observers on the result (both ways of building it)
		if cs.ok {
			pre := len(h.viol)
			cs.obs = h.observe(m, cs.probes, cs.intsOnly)
			if perr == nil && c.rng.Intn(4) == 0 {
				h.observe(pm, cs.probes, cs.intsOnly)
			}
			if cs.noPred {
				h.viol = h.viol[:pre]
			}
			c.Count("top=" + cs.obs.kind)
			if root.Op == 'R' && (cs.obs.kind == "list" || cs.obs.kind == "real") {
				c.Count("flattened-to=" + cs.obs.kind)
			}
			if cl := replaceChain(root); cl > 10 {
				c.Count("replace-chain>10")
			} else if cl > 0 {
				c.Count("replace-chain=1-10")
			}
			switch sz := len(cs.obs.ents); {
			case sz == 0:
				c.Count("size=0")
			case sz <= 5:
				c.Count("size=1-5")
			case sz <= 20:
				c.Count("size=6-20")
			default:
				c.Count("size>20")
			}
		}
		if len(h.viol) > 0 && !cs.noPred {
			v := h.viol[0]
			sig := h.classify13(root, v.signature)
			var all []string
			for _, x := range h.viol {
				all = append(all, x.signature+": "+x.what)
				if len(all) >= 6 {
					break
				}
			}
			c.Violation(sig, v.what, map[string]any{"tokens": cs.tokens, "program": src, "first_observation": v.signature, "observations": all})
			cs.skipCorr = true
		}
		if len(c.samples) < 4 && len(opKinds) >= 3 && cs.ok {
			c.Sample(map[string]any{"program": src, "tokens": cs.tokens, "entries": canonEnts(cs.obs.ents)})
		}
		cases = append(cases, cs)
		pk := make([]string, len(cs.probes))
		for i, k := range cs.probes {
			pk[i] = cps(k)
		}
		reqs = append(reqs, "MAPHIST\t"+cs.tokens+"\t"+strings.Join(pk, " "))
	}

	// (d) correspondence with the model
	resp := c.Model(reqs)
	for i, r := range resp {
		cs := cases[i]
		rep := map[string]any{"tokens": cs.tokens, "request": reqs[i], "response": r}
		f := strings.Split(r, "\t")
		if cs.skipCorr {
			continue
		}
		if cs.noPred && (h.pinned[0] || h.pinned[1] || h.pinned[2]) {
			// the model is that of the repaired code; without the predicate a difference could not be told
			// from a symptom of finding B13 on this tree
			c.Count("corr-skipped-on-pinned-tree")
			continue
		}
		if f[0] == "ERR" {
			c.Count("model=err")
			if cs.ok {
				c.disagree++
				c.Broken("corr:MAPHIST", "the model reports an error, the implementation built a map", rep)
			}
			continue
		}
		if f[0] != "OK" || len(f) != 9 {
			c.Broken("corr:MAPHIST", "model driver rejected the request", rep)
			continue
		}
		if !cs.ok {
			c.disagree++
			c.Broken("corr:MAPHIST", "the implementation reports an error, the model built a map", rep)
			continue
		}
		maxDepth, kinds := shapeFeatures(f[8])
		c.Count(fmt.Sprintf("replaceDepth=%02d", maxDepth))
		c.Count(fmt.Sprintf("wrapperKinds=%d", len(kinds)))
		for k := range kinds {
			c.Count("storage=" + string(k))
		}
		c.Count("ordered=" + f[2])
		var diffs []string
		if f[1] != cs.obs.kind {
			diffs = append(diffs, "top-level storage kind: impl "+cs.obs.kind+" model "+f[1])
		}
		if f[3] != itoa(cs.obs.size) {
			diffs = append(diffs, "size: impl "+itoa(cs.obs.size)+" model "+f[3])
		}
		var ie []string
		for _, e := range cs.obs.ents {
			ie = append(ie, cps(e.k)+":"+strconv.FormatInt(cs.in.code(e.v), 10))
		}
		me := strings.Fields(f[4])
		if len(me) > 0 {
			me = me[1:]
		}
		if f[2] != "1" {
			sort.Strings(ie)
			sort.Strings(me)
		}
		if strings.Join(ie, " ") != strings.Join(me, " ") {
			diffs = append(diffs, "entries: impl ["+strings.Join(ie, " ")+"] model ["+strings.Join(me, " ")+"]")
		}
		var ig []string
		for _, gk := range cs.obs.gets {
			if gk == "_" {
				ig = append(ig, "_")
			} else {
				// recover the value from its key form through the entries or the interner
				ig = append(ig, c13CodeOfKey(cs, gk))
			}
		}
		if strings.Join(ig, " ") != f[5] {
			diffs = append(diffs, "get on the probe keys: impl ["+strings.Join(ig, " ")+"] model ["+f[5]+"]")
		}
		if cs.intsOnly {
			if f[2] == "1" && fromCps(f[6]) != cs.obs.str {
				diffs = append(diffs, "string(): impl "+cs.obs.str+" model "+fromCps(f[6]))
			}
			if cs.obs.eq != "" && f[7] != cs.obs.eq {
				diffs = append(diffs, "equality outcomes: impl "+cs.obs.eq+" model "+f[7])
			}
		}
		if len(diffs) > 0 {
			c.disagree++
			rep["differences"] = diffs
			if cs.noPred {
				c.Broken("corr:MAPHIST", "model and implementation differ on a wrapper used against its contract: "+diffs[0], rep)
			} else {
				c.Broken("corr:MAPHIST", "model and implementation differ: "+diffs[0], rep)
			}
		}
	}
	c13LibraryMaps(c)
}

func c13CodeOfKey(cs *case13, vk string) string {
	if strings.HasPrefix(vk, "i") {
		return vk[1:]
	}
	if c, ok := cs.in.codes[vk]; ok {
		return strconv.FormatInt(c, 10)
	}
	return "?" + vk
}
