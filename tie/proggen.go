package main

// Type-directed random program generator for the value expression language (source text).
// Mostly-valid programs over the fragment the Lean language model covers; run-time errors are possible
// and welcome (index out of range, empty reductions, throw) — both sides must then fail.

import (
	"fmt"
	"math/rand"
	"strings"
)

type pty int

const (
	pInt pty = iota
	pFloat
	pStr
	pBool
	pList // list of ints
	pMap  // map with int fields x, y
	pMapF // map with int field x and closure field f (int -> int)
	pFn   // closure int -> int
	pFn2  // closure (int,int) -> int
)

type pbind struct {
	name string
	ty   pty // may carry the pAttr flag
}

// pAttr (a flag on pbind.ty): not a binding of the program text but an attribute of the implicit
// argument map (C16). A reference is emitted as attrMark+name+attrMark; the harness spells it `name`
// (map mode) or `m.name` (explicit). A nearer binding of the same name shadows it as usual.
// (A flag instead of a struct field: positional pbind literals of the other harnesses keep compiling.)
const pAttr pty = 1 << 8

func (b pbind) attr() bool { return b.ty&pAttr != 0 }

const attrMark = "§"

// pHidden: the type of a binding that only hides outer bindings of its name (never referenced)
const pHidden pty = 127

type progGen struct {
	r *rand.Rand
	// names used as binders inside the current function body (no redeclaration inside one body)
	used []map[string]bool
	n    int
	// knobs
	bindInArg   float64 // probability to place a statement form inside a call/method argument
	shadowNames bool    // allow binder names that shadow outer binders / static functions
	noThrow     bool
	features    map[string]int
	// C16: names no generated binder may take (the name of the implicit map); with attrMode a func
	// hides outer bindings of its own name inside its body (there the name denotes the func itself)
	reserved map[string]bool
	attrMode bool
}

func newProgGen(r *rand.Rand) *progGen {
	return &progGen{r: r, used: []map[string]bool{{}}, bindInArg: 0.35, shadowNames: true, features: map[string]int{}}
}

var binderPool = []string{"x", "y", "z", "k", "n", "e", "p", "q", "u", "w", "acc", "it", "f", "g", "h"}
var staticNamesPool = []string{"abs", "sqr", "max", "min", "sign"}

func (g *progGen) enterBody(params ...string) {
	m := map[string]bool{}
	for _, p := range params {
		m[p] = true
	}
	g.used = append(g.used, m)
}
func (g *progGen) leaveBody() { g.used = g.used[:len(g.used)-1] }

// fresh returns a binder name not yet declared in the current body. It may shadow names of
// enclosing bodies (allowed by the language) and, rarely, a static function.
func (g *progGen) fresh(sc []pbind) string {
	cur := g.used[len(g.used)-1]
	for tries := 0; tries < 20; tries++ {
		var nm string
		switch {
		case g.shadowNames && g.r.Intn(25) == 0:
			nm = staticNamesPool[g.r.Intn(len(staticNamesPool))]
		case g.shadowNames && g.r.Intn(3) == 0:
			nm = binderPool[g.r.Intn(len(binderPool))]
		default:
			g.n++
			nm = fmt.Sprintf("v%d", g.n)
		}
		if cur[nm] || g.reserved[nm] {
			continue
		}
		// inside the top-level body the argument names are declared already
		cur[nm] = true
		return nm
	}
	g.n++
	nm := fmt.Sprintf("v%d", g.n)
	cur[nm] = true
	return nm
}

// freshFunc: the name of a func. With attrMode it never is the name of a static function: the body
// may call that static function, which would then be an unbounded recursion of the func.
func (g *progGen) freshFunc(sc []pbind) string {
	nm := g.fresh(sc)
	if g.attrMode {
		for _, s := range staticNamesPool {
			if s == nm {
				g.n++
				nm = fmt.Sprintf("v%d", g.n)
				g.used[len(g.used)-1][nm] = true
			}
		}
	}
	return nm
}

func (g *progGen) vars(sc []pbind, t pty) []string {
	var res []string
	seen := map[string]bool{}
	for i := len(sc) - 1; i >= 0; i-- { // nearest binding wins
		if seen[sc[i].name] {
			continue
		}
		seen[sc[i].name] = true
		if sc[i].ty&^pAttr == t {
			if sc[i].attr() {
				res = append(res, attrMark+sc[i].name+attrMark)
			} else {
				res = append(res, sc[i].name)
			}
		}
	}
	return res
}

func (g *progGen) pick(opts ...string) string { return opts[g.r.Intn(len(opts))] }

func (g *progGen) feat(s string) { g.features[s]++ }

// arg generates an expression for an argument position (parseLet is allowed there): with
// probability bindInArg a statement form is placed directly in the argument.
func (g *progGen) arg(t pty, d int, sc []pbind) string {
	if d > 0 && g.r.Float64() < g.bindInArg {
		g.feat("stmt-in-arg")
		return g.stmt(t, d, sc)
	}
	return g.expr(t, d, sc)
}

// stmt: a position where let/func forms are allowed
func (g *progGen) stmt(t pty, d int, sc []pbind) string {
	if d <= 0 {
		return g.expr(t, d, sc)
	}
	switch g.r.Intn(6) {
	case 0, 1, 2:
		vt := []pty{pInt, pInt, pInt, pStr, pBool, pList, pFn, pMap, pFloat}[g.r.Intn(9)]
		val := g.expr(vt, d-1, sc)
		nm := g.fresh(sc)
		g.feat("let")
		return fmt.Sprintf("let %s = %s; %s", nm, val, g.stmt(t, d-1, append(sc[:len(sc):len(sc)], pbind{nm, vt})))
	case 3:
		// func, possibly recursive on a decreasing counter
		fn := g.freshFunc(sc)
		prm := g.paramName(sc)
		g.enterBody(prm)
		inner := append(sc[:len(sc):len(sc)], pbind{prm, pInt})
		if g.attrMode {
			// AddThis is layered above AddArgs: inside the body the name is the func
			inner = append(inner, pbind{fn, pHidden})
		}
		var body string
		if g.r.Intn(2) == 0 {
			g.feat("func-recursive")
			rec := append(inner[:len(inner):len(inner)], pbind{fn, pFn})
			_ = rec
			body = fmt.Sprintf("if %s <= 0 then %s else (%s + %s(%s - 1))", prm, g.expr(pInt, d-2, inner), g.expr(pInt, d-2, inner), fn, prm)
		} else {
			g.feat("func")
			body = g.stmt(pInt, d-1, inner)
		}
		g.leaveBody()
		return fmt.Sprintf("func %s(%s) %s; %s", fn, prm, body, g.stmt(t, d-1, append(sc[:len(sc):len(sc)], pbind{fn, pFn})))
	default:
		return g.expr(t, d, sc)
	}
}

func (g *progGen) paramName(sc []pbind) string {
	if g.shadowNames && g.r.Intn(3) == 0 && len(sc) > 0 {
		// shadow an outer binding on purpose
		if nm := sc[g.r.Intn(len(sc))].name; !g.reserved[nm] {
			return nm
		}
	}
	if g.shadowNames && g.r.Intn(30) == 0 {
		return staticNamesPool[g.r.Intn(len(staticNamesPool))]
	}
	g.n++
	return fmt.Sprintf("%s%d", g.pick("e", "x", "k", "n"), g.n)
}

// closure literal of type int->int, usable in argument position; wrap in parens elsewhere
func (g *progGen) fn1(d int, sc []pbind) string {
	p := g.paramName(sc)
	g.enterBody(p)
	body := g.stmt(pInt, d-1, append(sc[:len(sc):len(sc)], pbind{p, pInt}))
	g.leaveBody()
	g.feat("closure")
	return fmt.Sprintf("%s -> %s", p, body)
}

func (g *progGen) fnBool(d int, sc []pbind) string {
	p := g.paramName(sc)
	g.enterBody(p)
	body := g.stmt(pBool, d-1, append(sc[:len(sc):len(sc)], pbind{p, pInt}))
	g.leaveBody()
	g.feat("closure")
	return fmt.Sprintf("%s -> %s", p, body)
}

func (g *progGen) fn2(d int, sc []pbind) string {
	p := g.paramName(sc)
	q := g.paramName(sc)
	for q == p {
		g.n++
		q = fmt.Sprintf("q%d", g.n)
	}
	g.enterBody(p, q)
	body := g.stmt(pInt, d-1, append(sc[:len(sc):len(sc)], pbind{p, pInt}, pbind{q, pInt}))
	g.leaveBody()
	g.feat("closure2")
	return fmt.Sprintf("(%s, %s) -> %s", p, q, body)
}

func (g *progGen) lit(t pty) string {
	switch t {
	case pInt:
		return g.pick("0", "1", "2", "3", "5", "7", "10", "100")
	case pFloat:
		return g.pick("0.5", "1.5", "2.25", "4.0", "0.125", "10.0")
	case pStr:
		return g.pick(`""`, `"a"`, `"ab"`, `"x y"`, `"é"`, `"Q"`)
	case pBool:
		return g.pick("true", "false")
	case pList:
		return g.pick("[]", "[1]", "[1, 2, 3]", "[3, 1, 2, 1]", "[5, 4]")
	case pMap:
		return g.pick("{x: 1, y: 2}", "{x: 0, y: 5}", "{y: 7, x: 3, z: 9}")
	case pMapF:
		return "{x: 2, f: (e -> e + 1)}"
	case pFn:
		return g.pick("(e -> e + 1)", "(e -> e * 2)", "(e -> 0 - e)")
	case pFn2:
		return g.pick("((p, q) -> p + q)", "((p, q) -> p - q)")
	}
	return "0"
}

// expr: a position where only expressions are allowed (operands, conditions, …). Every compound
// form is parenthesised, so no precedence question arises here (C03 covers precedence).
func (g *progGen) expr(t pty, d int, sc []pbind) string {
	if vs := g.vars(sc, t); len(vs) > 0 && (d <= 0 || g.r.Intn(3) == 0) {
		g.feat("var")
		return vs[g.r.Intn(len(vs))]
	}
	if d <= 0 {
		return g.lit(t)
	}
	// generic forms available at every type
	switch g.r.Intn(12) {
	case 0:
		g.feat("if")
		return fmt.Sprintf("(if %s then %s else %s)", g.expr(pBool, d-1, sc), g.stmt(t, d-1, sc), g.stmt(t, d-1, sc))
	case 1:
		g.feat("switch")
		n := 1 + g.r.Intn(2)
		s := "(switch " + g.expr(pInt, d-1, sc)
		for i := 0; i < n; i++ {
			s += fmt.Sprintf(" case %s : %s", g.expr(pInt, d-2, sc), g.stmt(t, d-1, sc))
		}
		return s + " default " + g.stmt(t, d-1, sc) + ")"
	case 2:
		g.feat("try")
		body := g.stmt(t, d-1, sc)
		if !g.noThrow && g.r.Intn(2) == 0 {
			body = g.failing(t, d-1, sc)
		}
		if g.r.Intn(2) == 0 {
			g.n++
			p := fmt.Sprintf("err%d", g.n) // never shadows: the handler must ignore the error text
			g.enterBody(p)
			h := g.stmt(t, d-1, sc) // the handler ignores its argument (error texts are not compared)
			g.leaveBody()
			return fmt.Sprintf("(try %s catch %s -> %s)", body, p, h)
		}
		return fmt.Sprintf("(try %s catch %s)", body, g.stmt(t, d-1, sc))
	case 3:
		// immediately applied closure returning t, capturing the scope
		g.feat("iife")
		p := g.paramName(sc)
		g.enterBody(p)
		body := g.stmt(t, d-1, append(sc[:len(sc):len(sc)], pbind{p, pInt}))
		g.leaveBody()
		return fmt.Sprintf("(%s -> %s)(%s)", p, body, g.arg(pInt, d-1, sc))
	}
	switch t {
	case pInt:
		switch g.r.Intn(23) {
		case 22:
			// a closure stored in a field that is named like a method of maps: the field wins
			g.feat("map-field-closure-named-like-method")
			name := g.pick("get", "size", "map", "string", "isAvail", "put", "accept")
			return fmt.Sprintf("{x: %s, %s: %s}.%s(%s)", g.arg(pInt, d-1, sc), name, g.fn1(d-1, sc), name, g.arg(pInt, d-1, sc))
		case 0, 1:
			return fmt.Sprintf("(%s %s %s)", g.expr(pInt, d-1, sc), g.pick("+", "-", "*"), g.expr(pInt, d-1, sc))
		case 2:
			return fmt.Sprintf("(%s %% %s)", g.expr(pInt, d-1, sc), g.pick("2", "3", "7"))
		case 3:
			g.feat("static-call")
			return fmt.Sprintf("%s(%s)", g.pick("abs", "sqr", "sign"), g.arg(pInt, d-1, sc))
		case 4, 5:
			g.feat("static-call-n")
			n := 2 + g.r.Intn(3)
			parts := make([]string, n)
			for i := range parts {
				parts[i] = g.arg(pInt, d-1, sc)
			}
			return fmt.Sprintf("%s(%s)", g.pick("max", "min"), strings.Join(parts, ", "))
		case 6:
			g.feat("method")
			return fmt.Sprintf("%s.size()", g.expr(pList, d-1, sc))
		case 7:
			g.feat("method-ho")
			return fmt.Sprintf("%s.reduce(%s)", g.expr(pList, d-1, sc), g.fn2(d-1, sc))
		case 8:
			g.feat("method-ho")
			return fmt.Sprintf("%s.mapReduce(%s, %s)", g.expr(pList, d-1, sc), g.arg(pInt, d-1, sc), g.fn2(d-1, sc))
		case 9:
			g.feat("index")
			return fmt.Sprintf("%s[%s]", g.expr(pList, d-1, sc), g.expr(pInt, d-1, sc))
		case 10:
			g.feat("method")
			return fmt.Sprintf("%s.%s()", g.expr(pList, d-1, sc), g.pick("first", "last", "sum"))
		case 11:
			g.feat("method-ho")
			return fmt.Sprintf("%s.indexWhere(%s)", g.expr(pList, d-1, sc), g.fnBool(d-1, sc))
		case 12:
			g.feat("member")
			return fmt.Sprintf("%s.%s", g.expr(pMap, d-1, sc), g.pick("x", "y"))
		case 13:
			g.feat("method")
			return fmt.Sprintf("%s.get(%s)", g.expr(pMap, d-1, sc), g.pick(`"x"`, `"y"`, `"q"`))
		case 14:
			return fmt.Sprintf("%s.len()", g.expr(pStr, d-1, sc))
		case 15, 16:
			g.feat("dyn-call")
			return fmt.Sprintf("%s(%s)", g.expr(pFn, d-1, sc), g.arg(pInt, d-1, sc))
		case 17:
			g.feat("dyn-call2")
			return fmt.Sprintf("%s(%s, %s)", g.expr(pFn2, d-1, sc), g.arg(pInt, d-1, sc), g.arg(pInt, d-1, sc))
		case 18:
			g.feat("map-field-closure")
			return fmt.Sprintf("%s.f(%s)", g.expr(pMapF, d-1, sc), g.arg(pInt, d-1, sc))
		case 19:
			g.feat("method")
			return fmt.Sprintf("%s.size()", g.expr(pMap, d-1, sc))
		case 20:
			g.feat("closure-args")
			return fmt.Sprintf("%s.invoke([%s])", g.expr(pFn, d-1, sc), g.arg(pInt, d-1, sc))
		default:
			return fmt.Sprintf("(0 - %s)", g.expr(pInt, d-1, sc))
		}
	case pFloat:
		switch g.r.Intn(5) {
		case 0, 1:
			return fmt.Sprintf("(%s %s %s)", g.expr(pFloat, d-1, sc), g.pick("+", "-", "*", "/"), g.expr(pFloat, d-1, sc))
		case 2:
			return fmt.Sprintf("float(%s)", g.arg(pInt, d-1, sc))
		case 3:
			return fmt.Sprintf("(%s / %s)", g.expr(pInt, d-1, sc), g.pick("2", "4", "8"))
		default:
			return fmt.Sprintf("%s(%s)", g.pick("floor", "ceil", "sqrt", "abs"), g.arg(pFloat, d-1, sc))
		}
	case pStr:
		switch g.r.Intn(6) {
		case 0, 1:
			return fmt.Sprintf("(%s + %s)", g.expr(pStr, d-1, sc), g.expr(g.ptyOf(pStr, pInt, pBool, pList), d-1, sc))
		case 2:
			return fmt.Sprintf("string(%s)", g.arg(g.ptyOf(pInt, pBool, pList, pStr), d-1, sc))
		case 3:
			return fmt.Sprintf("%s.string()", g.expr(g.ptyOf(pInt, pList, pBool), d-1, sc))
		case 4:
			return fmt.Sprintf("%s.string()", g.expr(pMap, d-1, sc))
		default:
			return g.lit(pStr)
		}
	case pBool:
		switch g.r.Intn(12) {
		case 0, 1, 2:
			return fmt.Sprintf("(%s %s %s)", g.expr(pInt, d-1, sc), g.pick("<", ">", "<=", ">=", "=", "!="), g.expr(pInt, d-1, sc))
		case 3:
			return fmt.Sprintf("(%s %s %s)", g.expr(pBool, d-1, sc), g.pick("&", "|"), g.expr(pBool, d-1, sc))
		case 4:
			return fmt.Sprintf("!%s", g.expr(pBool, d-1, sc))
		case 5:
			return fmt.Sprintf("(%s = %s)", g.expr(pList, d-1, sc), g.expr(pList, d-1, sc))
		case 6:
			g.feat("method-ho")
			return fmt.Sprintf("%s.present(%s)", g.expr(pList, d-1, sc), g.fnBool(d-1, sc))
		case 7:
			return fmt.Sprintf("%s.isAvail(%s)", g.expr(pMap, d-1, sc), g.pick(`"x"`, `"q"`, `"x", "y"`))
		case 8:
			return fmt.Sprintf("(%s ~ %s)", g.expr(pInt, d-1, sc), g.expr(pList, d-1, sc))
		case 9:
			return fmt.Sprintf("(%s = %s)", g.expr(pStr, d-1, sc), g.expr(pStr, d-1, sc))
		case 10:
			return fmt.Sprintf("(%s = %s)", g.expr(pMap, d-1, sc), g.expr(pMap, d-1, sc))
		default:
			return fmt.Sprintf("%s(%s)", g.pick("isInt", "isFloat"), g.arg(g.ptyOf(pInt, pFloat, pStr), d-1, sc))
		}
	case pList:
		switch g.r.Intn(12) {
		case 0, 1:
			g.feat("method-ho")
			return fmt.Sprintf("%s.map(%s)", g.expr(pList, d-1, sc), g.fn1(d-1, sc))
		case 2:
			g.feat("method-ho")
			return fmt.Sprintf("%s.accept(%s)", g.expr(pList, d-1, sc), g.fnBool(d-1, sc))
		case 3:
			return fmt.Sprintf("%s.%s(%s)", g.expr(pList, d-1, sc), g.pick("top", "skip"), g.arg(pInt, d-1, sc))
		case 4:
			return fmt.Sprintf("(%s + %s)", g.expr(pList, d-1, sc), g.expr(pList, d-1, sc))
		case 5:
			return fmt.Sprintf("%s.append(%s)", g.expr(pList, d-1, sc), g.arg(pInt, d-1, sc))
		case 6:
			return fmt.Sprintf("%s.%s()", g.expr(pList, d-1, sc), g.pick("reverse", "eval"))
		case 7:
			return fmt.Sprintf("numbers(%s)", g.pick("0", "1", "3", "6"))
		case 8, 9:
			g.feat("list-literal")
			n := g.r.Intn(4)
			parts := make([]string, n)
			for i := range parts {
				parts[i] = g.arg(pInt, d-1, sc)
			}
			return "[" + strings.Join(parts, ", ") + "]"
		case 10:
			g.feat("method-var")
			vs := g.vars(sc, pFn)
			if len(vs) > 0 {
				return fmt.Sprintf("%s.map(%s)", g.expr(pList, d-1, sc), vs[g.r.Intn(len(vs))])
			}
			return g.lit(pList)
		default:
			return g.lit(pList)
		}
	case pMap:
		switch g.r.Intn(5) {
		case 0, 1:
			g.feat("map-literal")
			return fmt.Sprintf("{x: %s, y: %s}", g.arg(pInt, d-1, sc), g.arg(pInt, d-1, sc))
		case 2:
			return fmt.Sprintf("%s.put(%s, %s)", g.expr(pMap, d-1, sc), g.pick(`"z"`, `"w"`, `"x"`), g.arg(pInt, d-1, sc))
		case 3:
			g.feat("method-ho")
			p, q := g.paramName(sc), ""
			g.n++
			q = fmt.Sprintf("mv%d", g.n)
			if p == q {
				p = p + "k"
			}
			g.enterBody(p, q)
			body := g.stmt(pInt, d-1, append(sc[:len(sc):len(sc)], pbind{p, pStr}, pbind{q, pInt}))
			g.leaveBody()
			return fmt.Sprintf("%s.map((%s, %s) -> %s)", g.expr(pMap, d-1, sc), p, q, body)
		default:
			return g.lit(pMap)
		}
	case pMapF:
		g.feat("map-with-closure")
		return fmt.Sprintf("{x: %s, f: %s}", g.arg(pInt, d-1, sc), g.fn1(d-1, sc))
	case pFn:
		switch g.r.Intn(4) {
		case 0:
			// currying: closure returned from a closure, capturing the outer parameter
			g.feat("curry")
			k := g.paramName(sc)
			g.enterBody(k)
			inner := g.fn1(d-1, append(sc[:len(sc):len(sc)], pbind{k, pInt}))
			g.leaveBody()
			return fmt.Sprintf("(%s -> %s)(%s)", k, inner, g.arg(pInt, d-1, sc))
		case 1:
			g.feat("closure-from-map")
			return fmt.Sprintf("%s.f", g.expr(pMapF, d-1, sc))
		default:
			return "(" + g.fn1(d-1, sc) + ")"
		}
	case pFn2:
		return "(" + g.fn2(d-1, sc) + ")"
	}
	return g.lit(t)
}

func (g *progGen) ptyOf(ts ...pty) pty { return ts[g.r.Intn(len(ts))] }

// failing: an expression of type t that raises an error at run time
func (g *progGen) failing(t pty, d int, sc []pbind) string {
	g.feat("failing")
	switch g.r.Intn(4) {
	case 0:
		return fmt.Sprintf(`(if %s then throw("boom") else %s)`, g.expr(pBool, d-1, sc), g.expr(t, d-1, sc))
	case 1:
		return fmt.Sprintf(`(let q9 = [1][%s]; %s)`, g.expr(pInt, d-1, sc), g.expr(t, d-1, sc))[0:0] + fmt.Sprintf(`(switch [1][%s] case 1 : %s default %s)`, g.expr(pInt, d-1, sc), g.expr(t, d-1, sc), g.expr(t, d-1, sc))
	case 2:
		return fmt.Sprintf(`(if %s.first() > 0 then %s else %s)`, g.expr(pList, d-1, sc), g.expr(t, d-1, sc), g.expr(t, d-1, sc))
	default:
		return fmt.Sprintf(`(if ("a" < 1) then %s else %s)`, g.expr(t, d-1, sc), g.expr(t, d-1, sc))
	}
}
