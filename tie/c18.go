package main

// C18 — XML and HTML export: property predicate on the implementation (encoding/xml reads the exported
// bytes back; the element/attribute structure must be the one the shape of the value dictates and every
// string of the value must come back exactly, as character data or as an attribute value) and
// correspondence with the Lean model (exporter bytes = model bytes; token stream of encoding/xml =
// token stream of the Lean reference decoder).

import (
	"bytes"
	"crypto/md5"
	"encoding/base64"
	"encoding/xml"
	"fmt"
	"html/template"
	"io"
	"log"
	"regexp"
	"sort"
	"strconv"
	"strings"
	"unicode/utf8"

	"github.com/hneemann/parser2/funcGen"
	"github.com/hneemann/parser2/value"
	"github.com/hneemann/parser2/value/export"
)

func init() { props["C18"] = runC18 }

// ---- generic element forest ----------------------------------------------------------------------

type XNode struct {
	Name   string
	Attrs  [][2]string
	Kids   []*XNode
	Text   string
	IsText bool
}

func el(name string, attrs [][2]string, kids ...*XNode) *XNode {
	return &XNode{Name: name, Attrs: attrs, Kids: kids}
}
func tx(s string) *XNode { return &XNode{IsText: true, Text: s} }

func qname(n xml.Name) string {
	if n.Space != "" {
		return n.Space + ":" + n.Local
	}
	return n.Local
}

// parseForest reads the bytes with encoding/xml (strict). Returns the forest and the canonical token
// text that is compared with the Lean reference decoder.
func parseForest(data []byte) ([]*XNode, string, error) {
	d := xml.NewDecoder(bytes.NewReader(data))
	d.Strict = true
	root := &XNode{}
	stack := []*XNode{root}
	var toks []string
	var text strings.Builder
	flush := func() {
		if text.Len() > 0 {
			toks = append(toks, "t/"+cps(text.String()))
			text.Reset()
		}
	}
	first := true
	var nsErr error
	for {
		tok, err := d.Token()
		if err == io.EOF {
			break
		}
		if err != nil {
			return nil, "", err
		}
		top := stack[len(stack)-1]
		switch t := tok.(type) {
		case xml.StartElement:
			flush()
			n := &XNode{Name: qname(t.Name)}
			parts := []string{"s/" + cps(n.Name)}
			if t.Name.Space != "" {
				nsErr = fmt.Errorf("element <%s> is in a name space: content of the value acted as a name space prefix or declaration", n.Name)
			}
			for _, a := range t.Attr {
				if a.Name.Space != "" || a.Name.Local == "xmlns" {
					nsErr = fmt.Errorf("attribute %s uses or declares a name space: content of the value acted as markup", qname(a.Name))
				}
				n.Attrs = append(n.Attrs, [2]string{qname(a.Name), a.Value})
				parts = append(parts, cps(qname(a.Name))+"="+cps(a.Value))
			}
			toks = append(toks, strings.Join(parts, "/"))
			top.Kids = append(top.Kids, n)
			stack = append(stack, n)
		case xml.EndElement:
			flush()
			toks = append(toks, "e/"+cps(qname(t.Name)))
			stack = stack[:len(stack)-1]
		case xml.CharData:
			s := string(t)
			text.WriteString(s)
			if len(top.Kids) > 0 && top.Kids[len(top.Kids)-1].IsText {
				top.Kids[len(top.Kids)-1].Text += s
			} else {
				top.Kids = append(top.Kids, tx(s))
			}
		case xml.ProcInst:
			if first && t.Target == "xml" {
				break
			}
			return nil, "", fmt.Errorf("processing instruction %q in the output", t.Target)
		case xml.Comment:
			return nil, "", fmt.Errorf("comment in the output")
		case xml.Directive:
			return nil, "", fmt.Errorf("directive in the output")
		}
		first = false
	}
	flush()
	if len(stack) != 1 {
		return nil, "", fmt.Errorf("unclosed element %s", stack[len(stack)-1].Name)
	}
	return root.Kids, strings.Join(toks, " "), nsErr
}

// attrWhitespace: a literal TAB, LF or CR inside an attribute value of the raw bytes. XML 1.0 §3.3.3
// normalises these to blanks (encoding/xml does not), so the value would not decode to the string.
func attrWhitespace(data []byte) bool {
	inTag, quote := false, byte(0)
	for _, b := range data {
		switch {
		case quote != 0:
			if b == quote {
				quote = 0
			} else if b == '\t' || b == '\n' || b == '\r' {
				return true
			}
		case inTag:
			if b == '"' || b == '\'' {
				quote = b
			} else if b == '>' {
				inTag = false
			}
		default:
			if b == '<' {
				inTag = true
			}
		}
	}
	return false
}

var wsOnly = regexp.MustCompile(`^[ \t\r\n]*$`)

type mismatch struct{ kind, msg string }

func sortedAttrs(a [][2]string) [][2]string {
	c := append([][2]string(nil), a...)
	sort.Slice(c, func(i, j int) bool { return c[i][0] < c[j][0] })
	return c
}

// matchKids: the expected children against the parsed ones. Layout white space of the pretty printer
// is tolerated only where it cannot be confused with data: between elements, and at the side of a text
// that touches a sibling element (one line break + tabs) in mixed content.
func matchKids(exp, got []*XNode, path string) *mismatch {
	// merge adjacent expected texts
	var e []*XNode
	for _, n := range exp {
		if n.IsText && len(e) > 0 && e[len(e)-1].IsText {
			e[len(e)-1] = tx(e[len(e)-1].Text + n.Text)
		} else {
			e = append(e, n)
		}
	}
	onlyText := true
	for _, n := range e {
		if !n.IsText {
			onlyText = false
		}
	}
	if onlyText {
		want := ""
		if len(e) == 1 {
			want = e[0].Text
		}
		have := ""
		for _, g := range got {
			if !g.IsText {
				return &mismatch{"structure", fmt.Sprintf("%s: unexpected element <%s> where only text %q was expected", path, g.Name, want)}
			}
			have += g.Text
		}
		if have != want {
			return &mismatch{"text", fmt.Sprintf("%s: character data %q came back as %q", path, want, have)}
		}
		return nil
	}
	gi := 0
	nextText := func() string {
		if gi < len(got) && got[gi].IsText {
			s := got[gi].Text
			gi++
			return s
		}
		return ""
	}
	for i := 0; i < len(e); i++ {
		if e[i].IsText {
			have := nextText()
			re := regexp.QuoteMeta(e[i].Text)
			if i > 0 {
				re = `(\n\t*)?` + re
			}
			if i+1 < len(e) {
				re = re + `(\n\t*)?`
			}
			if ok, _ := regexp.MatchString(`^`+re+`$`, have); !ok {
				return &mismatch{"text", fmt.Sprintf("%s: character data %q came back as %q", path, e[i].Text, have)}
			}
			continue
		}
		if i == 0 || !e[i-1].IsText {
			if lay := nextText(); !wsOnly.MatchString(lay) {
				return &mismatch{"text", fmt.Sprintf("%s: unexpected character data %q before <%s>", path, lay, e[i].Name)}
			}
		}
		if gi >= len(got) {
			return &mismatch{"structure", fmt.Sprintf("%s: element <%s> missing", path, e[i].Name)}
		}
		g := got[gi]
		gi++
		if g.IsText || g.Name != e[i].Name {
			return &mismatch{"structure", fmt.Sprintf("%s: expected element <%s>, found <%s>", path, e[i].Name, g.Name)}
		}
		ea, ga := sortedAttrs(e[i].Attrs), sortedAttrs(g.Attrs)
		if len(ea) != len(ga) {
			return &mismatch{"structure", fmt.Sprintf("%s/%s: %d attributes expected, %d found", path, g.Name, len(ea), len(ga))}
		}
		for j := range ea {
			if ea[j][0] != ga[j][0] {
				return &mismatch{"structure", fmt.Sprintf("%s/%s: attribute %q expected, %q found", path, g.Name, ea[j][0], ga[j][0])}
			}
			if ea[j][1] != ga[j][1] {
				return &mismatch{"attr", fmt.Sprintf("%s/%s: attribute %s=%q came back as %q", path, g.Name, ea[j][0], ea[j][1], ga[j][1])}
			}
		}
		if m := matchKids(e[i].Kids, g.Kids, path+"/"+g.Name); m != nil {
			return m
		}
	}
	if e[len(e)-1].IsText == false {
		if lay := nextText(); !wsOnly.MatchString(lay) {
			return &mismatch{"text", fmt.Sprintf("%s: unexpected trailing character data %q", path, lay)}
		}
	}
	if gi < len(got) {
		g := got[gi]
		if g.IsText {
			return &mismatch{"text", fmt.Sprintf("%s: unexpected character data %q", path, g.Text)}
		}
		return &mismatch{"structure", fmt.Sprintf("%s: unexpected extra element <%s>", path, g.Name)}
	}
	return nil
}

// ---- XML: the structure the shape dictates -------------------------------------------------------

// xmlScalar: the string of a value that is exported as text (looking through wrappers), ok=false for containers
func xmlScalar(t *XT) (string, bool) {
	switch t.Kind {
	case 'L', 'M':
		return "", false
	case 'X', 'A':
		return xmlScalar(t.Items[0])
	case 'B':
		return fmt.Sprintf("file %s (%d bytes)", t.Name, len(t.Data)), true
	}
	return t.str(), true
}

// expectXML: lists as <list><entry>…</entry>…</list>; maps either as <map k="v" …/> (every value a
// scalar: the form is chosen by what was parsed) or as <map><entry key="k">…</entry>…</map>, entries in
// key order; scalars as text; wrappers are transparent.
func expectXML(t *XT, got *XNode) []*XNode {
	switch t.Kind {
	case 'X', 'A':
		return expectXML(t.Items[0], got)
	case 'L':
		n := el("list", nil)
		var gk []*XNode
		if got != nil {
			for _, k := range got.Kids {
				if !k.IsText {
					gk = append(gk, k)
				}
			}
		}
		for i, it := range t.Items {
			var inner *XNode
			if i < len(gk) {
				for _, k := range gk[i].Kids {
					if !k.IsText {
						inner = k
						break
					}
				}
			}
			n.Kids = append(n.Kids, el("entry", nil, expectXML(it, inner)...))
		}
		return []*XNode{n}
	case 'M':
		idx := make([]int, len(t.Keys))
		for i := range idx {
			idx[i] = i
		}
		sort.Slice(idx, func(a, b int) bool { return t.Keys[idx[a]] < t.Keys[idx[b]] })
		allScalar := true
		for _, it := range t.Items {
			if _, ok := xmlScalar(it); !ok {
				allScalar = false
			}
		}
		n := el("map", nil)
		gotElems := 0
		var gk []*XNode
		if got != nil {
			for _, k := range got.Kids {
				if !k.IsText {
					gotElems++
					gk = append(gk, k)
				}
			}
		}
		if allScalar && got != nil && gotElems == 0 && (len(got.Attrs) > 0 || len(t.Keys) == 0) {
			for _, i := range idx {
				s, _ := xmlScalar(t.Items[i])
				n.Attrs = append(n.Attrs, [2]string{t.Keys[i], s})
			}
			return []*XNode{n}
		}
		for j, i := range idx {
			var inner *XNode
			if j < len(gk) {
				for _, k := range gk[j].Kids {
					if !k.IsText {
						inner = k
						break
					}
				}
			}
			n.Kids = append(n.Kids, el("entry", [][2]string{{"key", t.Keys[i]}}, expectXML(t.Items[i], inner)...))
		}
		return []*XNode{n}
	default:
		s, _ := xmlScalar(t)
		return []*XNode{tx(s)}
	}
}

var plainName = regexp.MustCompile(`^[A-Za-z_][A-Za-z0-9_.\-]*$`)

// hasAttrFormBadKey: a map that xml.go writes in the attribute form has a key that is not a plain name
func hasAttrFormBadKey(t *XT) bool {
	found := false
	t.walk(func(x *XT) {
		if x.Kind != 'M' {
			return
		}
		simple := true
		for _, it := range x.Items {
			if _, ok := xmlScalar(it); !ok || it.Kind == 'X' {
				simple = false
			}
		}
		if !simple {
			return
		}
		for _, k := range x.Keys {
			if !plainName.MatchString(k) || strings.HasPrefix(strings.ToLower(k), "xml") {
				found = true
			}
		}
	})
	return found
}

func hasRune(t *XT, set string) bool {
	found := false
	chk := func(s string) {
		if strings.ContainsAny(s, set) {
			found = true
		}
	}
	var styChk func(s *XSty)
	styChk = func(s *XSty) {
		if s == nil {
			return
		}
		chk(s.S)
		for i, k := range s.Keys {
			chk(k)
			if v, ok := styValStr(s.Vals[i]); ok {
				chk(v)
			}
		}
		for _, f := range s.TVals {
			styChk(f)
		}
	}
	t.walk(func(x *XT) {
		chk(x.S)
		chk(x.Href)
		chk(x.Name)
		chk(x.Mime)
		for _, k := range x.Keys {
			chk(k)
		}
		styChk(x.Sty)
	})
	return found
}

func exportXML(v value.Value) ([]byte, error) {
	ex := export.XML()
	err := export.Export(funcGen.NewEmptyStack[value.Value](), v, ex)
	return ex.Result(), err
}

// ---- HTML: the structure the shape dictates ------------------------------------------------------

type hexp struct {
	max     int
	inline  bool
	classes map[string]string
	list    []string
}

func (e *hexp) styleAttr(s string) [2]string {
	if e.inline {
		return [2]string{"style", s}
	}
	if c, ok := e.classes[s]; ok {
		return [2]string{"class", c}
	}
	c := "c" + strconv.Itoa(len(e.classes))
	e.classes[s] = c
	e.list = append(e.list, s)
	return [2]string{"class", c}
}

func styleStrOf(s *XSty) (string, bool) {
	if s == nil {
		return "", false
	}
	switch s.Kind {
	case 'T':
		return s.S, true
	case 'K':
		type kv struct{ k, v string }
		var l []kv
		for i, k := range s.Keys {
			if v, ok := styValStr(s.Vals[i]); ok {
				l = append(l, kv{strings.ReplaceAll(k, "_", "-"), v})
			}
		}
		if len(l) == 0 {
			return "", false
		}
		sort.Slice(l, func(i, j int) bool { return l[i].k < l[j].k })
		var b strings.Builder
		for _, e := range l {
			b.WriteString(e.k + ":" + e.v + ";")
		}
		return b.String(), true
	}
	return "", false
}

func hasPlainList(s *XSty) bool {
	if s == nil {
		return false
	}
	switch s.Kind {
	case 'T':
		return s.S == "plainList"
	case 'K':
		for _, k := range s.Keys {
			if k == "plainList" {
				return true
			}
		}
	}
	return false
}

var errExpected = fmt.Errorf("an element or style closure fails")

func (e *hexp) withStyle(name string, sty *XSty) *XNode {
	if s, ok := styleStrOf(sty); ok {
		return el(name, [][2]string{e.styleAttr(s)})
	}
	return el(name, nil)
}

// html: the forest ToHtml has to produce for t under style sty (the statement of "structure is dictated
// by the shape": tables for lists and maps, one row per element up to the cut-off, links, spans for
// styled strings), or errExpected when an element or closure on the way fails.
func (e *hexp) html(t *XT, sty *XSty) ([]*XNode, error) {
	if sty.isClosure1() {
		r := sty.closureResult(t)
		if r == nil {
			return nil, errExpected
		}
		return e.html(r, nil)
	}
	switch t.Kind {
	case 'X':
		return e.html(t.Items[0], t.Sty)
	case 'A':
		n := el("a", [][2]string{{"href", t.Href}})
		k, err := e.html(t.Items[0], sty)
		n.Kids = k
		return []*XNode{n}, err
	case 'B':
		mime := t.Mime
		if mime == "" {
			mime = "application/octet-stream"
		}
		return []*XNode{el("a", [][2]string{{"href", "data:" + mime + ";base64," + base64.StdEncoding.EncodeToString(t.Data)}, {"download", t.Name}},
			tx("File: "+t.Name+" ("+byteSizeStr(len(t.Data))+")"))}, nil
	case 'L':
		if hasPlainList(sty) {
			var res []*XNode
			for i, it := range t.Items {
				if t.Fail == i+1 {
					return nil, errExpected
				}
				k, err := e.html(it, nil)
				if err != nil {
					return nil, err
				}
				res = append(res, k...)
			}
			return res, nil
		}
		if len(t.Items) == 0 || t.Fail == 1 {
			if t.Fail == 1 {
				return nil, errExpected
			}
			return nil, nil
		}
		table := e.withStyle("table", sty)
		isTable := t.Items[0].Kind == 'L'
		var tf *XSty
		if isTable && sty != nil && sty.Kind == 'K' && sty.TKeys != nil {
			tf = sty
		}
		for i, it := range t.Items {
			if t.Fail == i+1 {
				return nil, errExpected
			}
			row := el("tr", nil)
			table.Kids = append(table.Kids, row)
			n := i + 1
			if !isTable {
				row.Kids = append(row.Kids, el("td", nil, tx(strconv.Itoa(n)+".")))
			}
			if n > e.max {
				row.Kids = append(row.Kids, el("td", nil, tx("more...")))
				break
			}
			if !isTable {
				td, err := e.td(it)
				if err != nil {
					return nil, err
				}
				row.Kids = append(row.Kids, td)
				continue
			}
			cells := []*XT{it}
			failAt := 0
			if it.Kind == 'L' {
				cells = it.Items
				failAt = it.Fail
			}
			for c, cell := range cells {
				if failAt == c+1 {
					return nil, errExpected
				}
				if c+1 > e.max {
					row.Kids = append(row.Kids, el("td", nil, tx("more...")))
					break
				}
				fc, err := formatCell(tf, n, c+1, cell)
				if err != nil {
					return nil, err
				}
				td, err := e.td(fc)
				if err != nil {
					return nil, err
				}
				row.Kids = append(row.Kids, td)
			}
		}
		return []*XNode{table}, nil
	case 'M':
		table := e.withStyle("table", sty)
		idx := make([]int, len(t.Keys))
		for i := range idx {
			idx[i] = i
		}
		sort.Slice(idx, func(a, b int) bool { return t.Keys[idx[a]] < t.Keys[idx[b]] })
		for _, i := range idx {
			td, err := e.td(t.Items[i])
			if err != nil {
				return nil, err
			}
			table.Kids = append(table.Kids, el("tr", nil, el("td", nil, tx(t.Keys[i]+":")), td))
		}
		return []*XNode{table}, nil
	case 'f':
		return []*XNode{tx(export.NewFormattedFloat(t.F, 6).Unicode())}, nil
	default:
		s := t.str()
		switch {
		case strings.HasPrefix(s, "http://") || strings.HasPrefix(s, "https://"):
			return []*XNode{el("a", [][2]string{{"href", s}, {"target", "_blank"}}, tx("Link"))}, nil
		case strings.HasPrefix(s, "host:"):
			return []*XNode{el("a", [][2]string{{"href", s[5:]}, {"target", "_blank"}}, tx("Link"))}, nil
		}
		if st, ok := styleStrOf(sty); ok {
			return []*XNode{el("span", [][2]string{e.styleAttr(st)}, tx(s))}, nil
		}
		return []*XNode{tx(s)}, nil
	}
}

// formatCell: the table format of a style map applied to one cell (r<row>c<col>, r<row>, c<col>, all)
func formatCell(tf *XSty, row, col int, item *XT) (*XT, error) {
	if tf == nil {
		return item, nil
	}
	var f *XSty
	for _, key := range []string{"r" + strconv.Itoa(row) + "c" + strconv.Itoa(col), "r" + strconv.Itoa(row), "c" + strconv.Itoa(col), "all"} {
		for i, k := range tf.TKeys {
			if k == key && f == nil {
				f = tf.TVals[i]
			}
		}
		if f != nil {
			break
		}
	}
	if f == nil {
		return item, nil
	}
	if f.isClosure1() {
		r := f.closureResult(item)
		if r == nil {
			return nil, errExpected // the property: failures are reported
		}
		return r, nil
	}
	return &XT{Kind: 'X', Sty: f, Cell: true, Items: []*XT{item}}, nil
}

func (e *hexp) td(t *XT) (*XNode, error) {
	td := el("td", nil)
	if t.Kind != 'X' {
		k, err := e.html(t, nil)
		td.Kids = k
		return td, err
	}
	if t.Span > 1 {
		td.Attrs = append(td.Attrs, [2]string{"colspan", strconv.Itoa(t.Span)})
	}
	if t.Items[0].Kind == 'L' && !t.Cell {
		k, err := e.html(t.Items[0], t.Sty)
		td.Kids = k
		return td, err
	}
	if s, ok := styleStrOf(t.Sty); ok {
		td.Attrs = append(td.Attrs, e.styleAttr(s))
	}
	k, err := e.html(t.Items[0], nil)
	td.Kids = k
	return td, err
}

// ---- the run ---------------------------------------------------------------------------------------

func sigFor(prefix string, t *XT, m *mismatch, out []byte) string {
	if m != nil && (m.kind == "text" || m.kind == "attr") {
		if hasRune(t, "\r") {
			return prefix + "-cr-not-preserved"
		}
		if m.kind == "attr" {
			return prefix + "-attribute-value-changed"
		}
		return prefix + "-text-changed"
	}
	// not well-formed, or the element/attribute structure differs
	if prefix == "xml" && hasAttrFormBadKey(t) {
		return "xml-simple-map-key-as-attribute-name"
	}
	if m == nil {
		return prefix + "-not-wellformed"
	}
	return prefix + "-structure-changed"
}

func containerRoot(t *XT) bool {
	switch t.Kind {
	case 'L', 'M':
		return true
	case 'X', 'A':
		return containerRoot(t.Items[0])
	}
	return false
}

func hasMarkupChar(t *XT) bool { return hasRune(t, "<>&'\"\t\r\n =]") }

type c18case struct {
	t      *XT
	max    int
	inline bool
}

func runC18(c *Ctx) {
	log.SetOutput(io.Discard)
	defer c18LibraryValues(c)
	c.rule = "value trees as in C17 (depth<=4; eager/lazy/appended lists; maps in every representation; ints, floats, bools, strings and keys of legal XML characters with a pool of markup fragments: < > & ' \" ]]> comment/CDATA/entity look-alikes, blanks, =, CR/LF/TAB, non-name characters) plus Format (string, map, closure, table-format styles; cell; colspan), Link and File wrappers, list sizes around maxListSize; each tree goes through the real XML exporter and through ToHtml (inline and class styles); encoding/xml reads the bytes back and the forest is compared with the structure the shape dictates (property predicate); bytes, class list and token stream are compared with the Lean model and its reference decoder; non-trivial = distinct tree with a container and a string/key/style containing a markup or white-space character"
	c.assume = append(c.assume,
		"scalar-to-string conversions (ToString, strconv, NewFormattedFloat.Unicode, base64, byteSize) are oracles supplied by the harness",
		"encoding/xml (strict) is the 'standard XML parser' of the predicate, completed by a scan for literal TAB/LF/CR in attribute values (XML 1.0 §3.3.3 normalisation, which encoding/xml does not perform); the Lean reference decoder P2.Xml.tokens is what the theorems use, and its token stream is compared with encoding/xml's on every case",
		"custom HTML producers and FormatedFloat.MathMl write raw markup by design (WriteHTML): what they write is outside the property; one fixed well-formed custom renderer (ints as <b class=cst>) is used to check that the document around raw markup stays well-formed and otherwise equal to the plain one",
		"table formats (style map entry 'table'), failing lazy elements and values outside V (nil, closures as data) are checked by the predicate only, not by the model")
	n := c.Pick(9000, 600000)

	var cases []c18case
	mk := func(k byte, s string) *XT { return &XT{Kind: k, S: s} }
	str := func(s string) *XT { return mk('s', s) }
	list := func(items ...*XT) *XT { return &XT{Kind: 'L', Items: items} }
	mp := func(kv ...any) *XT {
		t := &XT{Kind: 'M'}
		for i := 0; i < len(kv); i += 2 {
			t.Keys = append(t.Keys, kv[i].(string))
			t.Items = append(t.Items, kv[i+1].(*XT))
		}
		return t
	}
	styled := func(s string, v *XT) *XT { return &XT{Kind: 'X', Sty: &XSty{Kind: 'T', S: s}, Items: []*XT{v}} }
	// corpus: past failures and the pinned witnesses first
	corpus := []*XT{
		mp("a=\"1\" b", str("q")), mp("a b", str("q")), list(str("x\ry")), mp("k", str("a\tb\nc\rd")),
		mp("xmlns", str("q")), mp("a:b", str("q")), mp("", str("q")), mp("é", str("q")), mp("a", str("A"), "b", str("B")),
		list(str("]]>"), str("<!-- x -->"), str("<![CDATA[x]]>"), str("&amp;"), str("&#60;"), str(" lead"), str("trail "), str("")),
		list(str("http://a/b?x=1&y=\"2\""), str("host:/a'b"), str("https://<x>")),
		styled("a\"b<c>&'", str("text")), styled("plainList", list(str("1"), &XT{Kind: 'A', Href: "l\"<>&'k", Items: []*XT{str("inner")}}, str("2"))),
		{Kind: 'B', Name: "n\"<>&'.txt", Mime: "a\"b", Data: []byte("hello")},
		list(list(str("1"), str("2")), list(str("3"), str("4"))),
		mp("m", mp("x", str("1")), "l", list()),
		list(&XT{Kind: 'X', Sty: &XSty{Kind: 'K', Keys: []string{"a_b", "c"}, Vals: []value.Value{value.String("x\"y"), value.Int(3)}}, Span: 2, Items: []*XT{str("v")}}),
	}
	for _, f := range []*XSty{{Kind: 'E'}, {Kind: 'P'}, {Kind: 'W', S: "w\"<"}, {Kind: 'T', S: "all"}, {Kind: 'O'}} {
		tbl := list(list(str("1"), str("2")), list(str("3"), str("4")))
		corpus = append(corpus,
			&XT{Kind: 'X', Sty: &XSty{Kind: 'K', TKeys: []string{"all"}, TVals: []*XSty{f}}, Items: []*XT{tbl}},
			&XT{Kind: 'X', Sty: &XSty{Kind: 'K', TKeys: []string{"r2c1", "c2"}, TVals: []*XSty{f, {Kind: 'T', S: "c2"}}}, Items: []*XT{tbl}},
			&XT{Kind: 'X', Sty: f, Items: []*XT{str("v")}}, list(&XT{Kind: 'X', Sty: f, Items: []*XT{list(str("v"))}}),
			&XT{Kind: 'L', Rep: 1, Fail: 2, Items: []*XT{str("a"), str("b"), str("c")}},
			list(&XT{Kind: 'L', Rep: 2, Fail: 1, Items: []*XT{str("a")}}))
	}
	for _, t := range corpus {
		for _, m := range []int{1, 10} {
			cases = append(cases, c18case{t, m, true}, c18case{t, m, false})
		}
	}
	// position sweep: every class of character the writers escape (or copy as a multi-byte sequence) at every byte offset 0..320 of
	// a long string - as character data, as an attribute value of a simple map, as a link target and as a style string -, behind
	// fillers of 1- to 4-byte runes. A writer that works in chunks treats a character differently depending on where it falls (the
	// JSON twin of this sweep caught round-5 seed C17-14); the random strings are far shorter than that.
	{
		special := []string{"<", ">", "&", "\"", "'", "\r", "\n", "\t", "é", "€", "\U0001F600", "]]>", "&amp;", "&#60;"}
		fillers := []string{"a", "é", "€", "\U00010000"}
		for off := 0; off <= 320; off++ {
			fill := fillers[off%len(fillers)]
			pre := strings.Repeat(fill, off/len(fill)) + strings.Repeat("a", off%len(fill))
			for si := 0; si < 2; si++ {
				sp := special[(off+si*5)%len(special)]
				long := pre + sp + "tail" + sp
				var t *XT
				switch (off + si) % 4 {
				case 0:
					t = list(str(long))
				case 1:
					t = mp("k", str(long), "z", str("v"))
				case 2:
					t = list(&XT{Kind: 'A', Href: long, Items: []*XT{str(long)}})
				default:
					t = styled(long, str(long))
				}
				cases = append(cases, c18case{t, 10, true}, c18case{t, 10, false})
			}
		}
	}
	// list sizes around the cut-off
	for _, m := range []int{1, 2, 3, 5} {
		for d := -1; d <= 1; d++ {
			var items, rows []*XT
			for i := 0; i < m+d; i++ {
				items = append(items, str(fmt.Sprintf("e<%d>", i)))
				var row []*XT
				for j := 0; j < m+d; j++ {
					row = append(row, str(fmt.Sprintf("c&%d", j)))
				}
				rows = append(rows, list(row...))
			}
			cases = append(cases, c18case{list(items...), m, true}, c18case{list(rows...), m, true})
		}
	}
	// keys of SIMPLE maps (scalar values only) may be written as attribute names: every ASCII character and a handful of others
	// at the first and at a later position of an otherwise harmless key
	for _, r := range append(func() []rune {
		var a []rune
		for r := rune(0x20); r < 0x7f; r++ {
			a = append(a, r)
		}
		return a
	}(), 0xb5, 0xb7, 0xaa, 0xba, 0xc0, 0xd7, 0xf7, 0x37e, 0x2028, 0x203f, 0x2040, 0x2070, 0x3001, 0xfffd, 0x10000) {
		for _, key := range []string{"a" + string(r) + "b", string(r) + "a", "a" + string(r)} {
			cases = append(cases, c18case{mp(key, str("1"), "plain", str("2")), 10, true})
		}
	}
	if len(c.BrokenObligs()) > 0 {
		// targeted search: every code point the escape tables could treat wrongly, as text, key and attribute
		for r := rune(0); r < 0x500; r++ {
			if !legalXMLRune(r) {
				continue
			}
			s := "x" + string(r) + "y"
			cases = append(cases, c18case{list(str(s), mp(s, str("v"), "k", list()), mp("k", str(s)), styled(s, str("t"))), 10, true})
		}
	}
	genCase := func() c18case {
		failing := c.rng.Intn(6) == 0
		t := genXT(c.rng, 1+c.rng.Intn(4), failing)
		if !containerRoot(t) && c.rng.Intn(4) > 0 {
			t = list(t, genXT(c.rng, 2, failing))
		}
		m := []int{1, 2, 3, 5, 10}[c.rng.Intn(5)]
		if t.Kind == 'L' && c.rng.Intn(3) == 0 && len(t.Items) > 0 {
			m = len(t.Items) - 1 + c.rng.Intn(3)
		}
		return c18case{t, m, c.rng.Intn(3) > 0}
	}

	type pending struct {
		kind    string
		req     string
		out     string
		classes string
		toks    string
		holds   bool
		isErr   bool
	}
	var pend []pending
	seenXML := map[[16]byte]bool{}
	var flush func()
	process := func(cs c18case) {
		t := cs.t
		canon := xtTokens2(t)
		nontriv := t.depth() >= 1 && hasMarkupChar(t)
		c.Case(fmt.Sprintf("%s|%d|%v", canon, cs.max, cs.inline), nontriv)
		c.Count(fmt.Sprintf("depth=%d", t.depth()))
		c.Count("root=" + string(t.Kind))
		c.Count(fmt.Sprintf("maxListSize=%d", cs.max))
		t.walk(func(x *XT) {
			switch x.Kind {
			case 'X':
				c.Count("style=" + string(x.Sty.Kind))
				if x.Sty.TKeys != nil {
					c.Count("style=table-format")
				}
			case 'A', 'B':
				c.Count("wrapper=" + string(x.Kind))
			case 'L':
				if x.Fail > 0 {
					c.Count("failing-element")
				}
				switch d := len(x.Items) - cs.max; {
				case d == -1:
					c.Count("list=max-1")
				case d == 0:
					c.Count("list=max")
				case d == 1:
					c.Count("list=max+1")
				}
			}
		})
		v := t.Build()
		replay := map[string]any{"value": canon, "maxListSize": cs.max, "inlineStyle": cs.inline}

		// ---------- XML ----------
		fails := false
		t.walk(func(x *XT) {
			if x.Kind == 'L' && x.Fail > 0 {
				fails = true
			}
		})
		ck := md5.Sum([]byte(canon))
		if containerRoot(t) && !fails && !seenXML[ck] {
			seenXML[ck] = true
			out, err := exportXML(v)
			holds := false
			var toks string
			switch {
			case err != nil:
				c.Violation("xml-export-error", "XML exporter returned an error for an error-free value: "+err.Error(), replay)
			case !utf8.Valid(out):
				c.Violation("xml-invalid-utf8", "exported document is not valid UTF-8", replay)
			default:
				forest, tk, perr := parseForest(out)
				toks = tk
				rp := map[string]any{"value": canon, "exported": string(out)}
				if perr != nil {
					c.Violation(sigFor("xml", t, nil, out), "standard parser rejects the exported document: "+perr.Error(), rp)
				} else {
					var root *XNode
					for _, k := range forest {
						if !k.IsText {
							root = k
							break
						}
					}
					if m := matchKids(expectXML(t, root), forest, ""); m != nil {
						c.Violation(sigFor("xml", t, m, out), m.msg, rp)
					} else if attrWhitespace(out) {
						sig := "xml-attr-whitespace-not-preserved"
						if hasRune(t, "\r") {
							sig = "xml-cr-not-preserved"
						}
						c.Violation(sig, "literal TAB/LF/CR inside an attribute value: an XML parser normalises it to a blank", rp)
					} else {
						holds = true
					}
				}
				if len(c.samples) < 3 && nontriv {
					c.Sample(map[string]any{"tree": canon, "xml": string(out)})
				}
			}
			if t.modelable() {
				pend = append(pend, pending{kind: "XML", req: "XML\t" + xtTokens(t), out: string(out), toks: toks, holds: holds})
			}
		}

		// ---------- HTML ----------
		res, classes, err, escaped := safeToHtml(v, cs.max, cs.inline)
		if escaped != nil {
			c.Violation("html-panic-escapes", fmt.Sprintf("a panic inside ToHtml is not contained: %v", escaped), map[string]any{"value": canon, "maxListSize": cs.max, "inlineStyle": cs.inline})
			return
		}
		e := &hexp{max: cs.max, inline: cs.inline, classes: map[string]string{}}
		if e.max < 1 {
			e.max = 1
		}
		exp, expErr := e.html(t, nil)
		holds := false
		var toks string
		rp := map[string]any{"value": canon, "maxListSize": cs.max, "inlineStyle": cs.inline, "html": string(res)}
		switch {
		case expErr != nil:
			c.Count("html=expected-error")
			if err == nil {
				sig := "html-error-not-reported"
				if hasFailingTableFormat(t) {
					sig = "html-table-format-closure-error-swallowed"
				}
				c.Violation(sig, "an element or style closure fails but ToHtml returns no error", rp)
			} else if res != "" {
				c.Violation("html-error-with-output", "ToHtml returns an error together with partial output", rp)
			} else {
				holds = true
			}
		case err != nil:
			c.Violation("html-unexpected-error", "ToHtml returns an error for an error-free value: "+err.Error(), rp)
		case !utf8.ValidString(string(res)):
			c.Violation("html-invalid-utf8", "ToHtml output is not valid UTF-8", rp)
		default:
			c.Count("html=ok")
			forest, tk, perr := parseForest([]byte(res))
			toks = tk
			if perr != nil {
				c.Violation(sigFor("html", t, nil, nil), "standard parser rejects the output of ToHtml: "+perr.Error(), rp)
			} else if m := matchKids(exp, forest, ""); m != nil {
				c.Violation(sigFor("html", t, m, nil), m.msg, rp)
			} else if attrWhitespace([]byte(res)) {
				sig := "html-attr-whitespace-not-preserved"
				if hasRune(t, "\r") {
					sig = "html-cr-not-preserved"
				}
				c.Violation(sig, "literal TAB/LF/CR inside an attribute value: an XML parser normalises it to a blank", rp)
			} else if !cs.inline && !sameClasses(classes, e.list) {
				c.Violation("html-class-list", "class list does not carry the style strings in order of first use", rp)
			} else {
				holds = true
			}
			if len(c.samples) < 6 && nontriv {
				c.Sample(map[string]any{"tree": canon, "html": string(res)})
			}
			// the custom-renderer route: ints are rendered by a host function as well-formed markup (<b class="cst">N</b>),
			// written through WriteHTML. The document must stay well-formed (the open/close bookkeeping of the writer also covers raw HTML)
			if holds && strings.Contains(canon, "I") {
				res2, _, err2, esc2 := safeToHtmlCustom(v, cs.max, cs.inline)
				c.Count("html-custom-renderer")
				rp2 := map[string]any{"value": canon, "maxListSize": cs.max, "inlineStyle": cs.inline, "html_custom": string(res2), "html_plain": string(res)}
				switch {
				case esc2 != nil:
					c.Violation("html-panic-escapes", fmt.Sprintf("a panic inside ToHtml (custom renderer) is not contained: %v", esc2), rp2)
				case err2 != nil:
					c.Violation("html-custom-unexpected-error", "ToHtml with a custom renderer returns an error for an error-free value: "+err2.Error(), rp2)
				default:
					forest2, _, perr2 := parseForest([]byte(res2))
					if perr2 != nil {
						c.Violation("html-custom-not-wellformed", "well-formed markup of a custom renderer makes the document ill-formed: "+perr2.Error(), rp2)
					} else if m := matchKids(exp, unwrapCustom(forest2), ""); m != nil {
						// where the renderer is consulted relative to Format/Link wrappers is its own business: counted only
						c.Count("html-custom-differs-from-plain(not a verdict)")
					} else {
						c.Count("html-custom-equals-plain")
					}
				}
			}
		}
		if t.modelable() {
			var cl []string
			for _, k := range classes {
				cl = append(cl, cps(string(k.Style)))
			}
			cls := "-"
			if len(cl) > 0 {
				cls = strings.Join(cl, "|")
			}
			pend = append(pend, pending{kind: "HTML", req: fmt.Sprintf("HTML\t%d\t%s\t%s", cs.max, bit01(cs.inline), xtTokens(t)), out: string(res), classes: cls, toks: toks, holds: holds, isErr: err != nil})
		}
		if len(pend) >= 20000 {
			flush()
		}
	}

	// ---------- correspondence with the model ----------
	flush = func() {
		reqs := make([]string, len(pend))
		for i, p := range pend {
			reqs[i] = p.req
		}
		resp := c.Model(reqs)
		for i, r := range resp {
			p := pend[i]
			f := strings.Split(r, "\t")
			if !p.holds {
				c.Count("corr-skipped-predicate-fails")
				continue // the violation is already recorded; a difference here is explained by it
			}
			name := "corr:" + p.kind
			rp := map[string]any{"request": p.req, "impl": p.out, "response": truncate(r, 2000)}
			if p.kind == "HTML" && p.isErr {
				if f[0] != "ERR" {
					c.disagree++
					c.Broken(name, "ToHtml reports an error, the model does not", rp)
				}
				c.Count("model=ERR")
				continue
			}
			if f[0] != "OK" {
				c.disagree++
				c.Broken(name, "model does not produce a document where the exporter does", rp)
				continue
			}
			if fromCps(f[1]) != p.out {
				c.disagree++
				rp["model"] = fromCps(f[1])
				c.Broken(name, "model and exporter produce different bytes", rp)
				continue
			}
			k := 2
			if p.kind == "HTML" {
				if f[2] != p.classes {
					c.disagree++
					c.Broken(name, "model and ToHtml produce different class lists", rp)
					continue
				}
				k = 3
			}
			c.Count("modelDecodes=" + f[k])
			if f[k] != "D1" {
				c.disagree++
				c.Broken(name+"DEC", "the Lean reference decoder does not accept output that encoding/xml accepts and that satisfies the predicate", rp)
				continue
			}
			mt := ""
			if len(f) > k+1 {
				mt = f[k+1]
			}
			if mt != p.toks {
				c.disagree++
				rp["encoding/xml"] = p.toks
				c.Broken(name+"DEC", "token stream of the Lean reference decoder differs from encoding/xml", rp)
			}
		}
		pend = pend[:0]
	}
	for _, cs := range cases {
		process(cs)
	}
	for i := 0; i < n; i++ {
		process(genCase())
	}
	flush()
}

// safeToHtml: ToHtml has to contain panics itself; if one escapes it is caught here (same goroutine)
func safeToHtml(v value.Value, max int, inline bool) (res template.HTML, classes []export.Class, err error, escaped any) {
	defer func() {
		if r := recover(); r != nil {
			escaped = r
		}
	}()
	res, classes, err = export.ToHtml(v, max, nil, inline)
	return
}

// safeToHtmlCustom: the custom renderer wraps every int into <b class="cst">…</b>
func safeToHtmlCustom(v value.Value, max int, inline bool) (res template.HTML, classes []export.Class, err error, escaped any) {
	defer func() {
		if r := recover(); r != nil {
			escaped = r
		}
	}()
	custom := func(v value.Value) (template.HTML, bool, error) {
		if i, ok := v.(value.Int); ok {
			return template.HTML(`<b class="cst">` + strconv.FormatInt(int64(i), 10) + `</b>`), true, nil
		}
		return "", false, nil
	}
	res, classes, err = export.ToHtml(v, max, custom, inline)
	return
}

// unwrapCustom replaces the elements written by the custom renderer by their text
func unwrapCustom(forest []*XNode) []*XNode {
	var res []*XNode
	for _, n := range forest {
		if !n.IsText && n.Name == "b" && len(n.Attrs) == 1 && n.Attrs[0] == [2]string{"class", "cst"} {
			txt := ""
			for _, k := range n.Kids {
				if k.IsText {
					txt += k.Text
				}
			}
			if len(res) > 0 && res[len(res)-1].IsText {
				res[len(res)-1] = tx(res[len(res)-1].Text + txt)
			} else {
				res = append(res, tx(txt))
			}
			continue
		}
		if n.IsText {
			if len(res) > 0 && res[len(res)-1].IsText {
				res[len(res)-1] = tx(res[len(res)-1].Text + n.Text)
			} else {
				res = append(res, n)
			}
			continue
		}
		c := *n
		c.Kids = unwrapCustom(n.Kids)
		res = append(res, &c)
	}
	return res
}

// c18LibraryValues: values built by the library itself (bins of a binning and other map representations of its own) through
// the XML and the HTML exporter: well-formed, and every scalar the observers (Iterate, Iter, ToString) show, and every key Iter
// shows, is somewhere in the decoded document (as text, attribute value or element name)
func c18LibraryValues(c *Ctx) {
	fg := value.New()
	st := funcGen.NewEmptyStack[value.Value]()
	var leaves func(v value.Value, out *[]string)
	leaves = func(v value.Value, out *[]string) {
		if l, ok := v.ToList(); ok {
			for it, err := range l.Iterate(st) {
				if err != nil {
					return
				}
				leaves(it, out)
			}
			return
		}
		if m, ok := v.ToMap(); ok {
			m.Iter(func(k string, mv value.Value) bool { *out = append(*out, k); leaves(mv, out); return true })
			return
		}
		if s, err := v.ToString(st); err == nil {
			*out = append(*out, s)
		}
	}
	norm := func(t string) string { return strings.TrimSuffix(strings.TrimSpace(t), ":") }
	var collect func(ns []*XNode, have map[string]int)
	collect = func(ns []*XNode, have map[string]int) {
		for _, n := range ns {
			if n.IsText {
				have[norm(n.Text)]++
				continue
			}
			have[n.Name]++
			for _, a := range n.Attrs {
				have[a[0]]++
				have[norm(a[1])]++
			}
			collect(n.Kids, have)
		}
	}
	for _, src := range []string{
		"[0.5, 1.5, 2.5, 0 - 3].binning(0, 1, 3, x -> x, x -> 1)", "[0.5, 1.5, 2.5].binning(1, 1, 1, x -> x, x -> 1).descr", "[[0.5, 0.5], [1.5, 2.5]].binning2d(0, 1, 2, 0, 1, 3, x -> x[0], x -> x[1], x -> 1)",
		"[3, 1, 2].minMax(e -> e)", "[1, 2, 3, 4].groupByInt(e -> e % 2)", "[1, 2, 3, 4].movingWindow(e -> e)", "[1, 2, 3].multiUse({s: l -> l.sum(), m: l -> l.map(e -> e * 2)})", "{a: 1}.put(\"b\", [1, {c: 2}]).list()",
		"[1, 2, 3].number((i, e) -> {idx: i, val: e})", "{a: 1} + {b: {c: [1, 2]}}", "{a: 1, b: 2}.replace(m -> {a: 5})", "[[0.5].binning(0, 1, 2, x -> x, x -> 1), [1.5].binning(0, 1, 2, x -> x, x -> 1)].collectBinning()"} {
		f, _, err := fg.Generate(src)
		if err != nil {
			fatal("C18 library values: %q: %v", src, err)
		}
		v, err := f.Eval()
		if err != nil {
			fatal("C18 library values: %q: %v", src, err)
		}
		var want []string
		leaves(v, &want)
		for _, kind := range []string{"xml", "html"} {
			c.Case("library-value|"+kind+"|"+src, true)
			c.Count("library-value:" + kind)
			var out []byte
			var xerr error
			if kind == "xml" {
				out, xerr = exportXML(v)
			} else {
				res, _, e2, esc := safeToHtml(v, 100, true)
				out, xerr = []byte(res), e2
				if esc != nil {
					xerr = fmt.Errorf("panic: %v", esc)
				}
			}
			rp := map[string]any{"program": src, "exporter": kind, "output": truncate(string(out), 1500)}
			if xerr != nil {
				c.Violation(kind+"-library-value-error", "the exporter fails on an error-free value built by the library: "+xerr.Error(), rp)
				continue
			}
			forest, _, perr := parseForest(out)
			if perr != nil {
				c.Violation(kind+"-not-wellformed", "standard parser rejects the exported document of a value built by the library: "+perr.Error(), rp)
				continue
			}
			have := map[string]int{}
			collect(forest, have)
			need := map[string]int{}
			for _, w := range want {
				if w2 := norm(w); w2 != "" {
					need[w2]++
				}
			}
			for w, n := range need {
				if have[w] < n {
					rp["missing"] = w
					c.Violation(kind+"-library-value-incomplete", fmt.Sprintf("the observers of the value show %q %d times (keys by Iter, scalars by ToString), the exported document has it %d times", w, n, have[w]), rp)
					break
				}
			}
		}
	}
}

func truncate(s string, n int) string {
	if len(s) > n {
		return s[:n] + "…"
	}
	return s
}

func sameClasses(got []export.Class, want []string) bool {
	if len(got) != len(want) {
		return false
	}
	for i := range got {
		if string(got[i].Style) != want[i] || got[i].Name != "c"+strconv.Itoa(i) {
			return false
		}
	}
	return true
}

func hasFailingTableFormat(t *XT) bool {
	found := false
	t.walk(func(x *XT) {
		if x.Kind == 'X' && x.Sty != nil {
			for _, f := range x.Sty.TVals {
				if f.Kind == 'E' || f.Kind == 'P' {
					found = true
				}
			}
		}
	})
	return found
}

// xtTokens2: canonical text of a case for replay files and hashing (covers what Tokens cannot express)
func xtTokens2(t *XT) string {
	var b strings.Builder
	var sty func(s *XSty)
	var rec func(t *XT)
	sty = func(s *XSty) {
		if s == nil {
			b.WriteString("N")
			return
		}
		b.WriteByte(s.Kind)
		switch s.Kind {
		case 'T', 'W', 'H':
			b.WriteString(" " + strconv.Quote(s.S))
		case 'R':
			b.WriteString(" (")
			rec(s.Res)
			b.WriteString(")")
		case 'K':
			b.WriteString("{")
			for i, k := range s.Keys {
				v, ok := styValStr(s.Vals[i])
				if !ok {
					v = "<other>"
				}
				b.WriteString(strconv.Quote(k) + ":" + strconv.Quote(v) + ",")
			}
			if s.TKeys != nil {
				b.WriteString("table:{")
				for i, k := range s.TKeys {
					b.WriteString(k + ":")
					sty(s.TVals[i])
					b.WriteString(",")
				}
				b.WriteString("}")
			}
			b.WriteString("}")
		}
	}
	rec = func(t *XT) {
		switch t.Kind {
		case 'L':
			fmt.Fprintf(&b, "L%d", t.Rep)
			if t.Fail > 0 {
				fmt.Fprintf(&b, "!%d", t.Fail)
			}
			b.WriteString("[")
			for _, it := range t.Items {
				rec(it)
				b.WriteString(",")
			}
			b.WriteString("]")
		case 'M':
			fmt.Fprintf(&b, "M%d{", t.Rep)
			for i, it := range t.Items {
				b.WriteString(strconv.Quote(t.Keys[i]) + ":")
				rec(it)
				b.WriteString(",")
			}
			b.WriteString("}")
		case 'X':
			b.WriteString("Format(")
			sty(t.Sty)
			fmt.Fprintf(&b, ",cell=%v,span=%d,", t.Cell, t.Span)
			rec(t.Items[0])
			b.WriteString(")")
		case 'A':
			b.WriteString("Link(" + strconv.Quote(t.Href) + ",")
			rec(t.Items[0])
			b.WriteString(")")
		case 'B':
			fmt.Fprintf(&b, "File(%q,%q,%d bytes)", t.Name, t.Mime, len(t.Data))
		case 'f':
			fmt.Fprintf(&b, "f%x", t.F)
		case 's':
			b.WriteString(strconv.Quote(t.S))
		default:
			b.WriteString(t.str())
		}
	}
	rec(t)
	return b.String()
}
